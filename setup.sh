#!/bin/sh
# Run once after a fresh restore (offline): build the Lean project (all theorems + the driver
# executable) and pre-build the Rust harness against /repo.
set -e
cd "$(dirname "$0")"
mkdir -p work evidence replays
( cd lean && lake build )
sed "s#@REPO@#/repo#" harness/Cargo.toml.in > harness/Cargo.toml
cp /repo/Cargo.lock harness/Cargo.lock
( cd harness && CARGO_NET_OFFLINE=true cargo build --offline )
