//! C10: FIIN tables (`FileInfo::new` / `write_to_buffer` / `from_existing`, SHA-1 digests) and
//! patch lists (`PatchList::to_string` / `from_string`).  Case grammar: see `Driver/C10.lean`.
#![allow(unused)]
use crate::util::*;
use physis::fiin::{FIINEntry, FileInfo};
use physis::patchlist::{PatchEntry, PatchList, PatchListType};
use std::io::Write;

// ------------------------------------------------------------------------------------------
// generator
// ------------------------------------------------------------------------------------------

/// message lengths around every SHA-1 padding boundary of block `k`
fn boundary_lengths(k: usize) -> Vec<usize> {
    [0usize, 1, 54, 55, 56, 57, 62, 63, 64, 65]
        .iter()
        .map(|r| k * 64 + r)
        .collect()
}

fn content(rng: &mut Rng, n: usize) -> Vec<u8> {
    match rng.below(8) {
        0 => vec![0u8; n],
        1 => vec![0xffu8; n],
        2 => vec![0x80u8; n],
        _ => rng.bytes(n),
    }
}

/// a valid UTF-8 string of at most `max` bytes without the listed ASCII bytes
fn text(rng: &mut Rng, max: usize, forbid: &[u8], allow_nul_inside: bool) -> Vec<u8> {
    let target = match rng.below(10) {
        0 => 0,
        1 => max,
        2 => max.saturating_sub(1),
        _ => rng.range(1, max.max(1) as u64) as usize,
    }
    .min(max);
    let mut v: Vec<u8> = Vec::new();
    while v.len() < target {
        let ch: Vec<u8> = match rng.below(12) {
            0 => "é".as_bytes().to_vec(),
            1 => "ファ".as_bytes().to_vec(),
            2 => "𝄞".as_bytes().to_vec(),
            3 => vec![b' '],
            4 => vec![*rng.pick(b"._-:/?&=%+~#@!$'()*;[]")],
            5 if allow_nul_inside && !v.is_empty() => vec![0],
            _ => vec![*rng.pick(b"abcdefghijklmnopqrstuvwxyzABCDEFGHIJKLMNOPQRSTUVWXYZ0123456789")],
        };
        if ch.iter().any(|b| forbid.contains(b)) || v.len() + ch.len() > target {
            if v.len() + 1 <= target {
                v.push(b'x');
            }
            continue;
        }
        v.extend_from_slice(&ch);
    }
    // never end (or start) with NUL
    while v.last() == Some(&0) {
        v.pop();
    }
    v
}

fn file_name(rng: &mut Rng, idx: usize) -> Vec<u8> {
    // distinct per index, up to 63 bytes, no '/', no NUL, never "." or ".."
    let mut v = format!("{}", idx).into_bytes();
    let rest = text(rng, 63 - v.len(), b"/\0", false);
    v.extend_from_slice(&rest);
    v
}

pub(crate) fn files_field(rng: &mut Rng, nfiles: usize, max_len: usize) -> String {
    if nfiles == 0 {
        return "-".into();
    }
    let mut parts: Vec<String> = vec![];
    for i in 0..nfiles {
        let mut path = vec![];
        match rng.below(4) {
            0 => path.extend_from_slice(b"sub/"),
            1 => path.extend_from_slice(b"a/b.c/"),
            _ => {}
        }
        // now and then the same base name as an earlier file, in another directory, with its own
        // content (every entry's digest is the digest of ITS file)
        if i > 0 && rng.chance(1, 4) {
            let prev: &String = &parts[rng.below(parts.len() as u64) as usize];
            let prev_path = unhex(prev.split(':').next().unwrap()).unwrap();
            let base = prev_path.rsplit(|b| *b == b'/').next().unwrap().to_vec();
            path = format!("dup{}/", i).into_bytes();
            path.extend_from_slice(&base);
        } else {
            path.extend_from_slice(&file_name(rng, i));
        }
        let mut n = match rng.below(6) {
            0 => 0,
            1 => *rng.pick(&boundary_lengths(rng.clone().below(4) as usize)),
            2 => rng.range(0, 300) as usize,
            _ => rng.range(0, max_len as u64) as usize,
        };
        if i > 0 && rng.chance(1, 3) {
            // the same LENGTH as an earlier file (with the same base name now and then): name and
            // size do not identify a content
            let prev: &String = &parts[rng.below(parts.len() as u64) as usize];
            n = prev.split(':').nth(1).map(|c| if c == "-" { 0 } else { c.len() / 2 }).unwrap_or(n);
        }
        let c = content(rng, n);
        parts.push(format!("{}:{}", hex(&path), hex(&c)));
    }
    parts.join(";")
}

fn i32_edge(rng: &mut Rng) -> i32 {
    match rng.below(8) {
        0 => 0,
        1 => 1,
        2 => -1,
        3 => i32::MAX,
        4 => i32::MIN,
        5 => rng.below(100000) as i32,
        _ => rng.next() as i32,
    }
}

fn entries_field(rng: &mut Rng, n: usize) -> String {
    if n == 0 {
        return "-".into();
    }
    let mut parts = vec![];
    for _ in 0..n {
        let name = {
            let mut t = text(rng, 64, b"", true);
            while t.first() == Some(&0) {
                t.remove(0);
            }
            t
        };
        let dl = match rng.below(8) {
            0 => 0,
            1 => 24,
            2 => rng.range(0, 24) as usize,
            _ => 20,
        };
        let d = rng.bytes(dl);
        parts.push(format!("{}:{}:{}", i32_edge(rng), hex(&name), hex(&d)));
    }
    parts.join(",")
}

/// a table with many entries: short distinct names, 20-byte digests (now and then shorter / 24
/// bytes), so that the case line stays moderate (~60 characters per entry)
fn big_entries_field(rng: &mut Rng, n: usize) -> String {
    let mut parts = Vec::with_capacity(n);
    for i in 0..n {
        let mut name = format!("{}", i).into_bytes();
        if rng.chance(1, 8) {
            name.extend_from_slice(&text(rng, 6, b"\0", false));
        }
        let dl = match rng.below(16) {
            0 => 24,
            1 => rng.range(0, 19) as usize,
            _ => 20,
        };
        parts.push(format!("{}:{}:{}", i32_edge(rng), hex(&name), hex(&rng.bytes(dl))));
    }
    parts.join(",")
}

/// entry counts whose table size `96 n` lies on either side of 2^15 / 2^16 (the header stores the
/// size as an i32; 341 * 96 = 32736, 342 * 96 = 32832, 682 * 96 = 65472, 683 * 96 = 65568), and
/// one well beyond (size mod 2^16 and size >> 16 both non-trivial)
fn big_table_counts(rng: &mut Rng, thorough: bool) -> Vec<usize> {
    let mut v = vec![341usize, 342, 682, 683, 684, rng.range(1366, 1700) as usize];
    if thorough {
        v.extend_from_slice(&[1365, 1366, 2730, 2731, rng.range(2732, 3500) as usize]); // 2^17, 2^18
    }
    v
}

fn i64_any(rng: &mut Rng) -> i64 {
    match rng.below(8) {
        0 => 0,
        1 => i64::MAX,
        2 => i64::MIN,
        3 => -1,
        4 => rng.below(100_000_000) as i64,
        _ => rng.next() as i64,
    }
}

fn len63(rng: &mut Rng) -> i64 {
    match rng.below(8) {
        0 => 0,
        1 => 1,
        2 => i64::MAX,
        3 => rng.below(10) as i64,
        4 | 5 => rng.below(4_000_000_000) as i64,
        _ => (rng.next() >> 1) as i64,
    }
}

fn hash_str(rng: &mut Rng) -> Vec<u8> {
    match rng.below(10) {
        0 => text(rng, 12, b"\t\r\n,", false),
        1 => vec![],
        _ => hex(&rng.bytes(20)).into_bytes(),
    }
}

fn patchlist_fields(rng: &mut Rng, game: bool, npatches: usize) -> String {
    let id = match rng.below(4) {
        0 => b"477D80B1_38BC_41d4_8B48_5273ADB89CAC".to_vec(),
        1 => b"X-Patch-Length".to_vec(),
        _ => text(rng, 40, b"\t\r\n", false),
    };
    let cl = match rng.below(3) {
        0 => b"ffxivpatch/4e9a232b/metainfo/2023.07.26.0000.0000.http".to_vec(),
        _ => text(rng, 60, b"\t\r\n", false),
    };
    let rv = text(rng, 20, b"\t\r\n", false);
    let mut lens: Vec<i64> = (0..npatches).map(|_| len63(rng)).collect();
    // the total must be an i64 (what X-Patch-Length can carry)
    while lens.iter().try_fold(0i64, |a, b| a.checked_add(*b)).is_none() {
        for l in lens.iter_mut() {
            *l /= 2;
        }
    }
    let mut ps = vec![];
    for l in lens {
        let version = match rng.below(3) {
            0 => b"2023.09.15.0000.0000".to_vec(),
            _ => text(rng, 24, b"\t\r\n", false),
        };
        let url = match rng.below(3) {
            0 => b"http://patch-dl.ffxiv.com/game/4e9a232b/D2023.09.15.0000.0000.patch".to_vec(),
            _ => text(rng, 80, b"\t\r\n", false),
        };
        let nh = if game {
            match rng.below(6) {
                0 => 1,
                1 => 30,
                _ => rng.range(1, 5),
            }
        } else {
            // boot rows carry no hashes; whatever the entry holds must not matter
            if rng.chance(1, 4) { rng.range(1, 3) } else { 0 }
        };
        let hashes: Vec<String> = (0..nh).map(|_| hex(&hash_str(rng))).collect();
        let hs = if hashes.is_empty() { "_".to_string() } else { hashes.join("+") };
        let (size, hbs) = (i64_any(rng), if game || rng.chance(1, 4) { i64_any(rng) } else { 0 });
        ps.push(format!(
            "{},{},{},{},{},{},{},{}",
            l,
            size,
            i32_edge(rng),
            i32_edge(rng),
            hbs,
            hex(&version),
            hex(&url),
            hs
        ));
    }
    let declared = match rng.below(3) {
        0 => 0,
        1 => rng.next(),
        _ => rng.below(1 << 40),
    };
    format!(
        "{} {} {} {} {} {}",
        if game { "game" } else { "boot" },
        hex(&id),
        hex(&cl),
        hex(&rv),
        declared,
        if ps.is_empty() { "-".to_string() } else { ps.join(";") }
    )
}

/// `sha1 <hex>` cases shared with C12: every length 0..=300, every padding boundary of the
/// first blocks and of some far block, random lengths
pub fn sha1_cases(rng: &mut Rng, thorough: bool, out: &mut dyn Write) {
    for n in 0..=300usize {
        writeln!(out, "sha1 {}", hex(&rng.bytes(n))).unwrap();
    }
    for k in [5usize, 6, 15, 16, 17, 63, 64, 100, 1023, 1024] {
        for n in boundary_lengths(k) {
            writeln!(out, "sha1 {}", hex(&content(rng, n))).unwrap();
        }
    }
    let (cnt, max) = if thorough { (200, 1usize << 20) } else { (40, 1usize << 18) };
    for _ in 0..cnt {
        let n = match rng.below(4) {
            0 => rng.range(301, 5000) as usize,
            1 => (rng.range(5, (max / 64) as u64) as usize) * 64 + *rng.pick(&[0usize, 55, 56, 63, 119 % 64, 120 % 64]),
            _ => rng.range(301, max as u64) as usize,
        };
        writeln!(out, "sha1 {}", hex(&content(rng, n))).unwrap();
    }
    // bit length crossing 2^24 (the fourth-lowest trailer byte becomes non-zero at 2 MiB): on every run
    for n in [(2usize << 20) - 1, 2 << 20, (2 << 20) + 57, 4718592 + 13] {
        writeln!(out, "sha1 {}", hex(&rng.bytes(n))).unwrap();
    }
    if thorough {
        for n in [(4usize << 20) + 55, (8 << 20) + 56, (3 << 20) + 64] {
            writeln!(out, "sha1 {}", hex(&content(rng, n))).unwrap();
        }
    }
}

pub fn generate(thorough: bool, seed: u64, out: &mut dyn Write) {
    let mut rng = Rng::new(seed, "C10");
    sha1_cases(&mut rng, thorough, out);
    // file sets through FileInfo::new
    writeln!(out, "new -").unwrap();
    writeln!(out, "newwrite -").unwrap();
    let n = if thorough { 2000 } else { 150 };
    for i in 0..n {
        let nf = match rng.below(6) {
            0 => 1,
            1 => 2,
            _ => rng.range(1, 6),
        } as usize;
        let f = files_field(&mut rng, nf, if i % 10 == 0 { 20000 } else { 700 });
        writeln!(out, "{} {}", if i % 3 == 2 { "newwrite" } else { "new" }, f).unwrap();
    }
    // tables as values
    for op in ["write", "parse", "rt"] {
        writeln!(out, "{} -", op).unwrap();
    }
    let n = if thorough { 30_000 } else { 1500 };
    for i in 0..n {
        let ne = match rng.below(8) {
            0 => 1,
            1 => 2,
            2 => rng.range(8, 40),
            _ => rng.range(1, 7),
        } as usize;
        let op = ["write", "parse", "rt"][i % 3];
        writeln!(out, "{} {}", op, entries_field(&mut rng, ne)).unwrap();
    }
    // large tables: entry area at and beyond 2^15 / 2^16 bytes
    for n in big_table_counts(&mut rng, thorough) {
        for op in ["write", "parse", "rt"] {
            writeln!(out, "{} {}", op, big_entries_field(&mut rng, n)).unwrap();
        }
    }
    // patch lists
    let n = if thorough { 90_000 } else { 2400 };
    for i in 0..n {
        let game = rng.chance(1, 2);
        let np = match rng.below(8) {
            0 => 0,
            1 => 1,
            2 => rng.range(7, 20),
            _ => rng.range(1, 6),
        } as usize;
        let op = ["plwrite", "plparse", "plrt"][i % 3];
        writeln!(out, "{} {}", op, patchlist_fields(&mut rng, game, np)).unwrap();
    }

    // ---- mutated encodings (`mut <seed> <k> <case>`, Base/Mutate.lean): 1..3 damaged bytes in an
    // encoded FIIN table / patch-list text; the model of the code and the code must still agree.
    // Own stream.
    let mut mrng = Rng::new(seed, "C10-mut");
    let n = if thorough { 40_000 } else { 400 };
    for i in 0..n {
        let k = 1 + mrng.below(3);
        let mseed = mrng.next() >> 1;
        let line = if i % 2 == 0 {
            let ne = match mrng.below(8) {
                0 => 1,
                1 => 2,
                2 => mrng.range(8, 20),
                _ => mrng.range(1, 5),
            } as usize;
            format!("parse {}", entries_field(&mut mrng, ne))
        } else {
            let game = mrng.chance(1, 2);
            let np = match mrng.below(8) {
                0 => 0,
                1 => 1,
                2 => mrng.range(5, 10),
                _ => mrng.range(1, 4),
            } as usize;
            format!("plparse {}", patchlist_fields(&mut mrng, game, np))
        };
        writeln!(out, "mut {} {} {}", mseed, k, line).unwrap();
    }
}

// ------------------------------------------------------------------------------------------
// runner
// ------------------------------------------------------------------------------------------

fn show_entries(es: &[FIINEntry]) -> String {
    if es.is_empty() {
        return "-".into();
    }
    es.iter()
        .map(|e| format!("{}:{}:{}", e.file_size, hex(e.file_name.as_bytes()), hex(&e.sha1)))
        .collect::<Vec<_>>()
        .join(",")
}

fn parse_entries(s: &str) -> Option<Vec<FIINEntry>> {
    if s == "-" {
        return Some(vec![]);
    }
    let mut v = vec![];
    for e in s.split(',') {
        let f: Vec<&str> = e.split(':').collect();
        if f.len() != 3 {
            return None;
        }
        v.push(FIINEntry {
            file_size: f[0].parse().ok()?,
            file_name: String::from_utf8(unhex(f[1])?).ok()?,
            sha1: unhex(f[2])?,
        });
    }
    Some(v)
}

/// writes the files of a `new` case into a scratch directory and calls `FileInfo::new`
fn with_files<R>(field: &str, f: impl FnOnce(&[&str]) -> R) -> Option<R> {
    let dir = TempDir::new("c10");
    let mut paths: Vec<String> = vec![];
    if field != "-" {
        for part in field.split(';') {
            let (p, c) = part.split_once(':')?;
            let rel = String::from_utf8(unhex(p)?).ok()?;
            let content = unhex(c)?;
            let full = dir.path().join(&rel);
            if let Some(parent) = full.parent() {
                std::fs::create_dir_all(parent).ok()?;
            }
            // every fourth path (by a hash of the relative name) is a symbolic link — absolute or
            // relative — to the file that holds the content: what is listed is the content a read of
            // the path returns, not what the link itself measures
            let hsh = rel.bytes().fold(0xcbf29ce484222325u64, |h, b| (h ^ b as u64).wrapping_mul(0x100000001b3));
            #[cfg(unix)]
            if hsh % 4 == 0 {
                let store = dir.path().join(format!(".store{}", paths.len()));
                std::fs::write(&store, &content).ok()?;
                let target = if hsh % 8 == 0 {
                    store.clone()
                } else {
                    // relative to the link's directory
                    let depth = rel.matches('/').count();
                    let mut t = std::path::PathBuf::new();
                    for _ in 0..depth {
                        t.push("..");
                    }
                    t.push(store.file_name()?);
                    t
                };
                std::os::unix::fs::symlink(&target, &full).ok()?;
                paths.push(full.to_str()?.to_string());
                continue;
            }
            std::fs::write(&full, &content).ok()?;
            paths.push(full.to_str()?.to_string());
        }
    }
    let refs: Vec<&str> = paths.iter().map(|s| s.as_str()).collect();
    Some(f(&refs))
}

fn parse_patches(s: &str) -> Option<Vec<PatchEntry>> {
    if s == "-" {
        return Some(vec![]);
    }
    let mut v = vec![];
    for p in s.split(';') {
        let f: Vec<&str> = p.split(',').collect();
        if f.len() != 8 {
            return None;
        }
        let hashes = if f[7] == "_" {
            vec![]
        } else {
            let mut hs = vec![];
            for h in f[7].split('+') {
                hs.push(String::from_utf8(unhex(h)?).ok()?);
            }
            hs
        };
        v.push(PatchEntry {
            length: f[0].parse().ok()?,
            size_on_disk: f[1].parse().ok()?,
            unknown_a: f[2].parse().ok()?,
            unknown_b: f[3].parse().ok()?,
            hash_block_size: f[4].parse().ok()?,
            version: String::from_utf8(unhex(f[5])?).ok()?,
            url: String::from_utf8(unhex(f[6])?).ok()?,
            hashes,
        });
    }
    Some(v)
}

fn show_patchlist(pl: &PatchList) -> String {
    let ps: Vec<String> = pl
        .patches
        .iter()
        .map(|p| {
            let hs = if p.hashes.is_empty() {
                "_".to_string()
            } else {
                p.hashes.iter().map(|h| hex(h.as_bytes())).collect::<Vec<_>>().join("+")
            };
            format!(
                "{},{},{},{},{},{},{},{}",
                p.length,
                p.size_on_disk,
                p.unknown_a,
                p.unknown_b,
                p.hash_block_size,
                hex(p.version.as_bytes()),
                hex(p.url.as_bytes()),
                hs
            )
        })
        .collect();
    format!(
        "len={} id={} cl={} rv={} p={}",
        pl.patch_length,
        hex(pl.id.as_bytes()),
        hex(pl.content_location.as_bytes()),
        hex(pl.requested_version.as_bytes()),
        if ps.is_empty() { "-".to_string() } else { ps.join(";") }
    )
}

fn kind(s: &str) -> Option<PatchListType> {
    match s {
        "boot" => Some(PatchListType::Boot),
        "game" => Some(PatchListType::Game),
        _ => None,
    }
}

fn build_pl(f: &[&str]) -> Option<PatchList> {
    Some(PatchList {
        id: String::from_utf8(unhex(f[2])?).ok()?,
        content_location: String::from_utf8(unhex(f[3])?).ok()?,
        requested_version: String::from_utf8(unhex(f[4])?).ok()?,
        patch_length: f[5].parse().ok()?,
        patches: parse_patches(f[6])?,
    })
}

/// digest of a byte string through the public API: `FileInfo::new` on one scratch file
pub fn sha1_via_fileinfo(data: &[u8]) -> String {
    let dir = TempDir::new("sha1");
    let p = dir.path().join("f");
    if std::fs::write(&p, data).is_err() {
        return "bad-case".into();
    }
    let ps = p.to_str().unwrap().to_string();
    guarded(move || match FileInfo::new(&[ps.as_str()]) {
        Some(fi) if fi.entries.len() == 1 => hex(&fi.entries[0].sha1),
        Some(_) => "err".into(),
        None => "none".into(),
    })
}

pub fn run(case: &str, input: &str) -> String {
    let f: Vec<&str> = input.split(' ').collect();
    let bad = || "bad-case".to_string();
    match (f[0], f.len()) {
        ("sha1", 2) => match unhex(f[1]) {
            Some(d) => sha1_via_fileinfo(&d),
            None => bad(),
        },
        ("new", 2) | ("newwrite", 2) => {
            let write = f[0] == "newwrite";
            with_files(f[1], |paths| {
                let owned: Vec<String> = paths.iter().map(|s| s.to_string()).collect();
                guarded(move || {
                    let refs: Vec<&str> = owned.iter().map(|s| s.as_str()).collect();
                    match FileInfo::new(&refs) {
                        None => "none".into(),
                        Some(fi) => {
                            if write {
                                match fi.write_to_buffer() {
                                    Some(b) => hex(&b),
                                    None => "none".into(),
                                }
                            } else {
                                show_entries(&fi.entries)
                            }
                        }
                    }
                })
            })
            .unwrap_or_else(bad)
        }
        ("write", 2) => match parse_entries(f[1]) {
            Some(entries) => guarded(move || match (FileInfo { entries }).write_to_buffer() {
                Some(b) => hex(&b),
                None => "none".into(),
            }),
            None => bad(),
        },
        ("parse", 2) => match unhex(f[1]) {
            Some(b) => guarded(move || match FileInfo::from_existing(&b) {
                Some(fi) => show_entries(&fi.entries),
                None => "none".into(),
            }),
            None => bad(),
        },
        ("rt", 2) => match parse_entries(f[1]) {
            Some(entries) => guarded(move || {
                let Some(b) = (FileInfo { entries }).write_to_buffer() else { return "none".into() };
                match FileInfo::from_existing(&b) {
                    Some(fi) => show_entries(&fi.entries),
                    None => "none".into(),
                }
            }),
            None => bad(),
        },
        ("plwrite", 7) | ("plrt", 7) => {
            let (Some(k), Some(pl)) = (kind(f[1]), build_pl(&f)) else { return bad() };
            let rt = f[0] == "plrt";
            let k2 = kind(f[1]).unwrap();
            guarded(move || {
                let text = pl.to_string(k);
                if rt {
                    show_patchlist(&PatchList::from_string(k2, &text))
                } else {
                    hex(text.as_bytes())
                }
            })
        }
        ("plparse", 3) => {
            let (Some(k), Some(b)) = (kind(f[1]), unhex(f[2])) else { return bad() };
            // a damaged text (family `mut`) whose bytes are no `&str` cannot be handed to from_string
            let Ok(text) = String::from_utf8(b) else { return "not-utf8".into() };
            guarded(move || show_patchlist(&PatchList::from_string(k, &text)))
        }
        _ => bad(),
    }
}

pub fn dump(out: &mut dyn Write) {}
