//! C02: extraction from a SqPack dat file returns the packed bytes.
//!
//! `gen` writes abstract entries (content split into blocks, each stored raw or as a raw-deflate
//! stream produced here with zlib's own `deflate`); the Lean driver packs them with
//! `Spec/SqPackData` into a dat file (hex in `input`); `run` writes that file to a scratch
//! directory and calls `SqPackData::read_from_offset`.
#![allow(unused)]
use crate::util::*;
use libz_rs_sys::*;
use physis::sqpack::SqPackData;
use std::io::Write;

/// raw deflate (window bits -15) with the given level / strategy
fn deflate_raw(data: &[u8], level: i32, strategy: i32) -> Vec<u8> {
    unsafe {
        let mut strm: z_stream = std::mem::zeroed();
        let ret = deflateInit2_(
            &mut strm,
            level,
            Z_DEFLATED,
            -15,
            8,
            strategy,
            zlibVersion(),
            core::mem::size_of::<z_stream>() as i32,
        );
        assert_eq!(ret, Z_OK);
        let mut out = vec![0u8; data.len() + data.len() / 8 + 256];
        strm.next_in = data.as_ptr() as *mut u8;
        strm.avail_in = data.len() as u32;
        strm.next_out = out.as_mut_ptr();
        strm.avail_out = out.len() as u32;
        let ret = deflate(&mut strm, Z_FINISH);
        assert_eq!(ret, Z_STREAM_END);
        out.truncate(strm.total_out as usize);
        deflateEnd(&mut strm);
        out
    }
}

/// content of `n` bytes: incompressible, repetitive, text-like or constant
fn content(rng: &mut Rng, n: usize) -> Vec<u8> {
    match rng.below(5) {
        0 => rng.bytes(n),
        1 => vec![rng.below(256) as u8; n],
        2 => {
            let pat_len = rng.range(1, 40) as usize;
            let pat = rng.bytes(pat_len);
            (0..n).map(|i| pat[i % pat.len()]).collect()
        }
        3 => (0..n).map(|_| b"etaoin shrdlu\n"[rng.below(14) as usize]).collect(),
        _ => {
            let mut v = rng.bytes(n);
            for i in 0..n {
                if i % 7 < 4 {
                    v[i] = 0;
                }
            }
            v
        }
    }
}

fn block_str(rng: &mut Rng, data: &[u8]) -> String {
    // raw, or deflated as a stored / fixed-Huffman / dynamic-Huffman stream
    let mode = if data.is_empty() { 0 } else { rng.below(5) };
    let c = match mode {
        0 => return format!("r{}", hex(data)),
        1 => deflate_raw(data, 0, Z_DEFAULT_STRATEGY),
        2 => deflate_raw(data, 6, Z_FIXED),
        3 => deflate_raw(data, 9, Z_DEFAULT_STRATEGY),
        _ => deflate_raw(data, 1, Z_DEFAULT_STRATEGY),
    };
    if c.len() >= 32000 {
        return format!("r{}", hex(data));
    }
    format!("d{}/{}", hex(data), hex(&c))
}

/// split `total` bytes into blocks of 1..=max bytes
fn split(rng: &mut Rng, total: usize, max_blocks: usize) -> Vec<usize> {
    let mut sizes = vec![];
    let mut left = total;
    while left > 0 {
        let cap = 16000.min(left);
        let mut s = match rng.below(6) {
            0 => 1,
            1 => cap,
            2 => rng.range(1, 16.min(cap as u64)) as usize,
            _ => rng.range(1, cap as u64) as usize,
        };
        if sizes.len() + 1 >= max_blocks {
            s = cap;
        }
        sizes.push(s);
        left -= s;
    }
    sizes
}

fn blocks_of(rng: &mut Rng, total: usize, max_blocks: usize) -> String {
    let data = content(rng, total);
    let mut pos = 0;
    let mut v = vec![];
    for s in split(rng, total, max_blocks) {
        v.push(block_str(rng, &data[pos..pos + s]));
        pos += s;
    }
    if v.is_empty() { "-".into() } else { v.join(";") }
}

fn total_len(rng: &mut Rng, big: usize) -> usize {
    (match rng.below(10) {
        0 => rng.below(4),
        1 => rng.range(1, 130),
        2 => *rng.pick(&[111u64, 112, 113, 127, 128, 129, 15999, 16000, 16001, 32000]),
        3..=6 => rng.range(100, 5000),
        7 | 8 => rng.range(5000, 40000),
        _ => rng.range(40000.min(big as u64 / 2), big as u64),
    }) as usize
}

fn place(rng: &mut Rng) -> (u64, u64) {
    let units = match rng.below(4) {
        0 => 0,
        1 => rng.range(1, 4),
        _ => rng.range(1, 300),
    };
    let suffix = match rng.below(3) {
        0 => 0,
        1 => rng.range(1, 8),
        _ => rng.range(8, 600),
    };
    (units, suffix)
}

pub fn generate(thorough: bool, seed: u64, out: &mut dyn Write) {
    let mut rng = Rng::new(seed, "C02");
    let big = if thorough { 1 << 20 } else { 1 << 16 };
    // single-block sweep: every length 0..=40 raw, 1..=40 in each deflate mode, at the file end
    for n in 0..=40usize {
        let d = content(&mut rng, n);
        writeln!(out, "std {} 0 r{}", n % 3, hex(&d)).unwrap();
        if n > 0 {
            for (lvl, st) in [(0, Z_DEFAULT_STRATEGY), (6, Z_FIXED), (9, Z_DEFAULT_STRATEGY)] {
                let c = deflate_raw(&d, lvl, st);
                writeln!(out, "std 1 {} d{}/{}", n % 2, hex(&d), hex(&c)).unwrap();
            }
        }
    }
    writeln!(out, "std 0 0 -").unwrap();
    let n = if thorough { 12000 } else { 180 };
    for i in 0..n {
        let (units, suffix) = place(&mut rng);
        match i % 3 {
            0 => {
                let total = total_len(&mut rng, big);
                let max_blocks = if total > 100000 { 200 } else { 40 };
                let b = blocks_of(&mut rng, total, max_blocks);
                writeln!(out, "std {} {} {}", units, suffix, b).unwrap();
            }
            1 => {
                let hdr_len = match rng.below(4) {
                    0 => 80,
                    1 => 0,
                    _ => rng.range(1, 200),
                } as usize;
                let hdr = rng.bytes(hdr_len);
                let n_mips = rng.range(1, 13) as usize;
                let mut mips = vec![];
                let mut size = total_len(&mut rng, big / 2).max(1);
                for m in 0..n_mips {
                    if m > 0 && rng.chance(1, 12) {
                        mips.push("-".to_string());
                        continue;
                    }
                    mips.push(blocks_of(&mut rng, size.max(1), 6));
                    size = (size / 4).max(1);
                }
                writeln!(out, "tex {} {} {} {}", units, suffix, hex(&hdr), mips.join("|")).unwrap();
            }
            _ => {
                let lods = rng.range(1, 3);
                let mut secs = vec![];
                let with_edge = rng.chance(1, 3);
                for s in 0..11usize {
                    // stack runtime v0 e0 i0 v1 e1 i1 v2 e2 i2
                    let lod = if s < 2 { 0 } else { (s - 2) / 3 };
                    let is_edge = s >= 2 && (s - 2) % 3 == 1;
                    let present = if is_edge {
                        with_edge && (lod as u64) < lods && rng.chance(2, 3)
                    } else {
                        s < 2 && rng.chance(9, 10) || s >= 2 && (lod as u64) < lods && rng.chance(5, 6) || rng.chance(1, 10)
                    };
                    if !present {
                        secs.push("-".to_string());
                        continue;
                    }
                    let nb = rng.range(1, 4) as usize;
                    let total = match rng.below(4) {
                        0 => rng.range(nb as u64, 64),
                        1 => rng.range(64, 4000),
                        _ => rng.range(nb as u64, (big / 16) as u64),
                    } as usize;
                    secs.push(blocks_of(&mut rng, total.max(nb), nb));
                }
                writeln!(
                    out,
                    "mdl {} {} {},{},{},{},{},{} {}",
                    units,
                    suffix,
                    rng.u32_edge(),
                    rng.below(65536),
                    rng.below(65536),
                    lods,
                    rng.below(2),
                    rng.below(2),
                    secs.join("|")
                )
                .unwrap();
            }
        }
    }
    // the inflater the model's `inflate` parameter is instantiated with is itself checked against
    // zlib on every run: streams from zlib's deflate (all levels / strategies) and corrupted ones
    crate::xinf::generate_n(if thorough { 1500 } else { 120 }, thorough, seed, out);
}

pub fn run(case: &str, input: &str) -> String {
    if case.starts_with("inflate ") || case.starts_with("garbage ") {
        // validation of the executable inflate model (Model/Inflate.lean) against zlib
        return crate::xinf::run(case, input);
    }
    let f: Vec<&str> = input.split(' ').collect();
    if f.len() != 2 {
        return "bad-case".into();
    }
    let Ok(offset) = f[0].parse::<u64>() else { return "bad-case".into() };
    let Some(file) = unhex(f[1]) else { return "bad-case".into() };
    let tmp = TempDir::new("c02");
    let path = tmp.path().join("000000.win32.dat0");
    std::fs::write(&path, &file).unwrap();
    let p = path.to_str().unwrap().to_string();
    guarded(move || {
        let Some(mut dat) = SqPackData::from_existing(&p) else { return "nofile".into() };
        match dat.read_from_offset(offset) {
            Some(d) => hex(&d),
            None => "none".into(),
        }
    })
}

pub fn dump(out: &mut dyn Write) {}
