//! C02: extraction from a SqPack dat file returns the packed bytes.
//!
//! `gen` writes abstract entries (content split into blocks, each stored raw or as a raw-deflate
//! stream produced here with zlib's own `deflate`); the Lean driver packs them with
//! `Spec/SqPackData` into a dat file (hex in `input`); `run` writes that file to a scratch
//! directory and calls `SqPackData::read_from_offset`.
//!
//! `xarch` cases are the end-to-end form of the property ("entries at any 128-aligned offset in
//! dat0..dat7", observed at `GameData::extract`): abstract installations whose entries (standard /
//! texture / model) sit in dat files 0..7 — different entries at the same offset of different dat
//! files — behind index / index2 files; the Lean driver encodes every file (`Spec/Archive` index
//! encoders, `Spec/SqPackData` entry encoders) and C01's runner materialises and queries them.
#![allow(unused)]
use crate::util::*;
use libz_rs_sys::*;
use physis::sqpack::SqPackData;
use std::io::Write;

/// raw deflate (window bits -15) with the given level / strategy
fn deflate_raw(data: &[u8], level: i32, strategy: i32) -> Vec<u8> {
    unsafe {
        let mut strm: z_stream = std::mem::zeroed();
        let ret = deflateInit2_(
            &mut strm,
            level,
            Z_DEFLATED,
            -15,
            8,
            strategy,
            zlibVersion(),
            core::mem::size_of::<z_stream>() as i32,
        );
        assert_eq!(ret, Z_OK);
        let mut out = vec![0u8; data.len() + data.len() / 8 + 256];
        strm.next_in = data.as_ptr() as *mut u8;
        strm.avail_in = data.len() as u32;
        strm.next_out = out.as_mut_ptr();
        strm.avail_out = out.len() as u32;
        let ret = deflate(&mut strm, Z_FINISH);
        assert_eq!(ret, Z_STREAM_END);
        out.truncate(strm.total_out as usize);
        deflateEnd(&mut strm);
        out
    }
}

/// content of `n` bytes: incompressible, repetitive, text-like or constant
fn content(rng: &mut Rng, n: usize) -> Vec<u8> {
    match rng.below(5) {
        0 => rng.bytes(n),
        1 => vec![rng.below(256) as u8; n],
        2 => {
            let pat_len = rng.range(1, 40) as usize;
            let pat = rng.bytes(pat_len);
            (0..n).map(|i| pat[i % pat.len()]).collect()
        }
        3 => (0..n).map(|_| b"etaoin shrdlu\n"[rng.below(14) as usize]).collect(),
        _ => {
            let mut v = rng.bytes(n);
            for i in 0..n {
                if i % 7 < 4 {
                    v[i] = 0;
                }
            }
            v
        }
    }
}

/// LSB-first bit writer for hand-made deflate streams (Huffman codes go in MSB first)
struct BitW {
    out: Vec<u8>,
    acc: u32,
    n: u32,
}
impl BitW {
    fn bits(&mut self, v: u32, k: u32) {
        for i in 0..k {
            self.acc |= ((v >> i) & 1) << self.n;
            self.n += 1;
            if self.n == 8 {
                self.out.push(self.acc as u8);
                self.acc = 0;
                self.n = 0;
            }
        }
    }
    fn code(&mut self, code: u32, k: u32) {
        for i in (0..k).rev() {
            self.bits((code >> i) & 1, 1);
        }
    }
    fn finish(mut self) -> Vec<u8> {
        if self.n > 0 {
            self.out.push(self.acc as u8);
        }
        self.out
    }
}

/// A legal deflate stream made of SEVERAL deflate blocks: stored, non-final blocks for
/// `data[..len-tail]` cut at `cut`, then one final fixed-Huffman block that encodes the tail
/// (a literal followed by a length-`tail-1` distance-1 match; the tail must be one repeated byte,
/// 4..=11 bytes).  With `tail == 4` the final block takes exactly 4 bytes, so a single stored part
/// gives `compressed length == content length + 5` — the signature of a one-block stored stream.
fn multi_block_stream(data: &[u8], tail: usize, cut: usize) -> Option<Vec<u8>> {
    if data.len() < tail || !(4..=11).contains(&tail) {
        return None;
    }
    let (head, t) = data.split_at(data.len() - tail);
    if t.iter().any(|b| *b != t[0]) || t[0] >= 144 {
        return None;
    }
    let mut out = vec![];
    let mut parts: Vec<&[u8]> = if cut > 0 && cut < head.len() { vec![&head[..cut], &head[cut..]] } else { vec![head] };
    if head.is_empty() {
        parts = vec![head];
    }
    for p in parts {
        if p.len() > 65535 {
            return None;
        }
        out.push(0x00); // BFINAL = 0, BTYPE = 00, rest of the byte is padding
        out.extend_from_slice(&(p.len() as u16).to_le_bytes());
        out.extend_from_slice(&(!(p.len() as u16)).to_le_bytes());
        out.extend_from_slice(p);
    }
    let mut w = BitW { out: vec![], acc: 0, n: 0 };
    w.bits(1, 1); // BFINAL
    w.bits(1, 2); // BTYPE = 01 fixed Huffman
    w.code(0x30 + t[0] as u32, 8); // literal < 144: 8-bit code 00110000 + value
    let len = tail - 1; // 3..=10: length symbols 257..=264, 7-bit codes 0000001..=0001000, no extra bits
    w.code((len - 2) as u32, 7);
    w.code(0, 5); // distance code 0 = distance 1
    w.code(0, 7); // end of block (symbol 256)
    out.extend(w.finish());
    Some(out)
}

fn inflate_ok(c: &[u8], d: &[u8]) -> bool {
    crate::xinf::inflate_raw(c, d.len() + 16).map(|o| o == d).unwrap_or(false)
}

fn block_str(rng: &mut Rng, data: &[u8]) -> String {
    // raw, or deflated as a stored / fixed-Huffman / dynamic-Huffman stream
    let mode = if data.is_empty() { 0 } else { rng.below(5) };
    // now and then a stream made of several deflate blocks (a non-final stored block first)
    if data.len() >= 4 && data.len() < 16000 && rng.chance(1, 12) {
        let tail = if rng.chance(1, 2) { 4 } else { rng.range(4, 11) as usize }.min(data.len());
        let mut d = data.to_vec();
        let b = rng.below(144) as u8;
        let n = d.len();
        for x in &mut d[n - tail..] {
            *x = b;
        }
        let cut = if rng.chance(1, 2) { 0 } else { rng.below((n - tail + 1) as u64) as usize };
        if let Some(c) = multi_block_stream(&d, tail, cut) {
            if inflate_ok(&c, &d) {
                return format!("d{}/{}", hex(&d), hex(&c));
            }
        }
    }
    let c = match mode {
        0 => return format!("r{}", hex(data)),
        1 => deflate_raw(data, 0, Z_DEFAULT_STRATEGY),
        2 => deflate_raw(data, 6, Z_FIXED),
        3 => deflate_raw(data, 9, Z_DEFAULT_STRATEGY),
        _ => deflate_raw(data, 1, Z_DEFAULT_STRATEGY),
    };
    if c.len() >= 32000 {
        return format!("r{}", hex(data));
    }
    format!("d{}/{}", hex(data), hex(&c))
}

/// split `total` bytes into blocks of 1..=max bytes
fn split(rng: &mut Rng, total: usize, max_blocks: usize) -> Vec<usize> {
    let mut sizes = vec![];
    let mut left = total;
    while left > 0 {
        let cap = 16000.min(left);
        let mut s = match rng.below(6) {
            0 => 1,
            1 => cap,
            2 => rng.range(1, 16.min(cap as u64)) as usize,
            _ => rng.range(1, cap as u64) as usize,
        };
        if sizes.len() + 1 >= max_blocks {
            s = cap;
        }
        sizes.push(s);
        left -= s;
    }
    sizes
}

fn blocks_of(rng: &mut Rng, total: usize, max_blocks: usize) -> String {
    let data = content(rng, total);
    let mut pos = 0;
    let mut v = vec![];
    for s in split(rng, total, max_blocks) {
        v.push(block_str(rng, &data[pos..pos + s]));
        pos += s;
    }
    if v.is_empty() { "-".into() } else { v.join(";") }
}

fn total_len(rng: &mut Rng, big: usize) -> usize {
    (match rng.below(10) {
        0 => rng.below(4),
        1 => rng.range(1, 130),
        2 => *rng.pick(&[111u64, 112, 113, 127, 128, 129, 15999, 16000, 16001, 32000]),
        3..=6 => rng.range(100, 5000),
        7 | 8 => rng.range(5000, 40000),
        _ => rng.range(40000.min(big as u64 / 2), big as u64),
    }) as usize
}

fn place(rng: &mut Rng) -> (u64, u64) {
    let units = match rng.below(4) {
        0 => 0,
        1 => rng.range(1, 4),
        _ => rng.range(1, 300),
    };
    let suffix = match rng.below(3) {
        0 => 0,
        1 => rng.range(1, 8),
        _ => rng.range(8, 600),
    };
    (units, suffix)
}

// ------------------------------------------------------------------------------------------------
// large entries: block offsets, section / mip offsets and sizes, and block counts beyond the 8- and
// 16-bit boundaries of the fields that carry them (32-bit block-table offsets, 32-bit LOD / section
// offsets and sizes, 16-bit block counts and indices)
// ------------------------------------------------------------------------------------------------

#[derive(Clone, Copy)]
enum Cut {
    /// every block as large as a retail packer makes them (16000), the rest in the last one
    Full,
    /// 1..=112 bytes: one 128-byte unit per block, so block counts grow fastest
    Tiny,
    /// a few hundred to a few thousand bytes
    Medium,
    /// 16001..=32000 bytes stored raw (the largest payload the format admits)
    Huge,
    /// anything in 1..=16000, biased to the ends
    Mixed,
}

/// how a block is stored
#[derive(Clone, Copy)]
enum Store {
    Raw,
    Deflated,
    Any,
}

fn cut_sizes(rng: &mut Rng, total: usize, cut: Cut) -> Vec<usize> {
    let mut sizes = vec![];
    let mut left = total;
    while left > 0 {
        let s = match cut {
            Cut::Full => 16000,
            Cut::Tiny => rng.range(1, 112) as usize,
            Cut::Medium => rng.range(300, 4000) as usize,
            Cut::Huge => rng.range(16001, 32000) as usize,
            Cut::Mixed => match rng.below(6) {
                0 => 1,
                1 | 2 => 16000,
                3 => rng.range(1, 16) as usize,
                _ => rng.range(1, 16000) as usize,
            },
        }
        .min(left);
        sizes.push(s);
        left -= s;
    }
    sizes
}

fn block_stored(rng: &mut Rng, data: &[u8], store: Store) -> String {
    let raw = |d: &[u8]| format!("r{}", hex(d));
    if data.is_empty() || data.len() > 16000 {
        return raw(data);
    }
    let mode = match store {
        Store::Raw => return raw(data),
        Store::Deflated => rng.range(1, 4),
        Store::Any => rng.below(5),
    };
    let c = match mode {
        0 => return raw(data),
        1 => deflate_raw(data, 0, Z_DEFAULT_STRATEGY),
        2 => deflate_raw(data, 6, Z_FIXED),
        3 => deflate_raw(data, 9, Z_DEFAULT_STRATEGY),
        _ => deflate_raw(data, 1, Z_DEFAULT_STRATEGY),
    };
    if c.len() >= 32000 {
        return raw(data);
    }
    format!("d{}/{}", hex(data), hex(&c))
}

/// `total` bytes of content cut and stored as said; never `-` for total > 0
fn blocks_cut(rng: &mut Rng, total: usize, cut: Cut, store: Store) -> String {
    let data = content(rng, total);
    let mut pos = 0;
    let mut v = vec![];
    for s in cut_sizes(rng, total, cut) {
        v.push(block_stored(rng, &data[pos..pos + s], store));
        pos += s;
    }
    if v.is_empty() { "-".into() } else { v.join(";") }
}

fn pick_store(rng: &mut Rng) -> Store {
    *rng.pick(&[Store::Raw, Store::Deflated, Store::Any, Store::Any])
}

/// as `blocks_cut`, with the cut picked from `cuts` and a random storage policy
fn blocks_any(rng: &mut Rng, total: usize, cuts: &[Cut]) -> String {
    let cut = *rng.pick(cuts);
    let store = pick_store(rng);
    blocks_cut(rng, total, cut, store)
}

/// a standard entry of `lo..=hi` bytes whose block table crosses 2^16 (offsets) and, for the
/// `Tiny` cut, 2^8 / 2^9 (block count)
fn big_std(rng: &mut Rng, k: usize, lo: usize, hi: usize) -> String {
    let (cut, total) = match k % 6 {
        0 | 1 => (Cut::Full, rng.range(lo as u64, hi as u64) as usize), // >= 5 full blocks
        2 => (Cut::Mixed, rng.range(lo as u64, hi as u64) as usize),
        3 => (Cut::Medium, rng.range(lo as u64, (lo + (hi - lo) / 2) as u64) as usize),
        // 128 bytes per block in the file: 512 blocks reach offset 2^16
        4 => (Cut::Tiny, rng.range(32000, 45000) as usize),
        _ => (Cut::Huge, rng.range(lo as u64, hi as u64) as usize),
    };
    let store = match k % 6 {
        0 => Store::Raw,
        1 => Store::Deflated,
        _ => pick_store(rng),
    };
    blocks_cut(rng, total, cut, store)
}

/// texture: `<header hex> <mips>` with mip / block offsets and sizes beyond 2^16
fn big_tex(rng: &mut Rng, k: usize, scale: usize) -> String {
    let hdr_len = *rng.pick(&[80usize, 80, 0, 148]);
    let hdr = rng.bytes(hdr_len);
    let mut mips: Vec<String> = vec![];
    match k % 4 {
        0 => {
            // a first mip above 64 KiB (its sizes, and the offsets of all later mips, exceed 2^16)
            let mut size = rng.range(66000, 130000) as usize * scale;
            let n_mips = rng.range(3, 7);
            for m in 0..n_mips {
                let cuts: &[Cut] = if m == 0 { &[Cut::Full] } else { &[Cut::Full, Cut::Mixed, Cut::Medium] };
                mips.push(blocks_any(rng, size, cuts));
                size = (size / 4).max(1);
            }
        }
        1 => {
            // many mips of similar size: the running offset crosses 2^16 in the middle of the table
            let n_mips = rng.range(5, 9);
            for _ in 0..n_mips {
                let size = rng.range(9000, 30000) as usize * scale;
                mips.push(blocks_any(rng, size, &[Cut::Full, Cut::Mixed, Cut::Medium]));
            }
        }
        2 => {
            // >= 256 blocks in one mip, >= 256 blocks before the next ones
            let a = rng.range(18000, 24000) as usize * scale;
            mips.push(blocks_any(rng, a, &[Cut::Tiny]));
            let a = rng.range(16000, 22000) as usize * scale;
            mips.push(blocks_any(rng, a, &[Cut::Tiny]));
            let a = rng.range(1, 5000) as usize;
            mips.push(blocks_any(rng, a, &[Cut::Medium]));
            let a = rng.range(1, 300) as usize;
            mips.push(blocks_any(rng, a, &[Cut::Tiny]));
        }
        _ => {
            // a small first mip, a large later one (sizes need not decrease), the largest raw blocks
            let a = rng.range(1, 3000) as usize;
            mips.push(blocks_any(rng, a, &[Cut::Medium]));
            let a = rng.range(66000, 100000) as usize * scale;
            mips.push(blocks_cut(rng, a, Cut::Huge, Store::Raw));
            mips.push("-".to_string());
            let a = rng.range(20000, 40000) as usize * scale;
            mips.push(blocks_any(rng, a, &[Cut::Full]));
            let a = rng.range(1, 200) as usize;
            mips.push(blocks_any(rng, a, &[Cut::Tiny]));
        }
    }
    format!("{} {}", hex(&hdr), mips.join("|"))
}

/// model: `<meta> <secs>` with section offsets / sizes beyond 2^16 or block counts / block indices
/// beyond 2^8 (runs: 0 stack, 1 runtime, then vertex / edge / index of LOD 0, 1, 2)
fn big_mdl(rng: &mut Rng, k: usize, scale: usize) -> String {
    let lods = rng.range(2, 3) as usize;
    let with_edge = k % 6 == 2 || rng.chance(1, 2);
    let mut secs: Vec<String> = vec![];
    // the runs that carry the weight of this case: above 64 KiB, or >= 256 blocks
    let mut heavy: Vec<usize> = vec![];
    let mut many: Vec<usize> = vec![];
    match k % 6 {
        0 => heavy.push(2),                                   // vertex data of LOD 0, largest raw blocks
        1 => heavy.push(0),                                   // stack: every later offset is >= 2^16
        2 => {
            // >= 256 blocks in a run of each kind (and >= 256 / 512 blocks before the later runs)
            many.push(rng.below(2) as usize);
            many.push(*rng.pick(&[2usize, 3, 5, 6]));
            many.push(*rng.pick(&[4usize, 7]));
        }
        3 => {}                                               // no heavy run: the sum crosses 2^16 late
        4 => heavy.push(1),                                   // runtime
        _ => heavy.push(*rng.pick(&[4usize, 5, 7, 8, 10])),   // index data / a later LOD
    }
    for s in 0..11usize {
        let lod = if s < 2 { 0 } else { (s - 2) / 3 };
        let is_edge = s >= 2 && (s - 2) % 3 == 1;
        let present = if is_edge { with_edge && lod < lods } else { s < 2 || lod < lods };
        if !present && !heavy.contains(&s) && !many.contains(&s) {
            secs.push("-".to_string());
            continue;
        }
        let sec = if many.contains(&s) {
            // 1..16 bytes per block
            let n_blocks = rng.range(256, 330) as usize * scale;
            let data = content(rng, n_blocks * 16);
            let store = pick_store(rng);
            let mut v = vec![];
            let mut pos = 0;
            for _ in 0..n_blocks {
                let len = rng.range(1, 16) as usize;
                v.push(block_stored(rng, &data[pos..pos + len], store));
                pos += len;
            }
            v.join(";")
        } else if heavy.contains(&s) {
            let a = rng.range(66000, 110000) as usize * scale;
            if k % 6 == 0 { blocks_cut(rng, a, Cut::Huge, Store::Raw) } else { blocks_any(rng, a, &[Cut::Full, Cut::Mixed, Cut::Huge]) }
        } else if k % 6 == 3 {
            let a = rng.range(9000, 24000) as usize * scale;
            blocks_any(rng, a, &[Cut::Full, Cut::Medium])
        } else {
            let a = rng.range(1, 6000) as usize;
            blocks_any(rng, a, &[Cut::Full, Cut::Medium, Cut::Mixed])
        };
        secs.push(sec);
    }
    format!(
        "{},{},{},{},{},{} {}",
        rng.u32_edge(),
        rng.below(65536),
        rng.below(65536),
        lods,
        rng.below(2),
        with_edge as u8,
        secs.join("|")
    )
}

fn gen_big(rng: &mut Rng, thorough: bool, lines: &mut Vec<String>) {
    let (n_std, n_tex, n_mdl) = if thorough { (90, 40, 48) } else { (8, 4, 6) };
    for k in 0..n_std {
        let (units, suffix) = place(rng);
        let (lo, hi) = if thorough && k % 3 == 0 { (200_000, 900_000) } else { (70_000, 200_000) };
        lines.push(format!("std {} {} {}", units, suffix, big_std(rng, k, lo, hi)));
    }
    for k in 0..n_tex {
        let (units, suffix) = place(rng);
        let scale = if thorough && k % 5 == 4 { 4 } else { 1 };
        lines.push(format!("tex {} {} {}", units, suffix, big_tex(rng, k, scale)));
    }
    for k in 0..n_mdl {
        let (units, suffix) = place(rng);
        let scale = if thorough && k % 5 == 4 { 4 } else { 1 };
        lines.push(format!("mdl {} {} {}", units, suffix, big_mdl(rng, k, scale)));
    }
    // a file-info header above 64 KiB: more than 8189 blocks in the block table
    // (thorough only: the model re-walks the file for every block, ~25 s per case in the Lean driver)
    let stores: &[Store] = if thorough { &[Store::Raw, Store::Any] } else { &[] };
    for store in stores {
        let n_blocks = rng.range(8200, 8400) as usize;
        let data = content(rng, n_blocks);
        let v: Vec<String> = data.chunks(1).map(|c| block_stored(rng, c, *store)).collect();
        lines.push(format!("std {} 0 {}", rng.below(3), v.join(";")));
    }
}

// ------------------------------------------------------------------------------------------------
// entries in a synthetic installation (op `xarch`)
// ------------------------------------------------------------------------------------------------

const CATS: [&str; 15] = [
    "common", "bgcommon", "bg", "cut", "chara", "shader", "ui", "sound", "vfx", "ui_script", "exd",
    "game_script", "music", "sqpack_test", "debug",
];

fn word(rng: &mut Rng) -> String {
    let n = rng.range(1, 8) as usize;
    (0..n)
        .map(|_| match rng.below(10) {
            0 => (b'0' + rng.below(10) as u8) as char,
            1 => '_',
            _ => (b'a' + rng.below(26) as u8) as char,
        })
        .collect()
}

/// upper bound of the packed size of an entry given as `std …` / `tex …` / `mdl …` payload text,
/// in 128-byte units (only used to choose offsets that cannot overlap; the driver rejects overlap)
fn units_bound(payload: &str) -> u64 {
    // every hex digit pair is at most one byte in the file; every block adds < 16 + 128 bytes, every
    // block / mip / section at most 20 table bytes; 512 covers the fixed part of any header
    let blocks = payload.matches(';').count() as u64 + payload.matches('|').count() as u64 + 1;
    (payload.len() as u64 / 2 + 164 * blocks + 512) / 128 + 1
}

/// a small entry payload: `std <blocks>` | `tex <hdr> <mips>` | `mdl <meta> <secs>`
fn small_payload(rng: &mut Rng, kind: u64, big: usize) -> String {
    let total = |rng: &mut Rng| -> usize {
        (match rng.below(8) {
            0 => rng.range(1, 16),
            1 => *rng.pick(&[111u64, 112, 113, 127, 128, 129]),
            2..=5 => rng.range(16, 2000),
            6 => rng.range(2000, 20000),
            _ => rng.range(2000, big as u64),
        }) as usize
    };
    let cuts = [Cut::Full, Cut::Full, Cut::Medium, Cut::Mixed];
    match kind {
        0 => {
            if rng.chance(1, 12) {
                return "std -".to_string();
            }
            let t = total(rng);
            format!("std {}", blocks_any(rng, t, &cuts))
        }
        1 => {
            let hdr_len = *rng.pick(&[80usize, 80, 0, 33]);
            let hdr = rng.bytes(hdr_len);
            let mut size = total(rng);
            let mut mips = vec![];
            let n_mips = rng.range(1, 5);
            for m in 0..n_mips {
                if m > 0 && rng.chance(1, 10) {
                    mips.push("-".to_string());
                    continue;
                }
                mips.push(blocks_any(rng, size, &cuts));
                size = (size / 4).max(1);
            }
            format!("tex {} {}", hex(&hdr), mips.join("|"))
        }
        _ => {
            let lods = rng.range(1, 3) as usize;
            let with_edge = rng.chance(1, 3);
            let mut secs = vec![];
            for s in 0..11usize {
                let lod = if s < 2 { 0 } else { (s - 2) / 3 };
                let is_edge = s >= 2 && (s - 2) % 3 == 1;
                let present = if is_edge { with_edge && lod < lods } else { s < 2 || lod < lods && rng.chance(5, 6) };
                if !present {
                    secs.push("-".to_string());
                    continue;
                }
                let t = (total(rng) / 4).max(1);
                secs.push(blocks_any(rng, t, &cuts));
            }
            format!(
                "mdl {},{},{},{},{},{} {}",
                rng.u32_edge(),
                rng.below(65536),
                rng.below(65536),
                lods,
                rng.below(2),
                with_edge as u8,
                secs.join("|")
            )
        }
    }
}

fn mix_case(rng: &mut Rng, s: &str) -> String {
    match rng.below(4) {
        0 => s.to_ascii_uppercase(),
        1 => s.chars().map(|c| if rng.chance(1, 2) { c.to_ascii_uppercase() } else { c }).collect(),
        _ => s.to_string(),
    }
}

struct XGen {
    /// (path prefix = category[/exN], chunk, dat id) -> first free unit of that dat file
    free: Vec<((String, u64, u64), u64)>,
    records: Vec<String>,
    paths: Vec<String>,
}

impl XGen {
    fn free_of(&self, k: &(String, u64, u64)) -> u64 {
        self.free.iter().find(|x| &x.0 == k).map(|x| x.1).unwrap_or(0)
    }
    fn set_free(&mut self, k: (String, u64, u64), v: u64) {
        match self.free.iter_mut().find(|x| x.0 == k) {
            Some(x) => x.1 = v,
            None => self.free.push((k, v)),
        }
    }
    /// entries with different payloads at the SAME offset of the dat files `dats` of one
    /// (repository, category, chunk)
    fn family(&mut self, rng: &mut Rng, prefix: &str, chunk: u64, dats: &[u64], kinds: Option<u64>, kind: Option<u64>, big: usize) {
        let gap = match rng.below(4) {
            0 => 0,
            1 => rng.range(1, 3),
            2 => rng.range(1, 40),
            _ => rng.range(1, 600),
        };
        let units = dats.iter().map(|d| self.free_of(&(prefix.to_string(), chunk, *d))).max().unwrap_or(0) + gap;
        // (a folder name never reads as a repository token `exN`)
        let folder = if rng.chance(1, 2) { format!("f{}/", word(rng)) } else { String::new() };
        for d in dats {
            let kind = match kind { Some(k) => k, None => *rng.pick(&[0u64, 0, 0, 1, 2]) };
            let payload = small_payload(rng, kind, big);
            let path = loop {
                let w = word(rng);
                let p = format!("{}/{}{}_d{}.{}", prefix, folder, w, d, rng.pick(&["dat", "tex", "mdl", "exd", "lgb"]));
                if !self.paths.contains(&p) {
                    break p;
                }
            };
            self.set_free((prefix.to_string(), chunk, *d), units + units_bound(&payload));
            let kinds = match kinds { Some(k) => k, None => rng.range(1, 3) };
            self.records.push(format!("E {} {} {} {} {} {}", hex(path.as_bytes()), chunk, kinds, d, units, payload));
            self.paths.push(path);
        }
    }
}

fn xarch_line(rng: &mut Rng, plat: u64, dirs: &[String], g: &XGen, extra_queries: &[String], mode: &str) -> String {
    let mut qs: Vec<String> = g.paths.iter().map(|p| format!("x{}", hex(mix_case(rng, p).as_bytes()))).collect();
    qs.extend_from_slice(extra_queries);
    // query order is arbitrary
    for i in (1..qs.len()).rev() {
        let j = rng.below(i as u64 + 1) as usize;
        qs.swap(i, j);
    }
    format!(
        "xarch {} {} {} {} {}",
        plat,
        dirs.iter().map(|d| hex(d.as_bytes())).collect::<Vec<_>>().join(","),
        qs.join(","),
        mode,
        g.records.join(" ")
    )
}

/// bounded-exhaustive: entry type x index kinds, all eight dat files holding different entries at
/// one offset
fn sweep_xarch(rng: &mut Rng, lines: &mut Vec<String>) {
    let mut n = 0u64;
    for kind in 0..3u64 {
        for kinds in 1..=3u64 {
            n += 1;
            let mut g = XGen { free: vec![], records: vec![], paths: vec![] };
            let cat = CATS[(n as usize * 4) % 15];
            let (prefix, dirs) = if n % 3 == 0 {
                (format!("{}/ex2", cat), vec!["ffxiv".to_string(), "ex2".to_string()])
            } else {
                (cat.to_string(), vec!["ffxiv".to_string()])
            };
            g.family(rng, &prefix, n % 2, &[0, 1, 2, 3, 4, 5, 6, 7], Some(kinds), Some(kind), 3000);
            lines.push(xarch_line(rng, n % 5, &dirs, &g, &[], "one"));
        }
    }
    // the same category, chunk and dat id in three repositories, different entries, all asked for
    // on one handle (and each on a fresh one): which dat file an extraction reads is decided by
    // the repository as well
    for round in 0..3u64 {
        let cat = CATS[(round as usize * 7 + 1) % 15];
        let dirs = vec!["ffxiv".to_string(), "ex1".to_string(), "ex2".to_string()];
        for mode in ["one", "fresh"] {
            let mut g = XGen { free: vec![], records: vec![], paths: vec![] };
            for prefix in [cat.to_string(), format!("{}/ex1", cat), format!("{}/ex2", cat)] {
                g.family(rng, &prefix, round % 2, &[round * 3 % 8], Some(1 + round % 3), None, 3000);
            }
            lines.push(xarch_line(rng, round % 5, &dirs, &g, &[], mode));
        }
    }
}

fn gen_xarch(rng: &mut Rng, big: usize, lines: &mut Vec<String>) {
    let plat = rng.below(5);
    let mut dirs: Vec<String> = vec!["ffxiv".to_string()];
    let mut exs: Vec<u64> = vec![];
    for e in 1..=3u64 {
        if rng.chance(1, 3) {
            exs.push(e);
            dirs.push(format!("ex{}", e));
        }
    }
    if rng.chance(1, 5) {
        dirs.push(rng.pick(&["zzz", "movie", "exa"]).to_string());
    }
    for i in (1..dirs.len()).rev() {
        let j = rng.below(i as u64 + 1) as usize;
        dirs.swap(i, j);
    }
    let mut g = XGen { free: vec![], records: vec![], paths: vec![] };
    let prefix_of = |rng: &mut Rng| -> String {
        let cat = CATS[rng.below(15) as usize];
        if !exs.is_empty() && rng.chance(1, 3) { format!("{}/ex{}", cat, rng.pick(&exs)) } else { cat.to_string() }
    };
    let main = prefix_of(rng);
    let chunk = match rng.below(4) { 0 => rng.range(1, 9), 1 => rng.range(10, 254), _ => 0 };
    let n_fam = rng.range(1, 3);
    for f in 0..n_fam {
        // dat ids: a pair that differs in one bit of the 3-bit id, or a random subset of >= 2
        let dats: Vec<u64> = match rng.below(4) {
            0 => { let d = rng.below(4); vec![d, d + 4] }
            1 => { let d = rng.below(8); vec![d, d ^ (1 << rng.below(3))] }
            2 => (0..8).collect(),
            _ => {
                let mut v: Vec<u64> = (0..8).filter(|_| rng.chance(1, 2)).collect();
                if v.len() < 2 { v = vec![rng.below(4), 4 + rng.below(4)]; }
                v
            }
        };
        let (p, c) = if f > 0 && rng.chance(1, 3) { (prefix_of(rng), rng.below(3)) } else { (main.clone(), chunk) };
        g.family(rng, &p, c, &dats, None, None, big);
    }
    let mut extra: Vec<String> = vec![];
    // an index entry into a dat file that does not exist (-> None), and a second name for an entry
    if rng.chance(1, 2) {
        let d = rng.below(8);
        let mut far = rng.range(200, 250);
        if far == chunk {
            far += 1;
        }
        let p = format!("{}/{}_gone.dat", main, word(rng));
        g.records.push(format!("E {} {} {} {} {} none", hex(p.as_bytes()), far, rng.range(1, 3), d, rng.below(600)));
        g.paths.push(p);
    }
    if rng.chance(1, 2) {
        // same location as the first record under another name
        let f: Vec<String> = g.records[0].split(' ').map(|x| x.to_string()).collect();
        let first = String::from_utf8(unhex(&f[1]).unwrap()).unwrap();
        let cat_prefix: Vec<&str> = first.split('/').collect();
        let pre = if cat_prefix.len() > 2 && cat_prefix[1].starts_with("ex") { format!("{}/{}", cat_prefix[0], cat_prefix[1]) } else { cat_prefix[0].to_string() };
        let p = format!("{}/a{}/alias_{}.bin", pre, word(rng), word(rng));
        g.records.push(format!("E {} {} {} {} {} none", hex(p.as_bytes()), f[2], rng.range(1, 3), f[4], f[5]));
        g.paths.push(p);
    }
    for _ in 0..rng.below(3) {
        let p = match rng.below(3) {
            0 => format!("{}/{}.dat", main, word(rng)),
            1 => format!("{}x", rng.pick(&g.paths)),
            _ => format!("{}/q{}/{}.tex", CATS[rng.below(15) as usize], word(rng), word(rng)),
        };
        extra.push(format!("x{}", hex(p.as_bytes())));
    }
    if rng.chance(1, 3) {
        let p = rng.pick(&g.paths).clone();
        extra.push(format!("{}{}", rng.pick(&['e', 'o']), hex(p.as_bytes())));
    }
    let mode = if rng.chance(1, 5) { "fresh" } else { "one" };
    lines.push(xarch_line(rng, plat, &dirs, &g, &extra, mode));
}

pub fn generate(thorough: bool, seed: u64, out: &mut dyn Write) {
    let mut rng = Rng::new(seed, "C02");
    let big = if thorough { 1 << 20 } else { 1 << 16 };
    // single-block sweep: every length 0..=40 raw, 1..=40 in each deflate mode, at the file end
    for n in 0..=40usize {
        let d = content(&mut rng, n);
        writeln!(out, "std {} 0 r{}", n % 3, hex(&d)).unwrap();
        if n > 0 {
            for (lvl, st) in [(0, Z_DEFAULT_STRATEGY), (6, Z_FIXED), (9, Z_DEFAULT_STRATEGY)] {
                let c = deflate_raw(&d, lvl, st);
                writeln!(out, "std 1 {} d{}/{}", n % 2, hex(&d), hex(&c)).unwrap();
            }
        }
    }
    writeln!(out, "std 0 0 -").unwrap();
    let n = if thorough { 12000 } else { 180 };
    let mut regular: Vec<String> = vec![];
    for i in 0..n {
        let (units, suffix) = place(&mut rng);
        match i % 3 {
            0 => {
                let total = total_len(&mut rng, big);
                let max_blocks = if total > 100000 { 200 } else { 40 };
                let b = blocks_of(&mut rng, total, max_blocks);
                regular.push(format!("std {} {} {}", units, suffix, b));
            }
            1 => {
                let hdr_len = match rng.below(4) {
                    0 => 80,
                    1 => 0,
                    _ => rng.range(1, 200),
                } as usize;
                let hdr = rng.bytes(hdr_len);
                let n_mips = rng.range(1, 13) as usize;
                let mut mips = vec![];
                let mut size = total_len(&mut rng, big / 2).max(1);
                for m in 0..n_mips {
                    if m > 0 && rng.chance(1, 12) {
                        mips.push("-".to_string());
                        continue;
                    }
                    mips.push(blocks_of(&mut rng, size.max(1), 6));
                    size = (size / 4).max(1);
                }
                if n_mips >= 2 && rng.chance(1, 3) {
                    // filler between the block chains of the LODs (each LOD record has its own offset)
                    let gaps: Vec<String> = (0..n_mips - 1)
                        .map(|_| match rng.below(5) { 0 => 0, 1 => 128, 2 => 256, 3 => rng.range(1, 127), _ => 128 * rng.range(1, 40) }.to_string())
                        .collect();
                    regular.push(format!("texgap {} {} {} {} {}", units, suffix, hex(&hdr), mips.join("|"), gaps.join("|")));
                }
                regular.push(format!("tex {} {} {} {}", units, suffix, hex(&hdr), mips.join("|")));
            }
            _ => {
                let lods = rng.range(1, 3);
                let mut secs = vec![];
                let with_edge = rng.chance(1, 3);
                for s in 0..11usize {
                    // stack runtime v0 e0 i0 v1 e1 i1 v2 e2 i2
                    let lod = if s < 2 { 0 } else { (s - 2) / 3 };
                    let is_edge = s >= 2 && (s - 2) % 3 == 1;
                    let present = if is_edge {
                        with_edge && (lod as u64) < lods && rng.chance(2, 3)
                    } else {
                        s < 2 && rng.chance(9, 10) || s >= 2 && (lod as u64) < lods && rng.chance(5, 6) || rng.chance(1, 10)
                    };
                    if !present {
                        secs.push("-".to_string());
                        continue;
                    }
                    let nb = rng.range(1, 4) as usize;
                    let total = match rng.below(4) {
                        0 => rng.range(nb as u64, 64),
                        1 => rng.range(64, 4000),
                        _ => rng.range(nb as u64, (big / 16) as u64),
                    } as usize;
                    secs.push(blocks_of(&mut rng, total.max(nb), nb));
                }
                regular.push(format!(
                    "mdl {} {} {},{},{},{},{},{} {}",
                    units,
                    suffix,
                    rng.u32_edge(),
                    rng.below(65536),
                    rng.below(65536),
                    lods,
                    rng.below(2),
                    rng.below(2),
                    secs.join("|")
                ));
            }
        }
    }
    // large entries and installations, spread evenly over the (cheap) regular cases so that the
    // contiguous shards of the check stay balanced
    let mut heavy: Vec<String> = vec![];
    gen_big(&mut Rng::new(seed, "C02-big"), thorough, &mut heavy);
    let mut xrng = Rng::new(seed, "C02-xarch");
    sweep_xarch(&mut xrng, &mut heavy);
    for _ in 0..(if thorough { 1500 } else { 40 }) {
        gen_xarch(&mut xrng, if thorough { 60000 } else { 20000 }, &mut heavy);
    }
    let mut hrng = Rng::new(seed, "C02-order");
    for i in (1..heavy.len()).rev() {
        let j = hrng.below(i as u64 + 1) as usize;
        heavy.swap(i, j);
    }
    let per = regular.len() / heavy.len().max(1) + 1;
    let mut h = heavy.into_iter();
    for (i, l) in regular.iter().enumerate() {
        writeln!(out, "{}", l).unwrap();
        if (i + 1) % per == 0 {
            if let Some(x) = h.next() {
                writeln!(out, "{}", x).unwrap();
            }
        }
    }
    for x in h {
        writeln!(out, "{}", x).unwrap();
    }
    // damaged entries (`mut <seed> <k> <case>`, Base/Mutate.lean): 1..3 bytes of the encoded entry
    // (file-info header, block table, block headers, payload) changed; the model of the code and
    // the code must agree on what is extracted
    let mut mrng = Rng::new(seed, "C02-mut");
    for l in regular.iter().filter(|l| l.len() < 12000 && !l.starts_with("texgap ")) {
        for _ in 0..2 {
            writeln!(out, "mut {} {} {}", mrng.next() >> 1, 1 + mrng.below(3), l).unwrap();
        }
    }
    // the same for entries with filler between the mip chains (own stream: the lines above keep their seeds)
    let mut grng = Rng::new(seed, "C02-mutgap");
    for l in regular.iter().filter(|l| l.len() < 12000 && l.starts_with("texgap ")) {
        for _ in 0..2 {
            writeln!(out, "mut {} {} {}", grng.next() >> 1, 1 + grng.below(3), l).unwrap();
        }
    }
    // the inflater the model's `inflate` parameter is instantiated with is itself checked against
    // zlib on every run: streams from zlib's deflate (all levels / strategies) and corrupted ones
    crate::xinf::generate_n(if thorough { 1500 } else { 120 }, thorough, seed, out);
    // where an index entry points (dat id, and offsets over the whole 35-bit range incl. >= 4 GiB,
    // which no materialised dat file reaches): C01's direct `SqPackIndex::find_entry` cases, shared
    let mut rng_idx = Rng::new(seed, "C02-idx");
    for _ in 0..(if thorough { 2000 } else { 80 }) {
        crate::c01::gen_idx(&mut rng_idx, out);
    }
}

pub fn run(case: &str, input: &str) -> String {
    if input == "skip" {
        return "skip".into();
    }
    if case.starts_with("idx ") {
        return crate::c01::run(case, input);
    }
    if case.starts_with("inflate ") || case.starts_with("garbage ") {
        // validation of the executable inflate model (Model/Inflate.lean) against zlib
        return crate::xinf::run(case, input);
    }
    if let Some(rest) = input.strip_prefix("xarch ") {
        // `<platform> <dirs> <files> <queries> <mode>`: C01's installation runner
        return crate::c01::run(case, rest);
    }
    let f: Vec<&str> = input.split(' ').collect();
    if f.len() != 2 {
        return "bad-case".into();
    }
    let Ok(offset) = f[0].parse::<u64>() else { return "bad-case".into() };
    let Some(file) = unhex(f[1]) else { return "bad-case".into() };
    let tmp = TempDir::new("c02");
    let path = tmp.path().join("000000.win32.dat0");
    std::fs::write(&path, &file).unwrap();
    let p = path.to_str().unwrap().to_string();
    guarded(move || {
        let Some(mut dat) = SqPackData::from_existing(&p) else { return "nofile".into() };
        let first = dat.read_from_offset(offset);
        // the same handle again: a read somewhere else (a rejected or another entry) and the same
        // read once more — what an extraction returns is a function of the file and the offset
        let _ = dat.read_from_offset(if offset >= 128 { offset - 128 } else { offset + 128 });
        let again = dat.read_from_offset(offset);
        if first != again {
            return format!("unstable:{}", match again { Some(d) => hex(&d), None => "none".into() });
        }
        match first {
            Some(d) => hex(&d),
            None => "none".into(),
        }
    })
}

pub fn dump(out: &mut dyn Write) {}
