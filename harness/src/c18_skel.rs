//! C18 part `skel`: pbd (+ get_deform_matrices), tera
//!
//! Case grammar:
//!   `pbd <hex>`                         -> `PreBoneDeformer::from_existing`
//!   `pbddeform <hex> <from> <to>`       -> parse, then `get_deform_matrices(from, to)` (u16 decimal)
//!   `tera <hex>`                        -> `Terrain::from_existing`
#![allow(unused)]
use crate::alloc;
use crate::c18::*;
use crate::util::*;
use std::io::Write;

/// `None` = not an op of this part
pub fn run(f: &[&str]) -> Option<String> {
    match (f[0], f.len()) {
        ("pbd", 2) => Some(asset(f[1], |b| cls(physis::pbd::PreBoneDeformer::from_existing(b)))),
        ("tera", 2) => Some(asset(f[1], |b| cls(physis::tera::Terrain::from_existing(b)))),
        ("pbddeform", 4) => {
            let (Ok(from), Ok(to)) = (f[2].parse::<u16>(), f[3].parse::<u16>()) else {
                return Some("bad-case".into());
            };
            Some(asset(f[1], move |b| {
                let Some(p) = physis::pbd::PreBoneDeformer::from_existing(b) else { return "none".into() };
                cls(p.get_deform_matrices(from, to))
            }))
        }
        _ => None,
    }
}

// ------------------------------------------------------------------------------------------
// pbd seeds
// ------------------------------------------------------------------------------------------

#[derive(Clone)]
pub struct PbdItem {
    pub body: u16,
    pub link: i16,
    pub bones: Vec<&'static str>,
}

/// (parent, first_child, next_sibling, deformer_index)
pub type PbdLink = (i16, i16, i16, u16);

fn deformer_size(bones: &[&str]) -> usize {
    let k = bones.len();
    4 + 2 * k + if k % 2 == 1 { 2 } else { 0 } + 48 * k + bones.iter().map(|s| s.len() + 1).sum::<usize>()
}

/// header, items, links, then one deformer block per item (names after the matrices)
pub fn pbd_build(items: &[PbdItem], links: &[PbdLink]) -> B {
    let c = items.len();
    let mut b = B::new(false);
    b.u32(c as u32).bound();
    let mut off = 4 + 12 * c + 8 * links.len();
    for it in items {
        b.u16(it.body).u16(it.link as u16).u32(off as u32).zeros(4).bound();
        off += deformer_size(&it.bones);
    }
    for l in links {
        b.u16(l.0 as u16).u16(l.1 as u16).u16(l.2 as u16).u16(l.3).bound();
    }
    for it in items {
        let k = it.bones.len();
        b.u32(k as u32);
        // name offsets are relative to the start of the block
        let mut noff = 4 + 2 * k + if k % 2 == 1 { 2 } else { 0 } + 48 * k;
        for s in &it.bones {
            b.u16(noff as u16);
            noff += s.len() + 1;
        }
        if k % 2 == 1 {
            b.zeros(2);
        }
        for i in 0..k {
            // the first float of each matrix is a corruptible field, the rest is filler
            b.f32(1.0 + i as f32);
            for j in 1..12 {
                b.raw(&(j as f32).to_le_bytes(), false);
            }
        }
        for s in &it.bones {
            b.raw(s.as_bytes(), true);
            b.u8(0);
        }
        b.bound();
    }
    b
}

fn it(body: u16, link: i16, bones: &[&'static str]) -> PbdItem {
    PbdItem { body, link, bones: bones.to_vec() }
}

/// valid deformer trees
pub fn pbd_trees() -> Vec<(Vec<PbdItem>, Vec<PbdLink>)> {
    vec![
        // a chain root <- child <- grandchild, links in item order
        (
            vec![it(101, 0, &["j_kao", "n_hara"]), it(201, 1, &["j_sebo_a"]), it(301, 2, &["a", "bc", "def"])],
            vec![(-1, 1, 0, 0), (0, 2, 0, 1), (1, -1, 0, 2)],
        ),
        // a single item without bones
        (vec![it(101, 0, &[])], vec![(-1, -1, 0, 0)]),
        // a root with two children and a grandchild; links permuted against the items; a leaf whose
        // next_sibling is the sentinel
        (
            vec![
                it(101, 2, &["root"]),
                it(201, 0, &["x", "y"]),
                it(301, 3, &[]),
                it(401, 1, &["p", "q", "r", "s"]),
            ],
            vec![(2, 1, 3, 1), (0, -1, 0, 3), (-1, 0, 0, 0), (2, -1, -1, 2)],
        ),
    ]
}

/// the deliberately broken link tables of the property's quantifier: out-of-range indices,
/// self-parent, 2- and 3-cycles, sentinel variants
pub fn pbd_broken() -> Vec<(Vec<PbdItem>, Vec<PbdLink>)> {
    let items3 = |b0: &[&'static str], b1: &[&'static str], b2: &[&'static str]| {
        vec![it(101, 0, b0), it(201, 1, b1), it(301, 2, b2)]
    };
    let mut v = vec![];
    // cycles run over deformers without bones: the unrepaired walk then spins without growing
    // its output (a plain hang instead of exhausting the machine's memory)
    // self-parent
    v.push((items3(&[], &[], &[]), vec![(0, 1, 0, 0), (0, 2, 0, 1), (1, -1, 0, 2)]));
    v.push((items3(&[], &[], &[]), vec![(-1, 1, 0, 0), (0, 2, 0, 1), (2, -1, 0, 2)]));
    // 2-cycle
    v.push((items3(&[], &[], &[]), vec![(1, 1, 0, 0), (0, 2, 0, 1), (1, -1, 0, 2)]));
    // 3-cycle
    v.push((items3(&[], &[], &[]), vec![(2, 1, 0, 0), (0, 2, 0, 1), (1, -1, 0, 2)]));
    // a cycle that is entered from outside (tail into a 2-cycle)
    v.push((
        vec![it(101, 0, &[]), it(201, 1, &[]), it(301, 2, &[]), it(401, 3, &["tail"])],
        vec![(1, 1, 0, 0), (0, 2, 0, 1), (1, 3, 0, 2), (2, -1, 0, 3)],
    ));
    // out-of-range link_index
    for li in [3i16, -1, -2, 0x7FFF, -0x8000] {
        let mut items = items3(&["a"], &["b"], &["c"]);
        items[2].link = li;
        v.push((items, vec![(-1, 1, 0, 0), (0, 2, 0, 1), (1, -1, 0, 2)]));
    }
    // out-of-range parent_index
    for pi in [3i16, -2, 0x7FFF, -0x8000] {
        v.push((items3(&["a"], &["b"], &["c"]), vec![(-1, 1, 0, 0), (pi, 2, 0, 1), (1, -1, 0, 2)]));
    }
    // out-of-range deformer_index
    for di in [3u16, 0x7FFF, 0x8000, 0xFFFF] {
        v.push((items3(&["a"], &["b"], &["c"]), vec![(-1, 1, 0, 0), (0, 2, 0, di), (1, -1, 0, 2)]));
    }
    // every parent is the sentinel; next_sibling sentinel on the start link
    v.push((items3(&["a"], &["b"], &["c"]), vec![(-1, 1, 0, 0), (-1, 2, 0, 1), (-1, -1, 0, 2)]));
    v.push((items3(&["a"], &["b"], &["c"]), vec![(-1, 1, 0, 0), (0, 2, 0, 1), (1, -1, -1, 2)]));
    // links aliasing one deformer; duplicate body ids
    v.push((items3(&["a"], &["b"], &["c"]), vec![(-1, 1, 0, 1), (0, 2, 0, 1), (1, -1, 0, 1)]));
    v.push((vec![it(101, 0, &["a"]), it(101, 1, &["b"]), it(301, 2, &["c"])], vec![(-1, 1, 0, 0), (0, 2, 0, 1), (1, -1, 0, 2)]));
    v
}

fn body_ids(items: &[PbdItem]) -> Vec<u16> {
    let mut ids: Vec<u16> = items.iter().map(|x| x.body).collect();
    ids.push(999);
    ids.push(0);
    ids.sort();
    ids.dedup();
    ids
}

fn pbd_generate(thorough: bool, rng: &mut Rng, out: &mut dyn Write) {
    for (k, (items, links)) in pbd_trees().into_iter().enumerate() {
        let s = pbd_build(&items, &links).seed("pbd");
        mutate(&s, rng, thorough, out);
        let ids = body_ids(&items);
        // every (from, to) pair on the intact file
        for &a in &ids {
            for &b in &ids {
                emit(out, "pbddeform", &s.bytes, &format!("{} {}", a, b));
            }
        }
        // the deepest item towards the root / towards nobody, under every mutation
        let deepest = items[items.len() - 1].body;
        let mut pairs = vec![(deepest, 101u16), (deepest, 999)];
        if thorough {
            pairs.push((items[items.len() / 2].body, 101));
            pairs.push((101, deepest));
        }
        for (a, b) in pairs {
            if k == 1 && b == 101 {
                continue;
            }
            let mut q = s.clone();
            q.op = "pbddeform".into();
            q.extra = format!("{} {}", a, b);
            mutate(&q, rng, thorough, out);
        }
    }
    for (items, links) in pbd_broken() {
        let s = pbd_build(&items, &links).seed("pbd");
        emit(out, "pbd", &s.bytes, "");
        let ids = body_ids(&items);
        for &a in &ids {
            for &b in &ids {
                emit(out, "pbddeform", &s.bytes, &format!("{} {}", a, b));
            }
        }
    }
    // two-field corruptions of the link table of the chain: every (parent, deformer) pair of one link
    {
        let (items, links) = pbd_trees().remove(0);
        let edge: [i16; 8] = [-1, 0, 1, 2, 3, -2, 0x7FFF, -0x8000];
        for li in 0..links.len() {
            for &p in &edge {
                for &d in &edge {
                    let mut l = links.clone();
                    l[li].0 = p;
                    l[li].3 = d as u16;
                    // keep bone-less deformers on possible cycles (see `pbd_broken`)
                    let its: Vec<PbdItem> = items.iter().map(|x| it(x.body, x.link, &[])).collect();
                    let s = pbd_build(&its, &l).seed("pbd");
                    emit(out, "pbddeform", &s.bytes, "301 999");
                    if thorough {
                        emit(out, "pbddeform", &s.bytes, "201 101");
                        emit(out, "pbddeform", &s.bytes, "101 301");
                    }
                }
            }
        }
    }
    // names: missing terminator at the end of the file, offsets beyond the end, shared names
    {
        let (items, links) = pbd_trees().remove(0);
        let s = pbd_build(&items, &links).seed("pbd");
        let n = s.bytes.len();
        let mut m = s.bytes.clone();
        m[n - 1] = b'x';
        emit(out, "pbd", &m, "");
        m.extend_from_slice(b"yz");
        emit(out, "pbd", &m, "");
        m.push(0);
        emit(out, "pbd", &m, "");
        emit(out, "pbddeform", &m, "301 101");
    }
    blobs("pbd", &[2, 0, 0, 0], rng, if thorough { 400 } else { 40 }, true, out);
    // blobs that at least have a plausible header: count, items pointing into the blob
    for i in 0..(if thorough { 2000 } else { 200 }) {
        let c = rng.range(1, 5) as usize;
        let len = rng.range(32, 400) as usize;
        let mut b = rng.bytes(len);
        let mut h = B::new(false);
        h.u32(c as u32);
        for k in 0..c {
            h.u16(100 * (k as u16 + 1) + 1).u16(rng.below(c as u64 + 1) as u16).u32(rng.below(len as u64) as u32).zeros(4);
        }
        for k in 0..c {
            let edge = [0xFFFFu16, 0, 1, 2, 3, 4, 0x7FFF, 0x8000];
            h.u16(*rng.pick(&edge)).u16(*rng.pick(&edge)).u16(*rng.pick(&edge)).u16(rng.below(c as u64 + 1) as u16);
        }
        for (k, x) in h.v.iter().enumerate() {
            if k < b.len() {
                b[k] = *x;
            }
        }
        // small bone counts at the targets so that some deformers parse
        for k in 0..c {
            let o = get(&b, &Field { off: 4 + 12 * k + 4, width: 4, be: false }) as usize;
            if o + 4 <= b.len() && o >= 4 + 20 * c {
                b[o..o + 4].copy_from_slice(&(rng.below(3) as u32).to_le_bytes());
            }
        }
        if i % 2 == 0 {
            emit(out, "pbd", &b, "");
        } else {
            // a walk on random links may cycle: no bones then (see `pbd_broken`)
            for k in 0..c {
                let o = get(&b, &Field { off: 4 + 12 * k + 4, width: 4, be: false }) as usize;
                if o + 4 <= b.len() && o >= 4 + 20 * c {
                    b[o..o + 4].copy_from_slice(&0u32.to_le_bytes());
                }
            }
            let from = 100 * (rng.below(c as u64) as u16 + 1) + 1;
            let to = 100 * (rng.below(c as u64 + 1) as u16 + 1) + 1;
            emit(out, "pbddeform", &b, &format!("{} {}", from, to));
        }
    }
}

// ------------------------------------------------------------------------------------------
// tera seeds
// ------------------------------------------------------------------------------------------

pub fn tera_seed(plates: &[(i16, i16)], trailing: usize) -> Seed {
    let mut b = B::new(false);
    b.u32(0x1000003).u32(plates.len() as u32).u32(128).f32(0.0).f32(1.0).zeros(32).bound();
    for (x, y) in plates {
        b.u16(*x as u16).u16(*y as u16).bound();
    }
    b.zeros(trailing);
    b.seed("tera")
}

fn tera_generate(thorough: bool, rng: &mut Rng, out: &mut dyn Write) {
    for s in [
        tera_seed(&[], 0),
        tera_seed(&[(0, 0)], 0),
        tera_seed(&[(-1, 2), (3, -4), (0x7FFF, -0x8000)], 5),
        tera_seed(&(0..40).map(|i| (i as i16 - 20, 7 - i as i16)).collect::<Vec<_>>(), 0),
    ] {
        mutate(&s, rng, thorough, out);
    }
    // plate counts around the number of positions present
    for present in [0usize, 1, 2, 100] {
        for count in [0u32, 1, 2, 3, 99, 100, 101, 0x7FFF_FFFF, 0x8000_0000, 0xFFFF_FFFF] {
            let mut s = tera_seed(&vec![(1, 1); present], 0);
            s.bytes[4..8].copy_from_slice(&count.to_le_bytes());
            emit(out, "tera", &s.bytes, "");
        }
    }
    blobs("tera", &[3, 0, 0, 1, 5, 0, 0, 0], rng, if thorough { 400 } else { 40 }, true, out);
    // a large valid file: output size in proportion to the input
    let big = tera_seed(&vec![(3, -3); if thorough { 250_000 } else { 60_000 }], 0);
    emit(out, "tera", &big.bytes, "");
}

pub fn generate(thorough: bool, seed: u64, out: &mut dyn Write) {
    let mut rng = Rng::new(seed, "C18-skel");
    pbd_generate(thorough, &mut rng, out);
    tera_generate(thorough, &mut rng, out);
}
