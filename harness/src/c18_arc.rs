//! C18 part `arc`: archive readers: index, dat, GameData, repository discovery, inflate life-cycle
//!
//! ops:
//!   `dat <hex> <offset> [cls|any]`   dat file bytes, `SqPackData::read_from_offset(offset)`;
//!                                    `cls` prints none/some, `any` prints `ok` for both (the Lean
//!                                    driver appends the mode: `any` when the outcome depends on an
//!                                    inflate result its stored-block oracle cannot decide)
//!   `index <hex>`                    `SqPackIndex::from_existing` -> none/some
//!   `indexq <hex> <pathhex> [cls|any]` + `exists` / `find_entry` -> none | e0 | e1 (cls) | ok (any)
//!   `repo <namehex>`                 a directory of that name, `Repository::from_existing_expansion` -> none/some
//!   `gd <tree> <op> <pathhex>`       synthetic installation (`rel/path:hex;rel/dir/:-;…`), GameData
//!                                    from_existing + exists/extract -> ok
//!   `gd2 <tree> <tree2> <op> <pathhex>` fault sequence between open and read: query, apply tree2
//!                                    (overwrites, `=/` directories, `=!` deletions), query again -> ok
//!   `leak <n> <dat hex> <offset>`    n failed extractions; residual live heap must not grow with n
#![allow(unused)]
use crate::alloc;
use crate::c18::*;
use crate::util::*;
use std::io::Write;

/// resident set size of this process in bytes (0 when /proc is unavailable)
fn resident_bytes() -> usize {
    std::fs::read_to_string("/proc/self/statm")
        .ok()
        .and_then(|s| s.split_whitespace().nth(1).and_then(|x| x.parse::<usize>().ok()))
        .map(|p| p * 4096)
        .unwrap_or(0)
}

/// writes a tree description (`<hexpath>=<hexcontent>` files, `=/` directories, `=!` deletions, comma
/// separated, `-` = nothing) under `game`; returns the number of content bytes
fn materialise(game: &std::path::Path, tree: &str) -> Option<usize> {
    use std::os::unix::ffi::OsStrExt;
    let mut total = 0usize;
    if tree == "-" {
        return Some(0);
    }
    for ent in tree.split(',') {
        let (ph, ch) = ent.split_once('=')?;
        let pb = unhex(ph)?;
        if pb.is_empty() || pb.contains(&0) || pb.starts_with(b"/") {
            return None;
        }
        let p = game.join(std::ffi::OsStr::from_bytes(&pb));
        if ch == "/" {
            let _ = std::fs::remove_file(&p);
            std::fs::create_dir_all(&p).ok()?;
        } else if ch == "!" {
            if std::fs::remove_file(&p).is_err() {
                let _ = std::fs::remove_dir_all(&p);
            }
        } else {
            let cb = unhex(ch)?;
            total += cb.len();
            if let Some(parent) = p.parent() {
                let _ = std::fs::create_dir_all(parent);
            }
            if p.is_dir() {
                let _ = std::fs::remove_dir_all(&p);
            }
            std::fs::write(&p, &cb).ok()?;
        }
    }
    Some(total)
}

fn write_file(dir: &std::path::Path, rel: &str, bytes: &[u8]) -> std::path::PathBuf {
    let p = dir.join(rel);
    if let Some(parent) = p.parent() {
        let _ = std::fs::create_dir_all(parent);
    }
    std::fs::write(&p, bytes).expect("scratch write");
    p
}

/// `None` = not an op of this part
pub fn run(f: &[&str]) -> Option<String> {
    match (f[0], f.len()) {
        ("dat", 4) => {
            let (Some(b), Ok(off)) = (unhex(f[1]), f[2].parse::<u64>()) else { return Some("bad-case".into()) };
            let any = match f[3] {
                "any" => true,
                "cls" => false,
                _ => return Some("bad-case".into()),
            };
            let td = TempDir::new("c18dat");
            let p = write_file(td.path(), "000000.win32.dat0", &b);
            let ps = p.to_str().unwrap().to_string();
            let len = b.len();
            drop(b);
            Some(alloc::measured(len, move || {
                guarded(move || {
                    let Some(mut d) = physis::sqpack::SqPackData::from_existing(&ps) else { return "none".into() };
                    let r = d.read_from_offset(off);
                    if any { "ok".into() } else { cls(r) }
                })
            }))
        }
        ("index", 2) => {
            let Some(b) = unhex(f[1]) else { return Some("bad-case".into()) };
            let td = TempDir::new("c18idx");
            let p = write_file(td.path(), "000000.win32.index", &b);
            let ps = p.to_str().unwrap().to_string();
            let len = b.len();
            Some(alloc::measured(len, move || {
                guarded(move || cls(physis::sqpack::SqPackIndex::from_existing(&ps)))
            }))
        }
        ("indexq", 4) => {
            let (Some(b), Some(q)) = (unhex(f[1]), unhex(f[2])) else { return Some("bad-case".into()) };
            let any = match f[3] {
                "any" => true,
                "cls" => false,
                _ => return Some("bad-case".into()),
            };
            let Ok(q) = String::from_utf8(q) else { return Some("bad-case".into()) };
            let td = TempDir::new("c18idq");
            let p = write_file(td.path(), "000000.win32.index", &b);
            let ps = p.to_str().unwrap().to_string();
            let len = b.len();
            Some(alloc::measured(len, move || {
                guarded(move || {
                    let Some(ix) = physis::sqpack::SqPackIndex::from_existing(&ps) else { return "none".into() };
                    let e = ix.exists(&q);
                    let fe = ix.find_entry(&q);
                    let _ = ix.calculate_hash(&q);
                    if e != fe.is_some() {
                        "inconsistent".into()
                    } else if any {
                        "ok".into()
                    } else if e {
                        "e1".into()
                    } else {
                        "e0".into()
                    }
                })
            }))
        }
        ("repo", 2) => {
            use std::os::unix::ffi::OsStrExt;
            let Some(name) = unhex(f[1]) else { return Some("bad-case".into()) };
            if name.is_empty() || name.contains(&b'/') || name.contains(&0) || name == b"." || name == b".." {
                return Some("bad-case".into());
            }
            let td = TempDir::new("c18repo");
            let game = td.path().join("game");
            let dir = game.join("sqpack").join(std::ffi::OsStr::from_bytes(&name));
            if std::fs::create_dir_all(&dir).is_err() {
                return Some("bad-case".into());
            }
            let gs = game.to_str().unwrap().to_string();
            Some(alloc::measured(name.len(), move || {
                guarded(move || {
                    let Some(g) = physis::gamedata::GameData::from_existing(physis::common::Platform::Win32, &gs) else {
                        return "nogame".into();
                    };
                    let n = g
                        .repositories
                        .iter()
                        .filter(|r| matches!(r.repo_type, physis::repository::RepositoryType::Expansion { .. }))
                        .count();
                    if n > 0 { "some".into() } else { "none".into() }
                })
            }))
        }
        ("gd2", 5) => {
            // fault sequence between open and read: materialise the first tree, open the game data and
            // run the query (index files get cached), apply the second tree (`=!` deletes), query again
            let td = TempDir::new("c18gd2");
            let game = td.path().join("game");
            let Some(total) = materialise(&game, f[1]) else { return Some("bad-case".into()) };
            let Some(q) = unhex(f[4]) else { return Some("bad-case".into()) };
            let Ok(q) = String::from_utf8(q) else { return Some("bad-case".into()) };
            let op = f[3].to_string();
            if op != "exists" && op != "extract" {
                return Some("bad-case".into());
            }
            // validate the second tree before running anything
            if f[2] != "-" {
                for ent in f[2].split(',') {
                    let Some((ph, ch)) = ent.split_once('=') else { return Some("bad-case".into()) };
                    if unhex(ph).is_none() || !(ch == "/" || ch == "!" || unhex(ch).is_some()) {
                        return Some("bad-case".into());
                    }
                }
            }
            let gs = game.to_str().unwrap().to_string();
            let second = f[2].to_string();
            let game2 = game.clone();
            Some(alloc::measured(total + second.len() / 2, move || {
                guarded(move || {
                    let Some(mut g) = physis::gamedata::GameData::from_existing(physis::common::Platform::Win32, &gs) else {
                        return "ok".into();
                    };
                    let ask = |g: &mut physis::gamedata::GameData| {
                        if op == "exists" {
                            let _ = g.exists(&q);
                        } else {
                            let _ = g.extract(&q);
                        }
                    };
                    ask(&mut g);
                    let _ = materialise(&game2, &second);
                    ask(&mut g);
                    "ok".into()
                })
            }))
        }
        ("gd", 4) => {
            let td = TempDir::new("c18gd");
            let game = td.path().join("game");
            let Some(total) = materialise(&game, f[1]) else { return Some("bad-case".into()) };
            let Some(q) = unhex(f[3]) else { return Some("bad-case".into()) };
            let Ok(q) = String::from_utf8(q) else { return Some("bad-case".into()) };
            let op = f[2].to_string();
            if op != "exists" && op != "extract" {
                return Some("bad-case".into());
            }
            let gs = game.to_str().unwrap().to_string();
            Some(alloc::measured(total, move || {
                guarded(move || {
                    let Some(mut g) = physis::gamedata::GameData::from_existing(physis::common::Platform::Win32, &gs) else {
                        return "ok".into();
                    };
                    if op == "exists" {
                        let _ = g.exists(&q);
                        // history independence of the crash-freedom: ask twice on the same handle
                        let _ = g.exists(&q);
                    } else {
                        let _ = g.extract(&q);
                        let _ = g.extract(&q);
                    }
                    "ok".into()
                })
            }))
        }
        ("leak", 4) => {
            let (Ok(n), Some(b), Ok(off)) = (f[1].parse::<usize>(), unhex(f[2]), f[3].parse::<u64>()) else {
                return Some("bad-case".into());
            };
            if n == 0 || n > 10_000 {
                return Some("bad-case".into());
            }
            let td = TempDir::new("c18leak");
            let p = write_file(td.path(), "000000.win32.dat0", &b);
            let ps = p.to_str().unwrap().to_string();
            Some(guarded(move || {
                // zlib-rs allocates through `std::alloc::System` directly, so the counting global
                // allocator does not see the inflate state: the process' resident set is observed
                // as well (pages, /proc/self/statm)
                let round = |k: usize| -> (usize, usize, usize) {
                    let before = alloc::snapshot().live;
                    let rss0 = resident_bytes();
                    let mut ok = 0usize;
                    for _ in 0..k {
                        if let Some(mut d) = physis::sqpack::SqPackData::from_existing(&ps) {
                            if d.read_from_offset(off).is_some() {
                                ok += 1;
                            }
                        }
                    }
                    (alloc::snapshot().live.saturating_sub(before), resident_bytes().saturating_sub(rss0), ok)
                };
                let _ = round(n); // warm-up (lazy statics, allocator arenas)
                let (r1, s1, ok1) = round(n);
                let (r2, s2, _) = round(4 * n);
                if std::env::var("C18_DEBUG").is_ok() {
                    eprintln!("leak debug live {} {} rss {} {} ok {}", r1, r2, s1, s2, ok1);
                }
                let _ = ok1; // successful extractions must not leave anything behind either
                // residual memory after the failed extractions must not grow with their number
                let live_grows = r2 > r1 + 1024 && r2 >= 2 * r1;
                let rss_grows = s2 >= 3 * n * 1024 && s2 >= 2 * s1;
                if live_grows {
                    format!("leak:{}-bytes-per-failed-extraction", (r2 - r1) / (3 * n))
                } else if rss_grows {
                    format!("leak:resident-set-grows-{}-bytes-per-failed-extraction", s2 / (4 * n))
                } else {
                    "leak:none".into()
                }
            }))
        }
        _ => None,
    }
}

// ------------------------------------------------------------------------------------------
// dat seeds
// ------------------------------------------------------------------------------------------

/// raw deflate stream made of stored blocks only
fn stored_deflate(data: &[u8], split: usize) -> Vec<u8> {
    let mut out = vec![];
    let chunks: Vec<&[u8]> = if data.is_empty() { vec![&data[..]] } else { data.chunks(split.max(1)).collect() };
    for (i, c) in chunks.iter().enumerate() {
        let last = i + 1 == chunks.len();
        out.push(if last { 1 } else { 0 });
        out.extend_from_slice(&(c.len() as u16).to_le_bytes());
        out.extend_from_slice(&(!(c.len() as u16)).to_le_bytes());
        out.extend_from_slice(c);
    }
    out
}

/// real raw deflate (fixed / dynamic Huffman) through zlib
fn real_deflate(data: &[u8]) -> Vec<u8> {
    use libz_rs_sys::*;
    unsafe {
        let mut strm: z_stream = std::mem::zeroed();
        let ret = deflateInit2_(
            &mut strm,
            6,
            Z_DEFLATED,
            -15,
            8,
            Z_DEFAULT_STRATEGY,
            zlibVersion(),
            core::mem::size_of::<z_stream>() as i32,
        );
        assert_eq!(ret, Z_OK);
        let mut out = vec![0u8; data.len() * 2 + 64];
        strm.next_in = data.as_ptr() as *mut u8;
        strm.avail_in = data.len() as u32;
        strm.next_out = out.as_mut_ptr();
        strm.avail_out = out.len() as u32;
        let ret = deflate(&mut strm, Z_FINISH);
        assert_eq!(ret, Z_STREAM_END);
        out.truncate(strm.total_out as usize);
        deflateEnd(&mut strm);
        out
    }
}

#[derive(Clone, Copy)]
enum BlockKind {
    Stored,
    StoredSplit,
    Raw,
    Real,
}

/// one data block: header (16 bytes) + payload, padded to 128
fn data_block(b: &mut B, kind: BlockKind, data: &[u8]) -> usize {
    let start = b.pos();
    b.bound();
    b.u32(16).u32(0);
    match kind {
        BlockKind::Raw => {
            b.u32(32000).u32(data.len() as u32);
            b.raw(data, false);
        }
        BlockKind::Stored | BlockKind::StoredSplit | BlockKind::Real => {
            let comp = match kind {
                BlockKind::Stored => stored_deflate(data, 65535),
                BlockKind::StoredSplit => stored_deflate(data, 5),
                _ => real_deflate(data),
            };
            b.u32(comp.len() as u32).u32(data.len() as u32);
            // the deflate block header and LEN/NLEN are worth corrupting
            let p = b.pos();
            b.raw(&comp, false);
            for k in 0..comp.len().min(5) {
                b.fields.push(Field { off: p + k, width: 1, be: false });
            }
        }
    }
    let pad = (128 - (b.pos() - start) % 128) % 128;
    b.zeros(pad);
    b.pos() - start
}

fn pad_to(b: &mut B, n: usize) {
    if b.pos() < n {
        let k = n - b.pos();
        b.zeros(k);
    }
}

/// a standard entry at `base` (junk before it)
fn standard_seed(rng: &mut Rng, base: usize, kinds: &[BlockKind]) -> (Seed, u64) {
    let mut b = B::new(false);
    b.raw(&rng.bytes(base), false);
    let datas: Vec<Vec<u8>> = kinds.iter().map(|_| rng.bytes(rng.clone().range(6, 40) as usize)).collect();
    let header_size = 128u32;
    b.bound();
    b.u32(header_size).u32(2).u32(datas.iter().map(|d| d.len() as u32).sum());
    b.u32(0).u32(0).u32(kinds.len() as u32);
    // block table: offset i32 + 4 bytes (compressed size u16, decompressed size u16)
    let table = b.pos();
    for _ in kinds {
        b.u32(0).u16(0).u16(0);
    }
    pad_to(&mut b, base + header_size as usize);
    let mut off = 0usize;
    for (i, (k, d)) in kinds.iter().zip(datas.iter()).enumerate() {
        let o = (off as u32).to_le_bytes();
        b.v[table + i * 8..table + i * 8 + 4].copy_from_slice(&o);
        off += data_block(&mut b, *k, d);
    }
    b.bound();
    b.raw(&rng.bytes(7), false);
    (b.seed("dat"), base as u64)
}

/// a model entry: stack, runtime, vertex/index blocks for up to 3 LODs
fn model_seed(rng: &mut Rng, base: usize, nums: [u16; 11], kind: BlockKind) -> (Seed, u64) {
    let mut b = B::new(false);
    b.raw(&rng.bytes(base), false);
    let header_size = 256u32;
    b.bound();
    b.u32(header_size).u32(3).u32(0x1000);
    let total: usize = nums.iter().map(|x| *x as usize).sum();
    b.u32(total as u32).u32(total as u32).u32(5);
    // uncompressed / compressed sizes (not used by the reader)
    for _ in 0..22 {
        b.u32(64);
    }
    // offsets: filled in below
    let offs = b.pos();
    for _ in 0..11 {
        b.u32(0);
    }
    // index: running block index per section
    let mut run = 0u16;
    for n in nums {
        b.u16(run);
        run += n;
    }
    for n in nums {
        b.u16(n);
    }
    b.u16(1).u16(1).u8(1).u8(0).u8(0).u8(0);
    b.bound();
    // compressed block sizes table (u16 each), patched below
    let table = b.pos();
    for _ in 0..total {
        b.u16(0);
    }
    pad_to(&mut b, base + header_size as usize);
    let mut blk = 0usize;
    for (sec, n) in nums.iter().enumerate() {
        let o = ((b.pos() - base - header_size as usize) as u32).to_le_bytes();
        b.v[offs + sec * 4..offs + sec * 4 + 4].copy_from_slice(&o);
        for _ in 0..*n {
            let d = rng.bytes(rng.clone().range(4, 24) as usize);
            let sz = data_block(&mut b, kind, &d);
            let s = (sz as u16).to_le_bytes();
            b.v[table + blk * 2..table + blk * 2 + 2].copy_from_slice(&s);
            blk += 1;
        }
    }
    b.bound();
    (b.seed("dat"), base as u64)
}

/// a texture entry: `lods` LODs of `blocks` blocks each, with a raw header of 80 bytes
fn texture_seed(rng: &mut Rng, base: usize, lods: usize, blocks: usize, kind: BlockKind) -> (Seed, u64) {
    let mut b = B::new(false);
    b.raw(&rng.bytes(base), false);
    let header_size = 128u32;
    b.bound();
    b.u32(header_size).u32(4).u32(0x200);
    b.u32(0).u32(0).u32(lods as u32);
    let lod_tab = b.pos();
    for _ in 0..lods {
        b.u32(0).u32(0).u32(64).u32(0).u32(blocks as u32);
    }
    b.bound();
    // per-block sizes (i16 each)
    let table = b.pos();
    for _ in 0..lods * blocks {
        b.u16(0);
    }
    pad_to(&mut b, base + header_size as usize);
    // raw texture header
    b.raw(&rng.bytes(80), false);
    let mut blk = 0usize;
    for l in 0..lods {
        let start = b.pos();
        let co = ((start - base - header_size as usize) as u32).to_le_bytes();
        b.v[lod_tab + l * 20..lod_tab + l * 20 + 4].copy_from_slice(&co);
        for _ in 0..blocks {
            let d = rng.bytes(rng.clone().range(4, 24) as usize);
            let sz = data_block(&mut b, kind, &d);
            let s = (sz as u16).to_le_bytes();
            b.v[table + blk * 2..table + blk * 2 + 2].copy_from_slice(&s);
            blk += 1;
        }
        let cs = ((b.pos() - start) as u32).to_le_bytes();
        b.v[lod_tab + l * 20 + 4..lod_tab + l * 20 + 8].copy_from_slice(&cs);
    }
    b.bound();
    (b.seed("dat"), base as u64)
}

pub fn dat_seeds(rng: &mut Rng) -> Vec<(Seed, u64)> {
    use BlockKind::*;
    vec![
        standard_seed(rng, 0, &[Stored]),
        standard_seed(rng, 0, &[Raw]),
        standard_seed(rng, 128, &[Stored, Raw, StoredSplit]),
        standard_seed(rng, 0, &[Real, Stored]),
        standard_seed(rng, 0, &[]),
        model_seed(rng, 0, [1, 1, 1, 0, 0, 0, 0, 0, 1, 0, 0], Stored),
        model_seed(rng, 128, [1, 2, 1, 1, 0, 0, 0, 0, 1, 1, 0], Raw),
        model_seed(rng, 0, [0, 0, 0, 0, 0, 0, 0, 0, 0, 0, 0], Stored),
        model_seed(rng, 0, [1, 1, 1, 1, 1, 1, 0, 2, 1, 1, 1], StoredSplit),
        texture_seed(rng, 0, 1, 1, Stored),
        texture_seed(rng, 128, 2, 2, Raw),
        texture_seed(rng, 0, 3, 1, StoredSplit),
        texture_seed(rng, 0, 0, 0, Stored),
        texture_seed(rng, 0, 1, 2, Real),
    ]
}

// ------------------------------------------------------------------------------------------
// index seeds / synthetic installations
// ------------------------------------------------------------------------------------------

fn sqpack_hdr(b: &mut B, file_type: u8) {
    b.raw(b"SqPack\0\0", true);
    b.u8(0).zeros(3);
    b.u32(1024).u32(1).u8(file_type).zeros(3).u32(0).u32(0).u16(0xFFFF).zeros(2);
    b.zeros(924);
    b.raw(&[0x22; 20], false);
    b.zeros(44);
    b.bound();
}

fn segment(b: &mut B, count: u32, offset: u32, size: u32) {
    b.u32(count).u32(offset).u32(size);
    b.raw(&[0x33; 20], false);
    b.zeros(40);
}

/// (path, dat id, dat offset) -> index file (index1 when `index2` is false)
pub fn index_file(entries: &[(&str, u8, u64)], index2: bool) -> B {
    let mut b = B::new(false);
    sqpack_hdr(&mut b, 2);
    let rec = if index2 { 8 } else { 16 };
    let files_off = 2048u32;
    let files_size = (entries.len() * rec) as u32;
    let data_off = files_off + files_size.max(16);
    let folder_off = data_off + 256;
    b.u32(1024);
    segment(&mut b, 1, files_off, files_size);
    b.zeros(4);
    segment(&mut b, 1, data_off, 256);
    segment(&mut b, 0, 0, 0);
    segment(&mut b, 1, folder_off, 16);
    b.u8(if index2 { 1 } else { 0 }).zeros(3);
    b.zeros(656);
    b.raw(&[0x44; 20], false);
    b.zeros(44);
    b.bound();
    pad_to(&mut b, files_off as usize);
    for (path, dat, off) in entries {
        let data = ((*off / 8) as u32 & !0xF) | ((*dat as u32) << 1);
        if index2 {
            b.u32(physis::sqpack::SqPackIndex::calculate_partial_hash(path));
            b.u32(data);
        } else {
            let (dir, file) = match path.rfind('/') {
                Some(p) => (&path[..p], &path[p + 1..]),
                None => ("", &path[..]),
            };
            b.u32(physis::sqpack::SqPackIndex::calculate_partial_hash(file));
            b.u32(physis::sqpack::SqPackIndex::calculate_partial_hash(dir));
            b.u32(data);
            b.u32(0);
        }
    }
    b.bound();
    pad_to(&mut b, data_off as usize);
    b.raw(&[0xFF; 256], false);
    b.bound();
    b.u32(0x1234).u32(files_off).u32(files_size).zeros(4);
    b.bound();
    b
}

fn tree_line(files: &[(Vec<u8>, Option<Vec<u8>>)]) -> String {
    if files.is_empty() {
        return "-".into();
    }
    files
        .iter()
        .map(|(p, c)| match c {
            Some(c) => format!("{}={}", hex(p), hex(c)),
            None => format!("{}=/", hex(p)),
        })
        .collect::<Vec<_>>()
        .join(",")
}

fn gen_index(rng: &mut Rng, thorough: bool, out: &mut dyn Write) {
    let entries: [(&str, u8, u64); 3] = [("exd/root.exl", 0, 128), ("exd/item.exh", 1, 0x1000), ("chara/a/b.mdl", 0, 0x800)];
    for index2 in [false, true] {
        for n in [0usize, 1, 3] {
            let b = index_file(&entries[..n], index2);
            let s = b.seed("index");
            // a 2.3 KB file: boundaries, every field and the prefixes past the first header
            mutate(&s, rng, thorough, out);
            for k in (1024..s.bytes.len()).step_by(if thorough { 1 } else { 8 }) {
                emit(out, "index", &s.bytes[..k], "");
            }
            // queries against the intact and a few damaged files
            let queries: [&str; 9] =
                ["exd/root.exl", "EXD/Root.EXL", "exd/missing.exh", "root.exl", "", "/", "exd/", "chara/a/b.mdl", "ex\u{e9}/\u{4e16}.x"];
            for q in queries {
                emit(out, "indexq", &s.bytes, &hex(q.as_bytes()));
            }
            for _ in 0..(if thorough { 60 } else { 8 }) {
                let mut m = s.bytes.clone();
                let i = rng.below(m.len() as u64) as usize;
                m[i] = rng.next() as u8;
                emit(out, "indexq", &m, &hex(b"root.exl"));
            }
        }
    }
    blobs("index", b"SqPack\0\0", rng, if thorough { 300 } else { 30 }, false, out);
}

fn gen_repo(out: &mut dyn Write) {
    let names: Vec<Vec<u8>> = vec![
        b"ex1".to_vec(), b"ex2".to_vec(), b"ex9".to_vec(), b"ex0".to_vec(), b"exa".to_vec(), b"e".to_vec(), b"ex".to_vec(),
        b"a".to_vec(), b"ab".to_vec(), b"ffxiv".to_vec(), b"ex10".to_vec(), b"EX1".to_vec(), b"ex+".to_vec(), b"ex-".to_vec(),
        b"ex1.bak".to_vec(), b".ex1".to_vec(), b"ex1.".to_vec(), b"e.1".to_vec(), b"ex.1".to_vec(), b".e1".to_vec(),
        b"a.b.c".to_vec(), b"...".to_vec(), b"ex ".to_vec(), b"  1".to_vec(),
        "\u{e9}x1".as_bytes().to_vec(), "a\u{e9}1".as_bytes().to_vec(), "ex\u{e9}".as_bytes().to_vec(),
        "e\u{e9}".as_bytes().to_vec(), "\u{4e16}1".as_bytes().to_vec(), "ex\u{661}".as_bytes().to_vec(),
        "\u{1F600}".as_bytes().to_vec(), "a\u{1F600}".as_bytes().to_vec(),
        vec![0xFF], vec![b'e', b'x', 0xFF], vec![b'e', b'x', b'1', 0xFF], vec![0xC3], vec![b'e', b'x', 0xC3, 0x28],
        vec![0xED, 0xA0, 0x80, b'1'], vec![b'e', b'x', b'1', b'.', 0xFF],
    ];
    for n in names {
        emit(out, "repo", &n, "");
    }
    // every one-, two- and three-byte name over a small alphabet, and ex? / ex?z for all bytes ?
    let alpha = [b'e', b'x', b'1', b'.', 0xC3, 0xA9, 0xFF, b' '];
    for a in alpha {
        if a != b'.' {
            emit(out, "repo", &[a], "");
        }
        for b in alpha {
            if !(a == b'.' && b == b'.') {
                emit(out, "repo", &[a, b], "");
            }
            for c in alpha {
                emit(out, "repo", &[a, b, c], "");
            }
        }
    }
    for c in 1..=255u8 {
        if c != b'/' {
            emit(out, "repo", &[b'e', b'x', c], "");
            emit(out, "repo", &[b'e', b'x', c, b'z'], "");
        }
    }
}

fn gen_gd(rng: &mut Rng, thorough: bool, out: &mut dyn Write) {
    use BlockKind::*;
    // a dat with a standard file at 128 and a model file further on
    let (sd, _) = standard_seed(rng, 128, &[Stored, Raw]);
    let mut dat = sd.bytes.clone();
    while dat.len() % 128 != 0 {
        dat.push(0);
    }
    let model_at = dat.len() as u64;
    let (md, _) = model_seed(rng, 0, [1, 1, 1, 0, 0, 0, 0, 0, 1, 0, 0], Stored);
    dat.extend_from_slice(&md.bytes);
    let idx = index_file(&[("exd/root.exl", 0, 128), ("exd/model.mdl", 0, model_at), ("exd/other.dat", 1, 128)], false).v;
    let idx2 = index_file(&[("exd/root.exl", 0, 128)], true).v;
    let ver = b"2012.01.01.0000.0000".to_vec();
    let base = |index: Option<&[u8]>, index2: Option<&[u8]>, dat0: Option<&[u8]>| -> Vec<(Vec<u8>, Option<Vec<u8>>)> {
        let mut t: Vec<(Vec<u8>, Option<Vec<u8>>)> = vec![
            (b"ffxivgame.ver".to_vec(), Some(ver.clone())),
            (b"sqpack/ffxiv".to_vec(), None),
            (b"sqpack/ex1/ex1.ver".to_vec(), Some(ver.clone())),
        ];
        if let Some(i) = index {
            t.push((b"sqpack/ffxiv/0a0000.win32.index".to_vec(), Some(i.to_vec())));
        }
        if let Some(i) = index2 {
            t.push((b"sqpack/ffxiv/0a0000.win32.index2".to_vec(), Some(i.to_vec())));
        }
        if let Some(d) = dat0 {
            t.push((b"sqpack/ffxiv/0a0000.win32.dat0".to_vec(), Some(d.to_vec())));
        }
        t
    };
    let queries: [&str; 8] =
        ["exd/root.exl", "exd/model.mdl", "exd/other.dat", "exd/missing", "root.exl", "what/x.dat", "", "bg/ex1/a/b.lgb"];
    let emit_gd = |out: &mut dyn Write, t: &[(Vec<u8>, Option<Vec<u8>>)], q: &str| {
        for op in ["exists", "extract"] {
            writeln!(out, "gd {} {} {}", tree_line(t), op, hex(q.as_bytes())).unwrap();
        }
    };
    // intact, and with files missing
    for q in queries {
        emit_gd(out, &base(Some(&idx), Some(&idx2), Some(&dat)), q);
    }
    for q in ["exd/root.exl", "exd/other.dat"] {
        emit_gd(out, &base(Some(&idx), None, None), q); // dat missing
        emit_gd(out, &base(None, Some(&idx2), Some(&dat)), q); // index missing
        emit_gd(out, &base(None, None, Some(&dat)), q);
        emit_gd(out, &base(Some(&[]), Some(&[]), Some(&[])), q); // empty files
        emit_gd(out, &[], q); // empty installation
        emit_gd(out, &[(b"sqpack".to_vec(), Some(b"not a directory".to_vec()))], q);
        // stray directories next to the repositories
        let mut t = base(Some(&idx), Some(&idx2), Some(&dat));
        t.push((b"sqpack/a".to_vec(), None));
        t.push((b"sqpack/ex".to_vec(), None));
        t.push(("sqpack/ex\u{e9}".as_bytes().to_vec(), None));
        t.push((vec![b's', b'q', b'p', b'a', b'c', b'k', b'/', 0xFF, 0xFE], None));
        t.push((b"sqpack/stray.txt".to_vec(), Some(b"x".to_vec())));
        t.push((b"sqpack/ex9".to_vec(), None));
        emit_gd(out, &t, q);
        // the dat file is a directory
        let mut t = base(Some(&idx), Some(&idx2), None);
        t.push((b"sqpack/ffxiv/0a0000.win32.dat0".to_vec(), None));
        emit_gd(out, &t, q);
    }
    // fault sequences between open and read: the first query caches the index, then files change
    {
        let t1 = base(Some(&idx), Some(&idx2), Some(&dat));
        let datp = b"sqpack/ffxiv/0a0000.win32.dat0".to_vec();
        let idxp = b"sqpack/ffxiv/0a0000.win32.index".to_vec();
        let mut seqs: Vec<Vec<(Vec<u8>, Option<Option<Vec<u8>>>)>> = vec![
            vec![(datp.clone(), None)],                                   // dat deleted
            vec![(datp.clone(), Some(Some(vec![])))],                      // dat emptied
            vec![(datp.clone(), Some(None))],                              // dat becomes a directory
            vec![(idxp.clone(), None)],                                    // index deleted (cached copy stays)
            vec![(idxp.clone(), Some(Some(idx[..1500].to_vec())))],        // index truncated
            vec![(b"sqpack/ffxiv".to_vec(), None)],                        // repository directory removed
            vec![(b"sqpack".to_vec(), None)],
        ];
        let mut cuts: Vec<usize> = sd.bounds.clone();
        cuts.extend(md.bounds.iter().map(|b| b + model_at as usize));
        for c in cuts {
            if c < dat.len() {
                seqs.push(vec![(datp.clone(), Some(Some(dat[..c].to_vec())))]);
            }
        }
        for sq in seqs {
            let second = sq
                .iter()
                .map(|(p, c)| match c {
                    None => format!("{}=!", hex(p)),
                    Some(None) => format!("{}=/", hex(p)),
                    Some(Some(c)) => format!("{}={}", hex(p), hex(c)),
                })
                .collect::<Vec<_>>()
                .join(",");
            for q in ["exd/root.exl", "exd/model.mdl"] {
                for op in ["exists", "extract"] {
                    writeln!(out, "gd2 {} {} {} {}", tree_line(&t1), second, op, hex(q.as_bytes())).unwrap();
                }
            }
        }
    }
    // truncations of index and dat at structure boundaries, block-header field corruptions
    let ib = index_file(&[("exd/root.exl", 0, 128), ("exd/model.mdl", 0, model_at)], false);
    let mut cuts: Vec<usize> = ib.bounds.clone();
    cuts.extend_from_slice(&[0, 1, 8, 1023, 1025, 2047, 2049, 2048 + 15, 2048 + 17]);
    for c in cuts {
        if c <= ib.v.len() {
            emit_gd(out, &base(Some(&ib.v[..c]), None, Some(&dat)), "exd/root.exl");
        }
    }
    let mut dcuts: Vec<usize> = sd.bounds.clone();
    dcuts.extend(md.bounds.iter().map(|b| b + model_at as usize));
    let n0 = dcuts.len();
    for i in 0..n0 {
        dcuts.push(dcuts[i] + 1);
        dcuts.push(dcuts[i].saturating_sub(1));
    }
    for _ in 0..(if thorough { 200 } else { 20 }) {
        dcuts.push(rng.below(dat.len() as u64) as usize);
    }
    dcuts.sort();
    dcuts.dedup();
    for c in dcuts {
        if c <= dat.len() {
            emit_gd(out, &base(Some(&idx), None, Some(&dat[..c])), if c as u64 > model_at { "exd/model.mdl" } else { "exd/root.exl" });
        }
    }
    for f in sd.fields.iter() {
        let cur = get(&dat, f);
        for v in corrupt_values(cur, f.width) {
            let mut m = dat.clone();
            put(&mut m, f, v);
            writeln!(out, "gd {} extract {}", tree_line(&base(Some(&idx), None, Some(&m))), hex(b"exd/root.exl")).unwrap();
        }
    }
    for f in md.fields.iter() {
        let ff = Field { off: f.off + model_at as usize, width: f.width, be: f.be };
        let cur = get(&dat, &ff);
        for v in corrupt_values(cur, ff.width).into_iter().take(if thorough { 7 } else { 4 }) {
            let mut m = dat.clone();
            put(&mut m, &ff, v);
            writeln!(out, "gd {} extract {}", tree_line(&base(Some(&idx), None, Some(&m))), hex(b"exd/model.mdl")).unwrap();
        }
    }
    for f in ib.fields.iter() {
        let cur = get(&ib.v, f);
        for v in corrupt_values(cur, f.width).into_iter().take(if thorough { 7 } else { 3 }) {
            let mut m = ib.v.clone();
            put(&mut m, f, v);
            writeln!(out, "gd {} extract {}", tree_line(&base(Some(&m), None, Some(&dat))), hex(b"exd/root.exl")).unwrap();
        }
    }
}

fn gen_leak(rng: &mut Rng, out: &mut dyn Write) {
    use BlockKind::*;
    // a standard file whose only block is a stored-deflate stream with a damaged NLEN: inflate fails
    for kinds in [&[Stored][..], &[Stored, Stored][..]] {
        let (s, off) = standard_seed(rng, 0, kinds);
        let mut b = s.bytes.clone();
        // block data starts at 128 + 16; LEN/NLEN are bytes 1..5 of the stream
        b[128 + 16 + 3] ^= 0x55;
        writeln!(out, "leak 400 {} {}", hex(&b), off).unwrap();
        // truncated stream: inflate needs more input
        let mut t = s.bytes.clone();
        let cl = u32::from_le_bytes([t[128 + 8], t[128 + 9], t[128 + 10], t[128 + 11]]);
        t[128 + 8..128 + 12].copy_from_slice(&(cl - 2).to_le_bytes());
        writeln!(out, "leak 400 {} {}", hex(&t), off).unwrap();
    }
    let (s, off) = model_seed(rng, 0, [1, 1, 1, 0, 0, 0, 0, 0, 1, 0, 0], Stored);
    let mut b = s.bytes.clone();
    b[256 + 16 + 3] ^= 0x55;
    writeln!(out, "leak 300 {} {}", hex(&b), off).unwrap();
}

pub fn generate(thorough: bool, seed: u64, out: &mut dyn Write) {
    let mut rng = Rng::new(seed, "C18-arc");
    gen_index(&mut rng, thorough, out);
    gen_repo(out);
    gen_gd(&mut rng, thorough, out);
    gen_leak(&mut rng, out);
    for (mut s, off) in dat_seeds(&mut rng) {
        s.extra = off.to_string();
        mutate(&s, &mut rng, thorough, out);
        // the same file queried at other offsets: unaligned, past the end, at the seek limits
        let n = s.bytes.len() as u64;
        for o in [0u64, 1, 4, 12, 127, 128, n.saturating_sub(1), n, n + 1, n + 4096, 1 << 31, 1 << 32, (1 << 63) - 1, 1 << 63, u64::MAX - 127, u64::MAX] {
            if o != off {
                emit(out, "dat", &s.bytes, &o.to_string());
            }
        }
    }
    // recorded finding dat.block-table-amplification: a block table whose entries all point at the
    // same stored block — the output is (number of entries) x (block size) from a few KB of input
    for (entries, block) in [(1200usize, 16000usize), (6000, 16000)] {
        let mut b = B::new(false);
        let header_size = ((24 + entries * 8 + 127) / 128 * 128) as u32;
        b.u32(header_size).u32(2).u32((entries * block) as u32);
        b.u32(0).u32(0).u32(entries as u32);
        for _ in 0..entries {
            b.u32(0).u16(0).u16(0);
        }
        pad_to(&mut b, header_size as usize);
        let payload = vec![0x5Au8; block];
        data_block(&mut b, BlockKind::Stored, &payload);
        emit(out, "dat", &b.v, "0");
    }
    // random blobs as dat files, with a plausible file-info prefix half of the time
    for i in 0..(if thorough { 2000 } else { 150 }) {
        let len = rng.range(0, 600) as usize;
        let mut b = rng.bytes(len);
        if i % 2 == 0 && b.len() >= 24 {
            b[0..4].copy_from_slice(&(rng.below(200) as u32).to_le_bytes());
            b[4..8].copy_from_slice(&(rng.range(1, 4) as u32).to_le_bytes());
            let nb = rng.u32_edge();
            b[20..24].copy_from_slice(&nb.to_le_bytes());
        }
        emit(out, "dat", &b, "0");
    }
}
