//! C18 part `arc`: archive readers: index, dat, GameData, repository discovery, inflate life-cycle
//!
//! ops:
//!   `dat <hex> <offset> [cls|any]`   dat file bytes, `SqPackData::read_from_offset(offset)`;
//!                                    `cls` prints none/some, `any` prints `ok` for both (the Lean
//!                                    driver appends the mode: `any` when the outcome depends on an
//!                                    inflate result its stored-block oracle cannot decide)
//!   `index <hex>`                    `SqPackIndex::from_existing` -> none/some
//!   `indexq <hex> <pathhex>`         + `exists` / `find_entry` -> none | ok
//!   `repo <namehex>`                 a directory of that name, `Repository::from_existing_expansion` -> none/some
//!   `gd <tree> <op> <pathhex>`       synthetic installation (`rel/path:hex;rel/dir/:-;…`), GameData
//!                                    from_existing + exists/extract -> ok
//!   `leak <n> <dat hex> <offset>`    n failed extractions; residual live heap must not grow with n
#![allow(unused)]
use crate::alloc;
use crate::c18::*;
use crate::util::*;
use std::io::Write;

fn write_file(dir: &std::path::Path, rel: &str, bytes: &[u8]) -> std::path::PathBuf {
    let p = dir.join(rel);
    if let Some(parent) = p.parent() {
        let _ = std::fs::create_dir_all(parent);
    }
    std::fs::write(&p, bytes).expect("scratch write");
    p
}

/// `None` = not an op of this part
pub fn run(f: &[&str]) -> Option<String> {
    match (f[0], f.len()) {
        ("dat", 4) => {
            let (Some(b), Ok(off)) = (unhex(f[1]), f[2].parse::<u64>()) else { return Some("bad-case".into()) };
            let any = match f[3] {
                "any" => true,
                "cls" => false,
                _ => return Some("bad-case".into()),
            };
            let td = TempDir::new("c18dat");
            let p = write_file(td.path(), "000000.win32.dat0", &b);
            let ps = p.to_str().unwrap().to_string();
            let len = b.len();
            drop(b);
            Some(alloc::measured(len, move || {
                guarded(move || {
                    let Some(mut d) = physis::sqpack::SqPackData::from_existing(&ps) else { return "none".into() };
                    let r = d.read_from_offset(off);
                    if any { "ok".into() } else { cls(r) }
                })
            }))
        }
        _ => None,
    }
}

// ------------------------------------------------------------------------------------------
// dat seeds
// ------------------------------------------------------------------------------------------

/// raw deflate stream made of stored blocks only
fn stored_deflate(data: &[u8], split: usize) -> Vec<u8> {
    let mut out = vec![];
    let chunks: Vec<&[u8]> = if data.is_empty() { vec![&data[..]] } else { data.chunks(split.max(1)).collect() };
    for (i, c) in chunks.iter().enumerate() {
        let last = i + 1 == chunks.len();
        out.push(if last { 1 } else { 0 });
        out.extend_from_slice(&(c.len() as u16).to_le_bytes());
        out.extend_from_slice(&(!(c.len() as u16)).to_le_bytes());
        out.extend_from_slice(c);
    }
    out
}

/// real raw deflate (fixed / dynamic Huffman) through zlib
fn real_deflate(data: &[u8]) -> Vec<u8> {
    use libz_rs_sys::*;
    unsafe {
        let mut strm: z_stream = std::mem::zeroed();
        let ret = deflateInit2_(
            &mut strm,
            6,
            Z_DEFLATED,
            -15,
            8,
            Z_DEFAULT_STRATEGY,
            zlibVersion(),
            core::mem::size_of::<z_stream>() as i32,
        );
        assert_eq!(ret, Z_OK);
        let mut out = vec![0u8; data.len() * 2 + 64];
        strm.next_in = data.as_ptr() as *mut u8;
        strm.avail_in = data.len() as u32;
        strm.next_out = out.as_mut_ptr();
        strm.avail_out = out.len() as u32;
        let ret = deflate(&mut strm, Z_FINISH);
        assert_eq!(ret, Z_STREAM_END);
        out.truncate(strm.total_out as usize);
        deflateEnd(&mut strm);
        out
    }
}

#[derive(Clone, Copy)]
enum BlockKind {
    Stored,
    StoredSplit,
    Raw,
    Real,
}

/// one data block: header (16 bytes) + payload, padded to 128
fn data_block(b: &mut B, kind: BlockKind, data: &[u8]) -> usize {
    let start = b.pos();
    b.bound();
    b.u32(16).u32(0);
    match kind {
        BlockKind::Raw => {
            b.u32(32000).u32(data.len() as u32);
            b.raw(data, false);
        }
        BlockKind::Stored | BlockKind::StoredSplit | BlockKind::Real => {
            let comp = match kind {
                BlockKind::Stored => stored_deflate(data, 65535),
                BlockKind::StoredSplit => stored_deflate(data, 5),
                _ => real_deflate(data),
            };
            b.u32(comp.len() as u32).u32(data.len() as u32);
            // the deflate block header and LEN/NLEN are worth corrupting
            let p = b.pos();
            b.raw(&comp, false);
            for k in 0..comp.len().min(5) {
                b.fields.push(Field { off: p + k, width: 1, be: false });
            }
        }
    }
    let pad = (128 - (b.pos() - start) % 128) % 128;
    b.zeros(pad);
    b.pos() - start
}

fn pad_to(b: &mut B, n: usize) {
    if b.pos() < n {
        let k = n - b.pos();
        b.zeros(k);
    }
}

/// a standard entry at `base` (junk before it)
fn standard_seed(rng: &mut Rng, base: usize, kinds: &[BlockKind]) -> (Seed, u64) {
    let mut b = B::new(false);
    b.raw(&rng.bytes(base), false);
    let datas: Vec<Vec<u8>> = kinds.iter().map(|_| rng.bytes(rng.clone().range(6, 40) as usize)).collect();
    let header_size = 128u32;
    b.bound();
    b.u32(header_size).u32(2).u32(datas.iter().map(|d| d.len() as u32).sum());
    b.u32(0).u32(0).u32(kinds.len() as u32);
    // block table: offset i32 + 4 bytes (compressed size u16, decompressed size u16)
    let table = b.pos();
    for _ in kinds {
        b.u32(0).u16(0).u16(0);
    }
    pad_to(&mut b, base + header_size as usize);
    let mut off = 0usize;
    for (i, (k, d)) in kinds.iter().zip(datas.iter()).enumerate() {
        let o = (off as u32).to_le_bytes();
        b.v[table + i * 8..table + i * 8 + 4].copy_from_slice(&o);
        off += data_block(&mut b, *k, d);
    }
    b.bound();
    b.raw(&rng.bytes(7), false);
    (b.seed("dat"), base as u64)
}

/// a model entry: stack, runtime, vertex/index blocks for up to 3 LODs
fn model_seed(rng: &mut Rng, base: usize, nums: [u16; 11], kind: BlockKind) -> (Seed, u64) {
    let mut b = B::new(false);
    b.raw(&rng.bytes(base), false);
    let header_size = 256u32;
    b.bound();
    b.u32(header_size).u32(3).u32(0x1000);
    let total: usize = nums.iter().map(|x| *x as usize).sum();
    b.u32(total as u32).u32(total as u32).u32(5);
    // uncompressed / compressed sizes (not used by the reader)
    for _ in 0..22 {
        b.u32(64);
    }
    // offsets: filled in below
    let offs = b.pos();
    for _ in 0..11 {
        b.u32(0);
    }
    // index: running block index per section
    let mut run = 0u16;
    for n in nums {
        b.u16(run);
        run += n;
    }
    for n in nums {
        b.u16(n);
    }
    b.u16(1).u16(1).u8(1).u8(0).u8(0).u8(0);
    b.bound();
    // compressed block sizes table (u16 each), patched below
    let table = b.pos();
    for _ in 0..total {
        b.u16(0);
    }
    pad_to(&mut b, base + header_size as usize);
    let mut blk = 0usize;
    for (sec, n) in nums.iter().enumerate() {
        let o = ((b.pos() - base - header_size as usize) as u32).to_le_bytes();
        b.v[offs + sec * 4..offs + sec * 4 + 4].copy_from_slice(&o);
        for _ in 0..*n {
            let d = rng.bytes(rng.clone().range(4, 24) as usize);
            let sz = data_block(&mut b, kind, &d);
            let s = (sz as u16).to_le_bytes();
            b.v[table + blk * 2..table + blk * 2 + 2].copy_from_slice(&s);
            blk += 1;
        }
    }
    b.bound();
    (b.seed("dat"), base as u64)
}

/// a texture entry: `lods` LODs of `blocks` blocks each, with a raw header of 80 bytes
fn texture_seed(rng: &mut Rng, base: usize, lods: usize, blocks: usize, kind: BlockKind) -> (Seed, u64) {
    let mut b = B::new(false);
    b.raw(&rng.bytes(base), false);
    let header_size = 128u32;
    b.bound();
    b.u32(header_size).u32(4).u32(0x200);
    b.u32(0).u32(0).u32(lods as u32);
    let lod_tab = b.pos();
    for _ in 0..lods {
        b.u32(0).u32(0).u32(64).u32(0).u32(blocks as u32);
    }
    b.bound();
    // per-block sizes (i16 each)
    let table = b.pos();
    for _ in 0..lods * blocks {
        b.u16(0);
    }
    pad_to(&mut b, base + header_size as usize);
    // raw texture header
    b.raw(&rng.bytes(80), false);
    let mut blk = 0usize;
    for l in 0..lods {
        let start = b.pos();
        let co = ((start - base - header_size as usize) as u32).to_le_bytes();
        b.v[lod_tab + l * 20..lod_tab + l * 20 + 4].copy_from_slice(&co);
        for _ in 0..blocks {
            let d = rng.bytes(rng.clone().range(4, 24) as usize);
            let sz = data_block(&mut b, kind, &d);
            let s = (sz as u16).to_le_bytes();
            b.v[table + blk * 2..table + blk * 2 + 2].copy_from_slice(&s);
            blk += 1;
        }
        let cs = ((b.pos() - start) as u32).to_le_bytes();
        b.v[lod_tab + l * 20 + 4..lod_tab + l * 20 + 8].copy_from_slice(&cs);
    }
    b.bound();
    (b.seed("dat"), base as u64)
}

pub fn dat_seeds(rng: &mut Rng) -> Vec<(Seed, u64)> {
    use BlockKind::*;
    vec![
        standard_seed(rng, 0, &[Stored]),
        standard_seed(rng, 0, &[Raw]),
        standard_seed(rng, 128, &[Stored, Raw, StoredSplit]),
        standard_seed(rng, 0, &[Real, Stored]),
        standard_seed(rng, 0, &[]),
        model_seed(rng, 0, [1, 1, 1, 0, 0, 0, 0, 0, 1, 0, 0], Stored),
        model_seed(rng, 128, [1, 2, 1, 1, 0, 0, 0, 0, 1, 1, 0], Raw),
        model_seed(rng, 0, [0, 0, 0, 0, 0, 0, 0, 0, 0, 0, 0], Stored),
        model_seed(rng, 0, [1, 1, 1, 1, 1, 1, 0, 2, 1, 1, 1], StoredSplit),
        texture_seed(rng, 0, 1, 1, Stored),
        texture_seed(rng, 128, 2, 2, Raw),
        texture_seed(rng, 0, 3, 1, StoredSplit),
        texture_seed(rng, 0, 0, 0, Stored),
        texture_seed(rng, 0, 1, 2, Real),
    ]
}

pub fn generate(thorough: bool, seed: u64, out: &mut dyn Write) {
    let mut rng = Rng::new(seed, "C18-arc");
    for (mut s, off) in dat_seeds(&mut rng) {
        s.extra = off.to_string();
        mutate(&s, &mut rng, thorough, out);
        // the same file queried at other offsets: unaligned, past the end, at the seek limits
        let n = s.bytes.len() as u64;
        for o in [0u64, 1, 4, 12, 127, 128, n.saturating_sub(1), n, n + 1, n + 4096, 1 << 31, 1 << 32, (1 << 63) - 1, 1 << 63, u64::MAX - 127, u64::MAX] {
            if o != off {
                emit(out, "dat", &s.bytes, &o.to_string());
            }
        }
    }
    // random blobs as dat files, with a plausible file-info prefix half of the time
    for i in 0..(if thorough { 2000 } else { 150 }) {
        let len = rng.range(0, 600) as usize;
        let mut b = rng.bytes(len);
        if i % 2 == 0 && b.len() >= 24 {
            b[0..4].copy_from_slice(&(rng.below(200) as u32).to_le_bytes());
            b[4..8].copy_from_slice(&(rng.range(1, 4) as u32).to_le_bytes());
            let nb = rng.u32_edge();
            b[20..24].copy_from_slice(&nb.to_le_bytes());
        }
        emit(out, "dat", &b, "0");
    }
}
