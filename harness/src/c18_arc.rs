//! C18 part `arc`: archive readers: index, dat, GameData, repository discovery, inflate life-cycle
#![allow(unused)]
use crate::alloc;
use crate::c18::*;
use crate::util::*;
use std::io::Write;

/// `None` = not an op of this part
pub fn run(f: &[&str]) -> Option<String> {
    None
}

pub fn generate(thorough: bool, seed: u64, out: &mut dyn Write) {}
