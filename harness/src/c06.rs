//! C06: `MDL::from_existing` on synthetic models (encoded by the Lean `Spec/Mdl.encodeMdl`) and
//! on the repository's sample.  The generator emits *abstract* models (token grammar documented
//! in `lean/PhysisModel/Driver/C06Case.lean`); the file bytes are produced by the Lean driver.
#![allow(unused)]
use crate::util::*;
use physis::model::{MDL, Part, Vertex};
use std::fmt::Write as _;
use std::io::Write;

// ---------------------------------------------------------------------------------------------
// abstract model (generator side)
// ---------------------------------------------------------------------------------------------
#[derive(Clone, Default)]
pub struct GElem {
    pub stream: u8,
    pub offset: u8,
    pub ty: u8,
    pub usage: u8,
    pub uidx: u8,
}

#[derive(Clone, Default)]
pub struct GSub {
    pub off: u32,
    pub count: u32,
    pub mask: u32,
    pub bstart: u16,
    pub bcount: u16,
}

#[derive(Clone, Default)]
pub struct GMesh {
    pub vcount: u16,
    pub material: u16,
    pub bonetable: u16,
    pub index_pad: usize,
    pub decl: Vec<GElem>,
    pub streams: Vec<(u8, Vec<u8>)>,
    pub indices: Vec<u16>,
    pub subs: Vec<GSub>,
}

#[derive(Clone, Default)]
pub struct GLod {
    pub mid: Vec<u8>,
    pub edge_off: u32,
    pub poly: u32,
    pub meshes: Vec<GMesh>,
}

#[derive(Clone, Default)]
pub struct GShape {
    pub name: Vec<u8>,
    pub start: [u16; 3],
    pub count: [u16; 3],
}

#[derive(Clone, Default)]
pub struct GModel {
    pub ver: u32,
    pub fmc: u16,
    pub streaming: bool,
    pub edge: bool,
    pub lodn: u8,
    pub misc: [u32; 13],
    pub attrs: Vec<Vec<u8>>,
    pub bones: Vec<Vec<u8>>,
    pub mats: Vec<Vec<u8>>,
    pub eids: Vec<Vec<u8>>,
    pub tsm: Vec<Vec<u8>>,
    pub tss: Vec<Vec<u8>>,
    pub bt: Vec<(Vec<u16>, u8)>,
    pub bt2: Vec<(u16, Vec<u16>, u16)>,
    pub map: Vec<u16>,
    pub pad: Vec<u8>,
    pub bbs: Vec<u8>,
    pub bbb: Vec<Vec<u8>>,
    pub shapes: Vec<GShape>,
    pub shm: Vec<(u32, u32, u32)>,
    pub shv: Vec<(u16, u16)>,
    pub lods: Vec<GLod>,
}

fn hex_list(l: &[Vec<u8>]) -> String {
    if l.is_empty() {
        "-".into()
    } else {
        l.iter().map(|x| hex(x)).collect::<Vec<_>>().join(",")
    }
}

fn u16be_hex(l: &[u16]) -> String {
    if l.is_empty() {
        return "-".into();
    }
    let mut s = String::with_capacity(l.len() * 4);
    for v in l {
        let _ = write!(s, "{:04x}", v);
    }
    s
}

fn join_or_dash(l: Vec<String>, sep: &str) -> String {
    if l.is_empty() { "-".into() } else { l.join(sep) }
}

impl GModel {
    pub fn tokens(&self) -> String {
        let mut s = String::new();
        let _ = write!(
            s,
            "ver={} fmc={} str={} edge={} lodn={} misc={}",
            self.ver,
            self.fmc,
            self.streaming as u8,
            self.edge as u8,
            self.lodn,
            self.misc.iter().map(|x| x.to_string()).collect::<Vec<_>>().join(",")
        );
        let _ = write!(s, " attrs={} bones={} mats={}", hex_list(&self.attrs), hex_list(&self.bones), hex_list(&self.mats));
        let _ = write!(s, " eids={} tsm={} tss={}", hex_list(&self.eids), hex_list(&self.tsm), hex_list(&self.tss));
        let _ = write!(
            s,
            " bt={}",
            join_or_dash(self.bt.iter().map(|(ix, c)| format!("{}:{}", u16be_hex(ix), c)).collect(), ",")
        );
        let _ = write!(
            s,
            " bt2={}",
            join_or_dash(self.bt2.iter().map(|(c, ix, p)| format!("{}:{}:{}", c, u16be_hex(ix), p)).collect(), ",")
        );
        let _ = write!(s, " map={}", join_or_dash(self.map.iter().map(|x| x.to_string()).collect(), ","));
        let _ = write!(s, " pad={} bbs={} bbb={}", hex(&self.pad), hex(&self.bbs), hex_list(&self.bbb));
        let _ = write!(
            s,
            " shapes={}",
            join_or_dash(
                self.shapes
                    .iter()
                    .map(|sh| {
                        format!(
                            "{}:{}.{}.{}:{}.{}.{}",
                            hex(&sh.name),
                            sh.start[0],
                            sh.start[1],
                            sh.start[2],
                            sh.count[0],
                            sh.count[1],
                            sh.count[2]
                        )
                    })
                    .collect(),
                ","
            )
        );
        let _ = write!(
            s,
            " shm={}",
            join_or_dash(self.shm.iter().map(|(a, b, c)| format!("{}:{}:{}", a, b, c)).collect(), ",")
        );
        let _ = write!(s, " shv={}", join_or_dash(self.shv.iter().map(|(a, b)| format!("{}:{}", a, b)).collect(), ","));
        for l in &self.lods {
            let _ = write!(s, " lod={}:{}:{}", hex(&l.mid), l.edge_off, l.poly);
            for m in &l.meshes {
                let mut decl = Vec::new();
                for e in &m.decl {
                    decl.extend_from_slice(&[e.stream, e.offset, e.ty, e.usage, e.uidx]);
                }
                let streams =
                    join_or_dash(m.streams.iter().map(|(st, d)| format!("{}:{}", st, hex(d))).collect(), "/");
                let subs = join_or_dash(
                    m.subs
                        .iter()
                        .map(|x| format!("{}:{}:{}:{}:{}", x.off, x.count, x.mask, x.bstart, x.bcount))
                        .collect(),
                    "/",
                );
                let _ = write!(
                    s,
                    " mesh={};{};{};{};{};{};{};{}",
                    m.vcount,
                    m.material,
                    m.bonetable,
                    m.index_pad,
                    hex(&decl),
                    streams,
                    u16be_hex(&m.indices),
                    subs
                );
            }
        }
        s
    }
}

// (usage, type, size) combinations supported by the reader
pub const COMBOS: &[(u8, u8, u8)] = &[
    (0, 3, 16), // Position Single4
    (0, 14, 8), // Position Half4
    (0, 2, 12), // Position Single3
    (1, 8, 4),  // BlendWeights ByteFloat4
    (1, 5, 4),  // BlendWeights Byte4
    (1, 17, 8), // BlendWeights UnsignedShort4
    (2, 5, 4),  // BlendIndices Byte4
    (2, 17, 8), // BlendIndices UnsignedShort4
    (3, 14, 8), // Normal Half4
    (3, 2, 12), // Normal Single3
    (4, 8, 4),  // UV ByteFloat4
    (4, 14, 8), // UV Half4
    (4, 3, 16), // UV Single4
    (4, 13, 4), // UV Half2
    (6, 8, 4),  // BiTangent ByteFloat4
    (5, 8, 0),  // Tangent ByteFloat4 (skipped unread)
    (7, 8, 4),  // Color ByteFloat4
];

/// combinations the *writer* supports with an encoder that inverts the reader (C07's canonical set)
pub const WCOMBOS: &[(u8, u8, u8)] = &[
    (0, 3, 16),
    (0, 14, 8),
    (0, 2, 12),
    (1, 8, 4),
    (2, 5, 4),
    (3, 14, 8),
    (3, 2, 12),
    (4, 14, 8),
    (4, 3, 16),
    (6, 8, 4),
    (7, 8, 4),
];

/// reader-supported pairs the writer cannot reproduce (finding c07.writer-unsupported-layout)
pub const D9COMBOS: &[(u8, u8, u8)] = &[
    (4, 13, 4),
    (4, 8, 4),
    (1, 17, 8),
    (2, 17, 8),
    (5, 8, 0),
    (1, 5, 4),
    (0, 2, 12),
    (3, 14, 8),
    (7, 8, 4),
];

pub fn name(rng: &mut Rng, latin1: bool) -> Vec<u8> {
    let n = match rng.below(8) {
        0 => 0,
        1 => 1,
        _ => rng.range(2, 24),
    } as usize;
    (0..n)
        .map(|_| {
            if latin1 && rng.chance(1, 6) {
                rng.range(0x80, 0xFF) as u8
            } else if rng.chance(1, 10) {
                rng.range(1, 0x7F) as u8
            } else {
                rng.range(b'a' as u64, b'z' as u64) as u8
            }
        })
        .collect()
}

fn interesting_f32(rng: &mut Rng) -> u32 {
    match rng.below(10) {
        0 => 0,
        1 => 0x8000_0000,
        2 => 0x3F80_0000,
        3 => 0xBF80_0000,
        4 => (rng.below(0x0080_0000)) as u32, // subnormal
        5 => 0x7F80_0000,
        6 => f32::to_bits((rng.below(2001) as f32 - 1000.0) / 64.0),
        7 => f32::to_bits(rng.below(256) as f32 / 255.0),
        _ => {
            // finite, moderate exponent
            let e = rng.range(100, 150) as u32;
            ((rng.below(2) as u32) << 31) | (e << 23) | (rng.below(0x0080_0000) as u32)
        }
    }
}

/// stream bytes: mixtures of uniform bytes, structured floats/halves, and boundary patterns
fn fill_stream(rng: &mut Rng, n: usize, nan_free: bool) -> Vec<u8> {
    let mode = rng.below(5);
    let mut v = Vec::with_capacity(n + 4);
    while v.len() < n {
        match mode {
            0 => v.extend_from_slice(&rng.bytes(4)),
            1 => v.extend_from_slice(&interesting_f32(rng).to_le_bytes()),
            2 => {
                // halves: all classes (zero, subnormal, normal, max, inf, nan)
                for _ in 0..2 {
                    let h: u16 = match rng.below(8) {
                        0 => 0,
                        1 => 0x8000,
                        2 => rng.below(0x400) as u16,
                        3 => 0x7BFF,
                        4 => 0x7C00 | ((rng.below(2) as u16) << 15),
                        5 => 0x3C00,
                        _ => rng.below(0x10000) as u16,
                    };
                    v.extend_from_slice(&h.to_le_bytes());
                }
            }
            3 => v.extend_from_slice(&[*rng.pick(&[0u8, 1, 127, 128, 254, 255]), rng.below(256) as u8, 0, 255]),
            _ => v.extend_from_slice(&(rng.below(70000) as u32).to_le_bytes()),
        }
    }
    v.truncate(n);
    if nan_free {
        // clear NaN half / f32 patterns conservatively: no 16-bit word with all exponent bits set
        for i in (1..v.len()).step_by(2) {
            if v[i] & 0x7C == 0x7C {
                v[i] &= !0x40;
            }
        }
        for i in 0..v.len() {
            if v[i] & 0x7F == 0x7F {
                v[i] &= !0x01;
            }
        }
    }
    v
}

fn half_non_nan(rng: &mut Rng) -> u16 {
    loop {
        let h: u16 = match rng.below(8) {
            0 => 0,
            1 => 0x8000,
            2 => rng.below(0x400) as u16,
            3 => 0x7BFF,
            4 => 0x7C00 | ((rng.below(2) as u16) << 15),
            5 => 0x3C00,
            _ => rng.below(0x10000) as u16,
        };
        if (h & 0x7FFF) <= 0x7C00 {
            return h;
        }
    }
}

/// canonical raw bytes of one element (what the writer reproduces), see `Spec/MdlEdit.lean`
pub fn canonical_raw(rng: &mut Rng, usage: u8, ty: u8) -> Vec<u8> {
    let mut v = Vec::new();
    if usage == 5 {
        return v; // tangents are skipped unread: the slot stays zero
    }
    match ty {
        13 => {
            for _ in 0..2 {
                v.extend_from_slice(&half_non_nan(rng).to_le_bytes());
            }
        }
        17 => v.extend_from_slice(&rng.bytes(8)),
        2 => {
            for _ in 0..3 {
                v.extend_from_slice(&interesting_f32(rng).to_le_bytes());
            }
        }
        3 => {
            for i in 0..4 {
                let x = if usage == 0 && i == 3 { 0x3F80_0000 } else { interesting_f32(rng) };
                v.extend_from_slice(&x.to_le_bytes());
            }
        }
        14 => {
            for i in 0..4 {
                let h = if usage == 0 && i == 3 {
                    0x3C00
                } else if usage == 3 && i == 3 {
                    0
                } else {
                    half_non_nan(rng)
                };
                v.extend_from_slice(&h.to_le_bytes());
            }
        }
        8 | 5 => {
            for i in 0..4 {
                let b = if usage == 6 && i == 3 {
                    if rng.chance(1, 2) { 255 } else { 0 }
                } else {
                    match rng.below(6) {
                        0 => 0,
                        1 => 255,
                        2 => 127,
                        3 => 128,
                        _ => rng.below(256) as u8,
                    }
                };
                v.push(b);
            }
        }
        _ => {}
    }
    v
}

/// `vcount` canonical records per stream for a declaration with the given strides
pub fn canonical_streams(rng: &mut Rng, decl: &[GElem], strides: &[u8], vcount: usize) -> Vec<(u8, Vec<u8>)> {
    let mut streams: Vec<(u8, Vec<u8>)> = strides.iter().map(|&st| (st, vec![0u8; st as usize * vcount])).collect();
    for k in 0..vcount {
        for e in decl {
            let raw = canonical_raw(rng, e.usage, e.ty);
            let (st, data) = &mut streams[e.stream as usize];
            let at = k * (*st as usize) + e.offset as usize;
            data[at..at + raw.len()].copy_from_slice(&raw);
        }
    }
    streams
}

pub struct GenOpts {
    pub max_meshes: usize,
    pub max_vertices: usize,
    pub combos: &'static [(u8, u8, u8)],
    pub v5_only: bool,
    pub canonical: bool, // C07: packed non-overlapping elements, no NaN, contiguous sub-meshes, no terrain shadow
}

pub fn gen_mesh(rng: &mut Rng, o: &GenOpts, start_index: usize) -> GMesh {
    let vcount = match rng.below(10) {
        0 => 0,
        1 => 1,
        2 => 2,
        3..=7 => rng.range(3, 40),
        _ => rng.range(3, o.max_vertices as u64),
    } as usize;
    let nstreams = rng.range(1, 3) as usize;
    let nel = if o.canonical { rng.range(1, 7) } else { match rng.below(10) { 0 => 1, 1 => 16, _ => rng.range(2, 9) } } as usize;
    let mut decl = Vec::new();
    let mut used: Vec<usize> = vec![0; nstreams]; // packed size per stream
    let mut usages_taken: Vec<u8> = Vec::new();
    for _ in 0..nel {
        let &(usage, ty, size) = rng.pick(o.combos);
        if o.canonical && usages_taken.contains(&usage) {
            continue;
        }
        usages_taken.push(usage);
        let stream = rng.below(nstreams as u64) as usize;
        let alloc = if size == 0 { 4 } else { size as usize };
        let offset = if o.canonical || rng.chance(3, 4) {
            used[stream]
        } else {
            rng.below((used[stream] + 8) as u64) as usize // arbitrary, may overlap others
        };
        if offset + alloc > 255 {
            continue;
        }
        used[stream] = used[stream].max(offset + alloc);
        decl.push(GElem { stream: stream as u8, offset: offset as u8, ty, usage, uidx: rng.below(3) as u8 });
    }
    if decl.is_empty() {
        decl.push(GElem { stream: 0, offset: 0, ty: 2, usage: 0, uidx: 0 });
        used[0] = used[0].max(12);
    }
    // canonical models (C07): now and then a FULL declaration (all 16 element slots, end marker in
    // the 17th) made of exact repetitions of the elements chosen above — every repetition reads and
    // writes the same bytes, so the model stays canonical for the writer
    if o.canonical && rng.chance(1, 12) {
        let base = decl.clone();
        let mut i = 0;
        while decl.len() < 16 {
            let e = &base[i % base.len()];
            decl.push(GElem { stream: e.stream, offset: e.offset, ty: e.ty, usage: e.usage, uidx: e.uidx });
            i += 1;
        }
    }
    let mut streams = Vec::new();
    for s in 0..nstreams {
        let slack = if rng.chance(1, 3) { rng.below(9) as usize } else { 0 };
        let stride = (used[s] + slack).min(255);
        streams.push((stride as u8, fill_stream(rng, stride * vcount, o.canonical)));
    }
    if o.canonical {
        let strides: Vec<u8> = streams.iter().map(|x| x.0).collect();
        streams = canonical_streams(rng, &decl, &strides, vcount);
    }
    let mut nidx = match rng.below(6) {
        0 => 0,
        1 => vcount.min(3),
        _ => rng.below((3 * vcount + 1) as u64) as usize,
    };
    // the index count is a u32: now and then an index list at and beyond the 16-bit boundary
    if !o.canonical && rng.chance(1, 40) {
        nidx = *rng.pick(&[65535usize, 65536, 65537, 65545, 70001, 131072 + 7]);
    }
    let indices: Vec<u16> = (0..nidx)
        .map(|_| if vcount == 0 || (!o.canonical && rng.chance(1, 50)) { rng.below(65536) as u16 } else { rng.below(vcount as u64) as u16 })
        .collect();
    let index_pad = if o.canonical || rng.chance(2, 3) { (8 - (start_index + nidx) % 8) % 8 } else { rng.below(9) as usize };
    // sub-meshes
    let nsub = if o.canonical { rng.range(1, 4) } else { rng.below(5) } as usize;
    let mut subs = Vec::new();
    let mut cuts: Vec<usize> = (0..nsub.saturating_sub(1)).map(|_| rng.below((nidx + 1) as u64) as usize).collect();
    cuts.sort();
    let mut prev = 0usize;
    for i in 0..nsub {
        let end = if i + 1 == nsub { nidx } else { cuts[i] };
        let (off, count) = if o.canonical || rng.chance(4, 5) {
            ((start_index + prev) as u32, (end - prev) as u32)
        } else {
            (rng.u32_edge(), rng.u32_edge())
        };
        subs.push(GSub { off, count, mask: rng.u32_edge(), bstart: rng.below(300) as u16, bcount: rng.below(64) as u16 });
        prev = end;
    }
    GMesh {
        vcount: vcount as u16,
        material: rng.below(4) as u16,
        bonetable: rng.below(3) as u16,
        index_pad,
        decl,
        streams,
        indices,
        subs,
    }
}

pub fn gen_model(rng: &mut Rng, o: &GenOpts) -> GModel {
    let mut m = GModel::default();
    m.ver = if o.v5_only || rng.chance(1, 2) { 0x1000005 } else { 0x1000006 };
    if !o.v5_only && rng.chance(1, 20) {
        m.ver = *rng.pick(&[0x1000004u32, 0x1000007, 5, 0x2000000]);
    }
    m.fmc = rng.below(5) as u16;
    m.streaming = rng.chance(1, 4);
    m.edge = rng.chance(1, 4);
    m.lodn = rng.range(1, 3) as u8;
    let f1 = 1u32 << rng.below(8);
    let f2 = if rng.chance(1, 3) { 0 } else { 1u32 << rng.below(8) };
    let fl = |rng: &mut Rng| if o.canonical { f32::to_bits(rng.below(1000) as f32 / 8.0) } else { interesting_f32(rng) };
    m.misc = [
        fl(rng),
        f1,
        f2,
        fl(rng),
        fl(rng),
        rng.below(65536) as u32,
        rng.below(256) as u32,
        rng.below(256) as u32,
        rng.below(256) as u32,
        rng.below(256) as u32,
        rng.below(65536) as u32,
        rng.below(65536) as u32,
        rng.below(65536) as u32,
    ];
    let latin1 = !o.canonical;
    m.attrs = (0..rng.below(4)).map(|_| name(rng, latin1)).collect();
    m.bones = (0..rng.below(5)).map(|_| name(rng, latin1)).collect();
    m.mats = (0..rng.below(4)).map(|_| name(rng, latin1)).collect();
    m.eids = (0..rng.below(3)).map(|_| fill_stream(rng, 32, o.canonical)).collect();
    if !o.canonical {
        m.tsm = (0..rng.below(3)).map(|_| rng.bytes(20)).collect();
        m.tss = (0..rng.below(3)).map(|_| rng.bytes(12)).collect();
    }
    let nbt = rng.below(3) as usize;
    if m.ver <= 0x1000005 {
        m.bt = (0..nbt).map(|_| ((0..64).map(|_| rng.below(400) as u16).collect(), rng.below(65) as u8)).collect();
    } else {
        m.bt2 = (0..nbt)
            .map(|_| {
                let c = rng.below(9) as u16;
                let pad = if c % 2 == 0 { rng.below(65536) as u16 } else { 0 };
                (c, (0..c).map(|_| rng.below(400) as u16).collect(), pad)
            })
            .collect();
    }
    m.map = (0..rng.below(12)).map(|_| rng.below(400) as u16).collect();
    let npad = rng.below(16) as usize;
    m.pad = rng.bytes(npad);
    m.bbs = fill_stream(rng, 128, o.canonical);
    m.bbb = (0..m.bones.len()).map(|_| fill_stream(rng, 32, o.canonical)).collect();
    for l in 0..3 {
        let mut lod = GLod { mid: fill_stream(rng, 28, o.canonical), edge_off: rng.u32_edge(), poly: rng.u32_edge(), meshes: vec![] };
        let nm = if l < m.lodn as usize || (!o.canonical && rng.chance(1, 6)) { rng.range(if l == 0 { 1 } else { 0 }, o.max_meshes as u64) as usize } else { 0 };
        let mut start = 0usize;
        for _ in 0..nm {
            let mesh = gen_mesh(rng, o, start);
            start += mesh.indices.len() + mesh.index_pad;
            lod.meshes.push(mesh);
        }
        m.lods.push(lod);
    }
    // shapes: reference real meshes so that the selection rule is exercised
    let nshapes = rng.below(4) as usize;
    for _ in 0..nshapes {
        let mut sh = GShape { name: name(rng, latin1), start: [0; 3], count: [0; 3] };
        for l in 0..3 {
            let k = rng.below(3) as usize;
            if m.lods[l].meshes.is_empty() || k == 0 {
                continue;
            }
            sh.start[l] = m.shm.len() as u16;
            sh.count[l] = k as u16;
            for _ in 0..k {
                // pick a mesh of this LOD; its start index is the sum of the preceding index words
                // the reader indexes the mesh-local index list with the LOD-global index, so only the
                // first mesh of a LOD (start 0) can carry shape values without leaving the list
                let mi = if rng.chance(6, 7) { 0 } else { rng.below(m.lods[l].meshes.len() as u64) as usize };
                let start: usize = m.lods[l].meshes[..mi].iter().map(|x| x.indices.len() + x.index_pad).sum();
                let mesh = &m.lods[l].meshes[mi];
                let nv = rng.below(5) as usize;
                let voff = m.shv.len() as u32;
                let mut pushed = 0u32;
                for _ in 0..nv {
                    let ni = mesh.indices.len();
                    if o.canonical && (ni <= start || mesh.vcount == 0) {
                        continue; // C07: shape tables always refer inside the mesh
                    }
                    let base = if ni > start && (o.canonical || !rng.chance(1, 40)) {
                        start + rng.below((ni - start) as u64) as usize
                    } else if ni > 0 && !rng.chance(1, 12) {
                        start + rng.below(ni as u64) as usize
                    } else {
                        rng.below(70) as usize
                    };
                    let repl = if mesh.vcount > 0 && (o.canonical || !rng.chance(1, 60)) { rng.below(mesh.vcount as u64) as u16 } else { rng.below(400) as u16 };
                    m.shv.push((base as u16, repl));
                    pushed += 1;
                }
                let off = if !o.canonical && rng.chance(1, 10) { rng.below(40) as u32 } else { start as u32 };
                m.shm.push((off, pushed, voff));
            }
        }
        m.shapes.push(sh);
    }
    m
}

// ---------------------------------------------------------------------------------------------
// "wide table" family: every variable-length table of the runtime block at and beyond the width
// of a narrower count (u8 for the u16 counts, u16 for the u32 sizes), always followed by a shape
// that affects the first mesh — the shape tables are stored after most of the runtime block, so a
// table consumed with the wrong length moves them
// ---------------------------------------------------------------------------------------------
pub const WIDE_KINDS: usize = 14;

/// counts around the 8-bit boundary of a 16-bit count field
fn wide_count(rng: &mut Rng, fixed: Option<usize>) -> usize {
    if let Some(n) = fixed {
        return n;
    }
    match rng.below(8) {
        0 => 255,
        1 | 2 => 256,
        3 => 257,
        4 => 300,
        5 => *rng.pick(&[511usize, 512, 513, 768]),
        _ => rng.range(258, 700) as usize,
    }
}

fn short_name(rng: &mut Rng, i: usize) -> Vec<u8> {
    // non-empty, distinct enough, 1..4 bytes
    let mut v = vec![b'a' + (i % 26) as u8];
    for _ in 0..rng.below(4) {
        v.push(rng.range(b'0' as u64, b'9' as u64) as u8);
    }
    v
}

fn tiny_mesh(rng: &mut Rng, start_index: usize, canonical: bool) -> GMesh {
    let vcount = rng.below(3) as usize;
    let nidx = rng.below(4) as usize;
    let decl = vec![GElem { stream: 0, offset: 0, ty: 2, usage: 0, uidx: 0 }];
    let data = if canonical { canonical_streams(rng, &decl, &[12], vcount)[0].1.clone() } else { rng.bytes(12 * vcount) };
    if canonical {
        // C07: a mesh starts at its first sub-mesh's offset
        return GMesh {
            vcount: vcount as u16,
            material: rng.below(4) as u16,
            bonetable: rng.below(3) as u16,
            index_pad: (8 - (start_index + nidx) % 8) % 8,
            decl,
            streams: vec![(12, data)],
            indices: (0..nidx).map(|_| if vcount == 0 { 0 } else { rng.below(vcount as u64) as u16 }).collect(),
            subs: vec![GSub { off: start_index as u32, count: nidx as u32, mask: 0, bstart: 0, bcount: 0 }],
        };
    }
    GMesh {
        vcount: vcount as u16,
        material: rng.below(4) as u16,
        bonetable: rng.below(3) as u16,
        index_pad: if rng.chance(1, 2) { (8 - (start_index + nidx) % 8) % 8 } else { 0 },
        decl: vec![GElem { stream: 0, offset: 0, ty: 2, usage: 0, uidx: 0 }],
        streams: vec![(12, data)],
        indices: (0..nidx).map(|_| if vcount == 0 { 0 } else { rng.below(vcount as u64) as u16 }).collect(),
        subs: if rng.chance(1, 2) { vec![GSub { off: start_index as u32, count: nidx as u32, mask: 0, bstart: 0, bcount: 0 }] } else { vec![] },
    }
}

/// appends a shape (LOD 0, first mesh, start index 0) whose values refer inside the mesh;
/// `nshm` shape meshes (the first carries `nval` values, the others 0..2)
fn push_good_shape(rng: &mut Rng, m: &mut GModel, nshm: usize, nval: usize) {
    let (good, vc): (Vec<usize>, u16) = {
        let mesh = &m.lods[0].meshes[0];
        ((0..mesh.indices.len().min(65536)).filter(|&i| mesh.indices[i] < mesh.vcount).collect(), mesh.vcount)
    };
    let mut sh = GShape { name: short_name(rng, m.shapes.len() + 18), start: [0; 3], count: [0; 3] };
    sh.start[0] = m.shm.len() as u16;
    sh.count[0] = nshm as u16;
    for k in 0..nshm {
        let nv = if k == 0 { nval } else { rng.below(3) as usize };
        let voff = m.shv.len() as u32;
        for _ in 0..nv {
            m.shv.push((*rng.pick(&good) as u16, rng.below(vc as u64) as u16));
        }
        m.shm.push((0, nv as u32, voff));
    }
    m.shapes.push(sh);
}

/// `fixed`: use exactly this count for the widened table (quick tier sweeps the boundary values)
pub fn gen_wide(rng: &mut Rng, kind: usize, fixed: Option<usize>) -> GModel {
    gen_wide_opts(rng, kind, fixed, false)
}

/// kinds that exist for C07's canonical version-5 models (no version-6 table, no terrain shadow)
/// (kind, row count at which the table's byte size reaches 2^16): bone tables 132 B, material name
/// offsets 4 B, shapes 16 B, shape meshes 12 B, shape values 4 B, element ids 32 B, sub-meshes 16 B,
/// meshes 36 B
pub const WIDE_BYTES_CROSS: &[(usize, usize)] =
    &[(1, 497), (4, 16384), (5, 4096), (6, 5462), (7, 16384), (8, 2048), (10, 4096), (11, 1821)];

pub const WIDE_KINDS_CANONICAL: &[usize] = &[1, 2, 3, 4, 5, 6, 7, 8, 9, 10, 11, 12, 13];

/// `canonical`: a model inside C07's quantifier (version 5, writable pairs, canonical streams,
/// NaN-free float tables, no terrain-shadow tables, consistent starts)
pub fn gen_wide_opts(rng: &mut Rng, kind: usize, fixed: Option<usize>, canonical: bool) -> GModel {
    // every supported pair except (BlendWeights, Byte4), the class of the recorded finding
    const WIDE_COMBOS: &[(u8, u8, u8)] = &[
        (0, 3, 16), (0, 14, 8), (0, 2, 12), (1, 8, 4), (1, 17, 8), (2, 5, 4), (2, 17, 8), (3, 14, 8), (3, 2, 12),
        (4, 8, 4), (4, 14, 8), (4, 3, 16), (4, 13, 4), (6, 8, 4), (5, 8, 0), (7, 8, 4),
    ];
    let o = GenOpts { max_meshes: 2, max_vertices: 40, combos: if canonical { WCOMBOS } else { WIDE_COMBOS }, v5_only: canonical, canonical };
    let mut m = loop {
        let m = gen_model(rng, &o);
        let first = &m.lods[0].meshes[0];
        let usable = first.vcount > 0 && first.indices.len() < 4000 && first.indices.iter().any(|&i| i < first.vcount);
        if usable && (m.ver == 0x1000005 || m.ver == 0x1000006) {
            break m;
        }
    };
    // a list holding one empty name prints like the empty list (`-`): keep the name lists unambiguous
    for l in [&mut m.attrs, &mut m.bones, &mut m.mats] {
        if l.len() == 1 && l[0].is_empty() {
            l[0] = vec![b'x'];
        }
    }
    // only shapes that refer inside the first mesh (the random ones of `gen_model` may point anywhere)
    m.shapes.clear();
    m.shm.clear();
    m.shv.clear();
    let set_version = |m: &mut GModel, rng: &mut Rng, v6: bool| {
        m.ver = if v6 { 0x1000006 } else { 0x1000005 };
        let nbt = m.bt.len().max(m.bt2.len());
        if v6 {
            m.bt.clear();
            if m.bt2.len() != nbt {
                m.bt2 = (0..nbt).map(|_| (1u16, vec![rng.below(400) as u16], 0u16)).collect();
            }
        } else {
            m.bt2.clear();
            if m.bt.len() != nbt {
                m.bt = (0..nbt).map(|_| ((0..64).map(|_| rng.below(400) as u16).collect(), rng.below(65) as u8)).collect();
            }
        }
    };
    let v2_table = |rng: &mut Rng, c: usize| -> (u16, Vec<u16>, u16) {
        let pad = if c % 2 == 0 { rng.below(65536) as u16 } else { 0 };
        (c as u16, (0..c).map(|_| rng.below(400) as u16).collect(), pad)
    };
    match kind {
        0 => {
            // version 6 bone table with >= 255 entries (u16 count; version 5 tables are fixed 64)
            set_version(&mut m, rng, true);
            let nbt = rng.range(1, 3) as usize;
            let wide_at = rng.below(nbt as u64) as usize;
            m.bt2 = (0..nbt)
                .map(|i| {
                    let c = if i == wide_at || rng.chance(1, 4) { wide_count(rng, fixed) } else { rng.below(9) as usize };
                    v2_table(rng, c)
                })
                .collect();
        }
        1 => {
            // >= 255 bone tables, either version
            let v6 = !canonical && rng.chance(1, 2);
            set_version(&mut m, rng, v6);
            let n = wide_count(rng, fixed);
            if v6 {
                m.bt2 = (0..n).map(|_| { let c = rng.below(4) as usize; v2_table(rng, c) }).collect();
            } else {
                m.bt = (0..n).map(|_| ((0..64).map(|_| rng.below(400) as u16).collect(), rng.below(65) as u8)).collect();
            }
        }
        2 => m.attrs = (0..wide_count(rng, fixed)).map(|i| short_name(rng, i)).collect(),
        3 => {
            m.bones = (0..wide_count(rng, fixed)).map(|i| short_name(rng, i)).collect();
            m.bbb = (0..m.bones.len()).map(|_| fill_stream(rng, 32, true)).collect();
        }
        4 => m.mats = (0..wide_count(rng, fixed)).map(|i| short_name(rng, i)).collect(),
        5 => {
            // many shapes, each with 0..1 shape meshes
            let n = wide_count(rng, fixed);
            for _ in 0..n {
                let k = rng.below(2) as usize;
                let nv = rng.below(3) as usize;
                push_good_shape(rng, &mut m, k, nv);
            }
        }
        6 => { let n = wide_count(rng, fixed); push_good_shape(rng, &mut m, n, 1) }
        7 => { let n = wide_count(rng, fixed); push_good_shape(rng, &mut m, 1, n) }
        8 => {
            // element ids / terrain shadow tables (the terrain shadow mesh count is a u8: 255 is its maximum)
            let which = if canonical { 0 } else { rng.below(3) };
            if which == 0 || rng.chance(1, 4) {
                m.eids = (0..wide_count(rng, fixed)).map(|_| fill_stream(rng, 32, true)).collect();
            }
            if canonical {
                // no terrain-shadow tables in C07's quantifier
            } else if which == 1 || rng.chance(1, 4) {
                m.tss = (0..wide_count(rng, fixed)).map(|_| rng.bytes(12)).collect();
            }
            if !canonical && (which == 2 || rng.chance(1, 4)) {
                m.tsm = (0..*rng.pick(&[127usize, 128, 254, 255])).map(|_| rng.bytes(20)).collect();
            }
        }
        9 => {
            // sub-mesh bone map: byte size is a u32 (version 5) / u16 (version 6)
            let v6 = !canonical && rng.chance(1, 2);
            set_version(&mut m, rng, v6);
            let n = match fixed {
                Some(n) => n,
                None if v6 => *rng.pick(&[127usize, 128, 129, 300, 32767]),
                None => *rng.pick(&[127usize, 128, 129, 32767, 32768, 32769, 40000]),
            };
            m.map = (0..n).map(|_| rng.below(400) as u16).collect();
        }
        10 => {
            // >= 255 sub-meshes on the first mesh (contiguous, most of them empty)
            let n = wide_count(rng, fixed);
            let ni = m.lods[0].meshes[0].indices.len();
            let mut cuts: Vec<usize> = (0..n - 1).map(|_| rng.below((ni + 1) as u64) as usize).collect();
            cuts.sort();
            cuts.push(ni);
            let mut prev = 0usize;
            m.lods[0].meshes[0].subs = cuts
                .iter()
                .map(|&end| {
                    let s = GSub { off: prev as u32, count: (end - prev) as u32, mask: rng.u32_edge(), bstart: rng.below(300) as u16, bcount: rng.below(64) as u16 };
                    prev = end;
                    s
                })
                .collect();
        }
        11 => {
            // >= 255 meshes (mesh_count, vertex_declaration_count): tiny meshes appended to one LOD
            let n = wide_count(rng, fixed);
            let l = rng.below(m.lodn as u64) as usize;
            let mut start: usize = m.lods[l].meshes.iter().map(|x| x.indices.len() + x.index_pad).sum();
            while m.lods.iter().map(|x| x.meshes.len()).sum::<usize>() < n {
                let mesh = tiny_mesh(rng, start, canonical);
                start += mesh.indices.len() + mesh.index_pad;
                m.lods[l].meshes.push(mesh);
            }
        }
        12 => {} // string block: filled below, once the shape names are known
        _ => {
            // padding_amount is a u8
            let n = match fixed { Some(n) => n, None => *rng.pick(&[127usize, 128, 254, 255]) };
            m.pad = rng.bytes(n);
        }
    }
    // the shape that makes a mis-sized table visible
    let nshapes = rng.range(1, 3) as usize;
    for _ in 0..nshapes {
        let nshm = rng.range(1, 2) as usize;
        let nv = rng.range(1, 4) as usize;
        push_good_shape(rng, &mut m, nshm, nv);
    }
    if kind == 12 {
        // string block at and beyond 64 KiB (string_size is a u32, name offsets are u32)
        let total = match fixed { Some(n) => n, None => *rng.pick(&[65535usize, 65536, 65537, 70000]) };
        let fixed_part: usize = m.bones.iter().chain(&m.mats).chain(m.shapes.iter().map(|s| &s.name)).map(|x| x.len() + 1).sum();
        let mut left = total.saturating_sub(fixed_part);
        m.attrs.clear();
        let mut i = 0;
        while left > 0 {
            let mut n = left.min(rng.range(150, 250) as usize);
            if left - n == 1 {
                n += 1; // a name needs at least one byte besides its terminator
            }
            m.attrs.push((0..n - 1).map(|k| b'a' + ((i + k) % 26) as u8).collect());
            left -= n;
            i += 1;
        }
    }
    m
}

// ---------------------------------------------------------------------------------------------
// "placed" family: the same abstract models stored with another placement of the vertex streams
// (`Spec/MdlPlaced.lean`, op `placed`).  `Spec.Mdl.encodeMdl` — like the library's writer — stores
// the streams of a mesh back to back, mesh after mesh, every section right behind the previous
// one; the format addresses every stream through `vertex_buffer_offsets[stream]` and every section
// through its own offset, so a reader that relies on the back-to-back order is wrong on files
// this family produces.  Recipe grammar: `Driver/C06.lean`.
// ---------------------------------------------------------------------------------------------
pub const PLACED_KINDS: usize = 11;

/// every supported pair except (BlendWeights, Byte4), the class of the recorded finding
const PLACED_COMBOS: &[(u8, u8, u8)] = &[
    (0, 3, 16), (0, 14, 8), (0, 2, 12), (1, 8, 4), (1, 17, 8), (2, 5, 4), (2, 17, 8), (3, 14, 8), (3, 2, 12),
    (4, 8, 4), (4, 14, 8), (4, 3, 16), (4, 13, 4), (6, 8, 4), (5, 8, 0), (7, 8, 4),
];

fn rbytes(rng: &mut Rng, lo: u64, hi: u64) -> Vec<u8> {
    let n = rng.range(lo, hi) as usize;
    rng.bytes(n)
}

fn shuffle<T>(rng: &mut Rng, v: &mut Vec<T>) {
    for i in (1..v.len()).rev() {
        let j = rng.below(i as u64 + 1) as usize;
        v.swap(i, j);
    }
}

/// the recipe of one LOD: `<vpre>;<ipre>;<items>`
fn lay_lod(rng: &mut Rng, kind: usize, lod: &GLod, alias_last: bool) -> String {
    let n = lod.meshes.len();
    // the streams that get bytes of their own (an aliased last mesh shares those of mesh 0)
    let own = if alias_last { n - 1 } else { n };
    let mut all: Vec<(usize, usize)> = Vec::new();
    for d in 0..own {
        for j in 0..lod.meshes[d].streams.len() {
            all.push((d, j));
        }
    }
    let len_of = |d: usize, j: usize| lod.meshes[d].streams[j].1.len();
    let mut items: Vec<String> = Vec::new();
    let mut cur = 0usize; // bytes stored so far
    let mut vpre: Vec<u8> = vec![];
    let mut ipre: Vec<u8> = vec![];
    let mut put = |items: &mut Vec<String>, cur: &mut usize, d: usize, j: usize| {
        items.push(format!("s{}.{}", d, j));
        *cur += len_of(d, j);
    };
    let gap = |rng: &mut Rng, items: &mut Vec<String>, cur: &mut usize, n: usize| {
        if n > 0 {
            items.push(format!("g{}", hex(&rng.bytes(n))));
            *cur += n;
        }
    };
    match kind {
        0 => {
            // stream-major: [m0 s0][m1 s0]…[m0 s1][m1 s1]…
            for j in 0..3 {
                for d in 0..own {
                    if j < lod.meshes[d].streams.len() {
                        put(&mut items, &mut cur, d, j);
                    }
                }
            }
        }
        1 => {
            // mesh-major, every stream aligned to 16 bytes (padding only where needed, but at least
            // once per mesh with two streams)
            for &(d, j) in &all {
                let mut padn = (16 - cur % 16) % 16;
                if j == 1 && padn == 0 {
                    padn = 16;
                }
                if j > 0 || rng.chance(1, 2) {
                    gap(rng, &mut items, &mut cur, padn);
                }
                put(&mut items, &mut cur, d, j);
            }
        }
        2 => {
            // streams of every mesh in reverse order
            for d in 0..own {
                for j in (0..lod.meshes[d].streams.len()).rev() {
                    put(&mut items, &mut cur, d, j);
                }
            }
        }
        3 => {
            for &(d, j) in all.iter().rev() {
                put(&mut items, &mut cur, d, j);
            }
        }
        4 | 8 => {
            let mut order = all.clone();
            shuffle(rng, &mut order);
            if rng.chance(1, 2) {
                let k = rng.range(1, 9) as usize;
                gap(rng, &mut items, &mut cur, k);
            }
            for &(d, j) in &order {
                put(&mut items, &mut cur, d, j);
                if rng.chance(1, 2) {
                    let k = rng.range(1, 9) as usize;
                    gap(rng, &mut items, &mut cur, k);
                }
            }
            if kind == 8 {
                vpre = rbytes(rng, 0, 19);
                ipre = rbytes(rng, 0, 49);
            }
        }
        5 => {
            // back to back, but the sections do not touch: bytes in front of the vertex section and
            // between the vertex and the index section (where edge geometry data lives)
            for &(d, j) in &all {
                put(&mut items, &mut cur, d, j);
            }
            match rng.below(3) {
                0 => vpre = rbytes(rng, 1, 16),
                1 => ipre = rbytes(rng, 1, 40),
                _ => {
                    vpre = rbytes(rng, 1, 16);
                    ipre = rbytes(rng, 1, 40);
                }
            }
        }
        9 => {
            // the smallest deviation: one byte between stream 0 and stream 1 of the first mesh
            for &(d, j) in &all {
                if d == 0 && j == 1 {
                    gap(rng, &mut items, &mut cur, 1);
                }
                put(&mut items, &mut cur, d, j);
            }
        }
        10 => {
            // nothing but a leading gap: the first stream of the first mesh is not at offset 0
            let k = rng.range(1, 20) as usize;
            gap(rng, &mut items, &mut cur, k);
            for &(d, j) in &all {
                put(&mut items, &mut cur, d, j);
            }
        }
        _ => {
            // 6 (alias, see below) and 7 (control): back to back
            for &(d, j) in &all {
                put(&mut items, &mut cur, d, j);
            }
        }
    }
    if alias_last {
        for j in 0..lod.meshes[n - 1].streams.len() {
            items.push(format!("a{}.{}.0.{}", n - 1, j, j));
        }
    }
    format!("{};{};{}", hex(&vpre), hex(&ipre), join_or_dash(items, ","))
}

/// a model whose first LOD has 2..4 meshes with at least two non-empty streams each, and the
/// recipe (`lay=…`) that places its streams according to `kind`
pub fn gen_placed(rng: &mut Rng, kind: usize, max_vertices: usize) -> (GModel, String) {
    let o = GenOpts { max_meshes: 3, max_vertices, combos: PLACED_COMBOS, v5_only: false, canonical: false };
    let mut m = gen_model(rng, &o);
    for l in [&mut m.attrs, &mut m.bones, &mut m.mats] {
        if l.len() == 1 && l[0].is_empty() {
            l[0] = vec![b'x'];
        }
    }
    let nm = rng.range(2, 4) as usize;
    let mut meshes = Vec::new();
    let mut start = 0usize;
    for _ in 0..nm {
        let mesh = loop {
            let x = gen_mesh(rng, &o, start);
            if x.streams.len() >= 2 && x.vcount > 0 && x.streams.iter().all(|s| s.0 > 0) && x.indices.len() < 4000 {
                break x;
            }
        };
        start += mesh.indices.len() + mesh.index_pad;
        meshes.push(mesh);
    }
    let mut alias_last = false;
    if kind == 6 {
        // a further mesh that shares the vertex streams of the first one (its own indices)
        let mut c = meshes[0].clone();
        let nidx = rng.below(3 * c.vcount as u64 + 1) as usize;
        c.indices = (0..nidx).map(|_| rng.below(c.vcount as u64) as u16).collect();
        c.index_pad = rng.below(4) as usize;
        c.subs = vec![GSub { off: start as u32, count: nidx as u32, mask: 0, bstart: 0, bcount: 0 }];
        meshes.push(c);
        alias_last = true;
    }
    m.lods[0].meshes = meshes;
    // the random shapes of `gen_model` referred to the meshes just replaced
    m.shapes.clear();
    m.shm.clear();
    m.shv.clear();
    let first = &m.lods[0].meshes[0];
    if first.indices.iter().any(|&i| i < first.vcount) && rng.chance(2, 3) {
        for _ in 0..rng.range(1, 2) {
            let nshm = rng.range(1, 2) as usize;
            let nval = rng.range(1, 3) as usize;
            push_good_shape(rng, &mut m, nshm, nval);
        }
    }
    let lays: Vec<String> = (0..3)
        .map(|l| {
            // further LODs: the same strategy (kind 6 aliases only in LOD 0)
            let k = if kind == 6 && l > 0 { 7 } else { kind };
            lay_lod(rng, k, &m.lods[l], alias_last && l == 0)
        })
        .collect();
    (m, format!("lay={}", lays.join("|")))
}

/// the layout of the seed's demonstration, fixed: two meshes with two streams each (Position
/// Single3 in stream 0, UV Half4 + Color in stream 1), stored stream-major
fn placed_fixed(rng: &mut Rng, recipe: &str) -> (GModel, String) {
    // `recipe`: the whole recipe of LOD 0 (`<vpre>;<ipre>;<items>`)
    let mut m = single_stream_model(vec![], 0, 0, vec![]);
    m.lods[0].meshes.clear();
    let mut start = 0usize;
    for k in 0..2usize {
        let vcount = 3 + k;
        let decl = vec![
            GElem { stream: 0, offset: 0, ty: 2, usage: 0, uidx: 0 },
            GElem { stream: 1, offset: 0, ty: 14, usage: 4, uidx: 0 },
            GElem { stream: 1, offset: 8, ty: 8, usage: 7, uidx: 0 },
        ];
        let streams = vec![(12u8, fill_stream(rng, 12 * vcount, true)), (12u8, fill_stream(rng, 12 * vcount, true))];
        let indices: Vec<u16> = (0..3 * (k + 1)).map(|i| (i % vcount) as u16).collect();
        let n = indices.len();
        m.lods[0].meshes.push(GMesh {
            vcount: vcount as u16,
            material: 0,
            bonetable: 0,
            index_pad: 0,
            decl,
            streams,
            indices,
            subs: vec![GSub { off: start as u32, count: n as u32, mask: 0, bstart: 0, bcount: 0 }],
        });
        start += n;
    }
    m.mats = vec![b"/m.mtrl".to_vec()];
    (m, format!("lay={}|-;-;-|-;-;-", recipe))
}

/// a model whose only mesh carries `data` (vcount × stride bytes) in stream 0 under `decl`
pub fn single_stream_model(decl: Vec<GElem>, stride: u8, vcount: u16, data: Vec<u8>) -> GModel {
    let mut m = GModel::default();
    m.ver = 0x1000005;
    m.lodn = 1;
    m.misc = [0, 1, 0, 0, 0, 0, 0, 0, 0, 0, 0, 0, 0];
    m.bbs = vec![0; 128];
    for l in 0..3 {
        m.lods.push(GLod { mid: vec![0; 28], edge_off: 0, poly: 0, meshes: vec![] });
    }
    m.lods[0].meshes.push(GMesh {
        vcount,
        material: 0,
        bonetable: 0,
        index_pad: 0,
        decl,
        streams: vec![(stride, data)],
        indices: vec![],
        subs: vec![],
    });
    m
}

pub fn generate(thorough: bool, seed: u64, out: &mut dyn Write) {
    let mut rng = Rng::new(seed, "C06");
    // the repository's sample (correspondence of the model on a real-world layout)
    if let Ok(b) = std::fs::read(sample_path()) {
        writeln!(out, "raw {}", hex(&b)).unwrap();
    }
    // T2, exhaustive in every run: all 65 536 half patterns through read_half4 (UV Half4: all four
    // components are reported) and read_half2, all 256 byte values through every byte codec
    for hi in 0..256u32 {
        let mut data = Vec::with_capacity(512);
        for lo in 0..256u32 {
            data.extend_from_slice(&(((hi << 8) | lo) as u16).to_le_bytes());
        }
        let m = single_stream_model(vec![GElem { stream: 0, offset: 0, ty: 14, usage: 4, uidx: 0 }], 8, 64, data.clone());
        writeln!(out, "parse {}", m.tokens()).unwrap();
        if hi % 16 == 0 || thorough {
            let m = single_stream_model(vec![GElem { stream: 0, offset: 0, ty: 13, usage: 4, uidx: 0 }], 4, 128, data.clone());
            writeln!(out, "parse {}", m.tokens()).unwrap();
            let m = single_stream_model(
                vec![GElem { stream: 0, offset: 0, ty: 14, usage: 0, uidx: 0 }, GElem { stream: 0, offset: 8, ty: 14, usage: 3, uidx: 0 }],
                16,
                32,
                data,
            );
            writeln!(out, "parse {}", m.tokens()).unwrap();
        }
    }
    let all_bytes: Vec<u8> = (0..=255u8).collect();
    // rotate so that every byte value appears in every component position (w is special for tangents)
    for rot in 0..4usize {
        let data: Vec<u8> = (0..256usize).map(|i| all_bytes[(i + rot * 65) % 256]).collect();
        for &(usage, ty) in &[(7u8, 8u8), (6, 8), (1, 8), (1, 5), (4, 8), (2, 5)] {
            let m = single_stream_model(vec![GElem { stream: 0, offset: 0, ty, usage, uidx: 0 }], 4, 64, data.clone());
            writeln!(out, "parse {}", m.tokens()).unwrap();
        }
        let m = single_stream_model(vec![GElem { stream: 0, offset: 0, ty: 17, usage: 1, uidx: 0 }, GElem { stream: 0, offset: 0, ty: 17, usage: 2, uidx: 0 }], 8, 32, data.clone());
        writeln!(out, "parse {}", m.tokens()).unwrap();
    }
    // every (usage, type) pair of the two enums once — unsupported ones are outside the quantifier
    // (the reader panics); they validate the model's switch
    if thorough {
        for usage in 0..8u8 {
            for ty in [0u8, 1, 2, 3, 5, 6, 7, 8, 9, 10, 13, 14, 16, 17] {
                let m = single_stream_model(vec![GElem { stream: 0, offset: 0, ty, usage, uidx: 0 }], 16, 2, rng.bytes(32));
                writeln!(out, "parse {}", m.tokens()).unwrap();
            }
        }
    }
    let n = if thorough { 40000 } else { 300 };
    for i in 0..n {
        let o = GenOpts {
            max_meshes: if i % 7 == 0 { 6 } else { 3 },
            max_vertices: if thorough && i % 20 == 0 { 3000 } else { 300 },
            combos: COMBOS,
            v5_only: false,
            canonical: false,
        };
        let m = gen_model(&mut rng, &o);
        writeln!(out, "parse {}", m.tokens()).unwrap();
    }
    // bytes of the declaration blocks that carry no information (element padding, the end-marker
    // slot's other fields, every slot behind the marker) filled with 0xFF / non-discriminant / random
    // bytes by the Lean driver (`declfill`, Spec/MdlFill.lean): the reported model must not change
    for i in 0..if thorough { 4000 } else { 80 } {
        let o = GenOpts { max_meshes: if i % 5 == 0 { 5 } else { 2 }, max_vertices: 40, combos: COMBOS, v5_only: false, canonical: false };
        let m = gen_model(&mut rng, &o);
        writeln!(out, "declfill fill={} {}", rng.next() >> 1, m.tokens()).unwrap();
    }
    // damaged encodings (`mut <seed> <k> parse …`, Base/Mutate.lean): 1..3 bytes of the encoded file
    // changed, half of them inside the headers / declarations / tables; the model of the code and
    // the code must agree on the result (mostly a rejection or a model with one other value)
    for i in 0..if thorough { 20000 } else { 300 } {
        let o = GenOpts { max_meshes: if i % 5 == 0 { 4 } else { 2 }, max_vertices: 30, combos: COMBOS, v5_only: false, canonical: false };
        let m = gen_model(&mut rng, &o);
        writeln!(out, "mut {} {} parse {}", rng.next() >> 1, 1 + rng.below(3), m.tokens()).unwrap();
    }
    // vertex streams beyond 64 KiB (`stride * k` ≥ 2^16: 2800 vertices of 24 bytes, 3300 of 20 with
    // a second stream of 4): the late vertices and the tail of the raw stream
    {
        let d = rng.bytes(2800 * 24);
        let m = single_stream_model(
            vec![GElem { stream: 0, offset: 0, ty: 2, usage: 0, uidx: 0 }, GElem { stream: 0, offset: 12, ty: 2, usage: 3, uidx: 0 }],
            24,
            2800,
            d,
        );
        writeln!(out, "parse {}", m.tokens()).unwrap();
        let d = rng.bytes(3300 * 20);
        let m = single_stream_model(
            vec![GElem { stream: 0, offset: 0, ty: 14, usage: 0, uidx: 0 }, GElem { stream: 0, offset: 8, ty: 2, usage: 3, uidx: 0 }],
            20,
            3300,
            d,
        );
        writeln!(out, "parse {}", m.tokens()).unwrap();
    }
    // wide tables (see `gen_wide`): the version-6 bone table at every boundary count on every run,
    // every other table once per run (thorough: 60 times)
    for n in [255usize, 256, 257, 300] {
        let m = gen_wide(&mut rng, 0, Some(n));
        writeln!(out, "parse {}", m.tokens()).unwrap();
    }
    for round in 0..if thorough { 60 } else { 1 } {
        for kind in 0..WIDE_KINDS {
            let fixed = if round == 0 && !thorough && kind != 9 && kind < 12 { Some(*rng.pick(&[256usize, 257, 300])) } else { None };
            let m = gen_wide(&mut rng, kind, fixed);
            writeln!(out, "parse {}", m.tokens()).unwrap();
        }
    }
    // tables whose BYTE size crosses 2^16 (row count x row size: a size or an offset computed in
    // 16 bits wraps there although the row count is far from 2^16)
    for &(kind, n) in WIDE_BYTES_CROSS {
        if thorough || kind % 2 == 1 {
            let d = rng.below(2) as usize;
            let m = gen_wide(&mut rng, kind, Some(n + d));
            writeln!(out, "parse {}", m.tokens()).unwrap();
        }
    }
    // placed streams (see `gen_placed`): the fixed two-mesh / two-stream model stream-major, with
    // one byte of padding, reversed, with detached sections and back to back (control) on every
    // run; every kind 3 times per run (thorough: 250 times)
    for recipe in [
        "-;-;s0.0,s1.0,s0.1,s1.1",
        "-;-;s0.0,g00,s0.1,s1.0,s1.1",
        "-;-;s1.1,s1.0,s0.1,s0.0",
        "aa;bbccdd;s0.0,s0.1,s1.0,s1.1",
        "-;-;s0.0,s0.1,s1.0,s1.1",
    ] {
        let (m, lay) = placed_fixed(&mut rng, recipe);
        writeln!(out, "placed {} {}", lay, m.tokens()).unwrap();
    }
    for round in 0..if thorough { 250 } else { 3 } {
        for kind in 0..PLACED_KINDS {
            let (m, lay) = gen_placed(&mut rng, kind, if thorough && round % 10 == 0 { 400 } else { 40 });
            writeln!(out, "placed {} {}", lay, m.tokens()).unwrap();
        }
    }
}

pub fn sample_path() -> std::path::PathBuf {
    let root = std::env::var("VERIF_REPO").unwrap_or_else(|_| "/repo".into());
    std::path::PathBuf::from(root).join("resources/tests/c0201e0038_top_zeroed.mdl")
}

// ---------------------------------------------------------------------------------------------
// canonical text of a parse result (must match `Driver/C06Case.lean` `viewText`)
// ---------------------------------------------------------------------------------------------
fn f32hex(s: &mut String, x: f32) {
    let b = if x.is_nan() { 0x7FC0_0000 } else { x.to_bits() };
    let _ = write!(s, "{:08x}", b);
}

pub fn vertices_text(vs: &[Vertex]) -> String {
    if vs.is_empty() {
        return "-".into();
    }
    let mut s = String::with_capacity(vs.len() * 184);
    for v in vs {
        for x in v.position.iter().chain(&v.uv0).chain(&v.uv1).chain(&v.normal).chain(&v.bitangent).chain(&v.color).chain(&v.bone_weight) {
            f32hex(&mut s, *x);
        }
        for b in v.bone_id {
            let _ = write!(s, "{:02x}", b);
        }
    }
    s
}

pub fn part_text(p: &Part) -> String {
    let sm = join_or_dash(p.submeshes.iter().map(|s| format!("{}:{}", s.index_count, s.index_offset)).collect(), ",");
    let sh = join_or_dash(
        p.shapes.iter().map(|s| format!("{}:{}", hex(s.name.as_bytes()), vertices_text(&s.morphed_vertices))).collect(),
        ",",
    );
    let st = join_or_dash(
        p.vertex_stream_strides.iter().zip(p.vertex_streams.iter()).map(|(st, d)| format!("{}:{}", st, hex(d))).collect(),
        ",",
    );
    format!("P mat={} v={} i={} sm={} sh={} st={}", p.material_index, vertices_text(&p.vertices), u16be_hex(&p.indices), sm, sh, st)
}

pub fn mdl_text(m: &MDL) -> String {
    let mut s = String::new();
    let _ = write!(
        s,
        "ok bones={} mats={}",
        join_or_dash(m.affected_bone_names.iter().map(|n| hex(n.as_bytes())).collect(), ","),
        join_or_dash(m.material_names.iter().map(|n| hex(n.as_bytes())).collect(), ",")
    );
    for l in &m.lods {
        s.push_str(" L");
        for p in &l.parts {
            s.push(' ');
            s.push_str(&part_text(p));
        }
    }
    s
}

/// `panic:<file>:<line>` -> `panic` (the model does not carry source locations)
pub fn strip_panic(s: String) -> String {
    if s.starts_with("panic:") && std::env::var("VERIF_PANICLOC").is_err() { "panic".into() } else { s }
}

pub fn run(case: &str, input: &str) -> String {
    let f: Vec<&str> = input.split(' ').collect();
    if f.len() != 2 || (f[0] != "parse" && f[0] != "raw") {
        return "bad-case".into();
    }
    let Some(bytes) = unhex(f[1]) else { return "bad-case".into() };
    strip_panic(guarded(move || match MDL::from_existing(&bytes) {
        Some(m) => mdl_text(&m),
        None => "none".into(),
    }))
}

pub fn dump(out: &mut dyn Write) {}
