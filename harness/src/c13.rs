//! C13: textures decode to the pixels their format defines (`Texture::from_existing`).
//!
//! Case grammar (abstract, the file itself is produced by the Lean `Spec.Tex.encode`):
//!   `tex <attribute> <format code> <width> <height> <depth> <mips> <64 bytes hex offsets> <payload hex>`
//!   `mut <seed> <k> tex …` — the same case with `k` bytes of the encoded file damaged by the Lean driver
//! Run input: `tex <file hex>`; answer `<w> <h> <d> <2d|3d> <rgba hex>` | `none` | `panic:<site>`.
#![allow(unused)]
use crate::util::*;
use std::io::Write;

const BGRA: u32 = 0x1450;
const BC1: u32 = 0x3420;
const BC3: u32 = 0x3431;
const BC5: u32 = 0x6230;
const FORMATS: [u32; 4] = [BGRA, BC1, BC3, BC5];

fn block_bytes(fmt: u32) -> usize {
    match fmt {
        BC1 => 8,
        _ => 16,
    }
}

/// payload bytes needed (slices stored one after the other; equals the decoder's own count
/// whenever depth <= 1 or height % 4 == 0, which is the property's quantifier)
fn needed(fmt: u32, w: usize, h: usize, d: usize) -> usize {
    if fmt == BGRA {
        w * h * d * 4
    } else {
        d * ((w + 3) / 4) * ((h + 3) / 4) * block_bytes(fmt)
    }
}

fn attr(rng: &mut Rng) -> u32 {
    match rng.below(6) {
        0 => 0,
        1 => 0x0080_0000,              // TEXTURE_TYPE2_D
        2 => 0x0100_0000,              // TEXTURE_TYPE3_D
        3 => !0x0100_0000u32,          // everything but the 3-D bit
        4 => 0xFFFF_FFFF,
        _ => rng.next() as u32,
    }
}

fn offsets(rng: &mut Rng) -> Vec<u8> {
    if rng.chance(1, 2) {
        // the usual layout: lod offsets 0,1,2; first surface at 80
        let mut v = Vec::new();
        for x in [0u32, 1, 2, 80, 0, 0, 0, 0, 0, 0, 0, 0, 0, 0, 0, 0] {
            v.extend_from_slice(&x.to_le_bytes());
        }
        v
    } else {
        rng.bytes(64)
    }
}

/// force the colour half of a BC1-style block into `q0 > q1` (4-colour mode), keeping the bits
fn force_four_colour(cb: &mut [u8], rng: &mut Rng) {
    let q0 = u16::from_le_bytes([cb[0], cb[1]]);
    let q1 = u16::from_le_bytes([cb[2], cb[3]]);
    let (mut a, mut b) = if q0 >= q1 { (q0, q1) } else { (q1, q0) };
    if a == b {
        if a == 0 { a = 1 + rng.below(0xFFFF) as u16 } else { b = rng.below(a as u64) as u16 }
    }
    cb[0..2].copy_from_slice(&a.to_le_bytes());
    cb[2..4].copy_from_slice(&b.to_le_bytes());
}

/// one random block with endpoint orderings / selector patterns biased to the interesting ones
fn block(fmt: u32, rng: &mut Rng, bc3_in_class: bool) -> Vec<u8> {
    fn colour(rng: &mut Rng) -> Vec<u8> {
        let q0 = match rng.below(6) { 0 => 0, 1 => 0xFFFF, 2 => 0x8000, _ => rng.next() as u16 };
        let q1 = match rng.below(8) {
            0 => q0,
            1 => q0.wrapping_add(1),
            2 => q0.wrapping_sub(1),
            3 => 0,
            4 => 0xFFFF,
            _ => rng.next() as u16,
        };
        let sel: u32 = match rng.below(6) {
            0 => 0x0000_0000,
            1 => 0xFFFF_FFFF,
            2 => 0xE4E4_E4E4, // 0,1,2,3 in every row
            3 => 0x1B1B_1B1B,
            _ => rng.next() as u32,
        };
        let mut v = Vec::new();
        v.extend_from_slice(&q0.to_le_bytes());
        v.extend_from_slice(&q1.to_le_bytes());
        v.extend_from_slice(&sel.to_le_bytes());
        v
    }
    fn alpha(rng: &mut Rng) -> Vec<u8> {
        let a0 = match rng.below(6) { 0 => 0, 1 => 255, _ => rng.next() as u8 };
        let a1 = match rng.below(8) {
            0 => a0,
            1 => a0.wrapping_add(1),
            2 => a0.wrapping_sub(1),
            3 => 0,
            4 => 255,
            _ => rng.next() as u8,
        };
        let sel: u64 = match rng.below(5) {
            0 => 0,
            1 => 0xFFFF_FFFF_FFFF,
            2 => 0xFAC6_88FA_C688, // 0..7,0..7
            _ => rng.next() & 0xFFFF_FFFF_FFFF,
        };
        let mut v = vec![a0, a1];
        v.extend_from_slice(&sel.to_le_bytes()[..6]);
        v
    }
    match fmt {
        BC1 => colour(rng),
        BC3 => {
            let mut v = alpha(rng);
            let mut c = colour(rng);
            if !bc3_in_class {
                force_four_colour(&mut c, rng);
            }
            v.extend(c);
            v
        }
        _ => {
            let mut v = alpha(rng);
            v.extend(alpha(rng));
            v
        }
    }
}

fn payload(fmt: u32, w: usize, h: usize, d: usize, rng: &mut Rng, bc3_in_class: bool) -> Vec<u8> {
    let n = needed(fmt, w, h, d);
    let mut p = if fmt == BGRA {
        rng.bytes(n)
    } else if rng.chance(1, 3) {
        // uniform bytes
        let mut p = rng.bytes(n);
        if fmt == BC3 && !bc3_in_class {
            for b in p.chunks_mut(16) {
                force_four_colour(&mut b[8..], rng);
            }
        }
        p
    } else {
        let mut p = Vec::with_capacity(n);
        while p.len() < n {
            p.extend(block(fmt, rng, bc3_in_class));
        }
        p
    };
    // sometimes the file continues after the first surface (mip chain): extra bytes are ignored
    match rng.below(4) {
        0 => {
            let k = rng.range(1, 40) as usize;
            p.extend(rng.bytes(k))
        }
        _ => {}
    }
    p
}

fn emit(out: &mut dyn Write, attr: u32, fmt: u32, w: usize, h: usize, d: usize, mips: u16, offs: &[u8], p: &[u8]) {
    writeln!(out, "tex {} {} {} {} {} {} {} {}", attr, fmt, w, h, d, mips, hex(offs), hex(p)).unwrap();
}

fn dim(rng: &mut Rng, max: u64) -> usize {
    (match rng.below(10) {
        0 => *rng.pick(&[1u64, 2, 3, 4, 5, 7, 8, 9]),
        1..=5 => rng.range(1, 20),
        6 | 7 => rng.range(1, 64),
        _ => rng.range(1, max),
    })
    .min(max) as usize
}

pub fn generate(thorough: bool, seed: u64, out: &mut dyn Write) {
    let mut rng = Rng::new(seed, "C13");
    let std_offs = {
        let mut v = Vec::new();
        for x in [0u32, 1, 2, 80, 0, 0, 0, 0, 0, 0, 0, 0, 0, 0, 0, 0] {
            v.extend_from_slice(&x.to_le_bytes());
        }
        v
    };

    // ---- (1) every small size: all formats, w,h in 1..=9, depth 1 (partial edge blocks)
    for &fmt in &FORMATS {
        for w in 1..=9usize {
            for h in 1..=9usize {
                let p = payload(fmt, w, h, 1, &mut rng, false);
                emit(out, attr(&mut rng), fmt, w, h, 1, 1, &std_offs, &p);
            }
        }
    }

    // ---- (2) per-block sweeps, packed as many blocks per texture as fit a 64-block row strip
    // BC1: endpoint orderings q0 <,=,> q1 with all 256 selector bytes in every row position
    {
        let strip = |blocks: &Vec<Vec<u8>>, fmt: u32, out: &mut dyn Write| {
            for chunk in blocks.chunks(64) {
                let p: Vec<u8> = chunk.iter().flatten().cloned().collect();
                emit(out, 0, fmt, chunk.len() * 4, 4, 1, 1, &std_offs, &p);
            }
        };
        let mut blocks = Vec::new();
        let n_pairs = if thorough { 96 } else { 12 };
        for k in 0..n_pairs {
            let hi = rng.range(1, 0xFFFF) as u16;
            let lo = rng.below(hi as u64) as u16;
            let (q0, q1) = match k % 3 {
                0 => (hi, lo),
                1 => (hi, hi),
                _ => (lo, hi),
            };
            for s in 0..256u32 {
                let row = s as u8;
                let other = rng.next() as u32;
                for pos in 0..4 {
                    let mut sel = other.to_le_bytes();
                    sel[pos] = row;
                    let mut b = Vec::new();
                    b.extend_from_slice(&q0.to_le_bytes());
                    b.extend_from_slice(&q1.to_le_bytes());
                    b.extend_from_slice(&sel);
                    if thorough || pos == (s as usize % 4) {
                        blocks.push(b);
                    }
                }
            }
        }
        strip(&blocks, BC1, out);

        // RGB565 expansion: every 16-bit endpoint value appears as q0 (selector 0) and q1 (selector 1)
        let mut blocks = Vec::new();
        let step = if thorough { 1 } else { 16 };
        let mut q: u32 = 0;
        while q < 65536 {
            let q0 = q as u16;
            let q1 = (q as u16) ^ (rng.next() as u16 | 1);
            let mut b = Vec::new();
            b.extend_from_slice(&q0.to_le_bytes());
            b.extend_from_slice(&q1.to_le_bytes());
            b.extend_from_slice(&0xE4E4_E4E4u32.to_le_bytes());
            blocks.push(b);
            q += if thorough { 1 } else { 1 + rng.below(2 * step) as u32 };
        }
        strip(&blocks, BC1, out);

        // alpha palette: all (a0, a1) in 256² (thorough) with every selector 0..7 visible
        let mut b3 = Vec::new();
        let mut b5 = Vec::new();
        for a0 in 0..256u32 {
            for a1 in 0..256u32 {
                if !thorough && !(a0 == a1 || a0 == a1 + 1 || a0 + 1 == a1 || rng.chance(1, 12)) {
                    continue;
                }
                let mut al = vec![a0 as u8, a1 as u8];
                al.extend_from_slice(&0xFAC6_88FA_C688u64.to_le_bytes()[..6]);
                let mut blk = al.clone();
                let mut c = rng.bytes(8);
                force_four_colour(&mut c, &mut rng);
                blk.extend(c);
                b3.push(blk);
                let mut blk = al.clone();
                blk.push(a1 as u8);
                blk.push(a0 as u8);
                blk.extend_from_slice(&0x0539_7705_3977u64.to_le_bytes()[..6]);
                b5.push(blk);
            }
        }
        strip(&b3, BC3, out);
        strip(&b5, BC5, out);
    }

    // ---- (3) random textures from the property's quantifier, with (4) a few large ones
    // interleaved (thorough: up to 512 x 512 and 512 x 128 x 8)
    let big: &[(usize, usize, usize)] = if thorough {
        &[(512, 512, 1), (511, 509, 1), (512, 128, 8), (257, 255, 1), (130, 64, 8), (509, 3, 1), (3, 509, 1),
          (512, 4, 8), (100, 100, 1), (64, 64, 8), (255, 257, 1), (16, 512, 1)]
    } else {
        &[(130, 127, 1), (64, 32, 4), (257, 5, 1), (6, 255, 1)]
    };
    let mut bigs: Vec<(u32, usize, usize, usize)> = Vec::new();
    for &(w, h, d) in big {
        for &fmt in &FORMATS {
            bigs.push((fmt, w, h, d));
        }
    }
    let n = if thorough { 40_000 } else { 5_000 };
    let every = n / bigs.len().max(1);
    for i in 0..n {
        if i % every == 0 {
            if let Some((fmt, w, h, d)) = bigs.pop() {
                let p = payload(fmt, w, h, d, &mut rng, false);
                emit(out, attr(&mut rng), fmt, w, h, d, 1, &std_offs, &p);
            }
        }
        let fmt = *rng.pick(&FORMATS);
        let (w, h, d) = match rng.below(12) {
            // 3-D: depth 2..8, height a multiple of 4
            0 | 1 | 2 => {
                let d = rng.range(2, 8) as usize;
                let h = if fmt == BGRA && rng.chance(1, 2) { dim(&mut rng, 40) } else { 4 * rng.range(1, 10) as usize };
                (dim(&mut rng, 40), h, d)
            }
            // long thin images up to 512
            3 => (rng.range(1, 512) as usize, dim(&mut rng, 12), 1),
            4 => (dim(&mut rng, 12), rng.range(1, 512) as usize, 1),
            5 => (*rng.pick(&[509usize, 510, 511, 512]), rng.range(1, 9) as usize, 1),
            _ => (dim(&mut rng, 96), dim(&mut rng, 96), 1),
        };
        let in_class = fmt == BC3 && rng.chance(1, 12);
        let p = payload(fmt, w, h, d, &mut rng, in_class);
        let offs = offsets(&mut rng);
        let mips = match rng.below(3) { 0 => 1, 1 => rng.range(0, 12) as u16, _ => rng.next() as u16 };
        emit(out, attr(&mut rng), fmt, w, h, d, mips, &offs, &p);
    }

    // ---- (5) degenerate sizes (no pixels): tagged trivial by the driver
    for &fmt in &FORMATS {
        for &(w, h, d) in &[(0usize, 5usize, 1usize), (5, 0, 1), (5, 5, 0), (0, 0, 0)] {
            let p = rng.bytes(8);
            emit(out, attr(&mut rng), fmt, w, h, d, 1, &std_offs, &p);
        }
    }

    // ---- (6) family `mut`: `mut <seed> <k> <ordinary tex case>` — the driver damages k = 1..3 bytes of
    // the encoded file (header + payload) and answers with the model of the code on the damaged file.
    // Small textures (the 80-byte header is a good share of the file), often with spare payload behind
    // the first surface so that a grown width / height / depth or another block size still decodes.
    // An independent stream: the older families keep their cases.
    let mut rng = Rng::new(seed, "C13-mut");
    let n = if thorough { 40_000 } else { 400 };
    for _ in 0..n {
        let fmt = *rng.pick(&FORMATS);
        let (w, h, d) = match rng.below(8) {
            0 | 1 => {
                let d = rng.range(2, 4) as usize;
                let h = if fmt == BGRA && rng.chance(1, 2) { dim(&mut rng, 12) } else { 4 * rng.range(1, 3) as usize };
                (dim(&mut rng, 12), h, d)
            }
            2 => (rng.range(1, 64) as usize, rng.range(1, 5) as usize, 1),
            3 => (rng.range(1, 5) as usize, rng.range(1, 64) as usize, 1),
            _ => (dim(&mut rng, 24), dim(&mut rng, 24), 1),
        };
        let in_class = fmt == BC3 && rng.chance(1, 4);
        let mut p = payload(fmt, w, h, d, &mut rng, in_class);
        match rng.below(4) {
            0 => {}
            1 => {
                let extra = rng.range(1, 64) as usize;
                p.extend(rng.bytes(extra))
            }
            _ => {
                let extra = rng.range(1, 2 * needed(fmt, w, h, d) as u64 + 16) as usize;
                p.extend(rng.bytes(extra))
            }
        }
        let offs = offsets(&mut rng);
        let mips = match rng.below(3) { 0 => 1, 1 => rng.range(0, 12) as u16, _ => rng.next() as u16 };
        write!(out, "mut {} {} ", rng.next() >> 1, rng.range(1, 3)).unwrap();
        emit(out, attr(&mut rng), fmt, w, h, d, mips, &offs, &p);
    }
}

pub fn run(case: &str, input: &str) -> String {
    let f: Vec<&str> = input.split(' ').collect();
    if f.len() != 2 || f[0] != "tex" {
        return "bad-case".into();
    }
    let Some(bytes) = unhex(f[1]) else { return "bad-case".into() };
    guarded(move || match physis::tex::Texture::from_existing(&bytes) {
        None => "none".to_string(),
        Some(t) => {
            let ty = match t.texture_type {
                physis::tex::TextureType::TwoDimensional => "2d",
                physis::tex::TextureType::ThreeDimensional => "3d",
            };
            format!("{} {} {} {} {}", t.width, t.height, t.depth, ty, hex(&t.rgba))
        }
    })
}

pub fn dump(out: &mut dyn Write) {}
