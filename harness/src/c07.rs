//! C07: parse → (edits) → `write_to_buffer` → parse.  Abstract canonical models and edit
//! histories are generated here; the Lean driver encodes the model (`Spec/Mdl.encodeMdl`) and
//! decodes the new vertex data into `Vertex` values (grammar: `lean/PhysisModel/Driver/C07.lean`).
#![allow(unused)]
use crate::c06::*;
use crate::util::*;
use physis::model::{MDL, NewShapeValue, SubMesh, Vertex};
use std::fmt::Write as _;
use std::io::Write;

fn dot_streams(st: &[(u8, Vec<u8>)]) -> String {
    if st.is_empty() {
        return "-".into();
    }
    st.iter().map(|(s, d)| format!("{}.{}", s, hex(d))).collect::<Vec<_>>().join("/")
}

fn u16be(l: &[u16]) -> String {
    if l.is_empty() {
        return "-".into();
    }
    let mut s = String::new();
    for v in l {
        let _ = write!(s, "{:04x}", v);
    }
    s
}

/// one random history on `m` (mutated along to stay consistent); returns the edit tokens.
/// `free`: the "free layout" family (`editfree`, correspondence only — see notes/C07.md): every round
/// lays the meshes of the LOD out in the index buffer in an order of its own (a permutation of the
/// mesh order) and / or with gaps between them (starts aligned to 8 index words as in shipped
/// files, or arbitrary); ranges stay pairwise disjoint and every mesh's sub-meshes contiguous.
/// Shape tables are removed first and no shape mesh is added (their values count from the mesh's
/// start, whose meaning the specification only fixes for mesh-order layouts).
fn gen_history(rng: &mut Rng, m: &mut GModel, huge: bool, free: bool) -> Vec<String> {
    let mut huge = huge;
    let mut toks = Vec::new();
    let has_shape_tables = !m.shm.is_empty() || !m.shv.is_empty();
    let mut shapes_removed = false;
    if if free { has_shape_tables } else { has_shape_tables && rng.chance(9, 10) || rng.chance(1, 5) } {
        toks.push("rs=1".to_string());
        m.shm.clear();
        m.shv.clear();
        for s in &mut m.shapes {
            s.start = [0; 3];
            s.count = [0; 3];
        }
        shapes_removed = true;
    }
    let rounds = if free {
        rng.range(1, 3)
    } else {
        match rng.below(6) {
            0 => 0,
            1 | 2 | 3 => 1,
            4 => 2,
            _ => 3,
        }
    };
    for _ in 0..rounds {
        let lodn = m.lodn as usize;
        let mut l = rng.below(lodn as u64) as usize;
        if free {
            // prefer a LOD with at least two meshes (an order to permute)
            let multi: Vec<usize> = (0..lodn).filter(|&i| m.lods[i].meshes.len() >= 2).collect();
            if !multi.is_empty() && rng.chance(7, 8) {
                l = *rng.pick(&multi);
            }
        }
        let nm = m.lods[l].meshes.len();
        if nm == 0 {
            continue;
        }
        // new index counts for every mesh of the LOD first (starts must be consistent)
        let mut order: Vec<usize> = (0..nm).collect();
        for i in (1..nm).rev() {
            let j = rng.below((i + 1) as u64) as usize;
            order.swap(i, j);
        }
        let mut new_vc = Vec::new();
        let mut new_ni = Vec::new();
        for d in 0..nm {
            let vc = match rng.below(12) {
                0 => 0,
                1 => 1,
                2..=8 => rng.range(2, 60),
                9 | 10 => rng.range(60, 400),
                _ => {
                    if huge {
                        // the u16 vertex-count boundary: once per selected history
                        huge = false;
                        *rng.pick(&[65535u64, 65534, 40000])
                    } else {
                        rng.range(400, 1500)
                    }
                }
            } as usize;
            let ni = match rng.below(5) {
                0 => 0,
                1 => 8 * rng.below(6) as usize,
                _ => rng.below((3 * vc.min(700) + 1) as u64) as usize,
            };
            // a third of the replacements keep the mesh's vertex and index counts (same-size
            // geometry whose position in the LOD's buffers still moves when a neighbour resizes)
            let (vc, ni) = if rng.chance(1, 3) {
                (m.lods[l].meshes[d].vcount as usize, m.lods[l].meshes[d].indices.len())
            } else {
                (vc, ni)
            };
            new_vc.push(vc);
            new_ni.push(ni);
        }
        let starts: Vec<usize> = if free {
            let mut lay: Vec<usize> = (0..nm).collect();
            for i in (1..nm).rev() {
                let j = rng.below((i + 1) as u64) as usize;
                lay.swap(i, j);
            }
            if nm >= 2 && lay.iter().enumerate().all(|(i, &d)| i == d) && rng.chance(3, 4) {
                lay.rotate_left(1); // mesh order only now and then (then with gaps, mostly)
            }
            let gaps = rng.below(3); // 0 packed, 1 starts aligned to 8 words, 2 arbitrary gaps
            let mut pos = 0usize;
            let mut st = vec![0usize; nm];
            for &d in &lay {
                match gaps {
                    1 => pos = (pos + 7) / 8 * 8,
                    2 => pos += rng.below(10) as usize,
                    _ => {}
                }
                st[d] = pos;
                pos += new_ni[d];
            }
            st
        } else {
            (0..nm).map(|d| new_ni[..d].iter().sum()).collect()
        };
        for &d in &order {
            let start: usize = starts[d];
            let mesh = &mut m.lods[l].meshes[d];
            let strides: Vec<u8> = mesh.streams.iter().map(|x| x.0).collect();
            let vc = new_vc[d];
            let streams = canonical_streams(rng, &mesh.decl, &strides, vc);
            let ni = new_ni[d];
            let indices: Vec<u16> = (0..ni).map(|_| if vc == 0 { if rng.chance(1, 2) { 0 } else { 1 + rng.below(65535) as u16 } } else { rng.below(vc as u64) as u16 }).collect();
            // contiguous split over the existing sub-meshes
            let nsub = mesh.subs.len();
            let mut cuts: Vec<usize> = (0..nsub.saturating_sub(1)).map(|_| rng.below((ni + 1) as u64) as usize).collect();
            cuts.sort();
            let mut pairs = Vec::new();
            let mut prev = 0usize;
            for i in 0..nsub {
                let end = if i + 1 == nsub { ni } else { cuts[i] };
                pairs.push(((start + prev) as u32, (end - prev) as u32));
                prev = end;
            }
            // occasionally supply fewer sub-meshes than the part has (only a prefix is updated)
            let supplied = if nsub > 1 && !free && rng.chance(1, 10) { &pairs[..1] } else { &pairs[..] };
            toks.push(format!(
                "rv={}:{}:{}:{}:{}:{}",
                l,
                d,
                vc,
                dot_streams(&streams),
                u16be(&indices),
                if supplied.is_empty() { "-".to_string() } else { supplied.iter().map(|(o, c)| format!("{}.{}", o, c)).collect::<Vec<_>>().join("/") }
            ));
            mesh.vcount = vc as u16;
            mesh.streams = streams;
            mesh.indices = indices;
            mesh.index_pad = 0;
            for (i, (o, c)) in supplied.iter().enumerate() {
                mesh.subs[i].off = *o;
                mesh.subs[i].count = *c;
            }
        }
        // other LODs keep their layout
    }
    // add shape meshes (only meaningful after the tables were cleared or were empty)
    if !free && !m.shapes.is_empty() && (shapes_removed || !has_shape_tables) && rng.chance(1, 2) {
        let n = rng.range(1, 3);
        let mut smi_of: std::collections::HashMap<(usize, usize), usize> = std::collections::HashMap::new();
        for _ in 0..n {
            let l = rng.below(m.lodn as u64) as usize;
            if m.lods[l].meshes.is_empty() {
                continue;
            }
            let shape = rng.below(m.shapes.len() as u64) as usize;
            let part = rng.below(m.lods[l].meshes.len() as u64) as usize;
            let mesh = &mut m.lods[l].meshes[part];
            let nv = if mesh.indices.is_empty() { 0 } else { rng.below(4) as usize };
            if mesh.vcount as usize + nv > 65535 {
                continue;
            }
            let smi = *smi_of.get(&(shape, l)).unwrap_or(&0);
            smi_of.insert((shape, l), smi + 1);
            let bases: Vec<u32> = (0..nv).map(|_| rng.below(mesh.indices.len() as u64) as u32).collect();
            let strides: Vec<u8> = mesh.streams.iter().map(|x| x.0).collect();
            let streams = canonical_streams(rng, &mesh.decl, &strides, nv);
            toks.push(format!(
                "as={}:{}:{}:{}:{}:{}",
                l,
                shape,
                smi,
                part,
                if bases.is_empty() { "-".to_string() } else { bases.iter().map(|b| b.to_string()).collect::<Vec<_>>().join("/") },
                dot_streams(&streams)
            ));
            mesh.vcount += nv as u16;
            for (i, (_, d)) in streams.iter().enumerate() {
                mesh.streams[i].1.extend_from_slice(d);
            }
        }
    }
    toks
}

/// a one-call history that keeps the shape tables (wide-table family: all shapes sit on the first
/// mesh of LOD 0): `replace_vertices` on the last mesh of LOD 0 — any new size when that is not the
/// first mesh (nothing after it moves), the same vertex / index counts when it is (the stored shape
/// values stay inside the mesh)
fn gen_history_keep(rng: &mut Rng, m: &mut GModel) -> Vec<String> {
    let d = m.lods[0].meshes.len() - 1;
    let start: usize = m.lods[0].meshes[..d].iter().map(|x| x.indices.len() + x.index_pad).sum();
    let mesh = &mut m.lods[0].meshes[d];
    let (vc, ni) = if d == 0 { (mesh.vcount as usize, mesh.indices.len()) } else { (rng.range(0, 60) as usize, rng.below(100) as usize) };
    let strides: Vec<u8> = mesh.streams.iter().map(|x| x.0).collect();
    let streams = canonical_streams(rng, &mesh.decl, &strides, vc);
    let indices: Vec<u16> = (0..ni).map(|_| if vc == 0 { if rng.chance(1, 2) { 0 } else { 1 + rng.below(65535) as u16 } } else { rng.below(vc as u64) as u16 }).collect();
    let nsub = mesh.subs.len();
    let mut cuts: Vec<usize> = (0..nsub.saturating_sub(1)).map(|_| rng.below((ni + 1) as u64) as usize).collect();
    cuts.sort();
    let mut pairs = Vec::new();
    let mut prev = 0usize;
    for i in 0..nsub {
        let end = if i + 1 == nsub { ni } else { cuts[i] };
        pairs.push(((start + prev) as u32, (end - prev) as u32));
        prev = end;
    }
    let tok = format!(
        "rv=0:{}:{}:{}:{}:{}",
        d,
        vc,
        dot_streams(&streams),
        u16be(&indices),
        if pairs.is_empty() { "-".to_string() } else { pairs.iter().map(|(o, c)| format!("{}.{}", o, c)).collect::<Vec<_>>().join("/") }
    );
    mesh.vcount = vc as u16;
    mesh.streams = streams;
    mesh.indices = indices;
    mesh.index_pad = 0;
    for (i, (o, c)) in pairs.iter().enumerate() {
        mesh.subs[i].off = *o;
        mesh.subs[i].count = *c;
    }
    vec![tok]
}

pub fn generate(thorough: bool, seed: u64, out: &mut dyn Write) {
    let mut rng = Rng::new(seed, "C07");
    if let Ok(b) = std::fs::read(sample_path()) {
        writeln!(out, "rawwrite {}", hex(&b)).unwrap();
    }
    if thorough {
        // the u16 vertex-count boundary (the specification's decoder is quadratic in the vertex
        // count, so the boundary gets two dedicated small-stride cases instead of random ones)
        for &vc in &[65535usize, 65534] {
            let decl = vec![GElem { stream: 0, offset: 0, ty: 2, usage: 0, uidx: 0 }];
            let mut m = single_stream_model(decl.clone(), 12, 3, canonical_streams(&mut rng, &decl, &[12], 3)[0].1.clone());
            m.lods[0].meshes[0].indices = vec![0, 1, 2];
            m.lods[0].meshes[0].index_pad = 5;
            m.lods[0].meshes[0].subs = vec![GSub { off: 0, count: 3, mask: 0, bstart: 0, bcount: 0 }];
            let streams = canonical_streams(&mut rng, &decl, &[12], vc);
            let ni = 3 * 700;
            let indices: Vec<u16> = (0..ni).map(|_| rng.below(vc as u64) as u16).collect();
            writeln!(out, "edit {} | rv=0:0:{}:{}:{}:0.{}", m.tokens(), vc, dot_streams(&streams), u16be(&indices), ni).unwrap();
        }
    }
    // a vertex stream beyond 64 KiB on every run (`stride * k` ≥ 2^16 for the late vertices): a
    // replacement of 3 vertices by 5600 of 12 bytes, written and re-read
    {
        let vc = 5600usize;
        let decl = vec![GElem { stream: 0, offset: 0, ty: 2, usage: 0, uidx: 0 }];
        let mut m = single_stream_model(decl.clone(), 12, 3, canonical_streams(&mut rng, &decl, &[12], 3)[0].1.clone());
        m.lods[0].meshes[0].indices = vec![0, 1, 2];
        m.lods[0].meshes[0].index_pad = 5;
        m.lods[0].meshes[0].subs = vec![GSub { off: 0, count: 3, mask: 0, bstart: 0, bcount: 0 }];
        let streams = canonical_streams(&mut rng, &decl, &[12], vc);
        let ni = 3 * 50;
        let indices: Vec<u16> = (0..ni).map(|_| rng.below(vc as u64) as u16).collect();
        writeln!(out, "edit {} | rv=0:0:{}:{}:{}:0.{}", m.tokens(), vc, dot_streams(&streams), u16be(&indices), ni).unwrap();
    }
    let n = if thorough { 30000 } else { 400 };
    for i in 0..n {
        let o = GenOpts {
            max_meshes: if i % 5 == 0 { 4 } else { 2 },
            max_vertices: if i % 9 == 0 { 300 } else { 60 },
            combos: if i % 12 == 8 { D9COMBOS } else { WCOMBOS },
            v5_only: true,
            canonical: true,
        };
        let mut m = gen_model(&mut rng, &o);
        let base = m.tokens();
        if i % 4 == 0 {
            writeln!(out, "write {}", base).unwrap();
            if i % 16 == 0 {
                writeln!(out, "wbytes {} |", base).unwrap();
            }
        } else {
            let toks = gen_history(&mut rng, &mut m, thorough && i % 100 == 7, false);
            writeln!(out, "edit {} | {}", base, toks.join(" ")).unwrap();
            if i % 10 == 1 {
                writeln!(out, "wbytes {} | {}", base, toks.join(" ")).unwrap();
            }
        }
    }
    // redundant header copies (`wredun`): the file header and the LOD table both store every
    // LOD's vertex / index offsets and sizes; the reader takes the vertex offset from the LOD table
    // and the index offset from the file header.  The copies the reader does not use are set to
    // other values (small deltas: the writer sizes the file from the header's offsets + sizes);
    // parse -> write -> parse must report the same model
    let n = if thorough { 4000 } else { 120 };
    for i in 0..n {
        let o = GenOpts { max_meshes: if i % 3 == 0 { 3 } else { 2 }, max_vertices: 40, combos: WCOMBOS, v5_only: true, canonical: true };
        let mut m = gen_model(&mut rng, &o);
        let base = m.tokens();
        let k = 1 + rng.below(3) as usize;
        let mut ps = vec![];
        for _ in 0..k {
            let f = *rng.pick(&["lio", "lio", "lio", "fvo", "fvs", "fis", "lvs", "lis", "fss", "frs", "frs"]);
            let lod = rng.below(3);
            // the value is a delta to the stored one, applied by the driver (which knows the layout)
            let d: i64 = match rng.below(5) {
                0 => 2,
                1 => 16,
                2 => -2,
                3 => 64,
                _ => 1 + rng.below(48) as i64,
            };
            ps.push(format!("{}.{}.{}", f, lod, d));
        }
        if i % 4 == 3 {
            // stored stack / runtime size too small, a model without shape tables (no edit resizes
            // one), vertex replacements only: the data offset has to come from recomputed sizes
            let mut m2 = gen_model(&mut rng, &o);
            for _ in 0..10 {
                if m2.shm.is_empty() && m2.shv.is_empty() {
                    break;
                }
                m2 = gen_model(&mut rng, &o);
            }
            let base2 = m2.tokens();
            let toks = gen_history(&mut rng, &mut m2, false, false);
            let f = *rng.pick(&["frs", "frs", "fss"]);
            let d = *rng.pick(&[2i64, 4, 8, 16, 32, 64]);
            if !toks.is_empty() {
                writeln!(out, "wredun redun={}.0.-{} {} | {}", f, d, base2, toks.join(" ")).unwrap();
            }
        } else if i % 2 == 0 {
            writeln!(out, "wredun redun={} {}", ps.join(","), base).unwrap();
        } else {
            // the same with an edit history: the edits must leave consistent headers behind
            let toks = gen_history(&mut rng, &mut m, false, false);
            writeln!(out, "wredun redun={} {} | {}", ps.join(","), base, toks.join(" ")).unwrap();
        }
    }
    // damaged encodings (`mut <seed> <k> write …`, Base/Mutate.lean) through parse -> write -> parse
    let n = if thorough { 10000 } else { 200 };
    for i in 0..n {
        let o = GenOpts { max_meshes: if i % 3 == 0 { 3 } else { 2 }, max_vertices: 30, combos: WCOMBOS, v5_only: true, canonical: true };
        let m = gen_model(&mut rng, &o);
        writeln!(out, "mut {} {} write {}", rng.next() >> 1, 1 + rng.below(3), m.tokens()).unwrap();
    }
    // free-layout histories (correspondence only, expected answer = the supplied geometry)
    let n = if thorough { 4000 } else { 80 };
    for i in 0..n {
        let o = GenOpts {
            max_meshes: if i % 3 == 0 { 2 } else { 4 },
            max_vertices: if i % 9 == 0 { 300 } else { 60 },
            combos: WCOMBOS,
            v5_only: true,
            canonical: true,
        };
        let mut m = gen_model(&mut rng, &o);
        let base = m.tokens();
        let toks = gen_history(&mut rng, &mut m, false, true);
        writeln!(out, "editfree {} | {}", base, toks.join(" ")).unwrap();
        if i % 10 == 1 {
            writeln!(out, "wbytes {} | {}", base, toks.join(" ")).unwrap();
        }
    }
    // wide tables (`c06::gen_wide_opts`, canonical): every table of the runtime block with >= 255 rows /
    // sizes at 2^16, written unedited, after a history (`update_headers`, `calculate_runtime_size`
    // over the wide table), and byte-exact
    for round in 0..if thorough { 30 } else { 1 } {
        for &kind in WIDE_KINDS_CANONICAL {
            let fixed = if round == 0 && !thorough && kind != 9 && kind < 12 { Some(*rng.pick(&[256usize, 257, 300])) } else { None };
            let mut m = gen_wide_opts(&mut rng, kind, fixed, true);
            let base = m.tokens();
            match (round + kind) % 3 {
                0 => writeln!(out, "write {}", base).unwrap(),
                1 => writeln!(out, "wbytes {} |", base).unwrap(),
                _ => {}
            }
            // shape tables kept (always when they are the wide table) or the ordinary history
            let toks = if (5..=7).contains(&kind) || rng.chance(1, 2) { gen_history_keep(&mut rng, &mut m) } else { gen_history(&mut rng, &mut m, false, false) };
            writeln!(out, "{} {} | {}", if (round + kind) % 4 == 3 { "wbytes" } else { "edit" }, base, toks.join(" ")).unwrap();
        }
    }
    // tables whose BYTE size crosses 2^16, written and edited (the header recomputation sums
    // count x row size per table)
    for &(kind, n) in WIDE_BYTES_CROSS {
        if thorough || kind % 2 == 1 || kind == 6 {
            let d = rng.below(2) as usize;
            let mut m = gen_wide_opts(&mut rng, kind, Some(n + d), true);
            let base = m.tokens();
            writeln!(out, "write {}", base).unwrap();
            let toks = gen_history_keep(&mut rng, &mut m);
            writeln!(out, "edit {} | {}", base, toks.join(" ")).unwrap();
        }
    }
    // a mesh record that belongs to no LOD (own random stream; see `run_gap`)
    {
        let mut grng = Rng::new(seed, "C07-gap");
        let n = if thorough { 400 } else { 40 };
        let mut made = 0;
        let mut tries = 0;
        while made < n && tries < 40 * n {
            tries += 1;
            let o = GenOpts { max_meshes: 3, max_vertices: 30, combos: WCOMBOS, v5_only: true, canonical: true };
            let m = gen_model(&mut grng, &o);
            if m.lodn >= 2 && m.lods[0].meshes.len() >= 2 {
                writeln!(out, "wgap {}", m.tokens()).unwrap();
                made += 1;
            }
        }
    }
    // redundant copies, continued (appended: the random stream of the families above is unchanged):
    // the file header's LOD count (`flc`; the reader loops over the `ModelHeader`'s count).  Unedited
    // the writer echoes it; `update_headers` must not depend on it (fixed defect file-lod-count: it
    // bounded the first loop by it - a count below the real one left stale mesh offsets, above 3
    // panicked).  Models with >= 2 meshes / several streams, so that stale mesh offsets show.
    let n = if thorough { 600 } else { 36 };
    for i in 0..n {
        let o = GenOpts { max_meshes: 3, max_vertices: 40, combos: WCOMBOS, v5_only: true, canonical: true };
        let mut m = gen_model(&mut rng, &o);
        let base = m.tokens();
        let lodn = m.lodn as i64;
        let d: i64 = match i % 6 {
            0 => -lodn,
            1 => -1,
            2 => 3 - lodn,
            3 => 4 - lodn,
            4 => 1,
            _ => 200 + rng.below(50) as i64,
        };
        if i % 5 == 4 {
            writeln!(out, "wredun redun=flc.0.{} {}", d, base).unwrap();
        } else {
            let toks = gen_history(&mut rng, &mut m, false, false);
            writeln!(out, "wredun redun=flc.0.{} {} | {}", d, base, toks.join(" ")).unwrap();
        }
    }
}

// ---------------------------------------------------------------------------------------------
fn parse_vertex(h: &[u8]) -> Option<Vertex> {
    if h.len() != 92 {
        return None;
    }
    let f = |i: usize| f32::from_bits(u32::from_be_bytes([h[4 * i], h[4 * i + 1], h[4 * i + 2], h[4 * i + 3]]));
    Some(Vertex {
        position: [f(0), f(1), f(2)],
        uv0: [f(3), f(4)],
        uv1: [f(5), f(6)],
        normal: [f(7), f(8), f(9)],
        bitangent: [f(10), f(11), f(12), f(13)],
        color: [f(14), f(15), f(16), f(17)],
        bone_weight: [f(18), f(19), f(20), f(21)],
        bone_id: [h[88], h[89], h[90], h[91]],
    })
}

fn parse_vertices(s: &str) -> Option<Vec<Vertex>> {
    let b = unhex(s)?;
    if b.len() % 92 != 0 {
        return None;
    }
    b.chunks(92).map(parse_vertex).collect()
}

fn parse_u16be(s: &str) -> Option<Vec<u16>> {
    let b = unhex(s)?;
    if b.len() % 2 != 0 {
        return None;
    }
    Some(b.chunks(2).map(|c| u16::from_be_bytes([c[0], c[1]])).collect())
}

enum Op {
    Rv(usize, usize, Vec<Vertex>, Vec<u16>, Vec<(u32, u32)>),
    Rs,
    As(usize, usize, usize, usize, Vec<(u32, Vertex)>),
}

fn parse_op(tok: &str) -> Option<Op> {
    let (k, v) = tok.split_once('=')?;
    let f: Vec<&str> = v.split(':').collect();
    match k {
        "rv" if f.len() == 5 => {
            let subs = if f[4] == "-" {
                vec![]
            } else {
                f[4].split('/')
                    .map(|p| {
                        let (a, b) = p.split_once('.')?;
                        Some((a.parse().ok()?, b.parse().ok()?))
                    })
                    .collect::<Option<Vec<_>>>()?
            };
            Some(Op::Rv(f[0].parse().ok()?, f[1].parse().ok()?, parse_vertices(f[2])?, parse_u16be(f[3])?, subs))
        }
        "rs" => Some(Op::Rs),
        "as" if f.len() == 5 => {
            let vals = if f[4] == "-" {
                vec![]
            } else {
                f[4].split('/')
                    .map(|p| {
                        let (a, b) = p.split_once('.')?;
                        let vb = unhex(b)?;
                        Some((a.parse().ok()?, parse_vertex(&vb)?))
                    })
                    .collect::<Option<Vec<_>>>()?
            };
            Some(Op::As(f[0].parse().ok()?, f[1].parse().ok()?, f[2].parse().ok()?, f[3].parse().ok()?, vals))
        }
        _ => None,
    }
}

fn rd32(b: &[u8], o: usize) -> u64 {
    u32::from_le_bytes([b[o], b[o + 1], b[o + 2], b[o + 3]]) as u64
}

/// header self-consistency flags of a written buffer (same definition as `Spec/MdlEdit.headerFlags`)
fn flags_text(edited: bool, file: &[u8], buf: &[u8], mdeq: bool, m1: &MDL) -> String {
    let b = |x: bool| if x { "1" } else { "0" };
    if buf.len() < 68 {
        return "short".into();
    }
    let stack = rd32(buf, 4);
    let runtime = rd32(buf, 8);
    let vo: Vec<u64> = (0..3).map(|i| rd32(buf, 16 + 4 * i)).collect();
    let io: Vec<u64> = (0..3).map(|i| rd32(buf, 28 + 4 * i)).collect();
    let vbs: Vec<u64> = (0..3).map(|i| rd32(buf, 40 + 4 * i)).collect();
    let ibs: Vec<u64> = (0..3).map(|i| rd32(buf, 52 + 4 * i)).collect();
    let len = buf.len() as u64;
    let vsum = |i: usize| -> u64 {
        m1.lods.get(i).map_or(0, |l| {
            l.parts.iter().map(|p| p.vertex_stream_strides.iter().map(|st| (p.vertices.len() * st) as u64).sum::<u64>()).sum()
        })
    };
    let isum = |i: usize| -> u64 { 2 * m1.lods.get(i).map_or(0, |l| l.parts.iter().map(|p| p.indices.len() as u64).sum::<u64>()) };
    let sized = (0..3).all(|i| vbs[i] == vsum(i));
    let padded = (0..3).all(|i| ibs[i] % 16 == 0 && isum(i) <= ibs[i]);
    let secs: Vec<(u64, u64)> = (0..3).map(|i| (vo[i], vbs[i])).chain((0..3).map(|i| (io[i], ibs[i]))).collect();
    let ne: Vec<(u64, u64)> = secs.iter().cloned().filter(|s| s.1 != 0).collect();
    let mut disjoint = ne.iter().all(|s| 68 + stack + runtime <= s.0);
    for a in 0..ne.len() {
        for b in (a + 1)..ne.len() {
            if !(ne[a].0 + ne[a].1 <= ne[b].0 || ne[b].0 + ne[b].1 <= ne[a].0) {
                disjoint = false;
            }
        }
    }
    let inb = secs.iter().all(|s| s.0 + s.1 <= len);
    if edited {
        format!("fheq=- mdeq={} sz={} pad={} dis={} inb={}", b(mdeq), b(sized), b(padded), b(disjoint), b(inb))
    } else {
        let fheq = file.len() >= 68 && buf[..68] == file[..68];
        format!("fheq={} mdeq={} sz=- pad=- dis=- inb={}", b(fheq), b(mdeq), b(inb))
    }
}

fn run_inner(kind: &str, file: Vec<u8>, ops: Vec<Op>) -> String {
    let Some(mut m) = MDL::from_existing(&file) else { return "none".into() };
    let edited = !ops.is_empty();
    let r = std::panic::catch_unwind(std::panic::AssertUnwindSafe(|| {
        for op in &ops {
            match op {
                Op::Rv(l, p, verts, indices, subs) => {
                    // SubMesh has a private field: clone the part's own entries and change the public ones
                    let existing: Vec<SubMesh> = m.lods[*l].parts[*p].submeshes.clone();
                    let mut supplied = Vec::new();
                    for (i, (o, c)) in subs.iter().enumerate() {
                        // the public fields are what the caller supplies; which parsed entry the
                        // value was cloned from must not matter (half the calls clone the i-th
                        // entry, half use the first entry as a template for every range)
                        let mut s = if (verts.len() + indices.len()) % 2 == 0 { existing[i] } else { existing[0] };
                        s.index_offset = *o;
                        s.index_count = *c;
                        supplied.push(s);
                    }
                    m.replace_vertices(*l, *p, verts, indices, &supplied);
                }
                Op::Rs => m.remove_shape_meshes(),
                Op::As(l, sh, smi, p, vals) => {
                    let nv: Vec<NewShapeValue> = vals.iter().map(|(b, v)| NewShapeValue { base_index: *b, replacing_vertex: *v }).collect();
                    m.add_shape_mesh(*l, *sh, *smi, *p, &nv);
                }
            }
        }
    }));
    if r.is_err() {
        return "panic@edit".into();
    }
    // half of the cases write twice: the second buffer must be the first one again (writing does not
    // change the handle)
    let twice = file.len() % 2 == 0;
    let w0 = if twice { std::panic::catch_unwind(std::panic::AssertUnwindSafe(|| m.write_to_buffer())).ok().flatten() } else { None };
    let w = std::panic::catch_unwind(std::panic::AssertUnwindSafe(|| m.write_to_buffer()));
    if twice {
        if let (Some(a), Ok(Some(b))) = (&w0, &w) {
            if a != b {
                return "unstable@write".into();
            }
        }
    }
    let buf = match w {
        Err(_) => return "panic@write".into(),
        Ok(None) => return "none@write".into(),
        Ok(Some(b)) => b,
    };
    if kind == "wbytes" {
        return hex(&buf);
    }
    let r = std::panic::catch_unwind(std::panic::AssertUnwindSafe(|| MDL::from_existing(&buf)));
    let m1 = match r {
        Err(_) => return "panic@reparse".into(),
        Ok(None) => return "none@reparse".into(),
        Ok(Some(x)) => x,
    };
    // `PartialEq` on the float fields makes a NaN differ from itself: fall back to the `Debug`
    // rendering (every field, NaN printed as NaN) before calling the two unequal
    let mdeq = m1.model_data == m.model_data || format!("{:?}", m1.model_data) == format!("{:?}", m.model_data);
    let mut fl = flags_text(edited, &file, &buf, mdeq, &m1);
    if kind == "editr" {
        // redundant header copies were perturbed: the in-bounds flag of the (unedited) header is
        // not part of what is compared
        if let Some(p) = fl.rfind(" inb=") {
            fl.truncate(p);
            fl.push_str(" inb=-");
        }
    }
    if kind == "rawwrite" {
        format!("ok {}", fl)
    } else {
        format!("ok {} {}", fl, mdl_text(&m1))
    }
}

/// `wgap`: LOD 0 gives up its last mesh (its mesh count is lowered by one in the file: the record
/// stays in the mesh table, between the ranges of LOD 0 and LOD 1, and belongs to no LOD), then
/// parse -> write -> parse must return what the first parse returned.
fn run_gap(mut file: Vec<u8>) -> String {
    let rd16 = |b: &[u8], o: usize| -> Option<usize> { Some(u16::from_le_bytes([*b.get(o)?, *b.get(o + 1)?]) as usize) };
    let rd32 = |b: &[u8], o: usize| -> Option<usize> { Some(u32::from_le_bytes([*b.get(o)?, *b.get(o + 1)?, *b.get(o + 2)?, *b.get(o + 3)?]) as usize) };
    // file header 0x44, declarations 136 bytes each, string block, 56-byte model header, element ids, LODs
    let lod0 = (|| {
        let vdc = rd16(&file, 0x0C)?;
        let mut p = 0x44 + 136 * vdc;
        let ssz = rd32(&file, p + 4)?;
        p += 8 + ssz;
        let eids = rd16(&file, p + 24)?;
        Some(p + 56 + 32 * eids)
    })();
    let Some(lod0) = lod0 else { return "bad-layout".into() };
    let Some(cnt) = rd16(&file, lod0 + 2) else { return "bad-layout".into() };
    if cnt < 2 {
        return "bad-layout".into();
    }
    let Some(before) = MDL::from_existing(&file) else { return "none@parse0".into() };
    if before.lods.first().map(|l| l.parts.len()) != Some(cnt) {
        return "bad-layout".into();
    }
    file[lod0 + 2..lod0 + 4].copy_from_slice(&((cnt - 1) as u16).to_le_bytes());
    let Some(m) = MDL::from_existing(&file) else { return "none@parse".into() };
    if m.lods.first().map(|l| l.parts.len()) != Some(cnt - 1) {
        return "bad-layout".into();
    }
    let Some(buf) = m.write_to_buffer() else { return "none@write".into() };
    let Some(m1) = MDL::from_existing(&buf) else { return "none@reparse".into() };
    let (a, b) = (mdl_text(&m), mdl_text(&m1));
    if a == b {
        "stable".into()
    } else {
        let k = a.bytes().zip(b.bytes()).position(|(x, y)| x != y).unwrap_or(a.len().min(b.len()));
        format!("unstable@{}", k)
    }
}

pub fn run(case: &str, input: &str) -> String {
    if input == "skip" {
        return "skip".into();
    }
    let f: Vec<&str> = input.split(' ').collect();
    if f.len() < 2 {
        return "bad-case".into();
    }
    let kind = f[0];
    if kind == "wgap" {
        let Some(file) = unhex(f[1]) else { return "bad-case".into() };
        return strip_panic(guarded(move || run_gap(file)));
    }
    if kind != "edit" && kind != "editr" && kind != "wbytes" && kind != "rawwrite" {
        return "bad-case".into();
    }
    let Some(file) = unhex(f[1]) else { return "bad-case".into() };
    let mut ops = Vec::new();
    for t in &f[2..] {
        match parse_op(t) {
            Some(o) => ops.push(o),
            None => return "bad-case".into(),
        }
    }
    let kind = kind.to_string();
    strip_panic(guarded(move || run_inner(&kind, file, ops)))
}

pub fn dump(out: &mut dyn Write) {}
