//! C07: not yet implemented
#![allow(unused)]
use crate::util::*;
use std::io::Write;

pub fn generate(thorough: bool, seed: u64, out: &mut dyn Write) {}

pub fn run(case: &str, input: &str) -> String {
    "unimplemented".to_string()
}

pub fn dump(out: &mut dyn Write) {}
