//! C05: Excel sheets (EXH header, EXD page) decode to the stored cells; page file names.
//!
//! Abstract cases (schema + rows + query id) are generated here; the Lean driver encodes them with
//! the `Spec/Excel.lean` encoders and hands back `row <exh hex> <exd hex> <id>` for the real code.
#![allow(unused)]
use crate::util::*;
use std::io::Write;

use physis::common::Language;
use physis::exd::{ColumnData, EXD};
use physis::exh::{ExcelDataPagination, EXH};

const CODES: [u16; 19] = [
    0x0, 0x1, 0x2, 0x3, 0x4, 0x5, 0x6, 0x7, 0x9, 0xA, 0xB, 0x19, 0x1A, 0x1B, 0x1C, 0x1D, 0x1E, 0x1F, 0x20,
];

fn size_of(code: u16) -> usize {
    match code {
        0x0 | 0x6 | 0x7 | 0x9 => 4,
        0x4 | 0x5 => 2,
        0xA | 0xB => 8,
        _ => 1,
    }
}

fn ascii_string(rng: &mut Rng) -> Vec<u8> {
    let n = match rng.below(10) {
        0 => 0,
        1..=6 => rng.range(1, 12),
        7 | 8 => rng.range(12, 80),
        _ => rng.range(80, 300),
    } as usize;
    (0..n).map(|_| rng.range(0x20, 0x7e) as u8).collect()
}

fn edge(rng: &mut Rng, bits: u32) -> u64 {
    let mask = if bits == 64 { u64::MAX } else { (1u64 << bits) - 1 };
    match rng.below(8) {
        0 => 0,
        1 => 1,
        2 => mask,            // -1 / MAX
        3 => 1u64 << (bits - 1), // MIN
        4 => (1u64 << (bits - 1)) - 1, // signed MAX
        5 => rng.below(256) & mask,
        _ => rng.next() & mask,
    }
}

fn signed(v: u64, bits: u32) -> i128 {
    if bits < 64 && v >= (1u64 << (bits - 1)) {
        v as i128 - (1i128 << bits)
    } else if bits == 64 {
        v as i64 as i128
    } else {
        v as i128
    }
}

fn cell(rng: &mut Rng, code: u16) -> String {
    match code {
        0x0 => format!("s:{}", hex(&ascii_string(rng))),
        0x1 => format!("b:{}", rng.below(2)),
        0x2 => format!("i8:{}", signed(edge(rng, 8), 8)),
        0x3 => format!("u8:{}", edge(rng, 8)),
        0x4 => format!("i16:{}", signed(edge(rng, 16), 16)),
        0x5 => format!("u16:{}", edge(rng, 16)),
        0x6 => format!("i32:{}", signed(edge(rng, 32), 32)),
        0x7 => format!("u32:{}", edge(rng, 32)),
        0x9 => {
            let v = match rng.below(8) {
                0 => 0x7fc0_0000u64, // NaN
                1 => 0xff80_0000,    // -inf
                2 => 0x8000_0000,    // -0
                3 => 0x3f80_0000,    // 1.0
                4 => 0x0000_0001,    // denormal
                _ => rng.next() & 0xffff_ffff,
            };
            format!("f:{}", v)
        }
        0xA => format!("i64:{}", signed(edge(rng, 64), 64)),
        0xB => format!("u64:{}", edge(rng, 64)),
        _ => format!("b:{}", rng.below(2)),
    }
}

struct Sheet {
    sub: bool,
    version: u16,
    data_offset: usize,
    cols: Vec<(u16, usize)>,
    pages: Vec<(u32, u32)>,
    langs: Vec<u8>,
    row_count: u32,
}

impl Sheet {
    fn header_fields(&self) -> String {
        let cols: Vec<String> = self.cols.iter().map(|(c, o)| format!("{}:{}", c, o)).collect();
        let pages: Vec<String> = self.pages.iter().map(|(s, c)| format!("{}:{}", s, c)).collect();
        let langs: Vec<String> = self.langs.iter().map(|l| l.to_string()).collect();
        let j = |v: Vec<String>| if v.is_empty() { "-".to_string() } else { v.join(",") };
        format!(
            "{} {} {} {} {} {} {}",
            self.sub as u8, self.version, self.data_offset, j(cols), j(pages), j(langs), self.row_count
        )
    }
}

/// columns laid out without overlap (packed bools may share a byte with distinct bits), then
/// shuffled; `min_region` forces a large fixed-size region (sub-row stride tests)
fn sheet(rng: &mut Rng, sub: bool, ncols: usize, min_region: usize) -> Sheet {
    let mut cols: Vec<(u16, usize)> = Vec::new();
    let mut pos = rng.below(3) as usize;
    let mut packed_at: Option<(usize, u8)> = None; // (offset, bits used)
    for _ in 0..ncols {
        let code = if rng.chance(1, 3) { 0x19 + rng.below(8) as u16 } else { *rng.pick(&CODES) };
        if code >= 0x19 {
            let bit = (code - 0x19) as u8;
            if let Some((off, used)) = packed_at {
                if used & (1 << bit) == 0 && rng.chance(4, 5) {
                    cols.push((code, off));
                    packed_at = Some((off, used | (1 << bit)));
                    continue;
                }
            }
            cols.push((code, pos));
            packed_at = Some((pos, 1 << bit));
            pos += 1;
        } else {
            cols.push((code, pos));
            pos += size_of(code);
        }
        if rng.chance(1, 4) {
            pos += rng.below(4) as usize;
        }
    }
    let mut data_offset = pos + if rng.chance(1, 2) { 0 } else { rng.below(9) as usize };
    if data_offset < min_region {
        data_offset = min_region;
    }
    // sometimes move a column to the very end of a large region
    if data_offset > pos + 8 && rng.chance(1, 2) {
        let k = rng.below(cols.len() as u64) as usize;
        if cols[k].0 < 0x19 {
            cols[k].1 = data_offset - size_of(cols[k].0);
        }
    }
    // shuffle
    for i in (1..cols.len()).rev() {
        let j = rng.below(i as u64 + 1) as usize;
        cols.swap(i, j);
    }
    let npages = rng.range(1, 6) as usize;
    let mut pages = Vec::new();
    let mut start = rng.below(3) as u32 * 100;
    for _ in 0..npages {
        let cnt = rng.range(1, 5000) as u32;
        pages.push((start, cnt));
        start = start.wrapping_add(cnt + rng.below(100) as u32);
    }
    let nl = rng.range(1, 5) as usize;
    let langs = if rng.chance(1, 3) { vec![0u8] } else { (0..nl).map(|_| rng.below(8) as u8).collect() };
    Sheet {
        sub,
        version: if rng.chance(3, 4) { 3 } else { rng.below(65536) as u16 },
        data_offset,
        cols,
        pages,
        langs,
        row_count: rng.u32_edge(),
    }
}

fn row_ids(rng: &mut Rng, n: usize) -> Vec<u32> {
    let mut ids: Vec<u32> = Vec::new();
    while ids.len() < n {
        let id = match rng.below(10) {
            0 => 0,
            1 => u32::MAX,
            2 => 0x8000_0000,
            3..=7 => rng.below(200) as u32,
            _ => rng.next() as u32,
        };
        if !ids.contains(&id) {
            ids.push(id);
        }
    }
    ids
}

fn rows_field(rng: &mut Rng, sh: &Sheet, ids: &[u32], subs: &dyn Fn(&mut Rng) -> usize) -> String {
    let mut rows = Vec::new();
    for id in ids {
        let n = if sh.sub { subs(rng) } else { 1 };
        let mut ss = Vec::new();
        for _ in 0..n {
            let cells: Vec<String> = sh.cols.iter().map(|(c, _)| cell(rng, *c)).collect();
            ss.push(cells.join(","));
        }
        rows.push(format!("{}={}", id, ss.join("|")));
    }
    rows.join(";")
}

fn emit_sheet(rng: &mut Rng, out: &mut dyn Write, sh: &Sheet, nrows: usize, subs: &dyn Fn(&mut Rng) -> usize, queries: usize) {
    let ids = row_ids(rng, nrows);
    let rows = rows_field(rng, sh, &ids, subs);
    let hf = sh.header_fields();
    for q in 0..queries {
        let id = if q == 0 { ids[ids.len() - 1] } else if q == 1 { ids[0] } else { *rng.pick(&ids) };
        writeln!(out, "row {} {} {}", hf, rows, id).unwrap();
    }
    // an id that is not stored
    let mut miss = rng.below(300) as u32;
    while ids.contains(&miss) {
        miss = miss.wrapping_add(1);
    }
    writeln!(out, "row {} {} {}", hf, rows, miss).unwrap();
}

/// one `names` case (random root list; `i` cycles the version through its boundary values)
fn root_list(rng: &mut Rng, i: usize) -> String {
    let n = match rng.below(5) { 0 => 0, 1 => 1, 2 | 3 => rng.range(2, 10), _ => rng.range(10, 60) } as usize;
    let mut es = Vec::new();
    for _ in 0..n {
        let lo = if rng.chance(1, 30) { 0 } else { 1 };
        let len = rng.range(lo, 24) as usize;
        let mut name: Vec<u8> = (0..len)
            .map(|_| match rng.below(12) {
                0 => b'/',
                1 => b'_',
                2 => *rng.pick(b" #.-+;:\r\t"),
                3 => rng.range(b'0' as u64, b'9' as u64) as u8,
                4..=6 => rng.range(b'A' as u64, b'Z' as u64) as u8,
                _ => rng.range(b'a' as u64, b'z' as u64) as u8,
            })
            .collect();
        if name.first() == Some(&b'#') {
            name[0] = b'H';
        }
        if name == b"EXLT" {
            name.push(b'2');
        }
        let id: i64 = match rng.below(8) {
            0 => -1,
            1 => 0,
            2 => i32::MAX as i64,
            3 => i32::MIN as i64,
            4 => -(rng.below(100000) as i64),
            _ => rng.below(100000) as i64,
        };
        es.push(format!("{}:{}", hex(&name), id));
    }
    let ver: i64 = match i % 5 { 0 => 2, 1 => i32::MAX as i64, 2 => i32::MIN as i64, 3 => -(rng.below(1000) as i64), _ => rng.below(1000) as i64 };
    if !es.is_empty() && rng.chance(1, 4) {
        // lines that are no entries between / around the entries
        let pool: [&[u8]; 8] = [b"", b"no comma here", b"Name,abc", b"Name,", b"#Sheet,5", b"# a comment", b"x,1,y", b"Name,12x"];
        let nj = rng.range(1, 3) as usize;
        let mut js: Vec<String> = (0..nj).map(|_| { let j = *rng.pick(&pool); if j.is_empty() { "e".to_string() } else { hex(j) } }).collect();
        if rng.chance(1, 2) {
            // CR LF line ends throughout (with or without lines that are no entries)
            if rng.chance(1, 2) {
                js.clear();
            }
            js.insert(0, hex(b"crlf"));
        }
        return format!("namesj {} {} {}", ver, es.join(","), js.join(","));
    }
    format!("names {} {}", ver, if es.is_empty() { "-".to_string() } else { es.join(",") })
}

pub fn generate(thorough: bool, seed: u64, out: &mut dyn Write) {
    let mut rng = Rng::new(seed, "C05");

    // --- exhaustive small sweeps -------------------------------------------------------------
    // every column type alone at offsets 0 and 3, default and sub-row sheets, several values
    for &code in CODES.iter() {
        for off in [0usize, 3] {
            for sub in [false, true] {
                let sh = Sheet {
                    sub, version: 3, data_offset: off + size_of(code) + (off % 2), cols: vec![(code, off)],
                    pages: vec![(0, 10)], langs: vec![0], row_count: 10,
                };
                for _ in 0..(if thorough { 12 } else { 3 }) {
                    let ids = [5u32, 6];
                    let rows = rows_field(&mut rng, &sh, &ids, &|r| r.range(2, 3) as usize);
                    writeln!(out, "row {} {} {}", sh.header_fields(), rows, 6).unwrap();
                }
            }
        }
    }
    // every packed-bool bit: 8 packed columns sharing one byte, all 256 byte patterns, with a
    // Bool column and a UInt8 column next to it (the D4 / D5 shape: 01 08 07)
    for pat in 0..256u32 {
        let mut cols: Vec<(u16, usize)> = vec![(0x1, 0)];
        for b in 0..8u16 {
            cols.push((0x19 + b, 1));
        }
        cols.push((0x3, 2));
        let sh = Sheet { sub: false, version: 3, data_offset: 3, cols, pages: vec![(0, 1)], langs: vec![0], row_count: 1 };
        let mut cells = vec![format!("b:{}", pat & 1)];
        for b in 0..8 {
            cells.push(format!("b:{}", (pat >> b) & 1));
        }
        cells.push(format!("u8:{}", 255 - pat));
        writeln!(out, "row {} 1={} 1", sh.header_fields(), cells.join(",")).unwrap();
    }
    // file names: every language x boundary start ids
    for lang in 0..8u8 {
        for start in [0u32, 1, 9, 10, 99, 100, 65535, 65536, 999_999, 0x7fff_ffff, 0x8000_0000, u32::MAX] {
            writeln!(out, "fname {} {} {}", hex(b"Achievement"), lang, start).unwrap();
        }
    }

    // --- random sheets -----------------------------------------------------------------------
    let n = if thorough { 60_000 } else { 1_200 };
    for i in 0..n {
        let sub = rng.chance(1, 2);
        let ncols = match rng.below(4) { 0 => rng.range(1, 3), 1 | 2 => rng.range(3, 10), _ => rng.range(10, 24) } as usize;
        let sh = sheet(&mut rng, sub, ncols, 0);
        let nrows = match rng.below(4) { 0 => 1, 1 | 2 => rng.range(2, 8), _ => rng.range(8, 40) } as usize;
        let subs = |r: &mut Rng| -> usize {
            (match r.below(10) { 0 => 1, 1..=6 => r.range(2, 6), 7 | 8 => r.range(6, 20), _ => r.range(20, 60) }) as usize
        };
        emit_sheet(&mut rng, out, &sh, nrows, &subs, 2);
        writeln!(out, "exh {}", sh.header_fields()).unwrap();
        let name: Vec<u8> = (0..rng.range(1, 20)).map(|_| *rng.pick(b"ABCDEFGHIJKLMNOPQRSTUVWXYZabcdefghijklmnopqrstuvwxyz0123456789_/")).collect();
        writeln!(out, "fname {} {} {}", hex(&name), rng.below(8), rng.u32_edge()).unwrap();
    }

    // --- root lists -----------------------------------------------------------------------------
    let k = if thorough { 6_000 } else { 150 };
    for i in 0..k {
        writeln!(out, "{}", root_list(&mut rng, i)).unwrap();
    }

    // --- wide sub-row strides: i * data_offset + 2 (i + 1) crosses 65 535 ----------------------
    let m = if thorough { 1_600 } else { 32 };
    for i in 0..m {
        let ncols = rng.range(1, 8) as usize;
        let (region, nsub) = match i % 4 {
            0 => (rng.range(1500, 2000) as usize, rng.range(34, 120) as usize),
            1 => (rng.range(65000, 65535) as usize, rng.range(2, 4) as usize),
            2 => (rng.range(300, 700) as usize, rng.range(100, 230) as usize),
            _ => (65535, 2),
        };
        let sh = sheet(&mut rng, true, ncols, region);
        let subs = move |_r: &mut Rng| -> usize { nsub };
        emit_sheet(&mut rng, out, &sh, 1, &subs, 1);
    }

    // --- mutated encodings (`mut <seed> <k> <case>`, Base/Mutate.lean): 1..3 damaged bytes in an
    // encoded header / page / root list; the model of the code and the code must still agree.
    // Own stream, so that the families above and below are what they were.
    {
        let mut mrng = Rng::new(seed, "C05-mut");
        let n = if thorough { 8_000 } else { 80 };
        for i in 0..n {
            let mut lines: Vec<u8> = Vec::new();
            let sub = mrng.chance(1, 2);
            let ncols = match mrng.below(4) { 0 => mrng.range(1, 3), 1 | 2 => mrng.range(3, 10), _ => mrng.range(10, 24) } as usize;
            // every 80th sheet has a wide fixed-size region (sub-row stride arithmetic near 65535)
            let wide = i % 80 == 79;
            let region = if wide { mrng.range(20_000, 65_535) as usize } else { 0 };
            let sh = sheet(&mut mrng, sub || wide, ncols, region);
            let nrows = if wide { 1 } else { (match mrng.below(4) { 0 => 1, 1 | 2 => mrng.range(2, 6), _ => mrng.range(6, 20) }) as usize };
            let subs = move |r: &mut Rng| -> usize {
                if wide {
                    return r.range(2, 3) as usize;
                }
                (match r.below(10) { 0 => 1, 1..=7 => r.range(2, 5), _ => r.range(5, 24) }) as usize
            };
            // 3 queries for stored ids + 1 unknown id + the header alone, each with its own damage
            emit_sheet(&mut mrng, &mut lines, &sh, nrows, &subs, 3);
            writeln!(lines, "exh {}", sh.header_fields()).unwrap();
            for l in String::from_utf8(lines).unwrap().lines() {
                let k = 1 + mrng.below(3);
                let mseed = mrng.next() >> 1;
                writeln!(out, "mut {} {} {}", mseed, k, l).unwrap();
            }
        }
        let n = if thorough { 4_000 } else { 40 };
        for i in 0..n {
            let k = 1 + mrng.below(3);
            let mseed = mrng.next() >> 1;
            let mut l = root_list(&mut mrng, i);
            while l.starts_with("namesj ") {
                l = root_list(&mut mrng, i);
            }
            writeln!(out, "mut {} {} {}", mseed, k, l).unwrap();
        }
    }

    // --- sheets stored in a synthetic installation, read through GameData ----------------------
    let mut arng = Rng::new(seed, "C05-archive");
    sweep_sheets(&mut arng, out);
    // pages above 64 KiB, spread over the other archive cases (the contiguous shards stay balanced)
    let mut big: Vec<String> = vec![];
    big_sheets(&mut Rng::new(seed, "C05-bigpage"), if thorough { 60 } else { 4 }, &mut big);
    let n = if thorough { 4_000 } else { 160 };
    let per = n / big.len().max(1);
    for i in 0..n {
        gen_sheets(&mut arng, i, out);
        if (i + 1) % per == 0 {
            if let Some(l) = big.pop() {
                writeln!(out, "{}", l).unwrap();
            }
        }
    }
    for l in big {
        writeln!(out, "{}", l).unwrap();
    }
    // where an index entry points (dat id, offsets over the whole 35-bit range incl. >= 4 GiB, which
    // no materialised dat file reaches): every sheet file is located through such an entry — C01's
    // direct `SqPackIndex::find_entry` cases, shared (own random stream)
    let mut rng_idx = Rng::new(seed, "C05-idx");
    for _ in 0..(if thorough { 1000 } else { 60 }) {
        crate::c01::gen_idx(&mut rng_idx, out);
    }
}

// ------------------------------------------------------------------------------------------------
// sheets in an archive (op `sheets`): abstract installations; every byte of every file is produced
// by the Lean `Spec/` encoders and comes back in `input`
// ------------------------------------------------------------------------------------------------

fn mangle_case(rng: &mut Rng, s: &str) -> String {
    s.chars()
        .map(|c| if rng.chance(1, 2) { if c.is_ascii_uppercase() { c.to_ascii_lowercase() } else { c.to_ascii_uppercase() } } else { c })
        .collect()
}

fn sheet_name(rng: &mut Rng, has_ex1: bool) -> String {
    let word = |rng: &mut Rng| -> String {
        let n = rng.range(1, 10) as usize;
        (0..n)
            .map(|i| match rng.below(10) {
                0 => (b'0' + rng.below(10) as u8) as char,
                1 => '_',
                2..=4 => (b'A' + rng.below(26) as u8) as char,
                _ if i == 0 => (b'A' + rng.below(26) as u8) as char,
                _ => (b'a' + rng.below(26) as u8) as char,
            })
            .collect()
    };
    match rng.below(14) {
        // a name that merely BEGINS like a repository directory (no '/' behind it) stays in the base game
        12 => format!("{}{}", *rng.pick(&["Ex1", "ex1", "EX1", "ex2", "Ex3", "ffxiv", "ex"]), word(rng)),
        13 => format!("{}{}/{}", *rng.pick(&["ex1", "Ex1", "ex2"]), word(rng), word(rng)),
        0 => "Item".to_string(),
        1 => "Achievement".to_string(),
        2 => format!("quest/{:03}/{}_{:05}", rng.below(40), word(rng), rng.below(100000)),
        3 => format!("custom/{:03}/Cts{}_{:05}", rng.below(10), word(rng), rng.below(100000)),
        4 => format!("{}/{}", word(rng), word(rng)),
        5 => format!("{}/{}/{}", word(rng), word(rng), word(rng)),
        // a first component that names a repository directory: the file then lives in that repository
        6 => format!("{}/{}", if has_ex1 || rng.chance(1, 2) { "ex1" } else { "ex2" }, word(rng)),
        7 => word(rng).to_ascii_uppercase(),
        8 => word(rng).to_ascii_lowercase(),
        _ => word(rng),
    }
}

fn store_spec(rng: &mut Rng) -> String {
    let chunk = match rng.below(6) { 0 => rng.range(1, 3), 1 => rng.range(1, 9), _ => 0 };
    let kinds = rng.range(1, 3);
    let dat = match rng.below(4) { 0 => rng.below(8), _ => rng.below(2) };
    let gap = match rng.below(3) { 0 => rng.range(1, 3), _ => 0 };
    let n = rng.range(1, 3);
    let pat: Vec<String> = (0..n)
        .map(|_| {
            let size = match rng.below(8) {
                0 => 1,
                1 => rng.range(2, 16),
                2 => rng.range(100, 130),
                3 => 16000,
                4 | 5 => rng.range(16, 400),
                _ => rng.range(400, 16000),
            };
            format!("{}{}", size, rng.pick(&['r', 's', 'f', 'r']))
        })
        .collect();
    format!("{}.{}.{}.{}.{}", chunk, kinds, dat, gap, pat.join("_"))
}

/// bounded-exhaustive: index kinds (index / index2 / both) x block mode (raw / stored / fixed
/// Huffman) x all 8 languages, platform and chunk cycling; one two-page sheet in a sub-directory
/// with upper-case letters; root list, header and page 1 stored; names, header, rows, a page that
/// is not stored, the page name in another spelling
fn sweep_sheets(rng: &mut Rng, out: &mut dyn Write) {
    let name = "Quest/000/ClsHrv000_00023";
    let hn = hex(name.as_bytes());
    let mut n = 0u64;
    for kinds in 1..=3u32 {
        for mode in ['r', 's', 'f'] {
            for lang in 0..8u8 {
                n += 1;
                let chunk = n % 3;
                let st = |size: u32, dat: u64| format!("{}.{}.{}.0.{}{}", chunk, kinds, dat, size, mode);
                let other_lang = (lang + 1) % 8;
                let a = rng.below(1 << 16);
                let b = rng.below(1 << 16);
                writeln!(
                    out,
                    "sheets {} 6666786976 n,h{},s{}.{}.{}.1.500.501.7,s{}.{}.{}.1.500,s{}.{}.{}.0.3,h{} R {} 2 41:1,{}:7 S {} {} 0 3 8 0:0,5:4,25:6,32:6 0:500,500:500 {},{} 1000 P 1 {} {} 500=s:{},u16:{},b:1,b:0;501=s:-,u16:{},b:0,b:1",
                    n % 5,
                    hn,
                    hn, hn, lang,
                    hn, hex(name.to_ascii_uppercase().as_bytes()), lang,
                    hn, hn, other_lang,
                    hex(name.to_ascii_lowercase().as_bytes()),
                    st(9, 0), hn,
                    hn, st(20, n % 2), lang, other_lang,
                    lang, st(33, n % 8),
                    hex(format!("row {}", n).as_bytes()), a, b
                )
                .unwrap();
            }
        }
    }
}

/// Page files above 64 KiB: the page is stored as a standard entry with so many blocks that the
/// offsets in its block table exceed 2^16 (six and more 16000-byte blocks, or hundreds of small
/// ones), raw / stored / fixed-Huffman; a few long string cells or more than a thousand rows.
/// Rows from the first and the last blocks are read.
fn big_sheets(rng: &mut Rng, n: usize, lines: &mut Vec<String>) {
    for k in 0..n {
        let name = match k % 3 { 0 => "BigPage".to_string(), 1 => format!("quest/{:03}/Big_{:05}", rng.below(40), rng.below(100000)), _ => "LongText".to_string() };
        let hn = hex(name.as_bytes());
        let lang = if k % 2 == 0 { 0 } else { rng.range(1, 7) };
        let text = |rng: &mut Rng, len: usize| -> String {
            let pat_len = rng.range(3, 200) as usize;
            let pat: Vec<u8> = (0..pat_len).map(|_| b"etaoin shrdlu,.ETAOIN-0123456789"[rng.below(32) as usize]).collect();
            hex(&(0..len).map(|i| if rng.chance(1, 50) { b'#' } else { pat[i % pat_len] }).collect::<Vec<u8>>())
        };
        // (string, u16, two packed bools) as in the sweep above
        let (ids, rows): (Vec<u32>, Vec<String>) = match k % 4 {
            0 | 1 => {
                // few rows, long cells: 7..12 strings of 9000..14000 bytes
                let m = rng.range(7, 12) as u32;
                let ids: Vec<u32> = (0..m).map(|i| 500 + i * 3).collect();
                let rows = ids.iter().map(|id| { let len = rng.range(9000, 14000) as usize; format!("{}=s:{},u16:{},b:{},b:{}", id, text(rng, len), rng.below(65536), rng.below(2), rng.below(2)) }).collect();
                (ids, rows)
            }
            _ => {
                // many rows: 1100..1600 rows of 30..90-byte strings (the row offset table alone is ~10 KiB)
                let m = rng.range(1100, 1600) as u32;
                let ids: Vec<u32> = (0..m).map(|i| 500 + i).collect();
                let rows = ids.iter().map(|id| { let len = rng.range(30, 90) as usize; format!("{}=s:{},u16:{},b:{},b:{}", id, text(rng, len), rng.below(65536), rng.below(2), rng.below(2)) }).collect();
                (ids, rows)
            }
        };
        let pattern = match k % 5 {
            0 => "16000r".to_string(),
            1 => "16000s_16000r_16000f".to_string(),
            2 => "112r".to_string(),                       // one 128-byte unit per block: > 512 blocks
            3 => format!("{}r_{}f_{}s", rng.range(1000, 3000), rng.range(200, 900), rng.range(3000, 9000)),
            _ => "16000f".to_string(),
        };
        let kinds = rng.range(1, 3);
        let chunk = rng.below(3);
        let dat = rng.below(8);
        let gap = rng.below(4);
        let q: Vec<String> = [ids[0], ids[ids.len() - 1], ids[ids.len() / 2], ids[ids.len() - 2], 77]
            .iter()
            .map(|i| i.to_string())
            .collect();
        lines.push(format!(
            "sheets {} 6666786976 n,s{}.{}.{}.0.{},h{} R 0.{}.0.0.9r 2 {}:7 S {} {}.{}.{}.0.20r 0 3 8 0:0,5:4,25:6,32:6 500:5000 {} 5000 P 0 {} {}.{}.{}.{}.{} {}",
            rng.below(5),
            hn, hn, lang, q.join("."),
            hn,
            kinds,
            hn,
            hn, chunk, kinds, rng.below(2),
            lang,
            lang, chunk, kinds, dat, gap, pattern,
            rows.join(";")
        ));
    }
}

fn gen_sheets(rng: &mut Rng, i: usize, out: &mut dyn Write) {
    let plat = rng.below(5);
    let has_ex1 = rng.chance(1, 3);
    let mut dirs: Vec<&str> = vec!["ffxiv"];
    if has_ex1 {
        dirs.push("ex1");
    }
    if rng.chance(1, 4) {
        dirs.push("ex3");
    }
    if rng.chance(1, 5) {
        dirs.push(*rng.pick(&["zzz", "movie", "exa"]));
    }
    for k in (1..dirs.len()).rev() {
        let j = rng.below(k as u64 + 1) as usize;
        dirs.swap(k, j);
    }

    // sheets with names that differ even when letter case is ignored
    let n_sheets = match rng.below(4) { 0 => 1, 1 | 2 => 2, _ => rng.range(3, 4) } as usize;
    let mut names: Vec<String> = vec![];
    while names.len() < n_sheets {
        let n = sheet_name(rng, has_ex1);
        if !names.iter().any(|m| m.eq_ignore_ascii_case(&n)) && n != "root" {
            names.push(n);
        }
    }
    let mut records: Vec<String> = vec![];
    // root list: the sheets (one of them sometimes missing) and a few names without files
    let mut listed: Vec<String> = names.clone();
    if listed.len() > 1 && rng.chance(1, 8) {
        listed.pop();
    }
    let mut unlisted_extra: Vec<String> = vec![];
    for _ in 0..rng.below(4) {
        let n = sheet_name(rng, has_ex1);
        if !names.iter().chain(listed.iter()).any(|m| m.eq_ignore_ascii_case(&n)) {
            listed.push(n.clone());
            unlisted_extra.push(n);
        }
    }
    for k in (1..listed.len()).rev() {
        let j = rng.below(k as u64 + 1) as usize;
        listed.swap(k, j);
    }
    let root_store = if rng.chance(1, 14) { "-".to_string() } else { store_spec(rng) };
    let ents: Vec<String> = listed
        .iter()
        .map(|n| format!("{}:{}", hex(n.as_bytes()), match rng.below(4) { 0 => -1i64, 1 => 0, _ => rng.below(100000) as i64 }))
        .collect();
    records.push(format!("R {} {} {}", root_store, rng.below(5), if ents.is_empty() { "-".to_string() } else { ents.join(",") }));

    // (name, lang, page index, stored ids) of the stored pages; (name, lang, page index) of absent ones
    let mut stored_pages: Vec<(String, u8, usize, Vec<u32>)> = vec![];
    let mut absent_pages: Vec<(String, u8, usize)> = vec![];
    for name in &names {
        let sub = rng.chance(1, 2);
        let ncols = match rng.below(3) { 0 => rng.range(1, 3), _ => rng.range(3, 9) } as usize;
        let sh = sheet(rng, sub, ncols, 0);
        let hdr_store = if rng.chance(1, 12) { "-".to_string() } else { store_spec(rng) };
        records.push(format!("S {} {} {}", hex(name.as_bytes()), hdr_store, sh.header_fields()));
        for (k, (start, cnt)) in sh.pages.iter().enumerate() {
            let mut langs: Vec<u8> = sh.langs.clone();
            langs.sort();
            langs.dedup();
            for l in langs {
                if !rng.chance(2, 3) {
                    absent_pages.push((name.clone(), l, k));
                    continue;
                }
                if rng.chance(1, 10) {
                    records.push(format!("P {} {} - -", k, l));
                    absent_pages.push((name.clone(), l, k));
                    continue;
                }
                let nrows = rng.range(0, 6) as usize;
                let mut ids: Vec<u32> = vec![];
                while ids.len() < nrows {
                    let id = start.wrapping_add(rng.below((*cnt).min(50) as u64) as u32);
                    if !ids.contains(&id) {
                        ids.push(id);
                    } else if *cnt as usize <= ids.len() {
                        break;
                    }
                }
                // ids in index order need not be ascending
                if rng.chance(1, 3) {
                    ids.reverse();
                }
                // never exactly one sub-row: that class (open finding exd.single-subrow) is exercised by the
                // direct-buffer `row` cases; a tagged archive case would mask its other answers
                let subs = |r: &mut Rng| -> usize { r.range(2, 5) as usize };
                let rows = if ids.is_empty() { "-".to_string() } else { rows_field(rng, &sh, &ids, &subs) };
                records.push(format!("P {} {} {} {}", k, l, store_spec(rng), rows));
                stored_pages.push((name.clone(), l, k, ids));
            }
            // a language the header does not list is simply not stored
            if rng.chance(1, 6) {
                let l = rng.below(8) as u8;
                if !sh.langs.contains(&l) {
                    absent_pages.push((name.clone(), l, k));
                }
            }
        }
    }

    // calls, all on one handle
    let n_calls = if i % 7 == 0 { rng.range(1, 3) } else { rng.range(5, 14) };
    let mut calls: Vec<String> = vec![];
    let hx = |s: &String| hex(s.as_bytes());
    for _ in 0..n_calls {
        let c = match rng.below(16) {
            0 | 1 => "n".to_string(),
            2..=4 => format!("h{}", hx(rng.pick(&names))),
            5 => {
                // a spelling the root list does not contain (unless it is the same spelling)
                let n = rng.pick(&names).clone();
                format!("h{}", hx(&mangle_case(rng, &n)))
            }
            6 => match rng.below(3) {
                0 if !unlisted_extra.is_empty() => format!("h{}", hx(rng.pick(&unlisted_extra))),
                1 => { let n = sheet_name(rng, has_ex1); format!("h{}", hx(&n)) }
                _ => format!("h{}78", hx(rng.pick(&names))),
            },
            7..=11 if !stored_pages.is_empty() => {
                let (name, l, k, ids) = rng.pick(&stored_pages).clone();
                let pname = if rng.chance(1, 4) { mangle_case(rng, &name) } else { name.clone() };
                let mut q: Vec<String> = vec![];
                for _ in 0..rng.range(1, 3) {
                    if !ids.is_empty() && rng.chance(4, 5) {
                        q.push(rng.pick(&ids).to_string());
                    } else {
                        q.push(rng.u32_edge().to_string());
                    }
                }
                format!("s{}.{}.{}.{}.{}", hx(&name), hx(&pname), l, k, q.join("."))
            }
            12 | 13 if !absent_pages.is_empty() => {
                let (name, l, k) = rng.pick(&absent_pages).clone();
                format!("s{}.{}.{}.{}.{}", hx(&name), hx(&name), l, k, rng.below(100))
            }
            14 => {
                let p = match rng.below(4) {
                    0 => "exd/root.exl".to_string(),
                    1 => format!("exd/{}.exh", rng.pick(&names)),
                    2 => format!("EXD/{}.EXH", rng.pick(&names).to_ascii_uppercase()),
                    _ => format!("exd/{}_0.exd", rng.pick(&names)),
                };
                format!("{}{}", rng.pick(&['e', 'o']), hx(&p))
            }
            _ => format!("h{}", hx(rng.pick(&names))),
        };
        calls.push(c);
    }
    writeln!(
        out,
        "sheets {} {} {} {}",
        plat,
        dirs.iter().map(|d| hex(d.as_bytes())).collect::<Vec<_>>().join(","),
        calls.join(","),
        records.join(" ")
    )
    .unwrap();
}

fn show(c: &ColumnData) -> String {
    match c {
        ColumnData::String(s) => {
            // the code pushes `byte as char`; print the code points back as bytes when they fit
            let bytes: Option<Vec<u8>> = s.chars().map(|ch| u8::try_from(ch as u32).ok()).collect();
            match bytes {
                Some(b) => format!("s:{}", hex(&b)),
                None => format!("s:utf8:{}", hex(s.as_bytes())),
            }
        }
        ColumnData::Bool(b) => format!("b:{}", *b as u8),
        ColumnData::Int8(v) => format!("i8:{}", v),
        ColumnData::UInt8(v) => format!("u8:{}", v),
        ColumnData::Int16(v) => format!("i16:{}", v),
        ColumnData::UInt16(v) => format!("u16:{}", v),
        ColumnData::Int32(v) => format!("i32:{}", v),
        ColumnData::UInt32(v) => format!("u32:{}", v),
        ColumnData::Float32(v) => format!("f:{}", v.to_bits()),
        ColumnData::Int64(v) => format!("i64:{}", v),
        ColumnData::UInt64(v) => format!("u64:{}", v),
    }
}

fn language(code: u8) -> Option<Language> {
    Some(match code {
        0 => Language::None,
        1 => Language::Japanese,
        2 => Language::English,
        3 => Language::German,
        4 => Language::French,
        5 => Language::ChineseSimplified,
        6 => Language::ChineseTraditional,
        7 => Language::Korean,
        _ => return None,
    })
}

pub fn run(case: &str, input: &str) -> String {
    if case.starts_with("idx ") {
        return crate::c01::run(case, input);
    }
    let f: Vec<&str> = input.split(' ').collect();
    match f[0] {
        "row" if f.len() == 4 => {
            let (Some(exh), Some(exd), Ok(id)) = (unhex(f[1]), unhex(f[2]), f[3].parse::<u32>()) else {
                return "bad-case".into();
            };
            guarded(move || {
                let Some(exh) = EXH::from_existing(&exh) else { return "parse-none:exh".into() };
                let Some(exd) = EXD::from_existing(&exd) else { return "parse-none:exd".into() };
                match exd.read_row(&exh, id) {
                    None => "none".to_string(),
                    Some(rows) => rows
                        .iter()
                        .map(|r| r.data.iter().map(show).collect::<Vec<_>>().join(","))
                        .collect::<Vec<_>>()
                        .join("|"),
                }
            })
        }
        "exh" if f.len() == 2 => {
            let Some(exh) = unhex(f[1]) else { return "bad-case".into() };
            guarded(move || {
                let Some(exh) = EXH::from_existing(&exh) else { return "none".into() };
                let j = |v: Vec<String>| if v.is_empty() { "-".to_string() } else { v.join(",") };
                format!(
                    "{} {} {} {} {}",
                    exh.header.data_offset,
                    exh.header.row_count,
                    j(exh.column_definitions.iter().map(|c| format!("{}:{}", c.data_type.clone() as u16, c.offset)).collect()),
                    j(exh.pages.iter().map(|p| format!("{}:{}", p.start_id, p.row_count)).collect()),
                    j(exh.languages.iter().map(|l| (*l as u8).to_string()).collect())
                )
            })
        }
        "fname" if f.len() == 4 => {
            let (Some(name), Ok(lang), Ok(start)) = (unhex(f[1]), f[2].parse::<u8>(), f[3].parse::<u32>()) else {
                return "bad-case".into();
            };
            let (Ok(name), Some(lang)) = (String::from_utf8(name), language(lang)) else { return "bad-case".into() };
            guarded(move || {
                let page = ExcelDataPagination { start_id: start, row_count: 0 };
                hex(EXD::calculate_filename(&name, lang, &page).as_bytes())
            })
        }
        "exl" if f.len() == 2 => {
            let Some(buf) = unhex(f[1]) else { return "bad-case".into() };
            guarded(move || match physis::exl::EXL::from_existing(&buf) {
                None => "none".to_string(),
                Some(exl) => {
                    let es: Vec<String> = exl.entries.iter().map(|(n, i)| format!("{}:{}", hex(n.as_bytes()), i)).collect();
                    format!("{} {}", exl.version, if es.is_empty() { "-".to_string() } else { es.join(",") })
                }
            })
        }
        "sheets" if f.len() == 5 => run_sheets(f[1], f[2], f[3], f[4]),
        _ => "bad-case".into(),
    }
}

fn show_exh(exh: &EXH) -> String {
    let j = |v: Vec<String>| if v.is_empty() { "-".to_string() } else { v.join(",") };
    format!(
        "{} {} {} {} {}",
        exh.header.data_offset,
        exh.header.row_count,
        j(exh.column_definitions.iter().map(|c| format!("{}:{}", c.data_type.clone() as u16, c.offset)).collect()),
        j(exh.pages.iter().map(|p| format!("{}:{}", p.start_id, p.row_count)).collect()),
        j(exh.languages.iter().map(|l| (*l as u8).to_string()).collect())
    )
}

/// the installation of a `sheets` case: every file comes from the Lean driver (Spec encoders) as
/// hex and is written below a scratch `<tmp>/game/sqpack/<dir>/` (as `c01.rs` does); all calls are
/// issued on one `GameData` handle
fn run_sheets(plat: &str, dirs: &str, files: &str, calls: &str) -> String {
    use physis::common::Platform;
    use physis::gamedata::GameData;
    use std::panic::AssertUnwindSafe;
    let plat = match plat {
        "0" => Platform::Win32,
        "1" => Platform::PS3,
        "2" => Platform::PS4,
        "3" => Platform::PS5,
        "4" => Platform::Xbox,
        _ => return "bad-case".into(),
    };
    let text = |h: &str| unhex(h).and_then(|b| String::from_utf8(b).ok());
    let tmp = TempDir::new("c05a");
    let game = tmp.path().join("game");
    let sqpack = game.join("sqpack");
    std::fs::create_dir_all(&sqpack).unwrap();
    let mut dir_names: Vec<String> = vec![];
    if dirs != "-" {
        for d in dirs.split(',') {
            let Some(d) = text(d) else { return "bad-case".into() };
            std::fs::create_dir_all(sqpack.join(&d)).unwrap();
            dir_names.push(d);
        }
    }
    if files != "-" {
        for file in files.split(';') {
            let Some((name, content)) = file.split_once(':') else { return "bad-case".into() };
            let Some((d, n)) = name.split_once('/') else { return "bad-case".into() };
            let (Some(d), Some(n), Some(content)) = (text(d), text(n), unhex(content)) else { return "bad-case".into() };
            if !dir_names.contains(&d) {
                return "bad-case".into();
            }
            std::fs::write(sqpack.join(&d).join(&n), content).unwrap();
        }
    }
    let gd = game.to_str().unwrap().to_string();
    let mut game = match std::panic::catch_unwind(move || GameData::from_existing(plat, &gd)) {
        Ok(Some(g)) => g,
        Ok(None) => return "nohandle".into(),
        Err(_) => return "panic:open".into(),
    };
    let mut answers: Vec<String> = vec![];
    for c in calls.split(',') {
        let (kind, rest) = c.split_at(1);
        let mut g = AssertUnwindSafe(&mut game);
        let a = match kind {
            "n" => guarded(move || match g.get_all_sheet_names() {
                None => "none".into(),
                Some(ns) if ns.is_empty() => "N-".into(),
                Some(ns) => format!("N{}", ns.iter().map(|n| hex(n.as_bytes())).collect::<Vec<_>>().join(",")),
            }),
            "h" => {
                let Some(name) = text(rest) else { return "bad-case".into() };
                guarded(move || match g.read_excel_sheet_header(&name) {
                    None => "none".into(),
                    Some(exh) => format!("H{}", show_exh(&exh)),
                })
            }
            "s" => {
                let p: Vec<&str> = rest.split('.').collect();
                if p.len() < 4 {
                    return "bad-case".into();
                }
                let (Some(hname), Some(pname), Some(lang), Ok(page)) =
                    (text(p[0]), text(p[1]), p[2].parse::<u8>().ok().and_then(language), p[3].parse::<usize>())
                else {
                    return "bad-case".into();
                };
                let mut ids: Vec<u32> = vec![];
                for t in &p[4..] {
                    let Ok(id) = t.parse::<u32>() else { return "bad-case".into() };
                    ids.push(id);
                }
                guarded(move || {
                    let Some(exh) = g.read_excel_sheet_header(&hname) else { return "hdr-none".into() };
                    let Some(exd) = g.read_excel_sheet(&pname, &exh, lang, page) else { return "page-none".into() };
                    let rows: Vec<String> = ids
                        .iter()
                        .map(|id| match exd.read_row(&exh, *id) {
                            None => "none".to_string(),
                            Some(rows) => rows
                                .iter()
                                .map(|r| r.data.iter().map(show).collect::<Vec<_>>().join(","))
                                .collect::<Vec<_>>()
                                .join("|"),
                        })
                        .collect();
                    format!("S{}", rows.join("+"))
                })
            }
            "e" => {
                let Some(p) = text(rest) else { return "bad-case".into() };
                guarded(move || if g.exists(&p) { "T".into() } else { "F".into() })
            }
            "o" => {
                let Some(p) = text(rest) else { return "bad-case".into() };
                guarded(move || match g.find_offset(&p) {
                    Some(o) => format!("o{}", o),
                    None => "onone".into(),
                })
            }
            _ => return "bad-case".into(),
        };
        answers.push(a);
    }
    answers.join(";")
}

/// T2: the code tables of the *compiled* reader, exhaustively: every u16 as a column type code and
/// every u8 as a language code is pushed through `EXH::from_existing` (a 32-byte header declaring
/// one column / one language followed by the probe); accepted codes are listed with the variant
/// they decode to (and, for languages, `get_language_code`).
pub fn dump(out: &mut dyn Write) {
    fn header(cols: u16, langs: u16) -> Vec<u8> {
        let mut h = b"EXHF".to_vec();
        for v in [3u16, 4, cols, 0, langs] {
            h.extend_from_slice(&v.to_be_bytes());
        }
        h.extend_from_slice(&[0u8; 18]);
        h
    }
    fn ctor(debug: &str) -> String {
        // Lean constructor of Physis.Exh.ColumnDataType: `UInt8` -> `uint8`, `PackedBool3` -> `packedBool3`
        if let Some(r) = debug.strip_prefix("UInt") {
            format!("uint{}", r)
        } else {
            let mut c = debug.chars();
            let f = c.next().unwrap().to_ascii_lowercase();
            format!("{}{}", f, c.as_str())
        }
    }
    writeln!(out, "-- GENERATED by `harness C05 dump` from the compiled code — do not edit (rewritten by ./check on every run)").unwrap();
    writeln!(out, "import PhysisModel.Model.Exh").unwrap();
    writeln!(out, "namespace Physis.Generated\nopen Physis.Exh\n").unwrap();
    writeln!(out, "/-- every u16 accepted as `ColumnDataType`, with the variant it decodes to -/").unwrap();
    writeln!(out, "def excelColumnCodes : List (Nat × ColumnDataType) := [").unwrap();
    let mut first = true;
    for code in 0..=u16::MAX {
        let mut b = header(1, 0);
        b.extend_from_slice(&code.to_be_bytes());
        b.extend_from_slice(&[0, 0]);
        if let Some(exh) = EXH::from_existing(&b) {
            let name = format!("{:?}", exh.column_definitions[0].data_type);
            writeln!(out, "  {}({}, .{})", if first { "" } else { "," }, code, ctor(&name)).unwrap();
            first = false;
        }
    }
    writeln!(out, "]\n").unwrap();
    writeln!(out, "/-- every u8 accepted as `Language`, the variant, and `get_language_code` of it (ASCII) -/").unwrap();
    writeln!(out, "def excelLanguageCodes : List (Nat × Language × List UInt8) := [").unwrap();
    let mut first = true;
    for code in 0..=u8::MAX {
        let mut b = header(0, 1);
        b.push(code);
        if let Some(exh) = EXH::from_existing(&b) {
            let l = exh.languages[0];
            let name = match l {
                Language::None => "None",
                Language::Japanese => "Japanese",
                Language::English => "English",
                Language::German => "German",
                Language::French => "French",
                Language::ChineseSimplified => "ChineseSimplified",
                Language::ChineseTraditional => "ChineseTraditional",
                Language::Korean => "Korean",
            };
            let sfx: Vec<String> = physis::common::get_language_code(&l).bytes().map(|c| c.to_string()).collect();
            writeln!(out, "  {}({}, .{}, [{}])", if first { "" } else { "," }, code, name, sfx.join(", ")).unwrap();
            first = false;
        }
    }
    writeln!(out, "]\n\nend Physis.Generated").unwrap();
}
