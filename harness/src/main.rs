//! `harness <Cxx> gen <tier> <seed>`            -> abstract cases on stdout (one per line)
//! `harness <Cxx> run <cases.txt> <model.out>`   -> implementation answers on stdout
//! `harness <Cxx> dump`                          -> T2 tables (Lean source) on stdout, where defined
//!
//! `model.out` is the Lean driver's answer file: `<input>\t<expected>[\t<tags>]`; the `run`
//! stage feeds `<input>` (or the case line itself when `<input>` is `=`) to the real Physis
//! code and prints one canonical line per case.
mod util;
mod alloc;
mod dbgparse;

#[global_allocator]
static GLOBAL: alloc::Counting = alloc::Counting;
mod c01;
mod c02;
mod c03;
mod c03fs;
mod c04;
mod c05;
mod c06;
mod c07;
mod c08;
mod c09;
mod c10;
mod c11;
mod c12;
mod c13;
mod c14;
mod c15;
mod c16;
mod c17;
mod c17_io;
mod c17_leak;
mod c18;
mod xinf;
mod c18_arc;
mod c18_fmt;
mod c18_mat;
mod c18_mdl;
mod c18_pbc;
mod c18_skel;

use std::io::{BufRead, BufWriter, Write};

fn main() {
    let args: Vec<String> = std::env::args().collect();
    if args.len() < 3 {
        eprintln!("usage: harness <Cxx> gen <tier> <seed> | run <cases> <model.out> | dump");
        std::process::exit(2);
    }
    let prop = args[1].as_str();
    let stdout = std::io::stdout();
    let mut out = BufWriter::with_capacity(1 << 20, stdout.lock());
    match args[2].as_str() {
        "gen" => {
            let thorough = args.get(3).map(|s| s == "thorough").unwrap_or(false);
            let seed: u64 = args.get(4).and_then(|s| s.parse().ok()).unwrap_or(1);
            match prop {
                "C01" => c01::generate(thorough, seed, &mut out),
                "C02" => c02::generate(thorough, seed, &mut out),
                "C03" => c03::generate(thorough, seed, &mut out),
                "C04" => c04::generate(thorough, seed, &mut out),
                "C05" => c05::generate(thorough, seed, &mut out),
                "C06" => c06::generate(thorough, seed, &mut out),
                "C07" => c07::generate(thorough, seed, &mut out),
                "C08" => c08::generate(thorough, seed, &mut out),
                "C09" => c09::generate(thorough, seed, &mut out),
                "C10" => c10::generate(thorough, seed, &mut out),
                "C11" => c11::generate(thorough, seed, &mut out),
                "C12" => c12::generate(thorough, seed, &mut out),
                "C13" => c13::generate(thorough, seed, &mut out),
                "C14" => c14::generate(thorough, seed, &mut out),
                "C15" => c15::generate(thorough, seed, &mut out),
                "C16" => c16::generate(thorough, seed, &mut out),
                "C17" => c17::generate(thorough, seed, &mut out),
                "C18" => c18::generate(thorough, seed, &mut out),
                "XINF" => xinf::generate(thorough, seed, &mut out),
                _ => {
                    eprintln!("unknown property");
                    std::process::exit(2)
                }
            }
        }
        "run" => {
            util::install_panic_hook();
            let flush = std::env::var("VERIF_FLUSH").is_ok();
            let cases = std::io::BufReader::new(std::fs::File::open(&args[3]).expect("cases"));
            let model = std::io::BufReader::new(std::fs::File::open(&args[4]).expect("model.out"));
            let f: fn(&str, &str) -> String = match prop {
                "C01" => c01::run,
                "C02" => c02::run,
                "C03" => c03::run,
                "C04" => c04::run,
                "C05" => c05::run,
                "C06" => c06::run,
                "C07" => c07::run,
                "C08" => c08::run,
                "C09" => c09::run,
                "C10" => c10::run,
                "C11" => c11::run,
                "C12" => c12::run,
                "C13" => c13::run,
                "C14" => c14::run,
                "C15" => c15::run,
                "C16" => c16::run,
                "C17" => c17::run,
                "C18" => c18::run,
                "XINF" => xinf::run,
                _ => {
                    eprintln!("unknown property");
                    std::process::exit(2)
                }
            };
            for (case, ans) in cases.lines().zip(model.lines()) {
                let case = case.unwrap();
                let ans = ans.unwrap();
                let input = ans.split('\t').next().unwrap_or("=");
                let input = if input == "=" { case.as_str() } else { input };
                let line = f(&case, input);
                writeln!(out, "{}", line).unwrap();
                if flush {
                    out.flush().unwrap();
                }
            }
        }
        "dump" => match prop {
            "C01" => c01::dump(&mut out),
            "C02" => c02::dump(&mut out),
            "C03" => c03::dump(&mut out),
            "C04" => c04::dump(&mut out),
            "C05" => c05::dump(&mut out),
            "C06" => c06::dump(&mut out),
            "C07" => c07::dump(&mut out),
            "C08" => c08::dump(&mut out),
            "C09" => c09::dump(&mut out),
            "C10" => c10::dump(&mut out),
            "C11" => c11::dump(&mut out),
            "C12" => c12::dump(&mut out),
            "C13" => c13::dump(&mut out),
            "C14" => c14::dump(&mut out),
            "C15" => c15::dump(&mut out),
            "C16" => c16::dump(&mut out),
            "C17" => c17::dump(&mut out),
            "C18" => c18::dump(&mut out),
            "XINF" => xinf::dump(&mut out),
            _ => {
                eprintln!("unknown property");
                std::process::exit(2)
            }
        },
        _ => {
            eprintln!("unknown stage");
            std::process::exit(2)
        }
    }
    out.flush().unwrap();
}
