//! C04: a created patch turns the old tree into the new tree.
//! Cases: `pair a=<tree> b=<tree>` and `cbytes a=<tree> b=<tree>` (tree grammar:
//! lean/PhysisModel/Base/FsText.lean); `cbytes` compares the bytes of the created patch with the model.
//! The run stage materialises A, B and a copy of A, calls `ZiPatch::create(A, B)`, writes the patch
//! outside the trees, applies it to the copy with `ZiPatch::apply`, and prints the regular files of
//! the copy; `pure=1` when A and B are byte-for-byte what they were before `create`.
#![allow(unused)]
use crate::c03fs::*;
use crate::util::*;
use std::io::Write;

const SIZES: [usize; 22] = [
    1, 2, 3, 4, 5, 15, 16, 17, 111, 112, 113, 127, 128, 129, 240, 255, 256, 257, 31999, 32000, 32001, 65536,
];

fn content(rng: &mut Rng, big: bool) -> String {
    let n = match rng.below(10) {
        0..=5 => *rng.pick(&SIZES),
        6 | 7 => rng.range(1, 600) as usize,
        8 => rng.range(1, 5000) as usize,
        _ => {
            if big {
                rng.range(100_000, 400_000) as usize
            } else {
                rng.range(1, 40_000) as usize
            }
        }
    };
    if n <= 24 && rng.chance(1, 2) {
        hex(&rng.bytes(n))
    } else {
        format!("~{}.{}", n, rng.below(256))
    }
}

/// Directory names beyond letters, digits, `.`, `_`, `-` (raw; the case line carries them escaped,
/// `c03fs::escape_path`): blanks and other white space in front, behind and inside, every ASCII
/// punctuation character, control characters, a leading / trailing dot.  Disjoint from `ODD_FILES`.
pub const ODD_DIRS: [&str; 45] = [
    " d", "d ", "d x", "  d  ", "\td", "d\t", "d\n", "\rd", "d\x0b", "\x0cd", "d+1", "d=2", "d,3", "(d)", "d'4", "d!", "@d", "#d",
    "$d", "d%5", "d%20", "d&6", "[d]", "d~", "d^", "{d}", "d;", "d:", ".d", "d.", "d\\e", "d*", "d?", "d\"", "d<", "d>",
    "d|", "\x01d", "d\x7f", "`d",
    // runs of dots inside a name (legal; only the names `.` and `..` themselves are special)
    "d..", "d..e", "..d", "d...", "...",
];
/// File names of the same kinds (a name made of blanks only included)
pub const ODD_FILES: [&str; 53] = [
    " f0", "f0 ", "f 0", " ", "  ", " f1.bin", "f1.bin ", "f1 .bin", "  f  ", "\tf", "f\t", "f\n", "\nf", "f\r", "\x0bf", "f\x0c",
    "f+", "f=1", "f,1", "(f)", "f'", "f!", "@f", "#f", "$f", "f%", "f%20", "%", "f&", "[f]", "x~", "f^", "{f}", "f;1", "f:1", ".f",
    "f.", "f\\g", "f*", "f?", "f\"", "f<", "f>", "f|", "\x01f", "f\x7f", "`f", "f0 .",
    "f..", "f..old.log", "..f", "f...x", "....",
];

/// directory names start with `d`/`D`, file names with `f`/`F`/`x`: a name is never both
fn rel_path(rng: &mut Rng) -> String {
    let p = rel_path_raw(rng);
    escape_path(&p)
}

fn rel_path_raw(rng: &mut Rng) -> String {
    let depth = match rng.below(8) {
        0..=2 => 0,
        3 | 4 => 1,
        5 => 2,
        6 => 3,
        _ => 4,
    };
    let mut p = String::new();
    for _ in 0..depth {
        // includes names that are proper prefixes of a sibling whose next character sorts before
        // '/' ("d" beside "d.3" / "d-x", "d0" beside "d0.bak" / "d0-old"): path order and string
        // order of the relative paths then differ
        if rng.chance(1, 6) {
            p += *rng.pick(&ODD_DIRS);
        } else {
            // also names that differ from another one only in letter case (distinct files on the
            // case-sensitive file systems the patcher runs on)
            p += *rng.pick(&["d0", "d1", "Dir_2", "d.3", "sqpack", "d-x", "d", "d0.bak", "d0-old", "d", "D0", "dir_2", "SqPack", "D"]);
        }
        p.push('/');
    }
    if rng.chance(1, 4) {
        p += *rng.pick(&ODD_FILES);
    } else {
        p += *rng.pick(&["f0", "f1.bin", "F2.TXT", "f_3", "f-4.dat", "x.5", "f6", "f7.ver", "F0", "F1.BIN", "f2.txt", "X.5", "F7.Ver"]);
    }
    p
}

fn gen_pair(rng: &mut Rng, nfiles: usize, big: bool) -> String {
    let mut a: Vec<String> = vec![];
    let mut b: Vec<String> = vec![];
    let mut used: Vec<String> = vec![];
    let mut bigs = 0;
    let mut sibling: Option<String> = None;
    for _ in 0..nfiles {
        // a sibling whose name is an earlier file's name plus a suffix a tool would use for its own
        // scratch / backup file (`f0` beside `f0.tmp`, `f0~`, `f0.bak` …): both are ordinary files
        let p = match sibling.take() {
            Some(q) => q,
            None => rel_path(rng),
        };
        if used.contains(&p) {
            continue;
        }
        if rng.chance(1, 4) && !p.ends_with('/') {
            sibling = Some(format!("{}{}", p, rng.pick(&[".tmp", ".bak", "%7e", ".new", ".old", ".part", ".lock", ".0", ".orig", ".swp"])));
        }
        used.push(p.clone());
        let allow_big = big && bigs < 2;
        let c = content(rng, allow_big);
        if c.starts_with("~") && c.len() > 8 {
            bigs += 1;
        }
        match rng.below(4) {
            0 => {
                // only in A; now and then a zero-byte file (allowed in the old tree)
                if rng.chance(1, 8) {
                    a.push(format!("{}:-", p));
                } else {
                    a.push(format!("{}:{}", p, c));
                }
            }
            1 => b.push(format!("{}:{}", p, c)),
            2 => {
                a.push(format!("{}:{}", p, c));
                b.push(format!("{}:{}", p, c));
            }
            _ => {
                a.push(format!("{}:{}", p, c));
                // changed content: other bytes of the same length, a prefix, an extension, or unrelated
                let related = if c.starts_with('~') && rng.chance(1, 3) {
                    // the new content is a proper prefix of the old one (a truncated file) or the old
                    // one plus a tail (`~n.s` is the first n bytes of the stream `s`)
                    let (n, sd) = c[1..].split_once('.').unwrap();
                    let n: usize = n.parse().unwrap();
                    if n >= 2 && rng.chance(2, 3) {
                        Some(format!("~{}.{}", match rng.below(3) { 0 => 1, 1 => n - 1, _ => rng.range(1, n as u64 - 1) as usize }, sd))
                    } else {
                        Some(format!("~{}.{}", n + match rng.below(3) { 0 => 1, 1 => 128, _ => rng.range(1, 5000) as usize }, sd))
                    }
                } else {
                    None
                };
                let c2 = match related {
                    Some(c2) => c2,
                    None => loop {
                        let c2 = content(rng, false);
                        if c2 != c {
                            break c2;
                        }
                    },
                };
                b.push(format!("{}:{}", p, c2));
            }
        }
    }
    // an empty directory now and then (never observed by the property, but present on disk)
    if rng.chance(1, 4) {
        a.push("d9/dE/".to_string());
    }
    if rng.chance(1, 6) {
        b.push("d8/".to_string());
    }
    // listing order of the case line is independent of creation order
    for v in [&mut a, &mut b] {
        for i in (1..v.len()).rev() {
            let j = rng.below(i as u64 + 1) as usize;
            v.swap(i, j);
        }
    }
    let j = |v: &Vec<String>| if v.is_empty() { "-".to_string() } else { v.join(";") };
    format!("pair a={} b={}", j(&a), j(&b))
}

pub fn generate(thorough: bool, seed: u64, out: &mut dyn Write) {
    let mut rng = Rng::new(seed, "C04");
    // the four classes on a single file, all boundary sizes (exhaustive over SIZES)
    for &n in SIZES.iter() {
        let c = format!("~{}.7", n);
        let c2 = format!("~{}.9", n);
        writeln!(out, "pair a=- b=f0:{}", c).unwrap();
        writeln!(out, "pair a=f0:{} b=-", c).unwrap();
        writeln!(out, "pair a=f0:{} b=f0:{}", c, c).unwrap();
        writeln!(out, "pair a=f0:{} b=f0:{}", c, c2).unwrap();
        writeln!(out, "pair a=d0/f0:{};f1:01 b=d0/f0:{};d1/d0/f2.bin:{}", c, c2, c).unwrap();
    }
    writeln!(out, "pair a=- b=-").unwrap();
    // the bytes of the created patch against the writer model (listing order forced)
    writeln!(out, "cbytes a=- b=-").unwrap();
    for &n in SIZES.iter() {
        writeln!(out, "cbytes a=- b=f0:~{}.7", n).unwrap();
        writeln!(out, "cbytes a=d0/f0:~{}.7 b=-", n).unwrap();
        writeln!(out, "cbytes a=d0/f0:~{}.7 b=d0/f0:~{}.9", n, n).unwrap();
        writeln!(out, "cbytes a=f0:01 b=d1/Dir_2/f1.bin:~{}.3", n).unwrap();
    }
    // names beyond letters / digits / `._-` (blanks in front, behind, inside; punctuation; control
    // characters): every odd file name added, removed, changed and unchanged — at the top level and
    // below a directory — and every odd directory name in first and in inner position
    for (i, f) in ODD_FILES.iter().enumerate() {
        let f = escape_path(f);
        let (c, c2) = (format!("~{}.{}", 40 + i, i), format!("~{}.{}", 33 + i, i + 1));
        writeln!(out, "pair a=- b={}:{}", f, c).unwrap();
        writeln!(out, "pair a={}:{} b=-", f, c).unwrap();
        writeln!(out, "pair a={}:{};f1:01 b={}:{};f1:02", f, c, f, c).unwrap();
        writeln!(out, "pair a={}:{} b={}:{}", f, c, f, c2).unwrap();
        writeln!(out, "pair a=d0/{}:{};d1/{}:{};f0:aa b=d0/{}:{};d2/{}:{};f0:aa", f, c, f, c, f, c2, f, c).unwrap();
        writeln!(out, "cbytes a=- b={}:~17.3", f).unwrap();
        writeln!(out, "cbytes a=d0/{}:~17.3 b=-", f).unwrap();
    }
    for (i, d) in ODD_DIRS.iter().enumerate() {
        let d = escape_path(d);
        let (c, c2) = (format!("~{}.{}", 50 + i, i), format!("~{}.{}", 29 + i, i + 1));
        writeln!(out, "pair a={}/f0:{};{}/f1:{} b={}/f0:{};{}/f2:{}", d, c, d, c, d, c2, d, c).unwrap();
        writeln!(out, "pair a=d0/{}/f0:{};f1:01 b=d0/{}/f0:{};d0/{}/{}/f3:{}", d, c, d, c2, d, d, c).unwrap();
        writeln!(out, "cbytes a=- b={}/f0:~17.3", d).unwrap();
    }
    let n = if thorough { 30_000 } else { 150 };
    for i in 0..n {
        let nfiles = match rng.below(6) {
            0 => rng.range(0, 2),
            1..=3 => rng.range(2, 6),
            _ => rng.range(6, 12),
        } as usize;
        let big = i % 10 == 0;
        writeln!(out, "{}", gen_pair(&mut rng, nfiles, big)).unwrap();
    }
}

fn same(root: &std::path::Path, es: &Entries) -> bool {
    // every entry of the case is there with its content, and nothing else is
    let snap = snapshot(root);
    let files: Vec<&(String, Option<Vec<u8>>)> = snap.iter().filter(|e| e.1.is_some()).collect();
    let mut want: Vec<&(String, Option<Vec<u8>>)> = es.iter().filter(|e| e.1.is_some()).collect();
    want.sort_by(|a, b| a.0.as_bytes().cmp(b.0.as_bytes()));
    if files.len() != want.len() || files.iter().zip(want.iter()).any(|(x, y)| x != y) {
        return false;
    }
    // directories: those of the case (and their parents) exactly
    let mut dirs: Vec<String> = vec![];
    for (p, c) in es {
        let comps: Vec<&str> = p.split('/').collect();
        let upto = if c.is_some() { comps.len() - 1 } else { comps.len() };
        for k in 1..=upto {
            let d = comps[..k].join("/");
            if !dirs.contains(&d) {
                dirs.push(d);
            }
        }
    }
    dirs.sort_by(|a, b| a.as_bytes().cmp(b.as_bytes()));
    let have: Vec<String> = snap.iter().filter(|e| e.1.is_none()).map(|e| e.0.clone()).collect();
    dirs == have
}

pub fn run(case: &str, input: &str) -> String {
    let f: Vec<&str> = input.split(' ').collect();
    if f.len() != 3 || (f[0] != "pair" && f[0] != "cbytes") {
        return "bad-case".into();
    }
    let bytes_only = f[0] == "cbytes";
    let (Some(a), Some(b)) = (f[1].strip_prefix("a="), f[2].strip_prefix("b=")) else {
        return "bad-case".into();
    };
    let (Some(ea), Some(eb)) = (parse_tree(a), parse_tree(b)) else { return "bad-case".into() };
    let tmp = Scratch::new("c04");
    let (da, db, dw) = (tmp.path().join("a"), tmp.path().join("b"), tmp.path().join("w"));
    if materialise(&da, &ea).is_err() || materialise(&db, &eb).is_err() || materialise(&dw, &ea).is_err() {
        return "bad-case".into();
    }
    let patch_path = tmp.path().join("p.patch");
    let (sa, sb, sw) = (
        da.to_str().unwrap().to_string(),
        db.to_str().unwrap().to_string(),
        dw.to_str().unwrap().to_string(),
    );
    let pp = patch_path.to_str().unwrap().to_string();
    let res = guarded(move || {
        let Some(patch) = physis::patch::ZiPatch::create(&sa, &sb) else { return "none".to_string() };
        if bytes_only {
            return format!("patch={}", show_content(&patch));
        }
        std::fs::write(&pp, &patch).unwrap();
        match physis::patch::ZiPatch::apply(&sw, &pp) {
            Ok(()) => "ok".to_string(),
            Err(e) => format!("err:{:?}", e),
        }
    });
    if res.starts_with("panic") || res == "none" || bytes_only {
        return res;
    }
    let pure = same(&da, &ea) && same(&db, &eb);
    format!("{} files={} pure={}", res, dump_tree(&dw, false), if pure { 1 } else { 0 })
}

pub fn dump(out: &mut dyn Write) {}
