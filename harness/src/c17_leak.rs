//! C17, residual resources: a rejected (or accepted) file must not leave anything behind.
//!
//! `leak <n> <inner case>` — `<inner case>` is any other C17 case (`apply …`, `cfg …`, `pl_write …`,
//! …).  The inner case is run once for its ordinary outcome and then `5·n` more times in the same
//! process (a launcher that retries, or walks a patch list): `n` warm-up calls, then four segments
//! of `n` calls.  The answer is the ordinary outcome, unless
//!
//! * the heap that is still in use grows in **every** segment by ≥ 16 bytes per call —
//!   `leak:heap-grows-<b>-bytes-per-call`.  Two meters: the counting global allocator (Rust
//!   allocations) and glibc's `mallinfo` (everything that ends in `malloc`: zlib-rs takes its
//!   stream state from `std::alloc::System` directly, which the counting allocator cannot see);
//! * the resident set (`/proc/self/statm`) grows in every segment by ≥ 1 KiB per call —
//!   `leak:resident-set-grows-<b>-bytes-per-call` (memory that does not come from `malloc`);
//! * the number of open descriptors (`/proc/self/fd`) is up by 8 or more —
//!   `leak:descriptors-grow-<k>`;
//! * a repetition answers differently from the first call — `unstable:<first> then <other>`
//!   (`apply` works on the directory its earlier calls left behind, so there only a crash or an
//!   over-sized request in a later call counts: `panic:… on-repetition`).
//!
//! One-off growth (lazily initialised statics, allocator arenas, a heap top that is not trimmed)
//! shows in at most one or two segments and is ignored: only growth in proportion to the number
//! of calls counts.  The specified answer is the inner case's (no growth).
#![allow(unused)]
use crate::c17_io::PB;
use crate::util::*;
use std::io::Write;

#[repr(C)]
struct MallInfo {
    arena: i32,
    ordblks: i32,
    smblks: i32,
    hblks: i32,
    hblkhd: i32,
    usmblks: i32,
    fsmblks: i32,
    uordblks: i32,
    fordblks: i32,
    keepcost: i32,
}
unsafe extern "C" {
    fn mallinfo() -> MallInfo;
}

/// bytes handed out by `malloc` and not yet freed (main arena + mmapped chunks), modulo 2^32
fn malloc_in_use() -> u32 {
    let m = unsafe { mallinfo() };
    (m.uordblks as u32).wrapping_add(m.hblkhd as u32)
}

fn resident_bytes() -> i64 {
    std::fs::read_to_string("/proc/self/statm")
        .ok()
        .and_then(|s| s.split_whitespace().nth(1).and_then(|x| x.parse::<i64>().ok()))
        .map(|p| p * 4096)
        .unwrap_or(0)
}

fn open_descriptors() -> i64 {
    std::fs::read_dir("/proc/self/fd").map(|d| d.count() as i64).unwrap_or(0)
}

#[derive(Clone, Copy)]
struct Sample {
    live: i64,
    in_use: u32,
    rss: i64,
    fds: i64,
}

fn sample() -> Sample {
    Sample { live: crate::alloc::snapshot().live as i64, in_use: malloc_in_use(), rss: resident_bytes(), fds: open_descriptors() }
}

const HEAP_BYTES_PER_CALL: i64 = 16;
const RSS_BYTES_PER_CALL: i64 = 1024;
const SEGMENTS: usize = 4;

pub fn run(f: &[&str]) -> String {
    if f.len() < 3 || f[2] == "leak" {
        return "bad-case".into();
    }
    let Ok(n) = f[1].parse::<usize>() else { return "bad-case".into() };
    if n == 0 || n > 10_000 {
        return "bad-case".into();
    }
    let inner = f[2..].join(" ");
    let first = crate::c17::run(&inner, &inner);
    // already a failure of its own (or not a case): nothing to repeat
    if first == "bad-case" || first.starts_with("panic:") || first.contains(" overalloc:") {
        return first;
    }
    // The path-taking entry points get their scratch directory once (a fresh one per call costs
    // a millisecond of file-system work).  `apply` then sees what its earlier calls left behind —
    // the retry of a launcher —, so its later answers may differ from the first; a crash or an
    // over-sized request in any of them is reported.
    let prepared = match f[2] {
        "apply" | "execlookup" | "bootdata" => match crate::c17_io::prepare("c17rep", &f[2..]) {
            Some(p) => Some(p),
            None => return "bad-case".into(),
        },
        _ => None,
    };
    let stable = f[2] != "apply";
    let mut s: Vec<Sample> = Vec::with_capacity(SEGMENTS + 2);
    s.push(sample());
    for _seg in 0..=SEGMENTS {
        for _ in 0..n {
            let o = match &prepared {
                Some(p) => p.call(),
                None => crate::c17::run(&inner, &inner),
            };
            if o != first {
                if o.starts_with("panic:") || o.contains(" overalloc:") {
                    return format!("{} on-repetition", o);
                }
                if stable {
                    return format!("unstable:{} then {}", first, o);
                }
            }
        }
        let x = sample();
        s.push(x);
        // every call keeps a descriptor: stop before the process runs out of them
        if x.fds - s[0].fds >= 64 {
            return format!("leak:descriptors-grow-{}", x.fds - s[0].fds);
        }
    }
    // s[0] before the warm-up, s[1] after it, s[2..] after each measured segment
    let seg = &s[1..];
    let calls = (SEGMENTS * n) as i64;
    let min_of = |d: &dyn Fn(&Sample, &Sample) -> i64| (0..SEGMENTS).map(|i| d(&seg[i], &seg[i + 1])).min().unwrap();
    let live_min = min_of(&|a, b| b.live - a.live);
    let in_use_min = min_of(&|a, b| b.in_use.wrapping_sub(a.in_use) as i32 as i64);
    let rss_min = min_of(&|a, b| b.rss - a.rss);
    if std::env::var("C17_DEBUG").is_ok() {
        for x in &s {
            eprintln!("leak debug live {} malloc {} rss {} fds {}", x.live, x.in_use, x.rss, x.fds);
        }
    }
    let per_call = n as i64;
    if live_min >= HEAP_BYTES_PER_CALL * per_call {
        format!("leak:heap-grows-{}-bytes-per-call", (seg[SEGMENTS].live - seg[0].live) / calls)
    } else if in_use_min >= HEAP_BYTES_PER_CALL * per_call {
        format!("leak:heap-grows-{}-bytes-per-call", (seg[SEGMENTS].in_use.wrapping_sub(seg[0].in_use) as i32 as i64) / calls)
    } else if rss_min >= RSS_BYTES_PER_CALL * per_call {
        format!("leak:resident-set-grows-{}-bytes-per-call", (seg[SEGMENTS].rss - seg[0].rss) / calls)
    } else if seg[SEGMENTS].fds - s[0].fds >= 8 {
        format!("leak:descriptors-grow-{}", seg[SEGMENTS].fds - s[0].fds)
    } else {
        first
    }
}

// ------------------------------------------------------------------------------------------
// generator
// ------------------------------------------------------------------------------------------

/// raw deflate, one *stored* block: `first` is the block header byte (bit 0 final, bits 1–2 type)
fn stored(first: u8, payload: &[u8]) -> Vec<u8> {
    let mut s = vec![first];
    s.extend_from_slice(&(payload.len() as u16).to_le_bytes());
    s.extend_from_slice(&(!(payload.len() as u16)).to_le_bytes());
    s.extend_from_slice(payload);
    s
}

/// raw deflate through zlib (fixed / dynamic Huffman codes)
fn real_deflate(data: &[u8]) -> Vec<u8> {
    use libz_rs_sys::*;
    unsafe {
        let mut strm: z_stream = std::mem::zeroed();
        let ret = deflateInit2_(&mut strm, 6, Z_DEFLATED, -15, 8, Z_DEFAULT_STRATEGY, zlibVersion(), core::mem::size_of::<z_stream>() as i32);
        assert_eq!(ret, Z_OK);
        let mut out = vec![0u8; data.len() * 2 + 64];
        strm.next_in = data.as_ptr() as *mut u8;
        strm.avail_in = data.len() as u32;
        strm.next_out = out.as_mut_ptr();
        strm.avail_out = out.len() as u32;
        let ret = deflate(&mut strm, Z_FINISH);
        assert_eq!(ret, Z_STREAM_END);
        out.truncate(strm.total_out as usize);
        deflateEnd(&mut strm);
        out
    }
}

/// Compressed blocks `(x, y, bytes)` that `inflate` does not finish (no `Z_STREAM_END`), one per
/// way of failing.  `payload` is 1..=2000 bytes.
fn rejected_blocks(payload: &[u8]) -> Vec<(&'static str, (i32, i32, Vec<u8>))> {
    let n = payload.len() as i32;
    let blk = |s: Vec<u8>, y: i32| (s.len() as i32, y, s);
    let mut v: Vec<(&'static str, (i32, i32, Vec<u8>))> = vec![];
    // reserved block type 3, final / not final: data error at the first bits
    v.push(("reserved-final", blk(stored(0x07, payload), n)));
    v.push(("reserved", blk(stored(0x06, payload), n)));
    // a stored block without the final bit and nothing behind it: the stream never ends
    // (the zero padding reads as another stored block whose LEN/NLEN do not match)
    v.push(("unterminated", blk(stored(0x00, payload), n)));
    // LEN / NLEN are not complements
    let mut s = stored(0x01, payload);
    s[3] ^= 0x55;
    v.push(("nlen", blk(s, n)));
    // the declared decompressed length is too small: inflate runs out of output space
    v.push(("short-output", blk(stored(0x01, payload), n - 1)));
    v.push(("no-output", blk(stored(0x01, payload), 0)));
    // the declared compressed length ends before the stored block does: inflate runs out of input
    if payload.len() > 200 {
        v.push(("short-input", (40, n, stored(0x01, payload))));
    }
    // nothing at all (the 112 padding bytes are handed to inflate)
    v.push(("empty", (0, n, vec![])));
    // fixed Huffman codes, a match (length 3, distance 1) before any output: distance too far back
    v.push(("far-distance", blk(vec![0x03, 0x02, 0x00], n)));
    // a real deflate stream (Huffman coded) that needs one byte more than the header declares
    let text: Vec<u8> = payload.iter().map(|b| b"abcdefgh"[(*b & 7) as usize]).collect();
    v.push(("huffman-short-output", blk(real_deflate(&text), n - 1)));
    // the largest output the reader accepts (1 MiB) is allocated, then the stream is refused
    v.push(("reserved-1mib", blk(stored(0x07, payload), 1 << 20)));
    v
}

fn add_file(file_size: u64, path: &[u8], blocks: &[(i32, i32, Vec<u8>)]) -> Vec<u8> {
    let mut q = PB::new();
    q.target(0);
    q.file_op_raw(b'A', 0, file_size, 0, path, blocks);
    q.eof();
    q.v
}

pub fn generate(thorough: bool, rng: &mut Rng, out: &mut dyn Write) {
    let n = if thorough { 400 } else { 100 };
    let payloads: Vec<Vec<u8>> = if thorough {
        let mut p = vec![(0..16u8).collect::<Vec<u8>>(), rng.bytes(1), rng.bytes(300), rng.bytes(2000)];
        for _ in 0..4 {
            let k = rng.range(2, 1500) as usize;
            p.push(rng.bytes(k));
        }
        p
    } else {
        let k = rng.range(201, 600) as usize;
        vec![(0..16u8).collect(), rng.bytes(k)]
    };
    let plain = |d: &[u8]| (32000i32, d.len() as i32, d.to_vec());
    let good = |d: &[u8]| {
        let s = stored(0x01, d);
        (s.len() as i32, d.len() as i32, s)
    };
    // ---- a compressed block that does not inflate: ZiPatch::apply answers Err, n times ----
    for (pi, payload) in payloads.iter().enumerate() {
        for (tag, b) in rejected_blocks(payload) {
            // the rejected block alone
            let v = add_file(payload.len() as u64, b"f.bin", &[b.clone()]);
            writeln!(out, "leak {} apply dir - file {}", n, hex(&v)).unwrap();
            if pi == 0 || thorough {
                // behind blocks that were written already (uncompressed, compressed)
                let v = add_file(3 * payload.len() as u64, b"sqpack/ffxiv/f.bin", &[plain(payload), good(payload), b.clone()]);
                writeln!(out, "leak {} apply dir - file {}", n, hex(&v)).unwrap();
            }
            if tag == "reserved-final" || tag == "unterminated" || thorough {
                // the target cannot be opened: the blocks are read and dropped
                let v = add_file(payload.len() as u64, b"f.bin", &[b.clone()]);
                writeln!(out, "leak {} apply dir d:{} file {}", n, hex(b"f.bin"), hex(&v)).unwrap();
                // no data directory yet / a file in its place
                writeln!(out, "leak {} apply missing - file {}", n, hex(&v)).unwrap();
                writeln!(out, "leak {} apply file - file {}", n, hex(&v)).unwrap();
            }
        }
    }
    // ---- patches that apply (every block inflates), and other ways of being refused ----
    for payload in &payloads {
        let v = add_file(payload.len() as u64, b"f.bin", &[good(payload)]);
        writeln!(out, "leak {} apply dir - file {}", n, hex(&v)).unwrap();
        let v = add_file(4 * payload.len() as u64, b"sqpack/ex1/f.bin", &[good(payload), plain(payload), good(payload), good(payload)]);
        writeln!(out, "leak {} apply dir - file {}", n, hex(&v)).unwrap();
        writeln!(out, "leak {} apply dir f:{} file {}", n, hex(b"sqpack/ex1/f.bin"), hex(&v)).unwrap();
        // cut inside the last block, and without the EOF chunk
        writeln!(out, "leak {} apply dir - file {}", n, hex(&v[..v.len() - 60])).unwrap();
        writeln!(out, "leak {} apply dir - file {}", n, hex(&v[..v.len() - 8])).unwrap();
    }
    {
        // every chunk type in one patch; the same with the first AddFile's compressed block damaged
        let p = crate::c17_io::seed_patch(true);
        writeln!(out, "leak {} apply dir - file {}", n / 2, hex(&p.v)).unwrap();
        writeln!(out, "leak {} apply missing - file {}", n / 2, hex(&p.v)).unwrap();
        writeln!(out, "leak {} apply dir - missing {}", n, hex(&p.v)).unwrap();
        writeln!(out, "leak {} apply dir - isdir {}", n, hex(&p.v)).unwrap();
        let (fs, fe, _) = *p.chunks.iter().find(|c| c.2 == "addfile").unwrap();
        // the stored block of the first AddFile chunk: 01 64 00 9b ff 07 07 …
        let at = (fs..fe).find(|&i| p.v[i..].starts_with(&[0x01, 100, 0, !100u8, 0xFF, 7, 7])).unwrap();
        let mut v = p.v.clone();
        v[at] = 0x07;
        writeln!(out, "leak {} apply dir - file {}", n / 2, hex(&v)).unwrap();
        let mut v = p.v.clone();
        v[at] = 0x00;
        writeln!(out, "leak {} apply dir - file {}", n / 2, hex(&v)).unwrap();
        // a 1 MiB block (the reader's limit) that inflates
        let v = add_file(1 << 20, b"f.bin", &[(21, 1 << 20, stored(0x01, &[5u8; 16]))]);
        writeln!(out, "leak {} apply dir - file {}", n / 4, hex(&v)).unwrap();
    }
    // ---- the other entry points: accepted and refused files, repeated ----
    {
        use crate::c17::{seed_cfg, seed_chardat, seed_exl, seed_fiin, seed_gearsets, seed_log, seed_patchlist};
        let m = 2 * n;
        let mut both = |op: &str, s: &[u8], cut: usize| {
            writeln!(out, "leak {} {} {}", m, op, hex(s)).unwrap();
            writeln!(out, "leak {} {} {}", m, op, hex(&s[..cut.min(s.len())])).unwrap();
        };
        let s = seed_cfg();
        both("cfg", &s, s.len() / 2);
        let s = seed_exl();
        both("exl", &s, 9);
        both("exl", b"EXLT,2\nFoo,99999999999\nBar", 20);
        let (s, _) = seed_fiin(3);
        both("fiin", &s, 1024 + 96 + 50);
        let (s, _) = seed_chardat();
        both("chardat", &s, 100);
        let mut t = s.clone();
        t[16] = 0xFF; // no such race
        both("chardat", &t, 17);
        let (s, _) = seed_gearsets(&[0, 1, 5, 99]);
        both("gearsets", &s, 600);
        let msgs: Vec<(u8, u8, &[u8])> = vec![(3, 0, b"Welcome to Eorzea!"), (69, 3, "caf\u{e9} \u{2605}".as_bytes()), (170, 59, &[0xFF, 0x41, 0xC3]), (64, 32, b"")];
        let (s, _) = seed_log(&msgs);
        both("log", &s, s.len() - 3);
        let mut t = s.clone();
        t[8 + 4..8 + 8].copy_from_slice(&1000u32.to_le_bytes()); // an offset beyond the end
        both("log", &t, 30);
        for game in [false, true] {
            let op = if game { "pl_game" } else { "pl_boot" };
            let s = seed_patchlist(game, 3);
            both(op, &s, s.len() - 70);
            both(if game { "pl_boot" } else { "pl_game" }, &s, 200);
        }
        writeln!(out, "leak {} pl_write game 1,5,6,2;{},7,8,1", m, i64::MAX).unwrap();
        writeln!(out, "leak {} pl_write boot 1,5,6,0;2,{},8,3;-1,0,0,1", m, i64::MIN).unwrap();
        let utf16be = |s: &str| -> Vec<u8> { s.encode_utf16().flat_map(|u| u.to_be_bytes()).collect() };
        let mut s = vec![0x4D; 17];
        s.extend_from_slice(&utf16be("https://launcher.finalfantasyxiv.com/v620/index.html?rc_lang={0}&time={1}"));
        s.extend_from_slice(&[0, 0, 0x5A, 0x5A]);
        writeln!(out, "leak {} execlookup file {}", n, hex(&s)).unwrap();
        writeln!(out, "leak {} execlookup file {}", n, hex(&s[..60])).unwrap();
        writeln!(out, "leak {} execlookup missing -", n).unwrap();
        writeln!(out, "leak {} bootdata ok {}", n, hex(b"2012.01.01.0000.0000")).unwrap();
        writeln!(out, "leak {} bootdata ok {}", n, hex(&[0xFF, 0xFE])).unwrap();
        writeln!(out, "leak {} bootdata nover -", n).unwrap();
    }
}
