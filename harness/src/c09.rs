//! C09: character presets (`src/chardat.rs`) and gear-set files (`src/gearsets.rs`, `src/dat.rs`)
//! keep the documented layout.
//!
//! Abstract cases (grammar shared with `lean/PhysisModel/Driver/C09.lean`):
//!   char    <version> <27 appearance bytes, documented order> <timestamp> <comment>
//!   charbad the same with an undocumented race / gender / tribe code (must be rejected)
//!   gear    <current> <unk1> <unk3> <sets>
//! The files are produced by the Lean `Spec/` encoders (the `<input>` column of the driver's
//! answer: `<op> <file hex>`); nothing here writes the formats.  For each case the real code
//! (F) parses the file and its public fields are dumped by *name*, (W) writes the parsed value
//! back, (D) writes a value built directly from the case through the public API.
#![allow(unused)]
use crate::util::*;
use physis::chardat::{CharacterData, CustomizeData};
use physis::gearsets::{GearSet, GearSets, GearSlot, GearSlotType};
use physis::race::{Gender, Race, Tribe};
use std::collections::HashMap;
use std::io::Write;

// ------------------------------------------------------------------------------------------
// generator
// ------------------------------------------------------------------------------------------

const MULTI: [&str; 6] = ["é", "ß", "あ", "設定", "😀", "Ω"];

fn utf8_text(rng: &mut Rng, max_bytes: usize) -> Vec<u8> {
    let target = rng.range(0, max_bytes as u64) as usize;
    exact_text(rng, target, max_bytes)
}

/// NUL-free valid UTF-8 of (at most `max`, aiming at exactly `target`) bytes
fn exact_text(rng: &mut Rng, target: usize, max: usize) -> Vec<u8> {
    let mut v: Vec<u8> = Vec::new();
    while v.len() < target {
        let left = target.min(max) - v.len();
        let piece: Vec<u8> = match rng.below(8) {
            0 => rng.pick(&MULTI).as_bytes().to_vec(),
            1 => vec![b' '],
            2 => vec![rng.range(1, 0x1f) as u8], // control characters other than NUL are text too
            _ => vec![rng.range(0x21, 0x7e) as u8],
        };
        if piece.len() <= left {
            v.extend(piece);
        } else {
            v.push(b'x');
        }
    }
    v
}

const RACES: u8 = 8;
const TRIBES: u8 = 16;

fn appearance(rng: &mut Rng) -> [u8; 27] {
    let mut a = [0u8; 27];
    for b in a.iter_mut() {
        *b = match rng.below(6) {
            0 => 0,
            1 => 255,
            2 => 128,
            _ => rng.below(256) as u8,
        };
    }
    a[0] = rng.range(1, RACES as u64) as u8;
    a[1] = rng.below(2) as u8;
    a[4] = rng.range(1, TRIBES as u64) as u8;
    a[7] = rng.below(2) as u8;
    a
}

fn char_line(op: &str, version: u32, a: &[u8; 27], ts: u32, comment: &[u8]) -> String {
    format!("{} {} {} {} {}", op, version, hex(a), ts, hex(comment))
}

struct Slot {
    j: usize,
    id: u32,
    glam: Option<u32>,
    unk: [u32; 5],
}
struct Set {
    pos: usize,
    index: u8,
    name: Vec<u8>,
    unk: u64,
    fw: Option<u32>,
    slots: Vec<Slot>,
}

fn opt(o: Option<u32>) -> String {
    o.map(|v| v.to_string()).unwrap_or_else(|| "-".into())
}

fn gear_line(cur: u8, u1: u8, u3: u16, sets: &[Set]) -> String {
    let s = if sets.is_empty() {
        ".".to_string()
    } else {
        sets.iter()
            .map(|s| {
                let slots = if s.slots.is_empty() {
                    ".".to_string()
                } else {
                    s.slots
                        .iter()
                        .map(|x| format!("{}/{}/{}/{}/{}/{}/{}/{}", x.j, x.id, opt(x.glam), x.unk[0], x.unk[1], x.unk[2], x.unk[3], x.unk[4]))
                        .collect::<Vec<_>>()
                        .join(",")
                };
                format!("{}:{}:{}:{}:{}:{}", s.pos, s.index, hex(&s.name), s.unk, opt(s.fw), slots)
            })
            .collect::<Vec<_>>()
            .join(";")
    };
    format!("gear {} {} {} {}", cur, u1, u3, s)
}

const MARKER: u32 = 1_000_000;

/// an item id; `clean` = shares no bit with the marker (and is not 0)
fn item_id(rng: &mut Rng, clean: bool) -> u32 {
    loop {
        let v = match rng.below(8) {
            0 => rng.range(1, 50_000) as u32,
            1 => 0x8000_0000 | rng.below(1 << 20) as u32,
            2 => 0xFFFF_FFFF,
            3 => 1 << rng.below(32),
            _ => rng.next() as u32,
        };
        let v = if clean { v & !MARKER } else { v };
        if v != 0 && (clean || v & MARKER != 0) {
            return v;
        }
    }
}

fn nonzero_u32(rng: &mut Rng) -> u32 {
    loop {
        let v = rng.u32_edge();
        if v != 0 {
            return v;
        }
    }
}

fn random_sets(rng: &mut Rng, nsets: usize, hidden: bool, overlap: bool) -> Vec<Set> {
    let mut positions: Vec<usize> = (0..100).collect();
    // partial shuffle
    for i in 0..nsets {
        let j = i + rng.below((100 - i) as u64) as usize;
        positions.swap(i, j);
    }
    let mut chosen: Vec<usize> = positions[..nsets].to_vec();
    chosen.sort();
    let mut sets = Vec::new();
    for pos in chosen {
        let name_len = match rng.below(6) {
            0 => 1,
            1 => 46,
            2 => 45,
            _ => rng.range(1, 46) as usize,
        };
        let name = exact_text(rng, name_len, 46);
        let nslots = match rng.below(5) {
            0 => 0,
            1 => 14,
            _ => rng.range(1, 13) as usize,
        };
        let mut js: Vec<usize> = (0..14).collect();
        for i in 0..nslots {
            let j = i + rng.below((14 - i) as u64) as usize;
            js.swap(i, j);
        }
        let mut sel = js[..nslots].to_vec();
        sel.sort();
        let slots = sel
            .into_iter()
            .map(|j| Slot {
                j,
                id: {
                    let clean = !(overlap && rng.chance(1, 3));
                    item_id(rng, clean)
                },
                glam: if rng.chance(1, 2) { Some(nonzero_u32(rng)) } else { None },
                unk: if hidden && rng.chance(1, 2) { [rng.u32_edge(), rng.u32_edge(), rng.u32_edge(), rng.u32_edge(), rng.u32_edge()] } else { [0; 5] },
            })
            .collect();
        sets.push(Set {
            pos,
            index: if rng.chance(3, 4) { pos as u8 } else { rng.below(256) as u8 },
            name,
            unk: if hidden && rng.chance(1, 2) { rng.next() } else { 0 },
            fw: if rng.chance(1, 3) { Some(nonzero_u32(rng)) } else { None },
            slots,
        });
    }
    sets
}

pub fn generate(thorough: bool, seed: u64, out: &mut dyn Write) {
    let mut rng = Rng::new(seed, "C09");
    let base: [u8; 27] = [1, 0, 1, 50, 1, 5, 1, 1, 2, 37, 53, 0, 2, 2, 0, 37, 0, 0, 0, 0, 43, 50, 0, 0, 0, 36, 1];

    // ---- every race x gender x tribe code
    for r in 1..=RACES {
        for g in 0..2u8 {
            for t in 1..=TRIBES {
                let mut a = appearance(&mut rng);
                a[0] = r;
                a[1] = g;
                a[4] = t;
                writeln!(out, "{}", char_line("char", rng.u32_edge(), &a, rng.u32_edge(), &utf8_text(&mut rng, 30))).unwrap();
            }
        }
    }
    // ---- every field swept over all 256 values, the others random; undocumented codes must be rejected
    for field in 0..27usize {
        for v in 0..=255u8 {
            let mut a = if v % 2 == 0 { base } else { appearance(&mut rng) };
            a[field] = v;
            let bad = (field == 0 && !(1..=RACES).contains(&v)) || (field == 1 && v > 1) || (field == 4 && !(1..=TRIBES).contains(&v));
            if field == 7 && v > 1 {
                continue; // the highlights switch is a bool in the value space
            }
            let c = utf8_text(&mut rng, 20);
            writeln!(out, "{}", char_line(if bad { "charbad" } else { "char" }, 7, &a, 1_700_000_000, &c)).unwrap();
        }
    }
    // ---- comments of every length 0..=163
    for len in 0..=163usize {
        let c = exact_text(&mut rng, len, 163);
        writeln!(out, "{}", char_line("char", 1, &appearance(&mut rng), rng.u32_edge(), &c)).unwrap();
    }
    // ---- random presets
    let n = if thorough { 200_000 } else { 2_000 };
    for _ in 0..n {
        let c = if rng.chance(1, 4) {
            let target = 163 - rng.below(3) as usize;
            exact_text(&mut rng, target, 163)
        } else {
            utf8_text(&mut rng, 163)
        };
        writeln!(out, "{}", char_line("char", rng.u32_edge(), &appearance(&mut rng), rng.u32_edge(), &c)).unwrap();
    }

    // ---- gear sets
    writeln!(out, "gear 0 0 0 .").unwrap();
    // each of the 14 slots alone, in set 0 and in set 99
    for j in 0..14usize {
        for pos in [0usize, 99] {
            let s = Set { pos, index: pos as u8, name: b"Set".to_vec(), unk: 0, fw: None, slots: vec![Slot { j, id: 4096 + j as u32, glam: Some(7 + j as u32), unk: [0; 5] }] };
            writeln!(out, "{}", gear_line(pos as u8, 0, 0, &[s])).unwrap();
        }
    }
    // every set position alone
    for pos in 0..100usize {
        if !thorough && pos % 7 != 0 && pos != 99 {
            continue;
        }
        let s = random_sets(&mut rng, 1, false, false).pop().map(|mut s| {
            s.pos = pos;
            s
        });
        writeln!(out, "{}", gear_line(rng.below(100) as u8, 0, 0, &[s.unwrap()])).unwrap();
    }
    // all 100 sets, all 14 slots
    {
        let mut sets = random_sets(&mut rng, 100, true, false);
        writeln!(out, "{}", gear_line(99, 255, 65535, &sets)).unwrap();
    }
    let n = if thorough { 6_000 } else { 220 };
    for i in 0..n {
        let nsets = match rng.below(6) {
            0 => 1,
            1 => 100,
            2 => rng.range(90, 100),
            _ => rng.range(1, 30),
        } as usize;
        let hidden = i % 2 == 1;
        let overlap = i % 10 == 9; // the class of finding gearsets.id-overlaps-marker
        let sets = random_sets(&mut rng, nsets, hidden, overlap);
        let (u1, u3) = if hidden { (rng.below(256) as u8, rng.below(65536) as u16) } else { (0, 0) };
        writeln!(out, "{}", gear_line(rng.below(256) as u8, u1, u3, &sets)).unwrap();
    }

    // ---- mutated encodings (`mut <seed> <k> <case>`, Base/Mutate.lean): 1..3 damaged bytes in an
    // encoded preset / gear-set file; the model of the code and the code must still agree on what
    // the file parses to and on what the parsed value is written as.  Own stream.
    let mut mrng = Rng::new(seed, "C09-mut");
    let n = if thorough { 40_000 } else { 400 };
    for i in 0..n {
        let k = 1 + mrng.below(3);
        let mseed = mrng.next() >> 1;
        let line = if i % 8 < 5 {
            let c = match mrng.below(4) {
                0 => {
                    let target = 163 - mrng.below(3) as usize;
                    exact_text(&mut mrng, target, 163)
                }
                1 => utf8_text(&mut mrng, 12),
                _ => utf8_text(&mut mrng, 163),
            };
            char_line("char", mrng.u32_edge(), &appearance(&mut mrng), mrng.u32_edge(), &c)
        } else {
            let nsets = match mrng.below(6) {
                0 => 1,
                1 => 100,
                _ => mrng.range(1, 12),
            } as usize;
            let hidden = i % 2 == 1;
            let sets = random_sets(&mut mrng, nsets, hidden, false);
            let (u1, u3) = if hidden { (mrng.below(256) as u8, mrng.below(65536) as u16) } else { (0, 0) };
            gear_line(mrng.below(256) as u8, u1, u3, &sets)
        };
        writeln!(out, "mut {} {} {}", mseed, k, line).unwrap();
    }
}

// ------------------------------------------------------------------------------------------
// run: the real code
// ------------------------------------------------------------------------------------------

fn dump_char(d: &CharacterData) -> String {
    let c = &d.customize;
    // by field *name*, listed in the documented order of the appearance block
    let a: [u8; 27] = [
        c.race as u8,
        c.gender.clone() as u8,
        c.age,
        c.height,
        c.tribe as u8,
        c.face,
        c.hair,
        c.enable_highlights as u8,
        c.skin_tone,
        c.right_eye_color,
        c.hair_tone,
        c.highlights,
        c.facial_features,
        c.facial_feature_color,
        c.eyebrows,
        c.left_eye_color,
        c.eyes,
        c.nose,
        c.jaw,
        c.mouth,
        c.lips_tone_fur_pattern,
        c.race_feature_size,
        c.race_feature_type,
        c.bust,
        c.face_paint,
        c.face_paint_color,
        c.voice,
    ];
    format!("{};{};{};{}", d.version, hex(&a), d.timestamp, hex(d.comment.as_bytes()))
}

fn build_char(version: u32, a: &[u8], ts: u32, comment: String) -> Option<CharacterData> {
    Some(CharacterData {
        version,
        customize: CustomizeData {
            race: Race::try_from(a[0]).ok()?,
            gender: Gender::try_from(a[1]).ok()?,
            age: a[2],
            height: a[3],
            tribe: Tribe::try_from(a[4]).ok()?,
            face: a[5],
            hair: a[6],
            enable_highlights: a[7] == 1,
            skin_tone: a[8],
            right_eye_color: a[9],
            hair_tone: a[10],
            highlights: a[11],
            facial_features: a[12],
            facial_feature_color: a[13],
            eyebrows: a[14],
            left_eye_color: a[15],
            eyes: a[16],
            nose: a[17],
            jaw: a[18],
            mouth: a[19],
            lips_tone_fur_pattern: a[20],
            race_feature_size: a[21],
            race_feature_type: a[22],
            bust: a[23],
            face_paint: a[24],
            face_paint_color: a[25],
            voice: a[26],
        },
        timestamp: ts,
        comment,
    })
}

fn same_or(file: &[u8], w: Option<Vec<u8>>) -> String {
    match w {
        None => "write-none".into(),
        Some(w) if w == file => "same".into(),
        Some(w) => hex(&w),
    }
}

/// a write that panics is that part's answer (`panic`), not the whole case's: the value a damaged
/// file parses to (a comment with a NUL inside) can make `write_string` panic
fn guarded_write(f: impl FnOnce() -> String) -> String {
    let r = guarded(std::panic::AssertUnwindSafe(f));
    if r.starts_with("panic:") { "panic".into() } else { r }
}

fn run_char(file: &[u8], cf: &[&str]) -> String {
    let Some(d) = CharacterData::from_existing(file) else { return "none".into() };
    let f = dump_char(&d);
    let w = guarded_write(|| same_or(file, d.write_to_buffer()));
    // direct build from the abstract case
    let built = (|| {
        let a = unhex(cf[2])?;
        if a.len() != 27 {
            return None;
        }
        build_char(cf[1].parse().ok()?, &a, cf[3].parse().ok()?, String::from_utf8(unhex(cf[4])?).ok()?)
    })();
    let dd = match built {
        Some(b) => guarded_write(|| same_or(file, b.write_to_buffer())),
        None => "unbuildable".into(),
    };
    format!("F[{}]|W[{}]|D[{}]", f, w, dd)
}

/// documented slot order: number -> variant, by name
fn slot_variant(j: usize) -> Option<GearSlotType> {
    Some(match j {
        0 => GearSlotType::MainHand,
        1 => GearSlotType::SecondaryHand,
        2 => GearSlotType::Head,
        3 => GearSlotType::Body,
        4 => GearSlotType::Hands,
        5 => GearSlotType::Waist,
        6 => GearSlotType::Legs,
        7 => GearSlotType::Feet,
        8 => GearSlotType::Bracelets,
        9 => GearSlotType::Necklace,
        10 => GearSlotType::Earrings,
        11 => GearSlotType::Ring1,
        12 => GearSlotType::Ring2,
        13 => GearSlotType::Soul,
        _ => return None,
    })
}

const SLOT_NAMES: [&str; 14] =
    ["MainHand", "SecondaryHand", "Head", "Body", "Hands", "Waist", "Legs", "Feet", "Bracelets", "Necklace", "Earrings", "Ring1", "Ring2", "Soul"];

fn dump_gear(g: &GearSets) -> String {
    let mut sets = Vec::new();
    for (i, s) in g.gearsets.iter().enumerate() {
        if let Some(s) = s {
            // slots by the Debug name of their key, in documented order; unknown names last
            let mut slots: Vec<(usize, String)> = s
                .slots
                .iter()
                .map(|(k, v)| {
                    let name = format!("{:?}", k);
                    let ord = SLOT_NAMES.iter().position(|n| *n == name).unwrap_or(99);
                    (ord, format!("{}/{}/{}", name, v.id, opt(v.glamour_id)))
                })
                .collect();
            slots.sort();
            let slots = if slots.is_empty() { ".".to_string() } else { slots.into_iter().map(|x| x.1).collect::<Vec<_>>().join(",") };
            sets.push(format!("{}:{}:{}:{}:{}", i, s.index, hex(s.name.as_bytes()), opt(s.facewear), slots));
        }
    }
    format!("{}|{}|{}", g.current_gearset, g.gearsets.len(), if sets.is_empty() { ".".to_string() } else { sets.join(";") })
}

/// a written file that differs from the input: its length and FNV-1a (32 bit) hash
fn diff_or_same(file: &[u8], w: Option<Vec<u8>>) -> String {
    match w {
        None => "write-none".into(),
        Some(w) if w == file => "same".into(),
        Some(w) => {
            let h = w.iter().fold(2166136261u32, |h, b| (h ^ *b as u32).wrapping_mul(16777619));
            format!("diff:{}:{}", w.len(), h)
        }
    }
}

/// Build `gearsets` from the abstract case through the public API; None when the case carries
/// hidden (private) per-set / per-slot fields.
fn build_sets(sets: &str) -> Option<Option<Vec<Option<GearSet>>>> {
    let mut v: Vec<Option<GearSet>> = vec![None; 100];
    if sets == "." {
        return Some(Some(v));
    }
    for s in sets.split(';') {
        let f: Vec<&str> = s.split(':').collect();
        if f.len() != 6 {
            return None;
        }
        let pos: usize = f[0].parse().ok()?;
        if f[3] != "0" {
            return Some(None);
        }
        let mut g = GearSet::default();
        g.index = f[1].parse().ok()?;
        g.name = String::from_utf8(unhex(f[2])?).ok()?;
        g.facewear = if f[4] == "-" { None } else { Some(f[4].parse().ok()?) };
        if f[5] != "." {
            for x in f[5].split(',') {
                let q: Vec<&str> = x.split('/').collect();
                if q.len() != 8 {
                    return None;
                }
                if q[3..].iter().any(|u| *u != "0") {
                    return Some(None);
                }
                let mut slot = GearSlot::default();
                slot.id = q[1].parse().ok()?;
                slot.glamour_id = if q[2] == "-" { None } else { Some(q[2].parse().ok()?) };
                g.slots.insert(slot_variant(q[0].parse().ok()?)?, slot);
            }
        }
        *v.get_mut(pos)? = Some(g);
    }
    Some(Some(v))
}

fn run_gear(file: &[u8], cf: &[&str]) -> String {
    let Some(g) = GearSets::from_existing(file) else { return "none".into() };
    let f = dump_gear(&g);
    let w = diff_or_same(file, g.write_to_buffer());
    let built = build_sets(cf[4]);
    let d = match &built {
        None => "bad-case".to_string(),
        Some(None) => "skip".to_string(),
        Some(Some(sets)) => {
            let mut b = g.clone();
            b.current_gearset = cf[1].parse().unwrap_or(0);
            b.gearsets = sets.clone();
            diff_or_same(file, b.write_to_buffer())
        }
    };
    // the same value with the Vec cut behind its last used position, and with three unused
    // positions appended: the writer must still emit the fixed 100-slot table
    let t = match &built {
        None => "bad-case".to_string(),
        Some(None) => "skip".to_string(),
        Some(Some(sets)) => {
            let mut b = g.clone();
            b.current_gearset = cf[1].parse().unwrap_or(0);
            let mut short = sets.clone();
            while matches!(short.last(), Some(None)) {
                short.pop();
            }
            b.gearsets = short;
            let a = diff_or_same(file, b.write_to_buffer());
            let mut long = sets.clone();
            long.extend([None, None, None]);
            b.gearsets = long;
            format!("{},{}", a, diff_or_same(file, b.write_to_buffer()))
        }
    };
    format!("F[{}]|W[{}]|D[{}]|T[{}]", f, w, d, t)
}

pub fn run(case: &str, input: &str) -> String {
    let f: Vec<&str> = input.split(' ').collect();
    // `mut <seed> <k> <ordinary case>`: the abstract case behind a damaged file
    let case = match case.strip_prefix("mut ") {
        Some(r) => r.splitn(3, ' ').nth(2).unwrap_or(""),
        None => case,
    };
    let cf: Vec<String> = case.split(' ').map(|s| s.to_string()).collect();
    match f.as_slice() {
        ["char", file] if cf.len() == 5 => {
            let Some(file) = unhex(file) else { return "bad-case".into() };
            guarded(move || {
                let cf: Vec<&str> = cf.iter().map(|s| s.as_str()).collect();
                run_char(&file, &cf)
            })
        }
        ["charbad", file] => {
            let Some(file) = unhex(file) else { return "bad-case".into() };
            guarded(move || match CharacterData::from_existing(&file) {
                None => "none".into(),
                Some(d) => format!("F[{}]", dump_char(&d)),
            })
        }
        ["gear", file] if cf.len() == 5 => {
            let Some(file) = unhex(file) else { return "bad-case".into() };
            guarded(move || {
                let cf: Vec<&str> = cf.iter().map(|s| s.as_str()).collect();
                run_gear(&file, &cf)
            })
        }
        _ => "bad-case".into(),
    }
}

// ------------------------------------------------------------------------------------------
// dump: T2 tables from the compiled code
// ------------------------------------------------------------------------------------------

/// The compiled enum reader / writer observed through the public API: a minimal preset file
/// (magic, valid codes, zeros; the checksum is not verified on read) with byte `off` set to `v`
/// is parsed and written back; rows are (accepted byte, byte written back at the same offset).
fn enum_table(name: &str, doc: &str, off: usize, out: &mut dyn Write) {
    let mut rows = Vec::new();
    for v in 0..=255u8 {
        let mut file = vec![0u8; 212];
        file[0..4].copy_from_slice(&[0x14, 0xFF, 0x13, 0x20]);
        file[0x10] = 1; // race
        file[0x11] = 0; // gender
        file[0x14] = 1; // tribe
        file[off] = v;
        if let Some(d) = CharacterData::from_existing(&file) {
            match d.write_to_buffer() {
                Some(w) if w.len() == 212 => rows.push(format!("({}, {})", v, w[off])),
                _ => rows.push(format!("({}, 255)", v)),
            }
        }
    }
    writeln!(out, "/-- {} -/", doc).unwrap();
    writeln!(out, "def {} : List (UInt8 × UInt8) := [{}]", name, rows.join(", ")).unwrap();
}

pub fn dump(out: &mut dyn Write) {
    let which = std::env::args().nth(3).unwrap_or_default();
    if which == "slots" {
        writeln!(out, "-- GENERATED by `harness C09 dump` from the compiled `GearSlotType` conversions of src/gearsets.rs — do not edit (rewritten by ./check on every run)").unwrap();
        writeln!(out, "namespace Physis.Generated").unwrap();
        writeln!(out, "/-- for i in 0..16: (i, Debug name of `GearSlotType::try_from(i)` or \"-\", that variant `as usize` or 255) -/").unwrap();
        let rows: Vec<String> = (0..16usize)
            .map(|i| match GearSlotType::try_from(i) {
                Ok(t) => format!("({}, \"{:?}\", {})", i, t, t.clone() as usize),
                Err(_) => format!("({}, \"-\", 255)", i),
            })
            .collect();
        writeln!(out, "def gearSlotTable : List (Nat × String × Nat) := [{}]", rows.join(", ")).unwrap();
        writeln!(out, "end Physis.Generated").unwrap();
        return;
    }
    writeln!(out, "-- GENERATED by `harness C09 dump` from the compiled binrw readers/writers of src/race.rs — do not edit (rewritten by ./check on every run)").unwrap();
    writeln!(out, "namespace Physis.Generated").unwrap();
    enum_table("raceTable", "(byte accepted by `Race::read`, byte `Race::write` emits for the value read)", 0x10, out);
    enum_table("genderTable", "same for `Gender`", 0x11, out);
    enum_table("tribeTable", "same for `Tribe`", 0x14, out);
    writeln!(out, "end Physis.Generated").unwrap();
}
