//! C18 part `mdl`: model (mdl) — `MDL::from_existing`
//!
//! Case grammar: `mdl <hex>`.  Answer: the outcome class `none` / `some` (the Lean model is
//! complete: binrw stage + the hand-written loops, see notes/C18-mdl.md).
#![allow(unused)]
use crate::alloc;
use crate::c18::*;
use crate::util::*;
use std::io::Write;

/// `None` = not an op of this part
pub fn run(f: &[&str]) -> Option<String> {
    match (f[0], f.len()) {
        ("mdl", 2) => Some(asset(f[1], |b| cls(physis::model::MDL::from_existing(b)))),
        _ => None,
    }
}

// ------------------------------------------------------------------------------------------
// synthetic models
// ------------------------------------------------------------------------------------------

/// (stream, offset, type, usage)
type El = (u8, u8, u8, u8);

struct MeshSpec {
    decl: Vec<El>,
    strides: [u8; 3],
    streams: u8,
    vertex_count: u16,
    index_count: u32,
    submeshes: u16,
}

fn decl(b: &mut B, els: &[El]) {
    let start = b.pos();
    for (s, o, t, u) in els {
        b.u8(*s).u8(*o).u8(*t).u8(*u).u8(0).zeros(3);
    }
    b.u8(0xFF).u8(0).u8(0).u8(0).u8(0).zeros(3);
    let used = b.pos() - start;
    b.zeros(17 * 8 - used);
    b.bound();
}

/// a small but complete model: `lods` levels of detail, `meshes_per_lod` meshes each
fn model(v6: bool, lods: u8, meshes: &[MeshSpec], meshes_per_lod: u16, shapes: bool, rng: &mut Rng) -> Seed {
    model_with_names(v6, lods, meshes, meshes_per_lod, shapes, 0, 0, rng)
}

thread_local! {
    /// first index of the first mesh (`start_index`) of the models built while it is set: a mesh
    /// that starts beyond the 16-bit range of the shape values' index field
    static INDEX_BASE: std::cell::Cell<u32> = std::cell::Cell::new(0);
}

fn model_at(index_base: u32, v6: bool, lods: u8, meshes: &[MeshSpec], meshes_per_lod: u16, rng: &mut Rng) -> Seed {
    INDEX_BASE.with(|c| c.set(index_base));
    let s = model(v6, lods, meshes, meshes_per_lod, true, rng);
    INDEX_BASE.with(|c| c.set(0));
    s
}

/// `filler` extra bytes of one long name at the end of the string block, `extra_materials`
/// material names that all point at it
fn model_with_names(
    v6: bool,
    lods: u8,
    meshes: &[MeshSpec],
    meshes_per_lod: u16,
    shapes: bool,
    filler: usize,
    extra_materials: u16,
    rng: &mut Rng,
) -> Seed {
    let index_base = INDEX_BASE.with(|c| c.get());
    let mut b = B::new(false);
    let nm = meshes.len() as u16;
    let base: &[u8] = b"j_kosi\0/mt_a.mtrl\0atr_x\0shp_a\0\0\0";
    let mut strings_v = base.to_vec();
    if filler > 0 {
        strings_v.extend(std::iter::repeat(0x41u8).take(filler));
        strings_v.push(0);
    }
    let strings: &[u8] = &strings_v;
    // file header (offsets patched at the end)
    b.u32(if v6 { 0x1000006 } else { 0x1000005 }).u32(0).u32(0).u16(nm).u16(1);
    let p_vertex_offsets = b.pos();
    b.u32(0).u32(0).u32(0);
    let p_index_offsets = b.pos();
    b.u32(0).u32(0).u32(0);
    b.u32(0).u32(0).u32(0).u32(0).u32(0).u32(0);
    b.u8(lods).u8(0).u8(0).zeros(1).bound();
    for m in meshes {
        decl(&mut b, &m.decl);
    }
    b.u16(4).zeros(2).u32(strings.len() as u32).raw(strings, filler == 0).bound();
    let total_sub: u16 = meshes.iter().map(|m| m.submeshes).sum();
    b.f32(1.0).u16(nm).u16(1).u16(total_sub).u16(1 + extra_materials).u16(1).u16(1);
    if shapes {
        b.u16(1).u16(1).u16(2);
    } else {
        b.u16(0).u16(0).u16(0);
    }
    b.u8(lods).u8(0x02).u16(1).u8(1).u8(0).f32(0.0).f32(0.0).u16(0).u16(1).u8(0).u8(0).u8(0).u8(0).u16(0).u16(0).u16(0).zeros(6).bound();
    // element ids
    b.u32(1).u32(0);
    for _ in 0..6 {
        b.f32(0.5);
    }
    b.bound();
    // lods
    let mut p_lod_vertex = vec![];
    for l in 0..3u16 {
        let used = (l as u8) < lods;
        b.u16(if used { l * meshes_per_lod } else { 0 }).u16(if used { meshes_per_lod } else { 0 });
        b.f32(0.0).f32(0.0);
        for _ in 0..8 {
            b.u16(0);
        }
        b.u32(0).u32(0).u32(0).zeros(4);
        b.u32(0).u32(0);
        p_lod_vertex.push(b.pos());
        b.u32(0).u32(0);
        b.bound();
    }
    // meshes
    let mut p_mesh_vb = vec![];
    let mut sub_at = 0u16;
    let mut start_index = index_base;
    for m in meshes {
        b.u16(m.vertex_count).zeros(2).u32(m.index_count).u16(0).u16(sub_at).u16(m.submeshes).u16(0).u32(start_index);
        p_mesh_vb.push(b.pos());
        b.u32(0).u32(0).u32(0).u8(m.strides[0]).u8(m.strides[1]).u8(m.strides[2]).u8(m.streams);
        b.bound();
        sub_at += m.submeshes;
        start_index += m.index_count;
    }
    b.u32(18); // attribute name
    b.u32(3).u32(0).u32(0).u16(3).u16(0).u16(1).u8(8).u8(0).bound(); // terrain shadow mesh
    for i in 0..total_sub {
        b.u32(i as u32 * 3).u32(3).u32(1).u16(0).u16(1);
    }
    b.bound();
    b.u32(0).u32(3).u16(0).u16(0); // terrain shadow submesh
    b.u32(7); // material name
    for _ in 0..extra_materials {
        b.u32(base.len() as u32);
    }
    b.u32(0); // bone name
    b.bound();
    if v6 {
        b.zeros(2).u16(2).u16(0).u16(1).u16(0);
    } else {
        for i in 0..64u16 {
            if i < 2 {
                b.u16(i);
            } else {
                b.zeros(2);
            }
        }
        b.u8(2).zeros(3);
    }
    b.bound();
    if shapes {
        b.u32(24).u16(0).u16(0).u16(0).u16(1).u16(0).u16(0); // shape "shp_a"
        b.u32(index_base).u32(2).u32(0); // shape mesh: the first mesh (by its start index), two values from 0
        b.u16(1).u16(2).u16(0).u16(1); // shape values
        b.bound();
    }
    if v6 {
        b.u16(4);
    } else {
        b.u32(4);
    }
    b.u16(0).u16(1);
    b.u8(3).zeros(3).bound();
    for _ in 0..(4 + 1) * 8 {
        b.f32(1.0);
    }
    b.fields.truncate(b.fields.len() - 38); // two floats of the boxes are enough
    b.bound();
    // vertex + index data, one block per lod
    let mut mi = 0usize;
    for l in 0..lods as usize {
        let vstart = b.pos() as u32;
        let mut rel = 0u32;
        let first = mi;
        for _ in 0..meshes_per_lod {
            let m = &meshes[mi];
            let mut offs = [0u32; 3];
            for s in 0..3 {
                offs[s] = rel;
                let len = m.strides[s] as usize * m.vertex_count as usize;
                if (s as u8) < m.streams.max(2) {
                    b.raw(&rng.bytes(len), false);
                    rel += len as u32;
                }
            }
            for s in 0..3 {
                put(&mut b.v, &Field { off: p_mesh_vb[mi] + 4 * s, width: 4, be: false }, offs[s] as u64);
            }
            mi += 1;
        }
        b.bound();
        let istart = b.pos() as u32;
        // indices of all meshes of the model are addressed from the lod's index offset by start_index
        let total: u32 = index_base + meshes.iter().map(|m| m.index_count).sum::<u32>();
        for i in 0..total {
            b.v.extend_from_slice(&((i % 3) as u16).to_le_bytes());
        }
        b.bound();
        let _ = first;
        put(&mut b.v, &Field { off: p_lod_vertex[l], width: 4, be: false }, vstart as u64);
        put(&mut b.v, &Field { off: p_lod_vertex[l] + 4, width: 4, be: false }, istart as u64);
        put(&mut b.v, &Field { off: p_vertex_offsets + 4 * l, width: 4, be: false }, vstart as u64);
        put(&mut b.v, &Field { off: p_index_offsets + 4 * l, width: 4, be: false }, istart as u64);
    }
    b.seed("mdl")
}

fn mesh_a() -> MeshSpec {
    MeshSpec {
        // Single3 position, ByteFloat4 weights, Byte4 indices | Half4 normal, Half4 uv, tangent, bitangent, colour
        decl: vec![(0, 0, 2, 0), (0, 12, 8, 1), (0, 16, 5, 2), (1, 0, 14, 3), (1, 8, 14, 4), (1, 16, 8, 5), (1, 20, 8, 6), (1, 24, 8, 7)],
        strides: [20, 28, 0],
        streams: 2,
        vertex_count: 3,
        index_count: 3,
        submeshes: 2,
    }
}
fn mesh_b() -> MeshSpec {
    MeshSpec {
        // Half4 position, UnsignedShort4 weights + indices | Single3 normal, Single4 uv
        decl: vec![(0, 0, 14, 0), (0, 8, 17, 1), (0, 16, 17, 2), (1, 0, 2, 3), (1, 12, 3, 4)],
        strides: [24, 28, 0],
        streams: 2,
        vertex_count: 2,
        index_count: 3,
        submeshes: 1,
    }
}
fn mesh_c() -> MeshSpec {
    MeshSpec {
        // Single4 position, Byte4 weights | Half2 uv, ByteFloat4 uv | third stream colour
        decl: vec![(0, 0, 3, 0), (0, 16, 5, 1), (1, 0, 13, 4), (1, 4, 8, 4), (2, 0, 8, 7)],
        strides: [20, 8, 4],
        streams: 3,
        vertex_count: 4,
        index_count: 6,
        submeshes: 1,
    }
}

pub fn mdl_seeds(rng: &mut Rng) -> Vec<Seed> {
    vec![
        model(false, 1, &[mesh_a(), mesh_b()], 2, true, rng),
        model(true, 2, &[mesh_c(), mesh_b()], 1, false, rng),
        model(true, 3, &[mesh_c(), mesh_a(), mesh_b()], 1, true, rng),
        // the shaped mesh starts at index 65536 of its level of detail
        model_at(65536, false, 1, &[mesh_a(), mesh_b()], 2, rng),
    ]
}

// ------------------------------------------------------------------------------------------
// the sample model of the repository: field map by walking the layout
// ------------------------------------------------------------------------------------------

struct W<'a> {
    b: &'a [u8],
    p: usize,
    fields: Vec<Field>,
    bounds: Vec<usize>,
}
impl<'a> W<'a> {
    fn rd(&self, at: usize, w: usize) -> u64 {
        get(self.b, &Field { off: at, width: w, be: false })
    }
    /// positive = field of that width, negative = padding
    fn st(&mut self, layout: &[i8], mark: bool) {
        for w in layout {
            if *w > 0 {
                if mark {
                    self.fields.push(Field { off: self.p, width: *w as usize, be: false });
                }
                self.p += *w as usize;
            } else {
                self.p += (-*w) as usize;
            }
        }
    }
    fn arr(&mut self, n: usize, layout: &[i8]) {
        for i in 0..n {
            self.st(layout, i < 3 || i + 1 == n);
        }
        self.bounds.push(self.p);
    }
}

/// field map of a well-formed model (None when the walk leaves the file)
fn walk(b: &[u8]) -> Option<(Vec<Field>, Vec<usize>)> {
    let mut w = W { b, p: 0, fields: vec![], bounds: vec![] };
    if b.len() < 68 {
        return None;
    }
    let version = w.rd(0, 4);
    let ndecl = w.rd(12, 2) as usize;
    w.st(&[4, 4, 4, 2, 2, 4, 4, 4, 4, 4, 4, 4, 4, 4, 4, 4, 4, 1, 1, 1, -1], true);
    w.bounds.push(w.p);
    for d in 0..ndecl {
        let start = w.p;
        for e in 0..17 {
            if w.p + 8 > b.len() {
                return None;
            }
            let end = b[w.p] == 0xFF && e > 0;
            w.st(&[1, 1, 1, 1, 1, -3], d < 3);
            if end {
                break;
            }
        }
        w.p = start + 136;
        w.bounds.push(w.p);
    }
    if w.p + 8 > b.len() {
        return None;
    }
    let string_size = w.rd(w.p + 4, 4) as usize;
    w.st(&[2, -2, 4], true);
    for k in 0..string_size.min(64) {
        w.fields.push(Field { off: w.p + k, width: 1, be: false });
    }
    w.p += string_size;
    w.bounds.push(w.p);
    let h = w.p;
    if h + 56 > b.len() {
        return None;
    }
    let c = |i: usize| get(b, &Field { off: h + 4 + 2 * i, width: 2, be: false }) as usize;
    let (mesh, attr, sub, mat, bone, bt, sh, shm, shv) = (c(0), c(1), c(2), c(3), c(4), c(5), c(6), c(7), c(8));
    let eid = w.rd(h + 24, 2) as usize;
    let tsm = w.rd(h + 26, 1) as usize;
    let tss = w.rd(h + 38, 2) as usize;
    w.st(&[4, 2, 2, 2, 2, 2, 2, 2, 2, 2, 1, 1, 2, 1, 1, 4, 4, 2, 2, 1, 1, 1, 1, 2, 2, 2, -6], true);
    w.bounds.push(w.p);
    w.arr(eid, &[4, 4, -24]);
    w.arr(3, &[2, 2, 4, 4, 2, 2, 2, 2, 2, 2, 2, 2, 4, 4, 4, -4, 4, 4, 4, 4]);
    w.arr(mesh, &[2, -2, 4, 2, 2, 2, 2, 4, 4, 4, 4, 1, 1, 1, 1]);
    w.arr(attr, &[4]);
    w.arr(tsm, &[4, 4, 4, 2, 2, 2, 1, 1]);
    w.arr(sub, &[4, 4, 4, 2, 2]);
    w.arr(tss, &[4, 4, 2, 2]);
    w.arr(mat, &[4]);
    w.arr(bone, &[4]);
    if version <= 0x1000005 {
        w.arr(bt, &[2, 2, -124, 1, -3]);
    } else {
        for _ in 0..bt {
            if w.p + 4 > b.len() {
                return None;
            }
            let n = w.rd(w.p + 2, 2) as usize;
            w.st(&[-2, 2], true);
            w.p += 2 * n;
            if n % 2 == 0 {
                w.p += 2;
            }
        }
        w.bounds.push(w.p);
    }
    w.arr(sh, &[4, 2, 2, 2, 2, 2, 2]);
    w.arr(shm, &[4, 4, 4]);
    w.arr(shv, &[2, 2]);
    if w.p + 4 > b.len() {
        return None;
    }
    let bm = if version <= 0x1000005 {
        let n = w.rd(w.p, 4) as usize;
        w.st(&[4], true);
        n
    } else {
        let n = w.rd(w.p, 2) as usize;
        w.st(&[2], true);
        n
    };
    w.arr(bm / 2, &[2]);
    if w.p + 1 > b.len() {
        return None;
    }
    let pad = w.rd(w.p, 1) as usize;
    w.st(&[1], true);
    w.p += pad;
    w.bounds.push(w.p);
    w.p += 32 * (4 + bone);
    w.bounds.push(w.p);
    if w.p > b.len() {
        return None;
    }
    Some((w.fields, w.bounds))
}

fn sample_seed() -> Option<Seed> {
    let root = std::env::var("VERIF_REPO").unwrap_or_else(|_| "/repo".into());
    let bytes = std::fs::read(format!("{}/resources/tests/c0201e0038_top_zeroed.mdl", root)).ok()?;
    let (fields, mut bounds) = walk(&bytes)?;
    // the data blocks named by the file header
    for k in 0..6 {
        let o = get(&bytes, &Field { off: 16 + 4 * k, width: 4, be: false }) as usize;
        bounds.push(o);
    }
    Some(Seed { op: "mdl".into(), bytes, fields, bounds, extra: String::new() })
}

/// several fields corrupted at once (counts × strides, index ranges × counts …)
fn multi(seed: &Seed, rng: &mut Rng, n: usize, out: &mut dyn Write) {
    if seed.fields.is_empty() {
        return;
    }
    for _ in 0..n {
        let mut m = seed.bytes.clone();
        for _ in 0..rng.range(2, 4) {
            let f = rng.pick(&seed.fields).clone();
            let cur = get(&m, &f);
            let vals = corrupt_values(cur, f.width);
            let v = if rng.chance(1, 4) { rng.below(8) } else { *rng.pick(&vals) };
            put(&mut m, &f, v);
        }
        emit(out, &seed.op, &m, &seed.extra);
    }
}

/// many vertices that all live at the same address (stride 0), referenced from every level of detail
fn amplified(vertex_count: u16, lods: u8, shapes: bool, rng: &mut Rng) -> Seed {
    let z = |mut m: MeshSpec| {
        m.vertex_count = vertex_count;
        m.strides = [0, 0, 0];
        m
    };
    let mut s = model(true, lods, &[z(mesh_a()), z(mesh_a()), z(mesh_a())], 1, shapes, rng);
    // room for the element offsets of one vertex
    s.bytes.extend_from_slice(&[0u8; 64]);
    s
}

pub fn generate(thorough: bool, seed: u64, out: &mut dyn Write) {
    let mut rng = Rng::new(seed, "C18-mdl");
    for (vc, lods, shapes) in [(0xFFFFu16, 1u8, false), (0xFFFF, 2, false), (0xFFFF, 3, false), (0xFFFF, 3, true), (0x8000, 3, true)] {
        let s = amplified(vc, lods, shapes, &mut rng);
        emit(out, "mdl", &s.bytes, "");
    }
    {
        // corruptions around an amplified model (failures after the memory has been retained)
        let s = amplified(0xFFFF, 3, true, &mut rng);
        multi(&s, &mut rng, if thorough { 1500 } else { 30 }, out);
    }
    // many names that share one long string
    for (filler, extra) in [(60000usize, 2000u16), (60000, 100), (1000, 2000)] {
        let s = model_with_names(false, 1, &[mesh_a(), mesh_b()], 2, true, filler, extra, &mut rng);
        emit(out, "mdl", &s.bytes, "");
    }
    for s in mdl_seeds(&mut rng) {
        mutate(&s, &mut rng, thorough, out);
        multi(&s, &mut rng, if thorough { 6000 } else { 600 }, out);
    }
    if let Some(s) = sample_seed() {
        // 287 KiB per case: structure boundaries and the mapped fields only
        emit(out, "mdl", &s.bytes, "");
        let n = s.bytes.len();
        let mut pts: Vec<usize> = s.bounds.iter().flat_map(|b| [b.saturating_sub(1), *b, *b + 1]).filter(|p| *p < n).collect();
        pts.push(n - 1);
        for _ in 0..(if thorough { 60 } else { 6 }) {
            pts.push(rng.below(n as u64) as usize);
        }
        pts.sort();
        pts.dedup();
        if !thorough {
            // every third boundary point in the quick tier
            pts = pts.into_iter().enumerate().filter(|(i, _)| i % 3 == 0).map(|(_, p)| p).collect();
        }
        for p in pts {
            emit(out, "mdl", &s.bytes[..p], "");
        }
        let step = if thorough { 1 } else { 4 };
        for (i, f) in s.fields.iter().enumerate() {
            if i % step != 0 {
                continue;
            }
            let cur = get(&s.bytes, f);
            let vals = corrupt_values(cur, f.width);
            let picks: Vec<u64> = if thorough { vals } else { vec![*rng.pick(&vals)] };
            for v in picks {
                let mut m = s.bytes.clone();
                put(&mut m, f, v);
                emit(out, "mdl", &m, "");
            }
        }
        multi(&s, &mut rng, if thorough { 200 } else { 20 }, out);
    }
    blobs("mdl", &[5, 0, 0, 1], &mut rng, if thorough { 400 } else { 40 }, thorough, out);
    // blobs that get through the file header: zero declarations, small counts
    for i in 0..(if thorough { 2000 } else { 200 }) {
        let n = rng.range(68, 600) as usize;
        let mut b = rng.bytes(n);
        b[0..4].copy_from_slice(&(if i % 2 == 0 { 0x1000005u32 } else { 0x1000006u32 }).to_le_bytes());
        b[12] = (i % 3) as u8;
        b[13] = 0;
        b[64] = rng.below(5) as u8;
        emit(out, "mdl", &b, "");
    }
}
