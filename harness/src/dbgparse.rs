//! Parser for the output of `#[derive(Debug)]` (`{:?}`, non-pretty) — used where a property has
//! to observe private fields of Physis structures (C14).  Grammar:
//!   value  := string | '[' values ']' | '(' values ')' | atom [ '{' fields '}' | '(' values ')' ]
//!   fields := name ':' value (',' name ':' value)*
//! Atoms are numbers, floats (`1.5e-7`, `NaN`, `inf`), booleans, unit variants / unit structs.
#![allow(dead_code)]

#[derive(Debug, Clone)]
pub enum D {
    /// `Name { a: .., b: .. }`
    Struct(String, Vec<(String, D)>),
    /// `Name(a, b)` or `(a, b)` (empty name)
    Tuple(String, Vec<D>),
    List(Vec<D>),
    Str(String),
    Atom(String),
}

impl D {
    pub fn field(&self, name: &str) -> &D {
        match self {
            D::Struct(_, fs) => &fs.iter().find(|(n, _)| n == name).unwrap_or_else(|| panic!("dbgparse: no field {}", name)).1,
            _ => panic!("dbgparse: not a struct (field {})", name),
        }
    }
    pub fn list(&self) -> &[D] {
        match self {
            D::List(v) => v,
            _ => panic!("dbgparse: not a list"),
        }
    }
    pub fn atom(&self) -> &str {
        match self {
            D::Atom(s) => s,
            _ => panic!("dbgparse: not an atom: {:?}", self),
        }
    }
    pub fn string(&self) -> &str {
        match self {
            D::Str(s) => s,
            _ => panic!("dbgparse: not a string"),
        }
    }
    pub fn num(&self) -> u64 {
        self.atom().parse::<u64>().unwrap_or_else(|_| panic!("dbgparse: not a number: {}", self.atom()))
    }
    /// an `f32` printed by `{:?}` (shortest round-trip form) back to its bit pattern;
    /// every NaN prints as `NaN`, so NaNs come back as `None`
    pub fn f32_bits(&self) -> Option<u32> {
        let v: f32 = self.atom().parse().unwrap_or_else(|_| panic!("dbgparse: not a float: {}", self.atom()));
        if v.is_nan() { None } else { Some(v.to_bits()) }
    }
}

pub fn parse(s: &str) -> D {
    let cs: Vec<char> = s.chars().collect();
    let mut i = 0;
    let d = value(&cs, &mut i);
    skip(&cs, &mut i);
    assert!(i == cs.len(), "dbgparse: trailing input at {}", i);
    d
}

fn skip(cs: &[char], i: &mut usize) {
    while *i < cs.len() && cs[*i] == ' ' {
        *i += 1;
    }
}

fn values(cs: &[char], i: &mut usize, close: char) -> Vec<D> {
    let mut v = vec![];
    loop {
        skip(cs, i);
        if cs[*i] == close {
            *i += 1;
            return v;
        }
        v.push(value(cs, i));
        skip(cs, i);
        if cs[*i] == ',' {
            *i += 1;
        }
    }
}

fn value(cs: &[char], i: &mut usize) -> D {
    skip(cs, i);
    match cs[*i] {
        '"' => {
            *i += 1;
            let mut s = String::new();
            while cs[*i] != '"' {
                if cs[*i] == '\\' {
                    *i += 1;
                    match cs[*i] {
                        'n' => s.push('\n'),
                        'r' => s.push('\r'),
                        't' => s.push('\t'),
                        '0' => s.push('\0'),
                        'u' => {
                            // \u{hex}
                            *i += 2;
                            let mut h = String::new();
                            while cs[*i] != '}' {
                                h.push(cs[*i]);
                                *i += 1;
                            }
                            s.push(char::from_u32(u32::from_str_radix(&h, 16).unwrap()).unwrap());
                        }
                        c => s.push(c),
                    }
                } else {
                    s.push(cs[*i]);
                }
                *i += 1;
            }
            *i += 1;
            D::Str(s)
        }
        '[' => {
            *i += 1;
            D::List(values(cs, i, ']'))
        }
        '(' => {
            *i += 1;
            D::Tuple(String::new(), values(cs, i, ')'))
        }
        _ => {
            let st = *i;
            while *i < cs.len() && !" ,{}[]():\"".contains(cs[*i]) {
                *i += 1;
            }
            assert!(*i > st, "dbgparse: unexpected {:?} at {}", cs[st], st);
            let name: String = cs[st..*i].iter().collect();
            let save = *i;
            skip(cs, i);
            if *i < cs.len() && cs[*i] == '{' {
                *i += 1;
                let mut fs = vec![];
                loop {
                    skip(cs, i);
                    if cs[*i] == '}' {
                        *i += 1;
                        return D::Struct(name, fs);
                    }
                    let st = *i;
                    while cs[*i] != ':' {
                        *i += 1;
                    }
                    let fname: String = cs[st..*i].iter().collect();
                    *i += 1;
                    fs.push((fname, value(cs, i)));
                    skip(cs, i);
                    if cs[*i] == ',' {
                        *i += 1;
                    }
                }
            } else if *i < cs.len() && cs[*i] == '(' {
                *i += 1;
                D::Tuple(name, values(cs, i, ')'))
            } else {
                *i = save;
                D::Atom(name)
            }
        }
    }
}
