//! C11: the SqexArg cipher (`physis::blowfish::Blowfish`).
//!
//! Case grammar (hex fields, `-` = empty):
//!   `enc <key> <msg>`   Blowfish::new(key).encrypt(msg)
//!   `dec <key> <data>`  Blowfish::new(key).decrypt(data)
//!   `rt <key> <msg>`    decrypt(encrypt(msg))
//!   `kat <key> <plain> <cipher>`  published ECB vector, block given as the big-endian words L‖R
//!
//! Keys are always >= 8 bytes (the property's quantifier; shorter keys panic in `Blowfish::new`).
#![allow(unused)]
use crate::util::*;
use physis::blowfish::Blowfish;
use std::io::Write;

/// P1 of standard Blowfish (first word of frac(pi)); only used to *aim* keys at S-box entries:
/// the first F call of the key schedule is F(P[0] ^ key[0..4]).
const PI_P1: u32 = 0x243f6a88;

fn key_of(rng: &mut Rng, len: usize) -> Vec<u8> {
    match rng.below(12) {
        0 => vec![0u8; len],
        1 => vec![0xff; len],
        2 => vec![0x80; len],
        // high bit set everywhere (sign-extension class of key-schedule bugs)
        3 => rng.bytes(len).iter().map(|b| b | 0x80).collect(),
        4 => (0..len).map(|i| i as u8).collect(),
        _ => rng.bytes(len),
    }
}

fn key_len(rng: &mut Rng) -> usize {
    match rng.below(10) {
        0..=3 => 8,
        4 => 9,
        5 => 16,
        6 => 56,
        7 => rng.range(57, 80) as usize,
        _ => rng.range(8, 56) as usize,
    }
}

fn msg_of(rng: &mut Rng, len: usize) -> Vec<u8> {
    let mut m = match rng.below(8) {
        0 => vec![0u8; len],
        1 => vec![0xff; len],
        _ => rng.bytes(len),
    };
    // trailing zero bytes: indistinguishable from padding after decryption
    if len > 0 && rng.chance(1, 6) {
        let z = rng.range(1, len.min(9) as u64) as usize;
        for b in m[len - z..].iter_mut() {
            *b = 0;
        }
    }
    m
}

fn msg_len(rng: &mut Rng, thorough: bool) -> usize {
    (match rng.below(16) {
        0..=6 => rng.range(0, 64),
        7..=10 => rng.range(65, 512),
        11 | 12 => rng.range(513, 4096),
        13 => *rng.pick(&[7u64, 8, 9, 15, 16, 17, 4095, 4096, 4097]),
        14 => 8 * rng.range(1, 64),
        _ => {
            if thorough {
                rng.range(4097, 16384)
            } else {
                rng.range(0, 64)
            }
        }
    }) as usize
}

pub fn generate(thorough: bool, seed: u64, out: &mut dyn Write) {
    let mut rng = Rng::new(seed, "C11");
    // (1) directed sweep over the S-boxes: for v in 0..=255 the key's first word is chosen so that
    // the very first F call of the key schedule reads S[0][v], S[1][v], S[2][v], S[3][v]
    // (F(P[0] ^ w0) with w0 = P1 ^ vvvv); `rot` shifts the byte per box so that the four boxes are
    // also hit with different indices in one call.  Every table word therefore feeds every
    // subkey of at least `reps` keys.
    let reps = if thorough { 8 } else { 4 };
    for rep in 0..reps {
        for v in 0..=255u32 {
            let rot = |k: u32| (v + k * 64 * (rep as u32 % 4)) & 0xff;
            let x = (rot(0) << 24) | (rot(1) << 16) | (rot(2) << 8) | rot(3);
            let w0 = PI_P1 ^ x;
            let mut key = w0.to_be_bytes().to_vec();
            key.extend_from_slice(&rng.bytes(4));
            if rep % 2 == 1 {
                let extra = rng.range(1, 48) as usize;
                key.extend_from_slice(&rng.bytes(extra));
            }
            let block = if rep == 0 { vec![0u8; 8] } else { rng.bytes(8) };
            let op = if rep % 2 == 0 { "enc" } else { "dec" };
            writeln!(out, "{} {} {}", op, hex(&key), hex(&block)).unwrap();
        }
    }
    // (2) every key length 8..=64 x every message length 0..=24 (all residues mod 8, three times)
    for kl in 8..=64usize {
        let key = rng.bytes(kl);
        for ml in 0..=24usize {
            let m = msg_of(&mut rng, ml);
            let op = ["enc", "rt", "dec"][(kl + ml) % 3];
            writeln!(out, "{} {} {}", op, hex(&key), hex(&m)).unwrap();
        }
    }
    // (2b) consecutive sessions (the run stage handles a shard's cases one after the other in one
    // process) whose keys agree on part of the significant 8 bytes: same bytes 4..8 / same bytes
    // 0..4 / same 7 of 8 bytes / equal except one bit — nothing of an earlier session's schedule
    // may survive into the next one
    let pairs = if thorough { 600 } else { 60 };
    for i in 0..pairs {
        let k1 = key_of(&mut rng, 8);
        let mut k2 = k1.clone();
        match i % 4 {
            0 => k2[..4].copy_from_slice(&rng.bytes(4)),
            1 => k2[4..].copy_from_slice(&rng.bytes(4)),
            2 => { let j = rng.below(8) as usize; k2[j] = k2[j].wrapping_add(1 + rng.below(255) as u8); }
            _ => { let j = rng.below(64) as usize; k2[j / 8] ^= 1 << (j % 8); }
        }
        let m = { let l = msg_len(&mut rng, false).max(8); msg_of(&mut rng, l) };
        let op = ["enc", "rt", "dec"][i % 3];
        writeln!(out, "{} {} {}", op, hex(&k1), hex(&m)).unwrap();
        writeln!(out, "{} {} {}", op, hex(&k2), hex(&m)).unwrap();
        writeln!(out, "{} {} {}", op, hex(&k1), hex(&m)).unwrap();
    }
    // (2c) several calls on ONE handle: long / short, aligned / unaligned messages and ciphertexts in
    // every order — a call must not see anything an earlier call on the handle left behind
    let seqs = if thorough { 3000 } else { 150 };
    for i in 0..seqs {
        let key = key_of(&mut rng, 8 + (i % 5) * 3);
        let n = 2 + rng.below(4) as usize;
        let mut items = vec![];
        for j in 0..n {
            let l = match rng.below(6) {
                0 => 0,
                1 => 1 + rng.below(7) as usize,
                2 => 8 * (1 + rng.below(6) as usize),
                3 => 33 + rng.below(40) as usize,
                _ => msg_len(&mut rng, false),
            };
            // lengths shrink as often as they grow; all bytes non-zero in half of the messages
            let mut m = msg_of(&mut rng, l);
            if (i + j) % 2 == 0 { for b in m.iter_mut() { if *b == 0 { *b = 0xa5; } } }
            items.push(format!("{}{}", if rng.chance(2, 3) { "e" } else { "d" }, hex(&m)));
        }
        writeln!(out, "seq {} {}", hex(&key), items.join(",")).unwrap();
    }
    // (3) only the first 8 key bytes count: one 8-byte key and many extensions, same message
    let groups = if thorough { 400 } else { 40 };
    for _ in 0..groups {
        let base = key_of(&mut rng, 8);
        let m = { let l = msg_len(&mut rng, false); msg_of(&mut rng, l) };
        writeln!(out, "enc {} {}", hex(&base), hex(&m)).unwrap();
        for _ in 0..3 {
            let mut k = base.clone();
            let extra = rng.range(1, 48) as usize;
            k.extend_from_slice(&rng.bytes(extra));
            writeln!(out, "enc {} {}", hex(&k), hex(&m)).unwrap();
        }
        // and the 8th byte does count
        let mut k = base.clone();
        k[7] ^= 1 << rng.below(8);
        writeln!(out, "enc {} {}", hex(&k), hex(&m)).unwrap();
    }
    // (4) random keys / messages, all three operations
    let n = if thorough { 280_000 } else { 10_000 };
    for i in 0..n {
        let kl = key_len(&mut rng);
        let key = key_of(&mut rng, kl);
        let ml = msg_len(&mut rng, thorough);
        let m = msg_of(&mut rng, ml);
        let op = match i % 4 {
            0 | 1 => "enc",
            2 => "rt",
            _ => "dec",
        };
        writeln!(out, "{} {} {}", op, hex(&key), hex(&m)).unwrap();
    }
}

fn opt_hex(o: Option<Vec<u8>>) -> String {
    match o {
        Some(v) => hex(&v),
        None => "none".into(),
    }
}

/// big-endian word pair `L‖R` -> the 8 bytes whose little-endian words are `L`, `R`
fn word_swap(b: &[u8]) -> Vec<u8> {
    b.chunks(4).flat_map(|w| w.iter().rev().cloned().collect::<Vec<u8>>()).collect()
}

pub fn run(case: &str, input: &str) -> String {
    let f: Vec<&str> = input.split(' ').collect();
    if f.len() < 3 {
        return "bad-case".into();
    }
    let Some(key) = unhex(f[1]) else { return "bad-case".into() };
    let data = if f[0] == "seq" { vec![] } else { let Some(d) = unhex(f[2]) else { return "bad-case".into() }; d };
    if key.len() < 8 {
        return "bad-case".into();
    }
    if f[0] == "seq" && f.len() == 3 {
        // one handle, several calls (f[2] was not hex: `data` is unused here)
        let items: Vec<String> = f[2].split(',').map(|x| x.to_string()).collect();
        return guarded(move || {
            let b = Blowfish::new(&key);
            let mut outs = vec![];
            for it in &items {
                let Some(d) = unhex(&it[1..]) else { return "bad-case".into() };
                outs.push(if it.starts_with('e') { opt_hex(b.encrypt(&d)) } else { opt_hex(b.decrypt(&d)) });
            }
            outs.join(",")
        });
    }
    match (f[0], f.len()) {
        ("enc", 3) => guarded(move || opt_hex(Blowfish::new(&key).encrypt(&data))),
        ("dec", 3) => guarded(move || opt_hex(Blowfish::new(&key).decrypt(&data))),
        ("rt", 3) => guarded(move || {
            let b = Blowfish::new(&key);
            match b.encrypt(&data) {
                Some(c) => opt_hex(b.decrypt(&c)),
                None => "none".into(),
            }
        }),
        ("kat", 4) => {
            if data.len() != 8 {
                return "bad-case".into();
            }
            let plain = word_swap(&data);
            guarded(move || opt_hex(Blowfish::new(&key).encrypt(&plain)))
        }
        _ => "bad-case".into(),
    }
}

pub fn dump(out: &mut dyn Write) {}
