//! C14: materials (`Material::from_existing`) and shader packages (`ShaderPackage::from_existing`,
//! `find_node`, `build_selector*`, `crc`) decode to what their files store.
//!
//! The generator writes *abstract* stored values (records, counts, heaps with offsets); the Lean
//! driver encodes them with `Spec.Shpk.encode` / `Spec.Mtrl.encode`.  `run` feeds the encoded file
//! to the real code and prints the canonical text of `Spec/ShpkText.lean` / `Spec/MtrlText.lean`;
//! private fields are read from the `{:?}` output (`dbgparse`).
#![allow(unused)]
use crate::dbgparse::{self, D};
use crate::util::*;
use std::io::Write;

// ------------------------------------------------------------------------------------------
// generation helpers
// ------------------------------------------------------------------------------------------

fn list<T, F: Fn(&T) -> String>(xs: &[T], sep: &str, f: F) -> String {
    if xs.is_empty() {
        "-".to_string()
    } else {
        xs.iter().map(f).collect::<Vec<_>>().join(sep)
    }
}

fn u16_edge(rng: &mut Rng) -> u16 {
    match rng.below(6) {
        0 => 0,
        1 => 1,
        2 => 0xFFFF,
        3 => 0x8000,
        _ => rng.next() as u16,
    }
}

fn ident(rng: &mut Rng) -> Vec<u8> {
    const PRE: [&str; 8] = ["g_", "g_Sampler", "g_Material", "Camera", "s_", "t", "PS_", "VS_"];
    let mut v = rng.pick(&PRE).as_bytes().to_vec();
    let n = rng.below(12);
    for _ in 0..n {
        let c = match rng.below(4) {
            0 => rng.range(b'A' as u64, b'Z' as u64),
            1 => rng.range(b'0' as u64, b'9' as u64),
            2 => b'_' as u64,
            _ => rng.range(b'a' as u64, b'z' as u64),
        };
        v.push(c as u8);
    }
    if rng.chance(1, 20) {
        // any printable ASCII, including quotes and backslashes (Debug escaping)
        let k = rng.range(1, 6);
        for _ in 0..k {
            v.push(rng.range(0x20, 0x7E) as u8);
        }
    }
    v
}

/// A string heap under construction: names are NUL-terminated, may be shared between records,
/// and a record may declare a length that includes NUL padding.
struct Heap {
    bytes: Vec<u8>,
    names: Vec<(usize, usize)>, // (offset, length without NUL)
    /// wide family: some names are followed by >= 256 NULs, all included in the declared length
    /// (`string_length` is a u16)
    long_pad: bool,
}

impl Heap {
    fn new(rng: &mut Rng) -> Heap {
        let mut h = Heap { bytes: vec![], names: vec![], long_pad: false };
        if rng.chance(1, 4) {
            h.bytes.push(0); // leading NUL as in some real heaps
        }
        h
    }
    /// returns (offset, declared length)
    fn name(&mut self, rng: &mut Rng) -> (u32, u16) {
        if !self.names.is_empty() && rng.chance(1, 4) {
            // share an existing string
            let (o, l) = *rng.pick(&self.names);
            let pad = self.pad_at(o + l, rng);
            return (o as u32, (l + pad) as u16);
        }
        let id = if rng.chance(1, 25) { vec![] } else { ident(rng) };
        let o = self.bytes.len();
        self.bytes.extend_from_slice(&id);
        if self.long_pad && rng.chance(1, 3) {
            let nuls = *rng.pick(&[255usize, 256, 257, 300]) - id.len().min(200);
            self.bytes.extend(std::iter::repeat(0u8).take(nuls));
            self.names.push((o, id.len()));
            return (o as u32, (id.len() + nuls) as u16);
        }
        let nuls = match rng.below(6) {
            0 => 0,
            1 | 2 | 3 => 1,
            _ => rng.range(2, 5),
        } as usize;
        for _ in 0..nuls {
            self.bytes.push(0);
        }
        if nuls == 0 && !id.is_empty() {
            // unterminated: the declared length alone delimits it; never shared
            return (o as u32, id.len() as u16);
        }
        self.names.push((o, id.len()));
        let pad = self.pad_at(o + id.len(), rng);
        (o as u32, (id.len() + pad) as u16)
    }
    /// how many of the NULs following position `p` the declared length includes
    fn pad_at(&self, p: usize, rng: &mut Rng) -> usize {
        let mut avail = 0;
        while p + avail < self.bytes.len() && self.bytes[p + avail] == 0 {
            avail += 1;
        }
        match rng.below(3) {
            0 => 0,
            1 => avail.min(1),
            _ => rng.below(avail as u64 + 1) as usize,
        }
    }
}

struct ParamG {
    id: u32,
    off: u32,
    len: u16,
    unk: u16,
    slot: u16,
    size: u16,
}

fn params(rng: &mut Rng, heap: &mut Heap, max: u64) -> Vec<ParamG> {
    let n = if rng.chance(1, 3) { 0 } else { rng.range(0, max) };
    (0..n)
        .map(|_| {
            let (off, len) = heap.name(rng);
            ParamG { id: rng.u32_edge(), off, len, unk: u16_edge(rng), slot: u16_edge(rng), size: u16_edge(rng) }
        })
        .collect()
}

fn params_n(rng: &mut Rng, heap: &mut Heap, n: usize) -> Vec<ParamG> {
    (0..n)
        .map(|_| {
            let (off, len) = heap.name(rng);
            ParamG { id: rng.u32_edge(), off, len, unk: u16_edge(rng), slot: u16_edge(rng), size: u16_edge(rng) }
        })
        .collect()
}

/// Overrides of the "wide" shader-package family: one size / count / offset field of the format at
/// and beyond the width of a narrower integer (every field after it in the file moves if it is
/// consumed with the wrong width).  `None` / 0 / false = as in the ordinary generator.
#[derive(Default, Clone)]
struct ShpkWide {
    /// `material_parameters_size` with defaults present (u32; the defaults count is `size >> 2`)
    defaults_size: Option<u32>,
    /// (gap before the first shader's blob, size of its bytecode): u32 `data_offset` / `data_size`
    blob: Option<(usize, usize)>,
    /// unreferenced bytes at the start of the string heap: u32 `local_string_offset`
    heap_prefill: usize,
    long_pad: bool,
    /// package-level parameter list (which of the four, count) / the first shader's (which, count): u16 counts
    pkg_params: Option<(usize, usize)>,
    shader_params: Option<(usize, usize)>,
    /// (vertex?, count): u32 shader counts
    shaders: Option<(bool, usize)>,
    /// (table 0..2, count): u32 key counts
    keys: Option<(usize, usize)>,
    nodes: Option<usize>,
    aliases: Option<usize>,
    passes: Option<usize>,
    mat_params: Option<usize>,
}

fn params_str(ps: &[ParamG]) -> String {
    list(ps, ",", |p| format!("{}:{}:{}:{}:{}:{}", p.id, p.off, p.len, p.unk, p.slot, p.size))
}

fn u32s(xs: &[u32]) -> String {
    list(xs, ",", |x| x.to_string())
}

struct ShaderG {
    off: u32,
    size: u32,
    lists: [Vec<ParamG>; 4],
}

fn gen_shpk(rng: &mut Rng, big: bool, w: &ShpkWide) -> String {
    let mut heap = Heap::new(rng);
    if w.heap_prefill > 0 {
        heap.bytes = vec![b'x'; w.heap_prefill - 1];
        heap.bytes.push(0);
    }
    heap.long_pad = w.long_pad;
    let m = if big { 6 } else { 3 };
    let mut nvs = rng.range(0, m);
    let mut nps = rng.range(0, m);
    match w.shaders {
        Some((true, n)) => nvs = n as u64,
        Some((false, n)) => nps = n as u64,
        None => {}
    }
    if (w.blob.is_some() || w.shader_params.is_some()) && nvs + nps == 0 {
        nps = 1;
    }
    let lean = w.shaders.is_some(); // many shaders: keep each of them small
    // blob region: per shader a slot; slots may be listed in any order, may overlap or leave gaps
    let mut blob: Vec<u8> = vec![];
    let mut shaders: Vec<(bool, ShaderG)> = vec![];
    let mut order: Vec<bool> = (0..nvs).map(|_| true).chain((0..nps).map(|_| false)).collect();
    // shuffle blob order
    for i in (1..order.len()).rev() {
        let j = rng.below(i as u64 + 1) as usize;
        order.swap(i, j);
    }
    for &is_vertex in &order {
        if rng.chance(1, 5) {
            let k = rng.range(1, 7) as usize;
            blob.extend(rng.bytes(k)); // gap
        }
        let mut size = match rng.below(5) {
            0 => 0,
            1 => rng.range(1, 4),
            _ => rng.range(4, if big { 300 } else { 40 }),
        } as usize;
        if let (Some((gap, sz)), true) = (w.blob, shaders.is_empty()) {
            blob.extend(std::iter::repeat(0xA5u8).take(gap));
            size = sz;
        }
        let off = blob.len();
        if is_vertex {
            blob.extend(rng.bytes(8));
        }
        blob.extend(rng.bytes(size));
        let pm = if lean { 1 } else { 3 };
        let mut lists = [params(rng, &mut heap, pm), params(rng, &mut heap, pm), params(rng, &mut heap, pm.min(2)), params(rng, &mut heap, pm)];
        if let (Some((which, n)), true) = (w.shader_params, shaders.is_empty()) {
            lists[which] = params_n(rng, &mut heap, n);
        }
        shaders.push((is_vertex, ShaderG { off: off as u32, size: size as u32, lists }));
    }
    if rng.chance(1, 6) && !shaders.is_empty() {
        // two shaders sharing one blob
        let k = rng.below(shaders.len() as u64) as usize;
        let (v, o, s) = (shaders[k].0, shaders[k].1.off, shaders[k].1.size);
        for sh in shaders.iter_mut() {
            if sh.0 == v && rng.chance(1, 2) {
                sh.1.off = o;
                sh.1.size = s;
            }
        }
    }
    let shader_str = |vertex: bool| {
        let v: Vec<&ShaderG> = shaders.iter().filter(|s| s.0 == vertex).map(|s| &s.1).collect();
        list(&v, ";", |s| {
            format!("{}/{}/{}/{}/{}/{}", s.off, s.size, params_str(&s.lists[0]), params_str(&s.lists[1]), params_str(&s.lists[2]), params_str(&s.lists[3]))
        })
    };
    let vs = shader_str(true);
    let ps = shader_str(false);
    let nmp = match w.mat_params { Some(n) => n as u64, None => rng.range(0, m) };
    let mp: Vec<String> = (0..nmp).map(|_| format!("{}:{}:{}", rng.u32_edge(), u16_edge(rng), u16_edge(rng))).collect();
    let hd: u16 = match rng.below(6) {
        0 | 1 => 0,
        2 | 3 | 4 => 1,
        _ => *rng.pick(&[2u16, 0x101, 0xFFFF, 0x100]),
    };
    let hd = if w.defaults_size.is_some() { 1 } else { hd };
    let (mps, defs): (u32, Vec<u32>) = if let Some(mps) = w.defaults_size {
        // short decimal representations keep the case line moderate
        (mps, (0..mps >> 2).map(|_| if rng.chance(1, 16) { f32_edge(rng) } else { rng.below(1000) as u32 }).collect())
    } else if hd == 1 {
        let n = rng.range(0, if big { 40 } else { 8 }) as u32;
        let mps = n * 4 + rng.below(4) as u32; // not necessarily a multiple of 4: the count is size >> 2
        (mps, (0..n).map(|_| f32_edge(rng)).collect())
    } else {
        (rng.u32_edge(), vec![])
    };
    let mut lists = [params(rng, &mut heap, m), params(rng, &mut heap, m), params(rng, &mut heap, m), params(rng, &mut heap, 2)];
    if let Some((which, n)) = w.pkg_params {
        lists[which] = params_n(rng, &mut heap, n);
    }
    let mut nsk = rng.range(0, 3);
    let mut nck = rng.range(0, 3);
    let mut nmk = rng.range(0, 4);
    match w.keys {
        Some((0, n)) => nsk = n as u64,
        Some((1, n)) => nck = n as u64,
        Some((_, n)) => nmk = n as u64,
        None => {}
    }
    let keys = |rng: &mut Rng, n: u64| -> String {
        let v: Vec<String> = (0..n).map(|_| format!("{}:{}", rng.u32_edge(), rng.u32_edge())).collect();
        list(&v, ",", |s| s.clone())
    };
    let sk = keys(rng, nsk);
    let ck = keys(rng, nck);
    let mk = keys(rng, nmk);
    // nodes: selectors from a small pool so that duplicates and alias/node clashes occur
    let pool: Vec<u32> = (0..6).map(|_| rng.u32_edge()).collect();
    let mut nn = rng.range(0, if big { 8 } else { 4 });
    if let Some(n) = w.nodes {
        nn = n as u64;
    }
    if w.keys.map_or(false, |k| k.1 > 1000) {
        nn = nn.min(1); // every node repeats the key tables
    }
    if (w.aliases.is_some() || w.passes.is_some()) && nn == 0 {
        nn = 1;
    }
    let mut nodes = vec![];
    let mut node_sels = vec![];
    for _ in 0..nn {
        let sel = if rng.chance(2, 3) { *rng.pick(&pool) } else { rng.next() as u32 };
        node_sels.push(sel);
        let npass = match (w.passes, nodes.is_empty()) { (Some(n), true) => n as u64, _ => rng.range(0, 3) };
        let passes: Vec<String> = (0..npass).map(|_| format!("{}:{}:{}", rng.u32_edge(), rng.below(8), rng.below(8))).collect();
        let kl = |rng: &mut Rng, n: u64| -> String { u32s(&(0..n).map(|_| rng.u32_edge()).collect::<Vec<_>>()) };
        nodes.push(format!("{}/{}/{}/{}/{}/{}/{}", sel, hex(&rng.bytes(16)), kl(rng, nsk), kl(rng, nck), kl(rng, nmk), kl(rng, 2), list(&passes, ",", |s| s.clone())));
    }
    let na = if nn == 0 { 0 } else { match w.aliases { Some(n) => n as u64, None => rng.range(0, 4) } };
    let mut aliases = vec![];
    let mut alias_sels = vec![];
    for _ in 0..na {
        let sel = if rng.chance(2, 3) { *rng.pick(&pool) } else { rng.next() as u32 };
        alias_sels.push(sel);
        aliases.push(format!("{}:{}", sel, rng.below(nn)));
    }
    let mut q: Vec<u32> = vec![];
    // (long tables: a sample of the stored selectors, `find_node` of the specification is linear)
    q.extend(node_sels.iter().take(40));
    q.extend(node_sels.iter().rev().take(if node_sels.len() > 40 { 10 } else { 0 }));
    q.extend(alias_sels.iter().take(40));
    q.extend(alias_sels.iter().rev().take(if alias_sels.len() > 40 { 10 } else { 0 }));
    q.extend(pool.iter().take(3));
    q.push(rng.next() as u32);
    let fmt: &[u8] = match rng.below(8) {
        0 | 1 | 2 => b"DX11",
        3 | 4 => b"DX9\0",
        5 => b"\0\0\0\0",
        6 => b"\0X\0\0",
        _ => b"D\"\\'",
    };
    if rng.chance(1, 5) {
        let k = rng.range(1, 9) as usize;
        blob.extend(rng.bytes(k));
    }
    format!(
        "shpk ver={} fmt={} flen={} mps={} hd={} u1={} u2={} vs={} ps={} mp={} def={} sc={} sa={} tx={} ua={} sk={} ck={} mk={} sv={},{} nodes={} al={} blob={} str={} q={}",
        rng.u32_edge(), hex(fmt), rng.u32_edge(), mps, hd, u16_edge(rng), u16_edge(rng), vs, ps,
        list(&mp, ",", |s| s.clone()), u32s(&defs),
        params_str(&lists[0]), params_str(&lists[1]), params_str(&lists[2]), params_str(&lists[3]),
        sk, ck, mk, rng.u32_edge(), rng.u32_edge(),
        list(&nodes, ";", |s| s.clone()), list(&aliases, ",", |s| s.clone()),
        hex(&blob), hex(&heap.bytes), u32s(&q)
    )
}


/// the wide family of one run.  quick: the 2^16 boundary of every u32 size / offset whose narrowing
/// would otherwise go unnoticed, and one 2^8 boundary count per u16 / u32 count; thorough: every
/// boundary value of each, and the 2^16 boundary of the u32 counts
fn shpk_wide_cases(rng: &mut Rng, thorough: bool) -> Vec<ShpkWide> {
    let d = ShpkWide::default();
    let mut v: Vec<ShpkWide> = vec![];
    let c8: Vec<usize> = if thorough { vec![255, 256, 257, 300, 511, 512, 513] } else { vec![*rng.pick(&[256usize, 257, 300])] };
    // material_parameters_size with defaults (count = size >> 2)
    for mps in [0xFFF0u32, 0xFFFC, 0x10000, 0x10004, 0x10040] {
        v.push(ShpkWide { defaults_size: Some(mps), ..d.clone() });
    }
    if thorough {
        for mps in [0xFFFFu32, 0x10003, 0x1FFFC, 0x20000, 0x30010] {
            v.push(ShpkWide { defaults_size: Some(mps), ..d.clone() });
        }
    }
    // blob: data_size / data_offset at 2^16 (the second also puts strings_offset beyond 2^16)
    for b in [(0usize, 0xFFFFusize), (0, 0x10000), (0, 0x10001), (0xFFF8, 16), (0x10000, 16), (0x10008, 40)] {
        v.push(ShpkWide { blob: Some(b), ..d.clone() });
    }
    // string heap: every name offset beyond 2^16; declared lengths beyond 2^8
    for n in [0xFFFFusize, 0x10000, 0x10010] {
        v.push(ShpkWide { heap_prefill: n, ..d.clone() });
    }
    v.push(ShpkWide { long_pad: true, ..d.clone() });
    v.push(ShpkWide { long_pad: true, heap_prefill: 300, ..d.clone() });
    // counts at 2^8
    for &n in &c8 {
        v.push(ShpkWide { pkg_params: Some((rng.below(4) as usize, n)), ..d.clone() });
        v.push(ShpkWide { shader_params: Some((rng.below(4) as usize, n)), ..d.clone() });
        v.push(ShpkWide { shaders: Some((rng.chance(1, 2), n)), ..d.clone() });
        v.push(ShpkWide { keys: Some((rng.below(3) as usize, n)), ..d.clone() });
        v.push(ShpkWide { nodes: Some(n), ..d.clone() });
        v.push(ShpkWide { aliases: Some(n), ..d.clone() });
        v.push(ShpkWide { passes: Some(n), ..d.clone() });
        v.push(ShpkWide { mat_params: Some(n), ..d.clone() });
    }
    if thorough {
        // u32 counts at 2^16 (not the shader counts: `Spec.Shpk.view` slices the whole data region
        // once per shader, 65 536 shaders take minutes in the driver)
        for n in [65535usize, 65536, 65537] {
            v.push(ShpkWide { keys: Some((rng.below(3) as usize, n)), ..d.clone() });
            v.push(ShpkWide { aliases: Some(n), ..d.clone() });
            v.push(ShpkWide { passes: Some(n), ..d.clone() });
        }
    }
    v
}

// ------------------------------------------------------------------------------------------
// materials
// ------------------------------------------------------------------------------------------

fn half_edge(rng: &mut Rng) -> u16 {
    match rng.below(14) {
        0 => 0,
        1 => 0x8000,
        2 => 0x3C00,
        3 => 0x7C00,
        4 => 0xFC00,
        5 => 0x7E00,
        6 => 0x7C01,
        7 => rng.range(1, 0x3FF) as u16,          // subnormal
        8 => 0x8000 | rng.range(1, 0x3FF) as u16, // negative subnormal
        9 => 0x7BFF,
        10 => 0x0400,
        _ => rng.next() as u16,
    }
}

fn words_hex(ws: &[u16]) -> String {
    ws.iter().map(|w| format!("{:04x}", w)).collect::<Vec<_>>().join("")
}

fn tex_path(rng: &mut Rng) -> Vec<u8> {
    if rng.chance(1, 15) {
        return vec![];
    }
    const DIRS: [&str; 5] = ["chara/equipment/e", "chara/human/c", "bg/ffxiv/sea_s1/twn/common/texture/", "chara/common/texture/", "t"];
    let mut v = rng.pick(&DIRS).as_bytes().to_vec();
    let n = rng.range(0, 20);
    for _ in 0..n {
        let c = match rng.below(5) {
            0 => b'/' as u64,
            1 => rng.range(b'0' as u64, b'9' as u64),
            2 => b'_' as u64,
            _ => rng.range(b'a' as u64, b'z' as u64),
        };
        v.push(c as u8);
    }
    if rng.chance(1, 20) {
        let k = rng.range(1, 4);
        for _ in 0..k {
            v.push(rng.range(1, 0x7F) as u8); // any non-NUL ASCII, including control characters
        }
    }
    if rng.chance(1, 8) {
        // bytes from 0x80 on (a heap byte is one Latin-1 character of the reported path, two bytes
        // of its UTF-8): anywhere in the path, 1..6 of them
        let k = rng.range(1, 6);
        for _ in 0..k {
            let at = rng.below(v.len() as u64 + 1) as usize;
            v.insert(at, *rng.pick(&[0x80u8, 0x81, 0xa0, 0xbf, 0xc0, 0xc3, 0xe9, 0xfe, 0xff]));
        }
    }
    v.extend_from_slice(b".tex");
    v
}

/// Overrides of the "wide" material family (`None` / 0 = as in the ordinary generator): one count /
/// size / offset field of the format at the width of a narrower or signed integer.
#[derive(Default, Clone)]
struct MtrlWide {
    /// texture_count, uv_set_count, color_set_count, additional_data_size (incl. the flags word): u8
    ntex: Option<usize>,
    nuv: Option<usize>,
    ncs: Option<usize>,
    ar_total: Option<usize>,
    /// unreferenced bytes in the heap right after the texture paths: every u16 name offset >= this
    rest_prefill: usize,
    /// exact string_table_size (u16)
    heap_total: Option<usize>,
    /// number of shader values: shader_value_list_size (u16) = 4 n + r, constants' u16 value_offset up to it
    nvals: Option<usize>,
    /// shader_key_count, constant_count, sampler_count: u16
    nkeys: Option<usize>,
    nconst: Option<usize>,
    nsamp: Option<usize>,
}

/// quick: one value per field; thorough: every boundary value
fn mtrl_wide_cases(rng: &mut Rng, thorough: bool) -> Vec<MtrlWide> {
    let d = MtrlWide::default();
    let mut v: Vec<MtrlWide> = vec![];
    let pickq = |rng: &mut Rng, all: &[usize], quick: &[usize]| -> Vec<usize> { if thorough { all.to_vec() } else { vec![*rng.pick(quick)] } };
    for n in pickq(rng, &[127, 128, 255], &[128, 255]) {
        v.push(MtrlWide { ntex: Some(n), ..d.clone() });
    }
    for n in pickq(rng, &[127, 128, 255], &[128, 255]) {
        v.push(MtrlWide { nuv: Some(n), ncs: Some(if rng.chance(1, 2) { n } else { 2 }), ..d.clone() });
    }
    for n in pickq(rng, &[127, 128, 255], &[128, 255]) {
        v.push(MtrlWide { ar_total: Some(n), ..d.clone() });
    }
    for n in pickq(rng, &[255, 256, 257, 300, 32767, 32768, 65000], &[256, 300]) {
        v.push(MtrlWide { rest_prefill: n, ..d.clone() });
    }
    for n in pickq(rng, &[255, 256, 257, 32767, 32768, 65535], &[256, 257, 65535]) {
        v.push(MtrlWide { heap_total: Some(n), ..d.clone() });
    }
    for n in pickq(rng, &[63, 64, 65, 300, 8191, 8192, 16383], &[64, 65, 300]) {
        v.push(MtrlWide { nvals: Some(n), nconst: Some(12), ..d.clone() });
    }
    if !thorough {
        v.push(MtrlWide { nvals: Some(16383), ..d.clone() });
    }
    for n in pickq(rng, &[255, 256, 257, 300, 32767, 32768, 65535], &[256, 257, 300]) {
        v.push(MtrlWide { nkeys: Some(n), ..d.clone() });
        v.push(MtrlWide { nconst: Some(n), nvals: Some(70), ..d.clone() });
        v.push(MtrlWide { nsamp: Some(n), ..d.clone() });
    }
    v
}

/// `rows`: Some(base) = consecutive half patterns starting at `base` (exhaustive sweep)
fn gen_mtrl(rng: &mut Rng, sweep: Option<u32>, w: &MtrlWide) -> String {
    let ntex = if sweep.is_some() { 1 } else { match w.ntex { Some(n) => n as u64, None => rng.range(0, 4) } };
    let textures: Vec<Vec<u8>> = (0..ntex).map(|_| tex_path(rng)).collect();
    let tex_len: usize = textures.iter().map(|t| t.len() + 1).sum();
    // rest of the heap: set names, shader package name, padding
    let mut rest: Vec<u8> = vec![];
    if w.rest_prefill > 0 {
        rest = vec![b'y'; w.rest_prefill - 1];
        rest.push(0);
    }
    let nuv = match w.nuv { Some(n) => n as u64, None => rng.range(0, 3) };
    let ncs = match w.ncs { Some(n) => n as u64, None => rng.range(0, 2) };
    let mut uv = vec![];
    for i in 0..nuv {
        uv.push(format!("{}:{}", tex_len + rest.len(), if rng.chance(1, 4) { u16_edge(rng) } else { i as u16 }));
        rest.extend_from_slice(ident(rng).as_slice());
        rest.push(0);
    }
    let mut cs = vec![];
    for i in 0..ncs {
        cs.push(format!("{}:{}", tex_len + rest.len(), i));
        rest.extend_from_slice(ident(rng).as_slice());
        rest.push(0);
    }
    let mut spo = tex_len + rest.len();
    const SHPK: [&str; 6] = ["character.shpk", "skin.shpk", "bg.shpk", "characterlegacy.shpk", "iris.shpk", ""];
    rest.extend_from_slice(rng.pick(&SHPK).as_bytes());
    if rng.chance(1, 10) {
        rest.extend(ident(rng));
    }
    if rng.chance(1, 12) {
        rest.push(*rng.pick(&[0x80u8, 0xbf, 0xc3, 0xe9, 0xff]));
        rest.extend_from_slice(b"x");
    }
    rest.push(0);
    let pad = rng.below(5) as usize;
    for _ in 0..pad {
        rest.push(if rng.chance(1, 3) { rng.range(1, 0x7F) as u8 } else { 0 });
    }
    if let Some(total) = w.heap_total {
        while tex_len + rest.len() < total {
            rest.push(if rng.chance(1, 3) { rng.range(1, 0x7F) as u8 } else { 0 });
        }
        if rng.chance(1, 2) && tex_len + rest.len() == total && total >= 2 {
            // the shader package name at the very end of the heap: one character and the terminator
            spo = total - 2;
            let k = rest.len();
            rest[k - 2] = b'z';
            rest[k - 1] = 0;
        }
    }
    if tex_len > 0 && w.heap_total.is_none() && w.rest_prefill == 0 && rng.chance(1, 8) {
        // name offset pointing into the texture area (a suffix of a path, or a path start)
        spo = rng.below(tex_len as u64) as usize;
    }
    // table flags
    let dims: u32 = match (sweep.is_some(), rng.below(12)) {
        (true, _) => 0x53,
        (_, 0 | 1 | 2) => 0,
        (_, 3 | 4) => 0x42,
        (_, 5 | 6 | 7) => 0x53,
        (_, 8) => *rng.pick(&[0x50u32, 0x5F, 0x52, 0x54]),
        (_, 9) => *rng.pick(&[0x43u32, 0x41, 0x33, 0x60, 0x4F, 0x01, 0x10]),
        _ => rng.below(256) as u32,
    };
    let has_table = sweep.is_some() || rng.chance(3, 4);
    let has_dye = sweep.is_none() && rng.chance(1, 2);
    let other = if rng.chance(1, 2) { 0 } else { (rng.next() as u32) & 0xFFFF_F003 };
    let tf = other | (dims << 4) | if has_table { 4 } else { 0 } | if has_dye { 8 } else { 0 };
    let ct = if !has_table {
        "none".to_string()
    } else if dims == 0 || dims == 0x42 || dims == 0x53 {
        let (n, tag) = if dims == 0x53 { (32usize, "D") } else { (16usize, "L") };
        let mut next = sweep.unwrap_or(0);
        let rows: Vec<String> = (0..n)
            .map(|_| {
                let ws: Vec<u16> = (0..n)
                    .map(|_| {
                        if sweep.is_some() {
                            next += 1;
                            (next - 1) as u16
                        } else {
                            half_edge(rng)
                        }
                    })
                    .collect();
                words_hex(&ws)
            })
            .collect();
        format!("{}:{}", tag, rows.join("/"))
    } else {
        "opaque".to_string()
    };
    let bits = |rng: &mut Rng, n: usize| -> String {
        let all = rng.below(8);
        (0..n).map(|_| if all == 0 { '1' } else if all == 1 { '0' } else if rng.chance(1, 2) { '1' } else { '0' }).collect()
    };
    let dye = if !has_dye {
        "none".to_string()
    } else if dims == 0 {
        let rows: Vec<String> = (0..16).map(|_| format!("{}.{}", match rng.below(4) { 0 => 0, 1 => 2047, _ => rng.below(2048) }, bits(rng, 5))).collect();
        format!("L:{}", rows.join(","))
    } else if (0x50..=0x5F).contains(&dims) {
        let rows: Vec<String> = (0..32)
            .map(|_| {
                let spare = if rng.chance(1, 2) { 0 } else { (rng.next() as u32) & !0x1FFF_0FFF };
                format!("{}.{}.{}.{}", match rng.below(4) { 0 => 0, 1 => 2047, _ => rng.below(2048) }, rng.below(4), bits(rng, 12), spare)
            })
            .collect();
        format!("D:{}", rows.join(","))
    } else {
        "opaque".to_string()
    };
    // shader values and constants
    let nvals = match w.nvals { Some(n) => n, None => (if rng.chance(1, 6) { 0 } else { rng.range(1, 12) }) as usize };
    let vals: Vec<u32> = (0..nvals).map(|_| f32_edge(rng)).collect();
    let svs = nvals * 4 + rng.below(4) as usize;
    let trail_len = (svs - nvals * 4) + if rng.chance(1, 4) { rng.range(1, 8) as usize } else { 0 };
    let nconst = match w.nconst { Some(n) => n as u64, None => rng.range(0, 4) };
    let consts: Vec<String> = (0..nconst)
        .map(|_| {
            let nf = (if rng.chance(1, 8) { 0 } else { rng.range(1, 4) } as usize).min(nvals);
            let start = rng.below((nvals - nf) as u64 + 1) as usize;
            let m1 = if rng.chance(1, 4) { 4 } else { 1 };
            let m2 = if rng.chance(1, 4) { 4 } else { 1 };
            format!("{}:{}:{}", rng.u32_edge(), start * 4 + rng.below(m1) as usize, nf * 4 + rng.below(m2) as usize)
        })
        .collect();
    let nkeys = match w.nkeys { Some(n) => n as u64, None => rng.range(0, 4) };
    let keys: Vec<String> = (0..nkeys).map(|_| format!("{}:{}", rng.u32_edge(), rng.u32_edge())).collect();
    let nsamp = match w.nsamp { Some(n) => n as u64, None => rng.range(0, 4) };
    let samps: Vec<String> = (0..nsamp)
        .map(|_| format!("{}:{}:{}:{}:{}:{}", rng.below(22), rng.u32_edge(), rng.below(256), rng.below(256), rng.below(256), rng.below(256)))
        .collect();
    let offs: Vec<u32> = (0..ntex).map(|_| rng.u32_edge()).collect();
    let ar_len = match w.ar_total { Some(n) => n - 4, None => if rng.chance(1, 6) { rng.range(1, 6) as usize } else { 0 } };
    let sl = |v: &Vec<String>, sep: &str| list(v, sep, |s| s.clone());
    format!(
        "mtrl ver={} fsz={} dss={} tex={} rest={} spo={} offs={} uv={} cs={} tf={} ar={} ct={} dye={} svs={} mf={} keys={} const={} samp={} vals={} trail={}",
        rng.u32_edge(), u16_edge(rng), u16_edge(rng),
        list(&textures, ";", |t| if t.is_empty() { "e".to_string() } else { hex(t) }), hex(&rest), spo, u32s(&offs), sl(&uv, ","), sl(&cs, ","),
        tf, hex(&rng.bytes(ar_len)), ct, dye, svs, rng.u32_edge(), sl(&keys, ","), sl(&consts, ","), sl(&samps, ","),
        u32s(&vals), hex(&rng.bytes(trail_len))
    )
}

/// f32 bit patterns biased to special values (zeros, subnormals, infinities, NaNs)
fn f32_edge(rng: &mut Rng) -> u32 {
    match rng.below(12) {
        0 => 0,
        1 => 0x8000_0000,
        2 => 0x3F80_0000,
        3 => 0x7F80_0000,
        4 => 0xFF80_0000,
        5 => 0x7FC0_0000,
        6 => 1,
        7 => 0x007F_FFFF,
        8 => (rng.below(200) as f32 * 0.25).to_bits(),
        _ => rng.next() as u32,
    }
}

pub fn generate(thorough: bool, seed: u64, out: &mut dyn Write) {
    let mut rng = Rng::new(seed, "C14");
    // ---- f16 -> f32: all 65 536 patterns, 1024 per line
    for base in (0..65536u32).step_by(1024) {
        let v: Vec<u32> = (base..base + 1024).collect();
        writeln!(out, "half {}", u32s(&v)).unwrap();
    }
    // ---- selectors
    writeln!(out, "sel -").unwrap();
    for k in [0u32, 1, 31, 0xFFFF_FFFF, 0x8000_0000] {
        writeln!(out, "sel {}", k).unwrap();
        writeln!(out, "sel {},{}", k, k).unwrap();
    }
    let n = if thorough { 20_000 } else { 600 };
    for _ in 0..n {
        let len = match rng.below(10) {
            0 => rng.range(0, 2),
            1..=7 => rng.range(2, 12),
            _ => rng.range(12, 200),
        };
        let ks: Vec<u32> = (0..len).map(|_| rng.u32_edge()).collect();
        writeln!(out, "sel {}", u32s(&ks)).unwrap();
    }
    for _ in 0..n / 2 {
        let mut parts = vec![];
        for _ in 0..4 {
            let len = rng.range(0, 6);
            let ks: Vec<u32> = (0..len).map(|_| rng.u32_edge()).collect();
            parts.push(u32s(&ks));
        }
        writeln!(out, "selall {}", parts.join(" ")).unwrap();
    }
    // ---- shader-key CRC (the bulk of this is under C12)
    for _ in 0..n / 4 {
        let len = rng.range(0, 40) as usize;
        let s: Vec<u8> = (0..len).map(|_| rng.range(0x20, 0x7E) as u8).collect();
        writeln!(out, "shcrc {}", hex(&s)).unwrap();
    }
    // the string literals of the current source (see `c12::source_literals`): a key name the code
    // treats specially has to be written down there
    for lit in crate::c12::source_literals(&["src/shpk.rs", "src/crc.rs", "src/mtrl.rs"]) {
        writeln!(out, "shcrc {}", hex(&lit)).unwrap();
    }
    // ---- shader packages
    let n = if thorough { 150_000 } else { 500 };
    for i in 0..n {
        writeln!(out, "{}", gen_shpk(&mut rng, i % 10 == 9, &ShpkWide::default())).unwrap();
    }
    for w in shpk_wide_cases(&mut rng, thorough) {
        writeln!(out, "{}", gen_shpk(&mut rng, false, &w)).unwrap();
    }
    // ---- materials: every half pattern through a Dawntrail colour table (32 rows x 32 words; the
    // second pass shifts by 4 so that patterns that met a raw u16 slot meet a half slot)
    for shift in [0u32, 4] {
        for base in (0..65536u32).step_by(1024) {
            writeln!(out, "{}", gen_mtrl(&mut rng, Some(base + shift), &MtrlWide::default())).unwrap();
        }
    }
    let n = if thorough { 150_000 } else { 400 };
    for _ in 0..n {
        writeln!(out, "{}", gen_mtrl(&mut rng, None, &MtrlWide::default())).unwrap();
    }
    for w in mtrl_wide_cases(&mut rng, thorough) {
        writeln!(out, "{}", gen_mtrl(&mut rng, None, &w)).unwrap();
    }
    // ---- mutated encodings (`mut <seed> <k> <case>`, Base/Mutate.lean): 1..3 damaged bytes in an
    // encoded shader package / material; the model of the code and the code must still agree
    let n = if thorough { 40_000 } else { 400 };
    for i in 0..n {
        let k = 1 + rng.below(3);
        let seed = rng.next() >> 1;
        if i % 2 == 0 {
            writeln!(out, "mut {} {} {}", seed, k, gen_shpk(&mut rng, false, &ShpkWide::default())).unwrap();
        } else {
            writeln!(out, "mut {} {} {}", seed, k, gen_mtrl(&mut rng, None, &MtrlWide::default())).unwrap();
        }
    }
}

// ------------------------------------------------------------------------------------------
// running the real code
// ------------------------------------------------------------------------------------------

fn brk(xs: Vec<String>, sep: &str) -> String {
    format!("[{}]", xs.join(sep))
}

fn f32dbg(d: &D) -> String {
    match d.f32_bits() {
        Some(b) => b.to_string(),
        None => "nan".to_string(),
    }
}

fn render_param(p: &physis::shpk::ResourceParameter, d: &D) -> String {
    format!("{}:{}:{}:{}:{}", d.field("id").num(), d.field("unknown").num(), p.slot, d.field("size").num(), hex(p.name.as_bytes()))
}

fn render_params(ps: &[physis::shpk::ResourceParameter], d: &D) -> String {
    let ds = d.list();
    assert!(ds.len() == ps.len());
    brk(ps.iter().zip(ds).map(|(p, d)| render_param(p, d)).collect(), ",")
}

fn render_shader(s: &physis::shpk::Shader, d: &D) -> String {
    format!(
        "{}/{}/{}/{}/{}/{}/{}/{}/{}/{}/{}/{}",
        d.field("data_offset").num(),
        d.field("data_size").num(),
        d.field("scalar_parameter_count").num(),
        d.field("resource_parameter_count").num(),
        d.field("uav_parameter_count").num(),
        d.field("texture_count").num(),
        render_params(&s.scalar_parameters, d.field("scalar_parameters")),
        render_params(&s.resource_parameters, d.field("resource_parameters")),
        render_params(&s.uav_parameters, d.field("uav_parameters")),
        render_params(&s.texture_parameters, d.field("texture_parameters")),
        hex(&s.additional_data),
        hex(&s.bytecode)
    )
}

fn render_shaders(ss: &[physis::shpk::Shader], d: &D) -> String {
    let ds = d.list();
    assert!(ds.len() == ss.len());
    brk(ss.iter().zip(ds).map(|(s, d)| render_shader(s, d)).collect(), "|")
}

fn render_dbg_params(d: &D) -> String {
    brk(
        d.list()
            .iter()
            .map(|d| format!("{}:{}:{}:{}:{}", d.field("id").num(), d.field("unknown").num(), d.field("slot").num(), d.field("size").num(), hex(d.field("name").string().as_bytes())))
            .collect(),
        ",",
    )
}

fn render_keys(ks: &[physis::shpk::Key]) -> String {
    brk(ks.iter().map(|k| format!("{}:{}", k.id, k.default_value)).collect(), ",")
}

fn run_shpk(file: &[u8], qs: &[u32]) -> String {
    let Some(p) = physis::shpk::ShaderPackage::from_existing(file) else { return "none".into() };
    let d = dbgparse::parse(&format!("{:?}", p));
    let mut o: Vec<String> = vec![];
    let num = |k: &str, f: &str| format!("{}={}", k, d.field(f).num());
    o.push(num("ver", "version"));
    o.push(format!("fmt={}", hex(d.field("format").string().as_bytes())));
    o.push(num("flen", "file_length"));
    o.push(num("sdo", "shader_data_offset"));
    o.push(num("so", "strings_offset"));
    o.push(num("vsc", "vertex_shader_count"));
    o.push(num("psc", "pixel_shader_count"));
    o.push(format!("mps={}", p.material_parameters_size));
    o.push(num("mpc", "material_parameter_count"));
    o.push(num("hd", "has_mat_param_defaults"));
    o.push(num("scc", "scalar_parameter_count"));
    o.push(num("sac", "sampler_count"));
    o.push(num("txc", "texture_count"));
    o.push(num("uac", "uav_count"));
    o.push(num("skc", "system_key_count"));
    o.push(num("ckc", "scene_key_count"));
    o.push(num("mkc", "material_key_count"));
    o.push(num("nc", "node_count"));
    o.push(num("nac", "node_alias_count"));
    o.push(format!("vs={}", render_shaders(&p.vertex_shaders, d.field("vertex_shaders"))));
    o.push(format!("ps={}", render_shaders(&p.pixel_shaders, d.field("pixel_shaders"))));
    assert!(d.field("material_parameters").list().len() == p.material_parameters.len());
    o.push(format!(
        "mp={}",
        brk(d.field("material_parameters").list().iter().map(|m| format!("{}:{}:{}", m.field("id").num(), m.field("byte_offset").num(), m.field("byte_size").num())).collect(), ",")
    ));
    o.push(format!("def={}", brk(d.field("mat_param_defaults").list().iter().map(f32dbg).collect(), ",")));
    o.push(format!("sc={}", render_dbg_params(d.field("scalar_parameters"))));
    o.push(format!("sa={}", render_dbg_params(d.field("sampler_parameters"))));
    o.push(format!("tx={}", render_dbg_params(d.field("texture_parameters"))));
    o.push(format!("ua={}", render_dbg_params(d.field("uav_parameters"))));
    o.push(format!("sk={}", render_keys(&p.system_keys)));
    o.push(format!("ck={}", render_keys(&p.scene_keys)));
    o.push(format!("mk={}", render_keys(&p.material_keys)));
    o.push(format!("sv={},{}", p.sub_view_key1_default, p.sub_view_key2_default));
    let dn = d.field("nodes").list();
    assert!(dn.len() == p.nodes.len());
    let u32l = |v: &[u32]| brk(v.iter().map(|x| x.to_string()).collect(), ",");
    o.push(format!(
        "nodes={}",
        brk(
            p.nodes
                .iter()
                .zip(dn)
                .map(|(n, d)| {
                    format!(
                        "{}/{}/{}/{}/{}/{}/{}/{}",
                        n.selector,
                        n.pass_count,
                        hex(&n.pass_indices),
                        u32l(&n.system_keys),
                        u32l(&n.scene_keys),
                        u32l(&n.material_keys),
                        u32l(&n.subview_keys),
                        brk(d.field("passes").list().iter().map(|p| format!("{}:{}:{}", p.field("id").num(), p.field("vertex_shader").num(), p.field("pixel_shader").num())).collect(), ",")
                    )
                })
                .collect(),
            "|"
        )
    ));
    let pair = |d: &D| match d {
        D::Tuple(_, v) => format!("{}:{}", v[0].num(), v[1].num()),
        _ => panic!("pair"),
    };
    o.push(format!("sel={}", brk(d.field("node_selectors").list().iter().map(pair).collect(), ",")));
    o.push(format!("al={}", brk(d.field("node_aliases").list().iter().map(|a| format!("{}:{}", a.field("selector").num(), a.field("node").num())).collect(), ",")));
    let finds: Vec<String> = qs
        .iter()
        .map(|&q| match p.find_node(q) {
            None => "none".to_string(),
            Some(n) => {
                // index of the returned reference inside `nodes`
                let base = p.nodes.as_ptr() as usize;
                let at = n as *const physis::shpk::Node as usize;
                ((at - base) / std::mem::size_of::<physis::shpk::Node>()).to_string()
            }
        })
        .collect();
    o.push(format!("find={}", brk(finds, ",")));
    o.join(";")
}

fn bits(bs: &[bool]) -> String {
    bs.iter().map(|&b| if b { '1' } else { '0' }).collect()
}

fn run_mtrl(file: &[u8]) -> String {
    use physis::mtrl::*;
    let Some(m) = Material::from_existing(file) else { return "none".into() };
    let mut o: Vec<String> = vec![];
    o.push(format!("shpk={}", hex(m.shader_package_name.as_bytes())));
    o.push(format!("tex={}", brk(m.texture_paths.iter().map(|t| hex(t.as_bytes())).collect(), ",")));
    o.push(format!("keys={}", brk(m.shader_keys.iter().map(|k| format!("{}:{}", k.category, k.value)).collect(), ",")));
    let dc = dbgparse::parse(&format!("{:?}", m.constants));
    o.push(format!(
        "const={}",
        brk(
            dc.list()
                .iter()
                .map(|c| format!("{}:{}:{}", c.field("id").num(), c.field("num_values").num(), c.field("values").list().iter().map(f32dbg).collect::<Vec<_>>().join("/")))
                .collect(),
            ","
        )
    ));
    let ds = dbgparse::parse(&format!("{:?}", m.samplers));
    o.push(format!(
        "samp={}",
        brk(
            ds.list()
                .iter()
                .map(|s| {
                    format!(
                        "{}:{}:{}:{}:{}:{}",
                        s.field("texture_usage").atom(),
                        s.field("flags").num(),
                        s.field("texture_index").num(),
                        s.field("unknown1").num(),
                        s.field("unknown2").num(),
                        s.field("unknown3").num()
                    )
                })
                .collect(),
            ","
        )
    ));
    let f = |x: f32| x.to_bits().to_string();
    let fs = |xs: &[f32]| xs.iter().map(|x| x.to_bits().to_string()).collect::<Vec<_>>();
    o.push(format!(
        "ct={}",
        match &m.color_table {
            None => "none".to_string(),
            Some(ColorTable::OpaqueColorTable(_)) => "opaque".to_string(),
            Some(ColorTable::LegacyColorTable(t)) => format!(
                "legacy{}",
                brk(
                    t.rows
                        .iter()
                        .map(|r| {
                            let mut v = fs(&r.diffuse_color);
                            v.push(f(r.specular_strength));
                            v.extend(fs(&r.specular_color));
                            v.push(f(r.gloss_strength));
                            v.extend(fs(&r.emissive_color));
                            v.push(r.tile_set.to_string());
                            v.extend(fs(&r.material_repeat));
                            v.extend(fs(&r.material_skew));
                            v.join(",")
                        })
                        .collect(),
                    "|"
                )
            ),
            Some(ColorTable::DawntrailColorTable(t)) => format!(
                "dawntrail{}",
                brk(
                    t.rows
                        .iter()
                        .map(|r| {
                            let mut v = fs(&r.diffuse_color);
                            v.push(f(r.unknown1));
                            v.extend(fs(&r.specular_color));
                            v.push(f(r.unknown2));
                            v.extend(fs(&r.emissive_color));
                            for x in [r.unknown3, r.sheen_rate, r.sheen_tint, r.sheen_aperture, r.unknown4, r.roughness, r.unknown5, r.metalness, r.anisotropy, r.unknown6, r.sphere_mask, r.unknown7, r.unknown8] {
                                v.push(f(x));
                            }
                            v.push(r.shader_index.to_string());
                            v.push(r.tile_set.to_string());
                            v.push(f(r.tile_alpha));
                            v.push(r.sphere_index.to_string());
                            v.extend(fs(&r.material_repeat));
                            v.extend(fs(&r.material_skew));
                            v.join(",")
                        })
                        .collect(),
                    "|"
                )
            ),
        }
    ));
    o.push(format!(
        "dye={}",
        match &m.color_dye_table {
            None => "none".to_string(),
            Some(ColorDyeTable::OpaqueColorDyeTable(_)) => "opaque".to_string(),
            Some(ColorDyeTable::LegacyColorDyeTable(t)) => format!(
                "legacy{}",
                brk(t.rows.iter().map(|r| format!("{}:{}", r.template, bits(&[r.diffuse, r.specular, r.emissive, r.gloss, r.specular_strength]))).collect(), ",")
            ),
            Some(ColorDyeTable::DawntrailColorDyeTable(t)) => format!(
                "dawntrail{}",
                brk(
                    t.rows
                        .iter()
                        .map(|r| {
                            format!(
                                "{}:{}:{}",
                                r.template,
                                r.channel,
                                bits(&[r.diffuse, r.specular, r.emissive, r.scalar3, r.metalness, r.roughness, r.sheen_rate, r.sheen_tint_rate, r.sheen_aperture, r.anisotropy, r.sphere_map_index, r.sphere_map_mask])
                            )
                        })
                        .collect(),
                    ","
                )
            ),
        }
    ));
    o.join(";")
}

fn parse_u32s(s: &str) -> Option<Vec<u32>> {
    if s == "-" {
        return Some(vec![]);
    }
    s.split(',').map(|x| x.parse::<u32>().ok()).collect()
}

pub fn run(case: &str, input: &str) -> String {
    let f: Vec<&str> = input.split(' ').collect();
    match (f[0], f.len()) {
        ("sel", 2) => {
            let Some(ks) = parse_u32s(f[1]) else { return "bad-case".into() };
            guarded(move || physis::shpk::ShaderPackage::build_selector(&ks).to_string())
        }
        ("selall", 5) => {
            let (Some(a), Some(b), Some(c), Some(d)) = (parse_u32s(f[1]), parse_u32s(f[2]), parse_u32s(f[3]), parse_u32s(f[4])) else { return "bad-case".into() };
            guarded(move || physis::shpk::ShaderPackage::build_selector_from_all_keys(&a, &b, &c, &d).to_string())
        }
        ("shcrc", 2) => {
            let Some(bytes) = unhex(f[1]) else { return "bad-case".into() };
            let Ok(s) = String::from_utf8(bytes) else { return "bad-case".into() };
            guarded(move || physis::shpk::ShaderPackage::crc(&s).to_string())
        }
        ("half", 2) => {
            let Some(hs) = parse_u32s(f[1]) else { return "bad-case".into() };
            let v: Vec<String> = hs.iter().map(|&h| half::f16::from_bits(h as u16).to_f32().to_bits().to_string()).collect();
            if v.is_empty() { "-".into() } else { v.join(",") }
        }
        ("shpk", 3) => {
            let (Some(file), Some(qs)) = (unhex(f[1]), parse_u32s(f[2])) else { return "bad-case".into() };
            guarded(move || run_shpk(&file, &qs))
        }
        ("mtrl", 2) => {
            let Some(file) = unhex(f[1]) else { return "bad-case".into() };
            guarded(move || run_mtrl(&file))
        }
        _ => "bad-case".into(),
    }
}

pub fn dump(out: &mut dyn Write) {}
