//! C12: path hash (JAMCRC of lower-cased bytes) and shader-key hash (CRC-32, init 0, no final xor).
//! SHA-1 digests (`sha1 <hex>`) go through `FileInfo::new` on a scratch file; the cases and the
//! runner are shared with C10 (`c10::sha1_cases`, `c10::sha1_via_fileinfo`).
#![allow(unused)]
use crate::util::*;
use std::io::Write;

fn ascii(rng: &mut Rng, n: usize) -> Vec<u8> {
    // all 128 code points, both cases; biased towards letters so that case folding matters
    (0..n)
        .map(|_| match rng.below(4) {
            0 => rng.range(b'A' as u64, b'Z' as u64) as u8,
            1 => rng.range(b'a' as u64, b'z' as u64) as u8,
            _ => rng.below(128) as u8,
        })
        .collect()
}

/// The ASCII string literals (1..=200 bytes, no escapes other than `\\`, `\"`) of the given files of the
/// Physis tree under test (`VERIF_REPO`), deduplicated, at most 4000.  A search heuristic only: which
/// strings are hashed is a matter of the generator, what their hashes must be is the specification's.
pub(crate) fn source_literals(files: &[&str]) -> Vec<Vec<u8>> {
    let root = std::env::var("VERIF_REPO").unwrap_or_else(|_| "/repo".to_string());
    let mut seen = std::collections::BTreeSet::new();
    for f in files {
        let Ok(text) = std::fs::read(std::path::Path::new(&root).join(f)) else { continue };
        let mut i = 0;
        while i < text.len() {
            if text[i] == b'"' {
                let mut j = i + 1;
                let mut cur = vec![];
                let mut ok = true;
                while j < text.len() && text[j] != b'"' {
                    if text[j] == b'\\' && j + 1 < text.len() {
                        match text[j + 1] {
                            b'\\' | b'"' => cur.push(text[j + 1]),
                            _ => ok = false,
                        }
                        j += 2;
                        continue;
                    }
                    if text[j] == b'\n' || text[j] >= 128 {
                        ok = false;
                    }
                    cur.push(text[j]);
                    j += 1;
                }
                if ok && !cur.is_empty() && cur.len() <= 200 && !cur.contains(&b' ') || (ok && cur.len() <= 64 && !cur.is_empty()) {
                    seen.insert(cur);
                }
                i = j + 1;
            } else {
                i += 1;
            }
        }
    }
    seen.into_iter().take(4000).collect()
}

pub fn generate(thorough: bool, seed: u64, out: &mut dyn Write) {
    let mut rng = Rng::new(seed, "C12");
    // every ASCII string of length 0..=2 (exhaustive)
    for op in ["jamcrc", "shcrc"] {
        writeln!(out, "{} -", op).unwrap();
        for a in 0..128u8 {
            writeln!(out, "{} {}", op, hex(&[a])).unwrap();
        }
        let step = if thorough { 1 } else { 5 };
        for a in (0..128u8).step_by(step) {
            for b in 0..128u8 {
                writeln!(out, "{} {}", op, hex(&[a, b])).unwrap();
            }
        }
    }
    // every string literal of the current source of the hashing code and its callers (a name the
    // code treats specially — a fast path, a lookup table of "well-known" keys, a reserved word —
    // has to be written down there): hashed through both functions, as written, lower- and upper-cased
    for lit in source_literals(&["src/crc.rs", "src/shpk.rs", "src/mtrl.rs", "src/sqpack/index.rs", "src/gamedata.rs", "src/common.rs", "src/repository.rs"]) {
        for v in [lit.clone(), lit.to_ascii_lowercase(), lit.to_ascii_uppercase()] {
            writeln!(out, "shcrc {}", hex(&v)).unwrap();
            writeln!(out, "jamcrc {}", hex(&v)).unwrap();
        }
    }
    // SHA-1: lengths 0..=300, every padding boundary, random lengths, > 2 MiB (shared with C10)
    let mut rng_sha = Rng::new(seed, "C12-sha1");
    crate::c10::sha1_cases(&mut rng_sha, thorough, out);
    // several files hashed by one FileInfo::new call (2..6 files, earlier ones at and beyond one
    // 64-byte block): hasher state must not survive from one file to the next
    for i in 0..(if thorough { 3000 } else { 150 }) {
        let nf = rng_sha.range(2, 6) as usize;
        let f = crate::c10::files_field(&mut rng_sha, nf, if i % 10 == 0 { 5000 } else { 400 });
        writeln!(out, "new {}", f).unwrap();
    }
    // path hashes at the index level, both index kinds, with and without a folder part
    for i in 0..(if thorough { 20000 } else { 600 }) {
        let depth = rng_sha.below(4) as usize; // 0 = a root-level path without any '/'
        let mut p: Vec<u8> = vec![];
        for d in 0..=depth {
            if d > 0 {
                p.push(b'/');
            }
            let n = rng_sha.range(1, 12) as usize;
            for _ in 0..n {
                p.push(match rng_sha.below(6) {
                    0 | 1 => rng_sha.range(b'A' as u64, b'Z' as u64) as u8,
                    2 | 3 => rng_sha.range(b'a' as u64, b'z' as u64) as u8,
                    4 => rng_sha.range(b'0' as u64, b'9' as u64) as u8,
                    _ => *rng_sha.pick(b"._-"),
                });
            }
        }
        writeln!(out, "idxci {} {}", 1 + (i % 2), hex(&p)).unwrap();
    }
    let n = if thorough { 200_000 } else { 4_000 };
    for i in 0..n {
        let len = match rng.below(10) {
            0 => rng.range(3, 16),
            1..=6 => rng.range(3, 200),
            7 | 8 => rng.range(200, 4096),
            _ => 4096,
        } as usize;
        let s = ascii(&mut rng, len);
        let op = if i % 3 == 2 { "shcrc" } else { "jamcrc" };
        writeln!(out, "{} {}", op, hex(&s)).unwrap();
        if op == "jamcrc" && i % 4 == 0 {
            // the same string with the case of every letter flipped: must hash identically
            let t: Vec<u8> = s
                .iter()
                .map(|c| if c.is_ascii_alphabetic() { c ^ 0x20 } else { *c })
                .collect();
            writeln!(out, "jamcrc {}", hex(&t)).unwrap();
        }
    }
}

pub fn run(case: &str, input: &str) -> String {
    if case.starts_with("new ") {
        return crate::c10::run(case, input);
    }
    if case.starts_with("idxci ") {
        let f: Vec<&str> = input.split(' ').collect();
        if f.len() != 2 {
            return "bad-case".into();
        }
        return crate::c01::run_idx(f[0], f[1]);
    }
    let f: Vec<&str> = input.split(' ').collect();
    if f.len() != 2 {
        return "bad-case".into();
    }
    let Some(bytes) = unhex(f[1]) else { return "bad-case".into() };
    if f[0] == "sha1" {
        return crate::c10::sha1_via_fileinfo(&bytes);
    }
    let Ok(s) = String::from_utf8(bytes) else { return "bad-case".into() };
    match f[0] {
        "jamcrc" => guarded(move || physis::sqpack::SqPackIndex::calculate_partial_hash(&s).to_string()),
        "shcrc" => guarded(move || physis::shpk::ShaderPackage::crc(&s).to_string()),
        _ => "bad-case".into(),
    }
}

pub fn dump(out: &mut dyn Write) {}
