//! C12: path hash (JAMCRC of lower-cased bytes) and shader-key hash (CRC-32, init 0, no final xor).
//! SHA-1 digests (`sha1 <hex>`) go through `FileInfo::new` on a scratch file; the cases and the
//! runner are shared with C10 (`c10::sha1_cases`, `c10::sha1_via_fileinfo`).
#![allow(unused)]
use crate::util::*;
use std::io::Write;

fn ascii(rng: &mut Rng, n: usize) -> Vec<u8> {
    // all 128 code points, both cases; biased towards letters so that case folding matters
    (0..n)
        .map(|_| match rng.below(4) {
            0 => rng.range(b'A' as u64, b'Z' as u64) as u8,
            1 => rng.range(b'a' as u64, b'z' as u64) as u8,
            _ => rng.below(128) as u8,
        })
        .collect()
}

pub fn generate(thorough: bool, seed: u64, out: &mut dyn Write) {
    let mut rng = Rng::new(seed, "C12");
    // every ASCII string of length 0..=2 (exhaustive)
    for op in ["jamcrc", "shcrc"] {
        writeln!(out, "{} -", op).unwrap();
        for a in 0..128u8 {
            writeln!(out, "{} {}", op, hex(&[a])).unwrap();
        }
        let step = if thorough { 1 } else { 5 };
        for a in (0..128u8).step_by(step) {
            for b in 0..128u8 {
                writeln!(out, "{} {}", op, hex(&[a, b])).unwrap();
            }
        }
    }
    // SHA-1: lengths 0..=300, every padding boundary, random lengths, > 2 MiB (shared with C10)
    let mut rng_sha = Rng::new(seed, "C12-sha1");
    crate::c10::sha1_cases(&mut rng_sha, thorough, out);
    let n = if thorough { 200_000 } else { 4_000 };
    for i in 0..n {
        let len = match rng.below(10) {
            0 => rng.range(3, 16),
            1..=6 => rng.range(3, 200),
            7 | 8 => rng.range(200, 4096),
            _ => 4096,
        } as usize;
        let s = ascii(&mut rng, len);
        let op = if i % 3 == 2 { "shcrc" } else { "jamcrc" };
        writeln!(out, "{} {}", op, hex(&s)).unwrap();
        if op == "jamcrc" && i % 4 == 0 {
            // the same string with the case of every letter flipped: must hash identically
            let t: Vec<u8> = s
                .iter()
                .map(|c| if c.is_ascii_alphabetic() { c ^ 0x20 } else { *c })
                .collect();
            writeln!(out, "jamcrc {}", hex(&t)).unwrap();
        }
    }
}

pub fn run(case: &str, input: &str) -> String {
    let f: Vec<&str> = input.split(' ').collect();
    if f.len() != 2 {
        return "bad-case".into();
    }
    let Some(bytes) = unhex(f[1]) else { return "bad-case".into() };
    if f[0] == "sha1" {
        return crate::c10::sha1_via_fileinfo(&bytes);
    }
    let Ok(s) = String::from_utf8(bytes) else { return "bad-case".into() };
    match f[0] {
        "jamcrc" => guarded(move || physis::sqpack::SqPackIndex::calculate_partial_hash(&s).to_string()),
        "shcrc" => guarded(move || physis::shpk::ShaderPackage::crc(&s).to_string()),
        _ => "bad-case".into(),
    }
}

pub fn dump(out: &mut dyn Write) {}
