//! C18: damaged game data is rejected without crashing.
//!
//! Case grammar (one line, single spaces):
//!   `<fmt> <hex>`                         asset bytes -> `<Fmt>::from_existing`
//!   `exdrow <exh hex> <exd hex> <row id>`  EXH + EXD + `EXD::read_row`
//!   ... (see `run`)
//! Answers: `none` | `some` (outcome class; for entry points whose model is complete) or `ok`
//! (any non-crashing outcome; entry points that are covered by recorded findings only), or
//! `panic:<file>:<line>`; ` overalloc:<n>` is appended by `alloc::measured` when the heap grew out
//! of proportion.  `abort:<SIG>` / `timeout` are produced by the check's isolation loop.
#![allow(unused)]
use crate::alloc;
use crate::util::*;
use std::io::Write;

// ------------------------------------------------------------------------------------------
// run
// ------------------------------------------------------------------------------------------

pub fn cls<T>(o: Option<T>) -> String {
    if o.is_some() { "some".into() } else { "none".into() }
}

/// run one asset entry point on bytes under the panic guard and the allocation meter
pub fn asset<F: FnOnce(&[u8]) -> String + std::panic::UnwindSafe>(hexs: &str, f: F) -> String {
    let Some(b) = unhex(hexs) else { return "bad-case".into() };
    let len = b.len();
    alloc::measured(len, move || guarded(move || f(&b)))
}

pub fn run(case: &str, input: &str) -> String {
    let f: Vec<&str> = input.split(' ').collect();
    if f.len() < 2 {
        return "bad-case".into();
    }
    match (f[0], f.len()) {
        ("uld", 2) => asset(f[1], |b| cls(physis::uld::Uld::from_existing(b))),
        ("sgb", 2) => asset(f[1], |b| cls(physis::sgb::Sgb::from_existing(b))),
        ("scd", 2) => asset(f[1], |b| cls(physis::scd::Scd::from_existing(b))),
        ("hwc", 2) => asset(f[1], |b| cls(physis::hwc::Hwc::from_existing(b))),
        ("iwc", 2) => asset(f[1], |b| cls(physis::iwc::Iwc::from_existing(b))),
        ("tmb", 2) => asset(f[1], |b| cls(physis::tmb::Tmb::from_existing(b))),
        ("skp", 2) => asset(f[1], |b| cls(physis::skp::Skp::from_existing(b))),
        ("schd", 2) => asset(f[1], |b| cls(physis::schd::Schd::from_existing(b))),
        ("phyb", 2) => asset(f[1], |b| cls(physis::phyb::Phyb::from_existing(b))),
        ("pap", 2) => asset(f[1], |b| cls(physis::pap::Pap::from_existing(b))),
        ("sqdb", 2) => asset(f[1], |b| cls(physis::sqpack::SqPackDatabase::from_existing(b))),
        ("exh", 2) => asset(f[1], |b| cls(physis::exh::EXH::from_existing(b))),
        ("exd", 2) => asset(f[1], |b| cls(physis::exd::EXD::from_existing(b))),
        _ => {
            // the other parts of C18 live in their own modules
            for part in [
                crate::c18_fmt::run as fn(&[&str]) -> Option<String>,
                crate::c18_arc::run,
                crate::c18_mat::run,
                crate::c18_skel::run,
                crate::c18_mdl::run,
                crate::c18_pbc::run,
            ] {
                if let Some(a) = part(&f) {
                    return a;
                }
            }
            "bad-case".into()
        }
    }
}

// ------------------------------------------------------------------------------------------
// seeds
// ------------------------------------------------------------------------------------------

#[derive(Clone)]
pub struct Field {
    pub off: usize,
    pub width: usize,
    pub be: bool,
}

#[derive(Clone)]
pub struct Seed {
    pub op: String,
    pub bytes: Vec<u8>,
    /// fields worth corrupting (counts, offsets, sizes, enum tags, terminators)
    pub fields: Vec<Field>,
    /// structure boundaries (truncation points for large seeds)
    pub bounds: Vec<usize>,
    /// trailing query arguments of the case line
    pub extra: String,
}

/// little helper to build files and record the field map at the same time
pub struct B {
    pub v: Vec<u8>,
    pub fields: Vec<Field>,
    pub bounds: Vec<usize>,
    pub be: bool,
}

impl B {
    pub fn new(be: bool) -> Self {
        B { v: vec![], fields: vec![], bounds: vec![], be }
    }
    fn f(&mut self, w: usize) {
        self.fields.push(Field { off: self.v.len(), width: w, be: self.be });
    }
    pub fn u8(&mut self, x: u8) -> &mut Self {
        self.f(1);
        self.v.push(x);
        self
    }
    pub fn u16(&mut self, x: u16) -> &mut Self {
        self.f(2);
        if self.be { self.v.extend_from_slice(&x.to_be_bytes()) } else { self.v.extend_from_slice(&x.to_le_bytes()) }
        self
    }
    pub fn u32(&mut self, x: u32) -> &mut Self {
        self.f(4);
        if self.be { self.v.extend_from_slice(&x.to_be_bytes()) } else { self.v.extend_from_slice(&x.to_le_bytes()) }
        self
    }
    pub fn u64(&mut self, x: u64) -> &mut Self {
        self.f(8);
        if self.be { self.v.extend_from_slice(&x.to_be_bytes()) } else { self.v.extend_from_slice(&x.to_le_bytes()) }
        self
    }
    pub fn f32(&mut self, x: f32) -> &mut Self {
        self.u32(x.to_bits())
    }
    /// raw bytes; every byte is a corruptible field when `fields` (strings, tags)
    pub fn raw(&mut self, x: &[u8], fields: bool) -> &mut Self {
        if fields {
            for i in 0..x.len() {
                self.fields.push(Field { off: self.v.len() + i, width: 1, be: false });
            }
        }
        self.v.extend_from_slice(x);
        self
    }
    pub fn zeros(&mut self, n: usize) -> &mut Self {
        self.v.extend(std::iter::repeat(0u8).take(n));
        self
    }
    pub fn bound(&mut self) -> &mut Self {
        self.bounds.push(self.v.len());
        self
    }
    pub fn pos(&self) -> usize {
        self.v.len()
    }
    pub fn seed(self, op: &str) -> Seed {
        Seed { op: op.to_string(), bytes: self.v, fields: self.fields, bounds: self.bounds, extra: String::new() }
    }
}

fn sqpack_header(b: &mut B, file_type: u8) {
    b.raw(b"SqPack\0\0", true);
    b.u8(0).zeros(3); // platform
    b.u32(1024); // size
    b.u32(1); // version
    b.u8(file_type).zeros(3);
    b.u32(0).u32(0);
    b.u16(0xFFFF).zeros(2); // region = Global (-1)
    b.zeros(924);
    b.raw(&[0x11; 20], false);
    b.zeros(44);
    b.bound();
}

pub fn header_seeds(rng: &mut Rng) -> Vec<Seed> {
    let mut out = vec![];
    // uld
    let mut b = B::new(false);
    b.raw(b"uldh", true).raw(b"0100", true).u32(16).u32(32).zeros(8);
    out.push(b.seed("uld"));
    // sgb
    let mut b = B::new(false);
    b.raw(b"SGB1", true).u32(64).u32(1).zeros(8);
    out.push(b.seed("sgb"));
    // scd
    let mut b = B::new(false);
    b.raw(b"SEDB", true).raw(b"SSCF", true).u32(3).u32(0).u8(4).u16(0x30).u64(0x1122334455667788);
    b.zeros(4).u16(1).u16(1).u16(1).u16(0).u32(0x50).u32(0x60).u32(0x70).u32(0x80).u32(0x90).u16(0).zeros(2);
    b.zeros(16);
    out.push(b.seed("scd"));
    // hwc
    let mut b = B::new(false);
    b.raw(&rng.bytes(64 * 64 * 4), false);
    b.bounds = vec![0, 1, 4, 16383, 16384];
    b.fields = vec![];
    out.push(b.seed("hwc"));
    let mut b = B::new(false);
    b.raw(&rng.bytes(64 * 64 * 4 + 7), false);
    b.bounds = vec![16385];
    out.push(b.seed("hwc"));
    // iwc
    let mut b = B::new(false);
    b.u16(3).u16(0xFF).zeros(4);
    out.push(b.seed("iwc"));
    // tmb
    let mut b = B::new(false);
    b.raw(b"TMLB", true).u32(12).u32(0);
    out.push(b.seed("tmb"));
    // skp
    let mut b = B::new(false);
    b.u32(0x736b6c62).raw(b"0100", true).zeros(4);
    out.push(b.seed("skp"));
    // schd
    for stage in 0..2u8 {
        let mut b = B::new(false);
        b.raw(b"ShCd", true).raw(b"100", true).u8(stage).u32(0x43425844).u32(48).u32(32).u32(40).zeros(16);
        out.push(b.seed("schd"));
    }
    // phyb (both arms of the conditional field)
    for v0 in [0u8, 1u8] {
        let mut b = B::new(false);
        b.u8(v0).u8(0).u8(0).u8(0);
        if v0 > 0 {
            b.u32(7);
        }
        b.u32(0x10).u32(0x20).zeros(4);
        out.push(b.seed("phyb"));
    }
    // pap
    for ty in 0..4u8 {
        let mut b = B::new(false);
        b.raw(b"pap ", true).u32(0x20001).u16(2).u16(101).u8(ty).u32(1).u32(0x30).u32(0x40).u32(0x50).zeros(8);
        out.push(b.seed("pap"));
    }
    // sqdb: header, sqdb header, n entries
    for n in [0usize, 1, 3] {
        let mut b = B::new(false);
        sqpack_header(&mut b, 0);
        b.u32(1024).u32(0).zeros(1016).bound();
        for i in 0..n {
            b.zeros(4).u32(128 * i as u32).u32(64).zeros(4).u32(0xAABBCCDD).u32(0x11223344);
            let mut path = format!("exd/sheet{}.exh", i).into_bytes();
            path.resize(240, 0);
            let p0 = b.pos();
            b.raw(&path, false);
            // a few bytes of the path as corruptible fields (UTF-8 validity)
            for k in [0usize, 1, 13, 14, 239] {
                b.fields.push(Field { off: p0 + k, width: 1, be: false });
            }
            b.bound();
        }
        out.push(b.seed("sqdb"));
    }
    // exh
    for (cols, pages, langs) in [(0u16, 0u16, 0u16), (3, 1, 1), (8, 2, 3)] {
        let mut b = B::new(true);
        b.raw(b"EXHF", true).u16(3).u16(24).u16(cols).u16(pages).u16(langs).zeros(6).u32(10).zeros(8).bound();
        let types = [0u16, 1, 2, 3, 4, 5, 6, 7, 9, 10, 11, 0x19, 0x20];
        for i in 0..cols {
            b.u16(types[(i as usize * 5) % types.len()]).u16(i * 2);
        }
        b.bound();
        for i in 0..pages {
            b.u32(i as u32 * 100).u32(100);
        }
        b.bound();
        for i in 0..langs {
            b.u8((i % 8) as u8);
        }
        b.bound();
        b.zeros(3);
        out.push(b.seed("exh"));
    }
    // exd (header + offsets + two simple rows)
    for rows in [0u32, 1, 3] {
        let mut b = B::new(true);
        b.raw(b"EXDF", true).u16(2).zeros(2).u32(rows * 8).zeros(20).bound();
        let data_start = 32 + rows * 8;
        for i in 0..rows {
            b.u32(i + 1).u32(data_start + i * 16);
        }
        b.bound();
        for i in 0..rows {
            b.u32(10).u16(1).u32(i).u16(7).raw(b"ab\0\0", true);
            b.bound();
        }
        out.push(b.seed("exd"));
    }
    out
}

// ------------------------------------------------------------------------------------------
// mutation
// ------------------------------------------------------------------------------------------

pub fn emit(out: &mut dyn Write, op: &str, bytes: &[u8], extra: &str) {
    if extra.is_empty() {
        writeln!(out, "{} {}", op, hex(bytes)).unwrap();
    } else {
        writeln!(out, "{} {} {}", op, hex(bytes), extra).unwrap();
    }
}

pub fn put(bytes: &mut [u8], f: &Field, v: u64) {
    for i in 0..f.width {
        let sh = if f.be { 8 * (f.width - 1 - i) } else { 8 * i };
        if f.off + i < bytes.len() {
            bytes[f.off + i] = (v >> sh) as u8;
        }
    }
}

pub fn get(bytes: &[u8], f: &Field) -> u64 {
    let mut v = 0u64;
    for i in 0..f.width {
        let sh = if f.be { 8 * (f.width - 1 - i) } else { 8 * i };
        if f.off + i < bytes.len() {
            v |= (bytes[f.off + i] as u64) << sh;
        }
    }
    v
}

/// the single-field corruption values of the property's quantifier
pub fn corrupt_values(cur: u64, width: usize) -> Vec<u64> {
    let bits = 8 * width as u32;
    let mask = if bits >= 64 { u64::MAX } else { (1u64 << bits) - 1 };
    let mut v = vec![
        0,
        1,
        mask >> 1,          // 0x7F..
        (mask >> 1) + 1,    // 0x80..
        mask,               // 0xFF..
        cur.wrapping_add(1) & mask,
        cur.wrapping_sub(1) & mask,
    ];
    v.retain(|x| *x != cur);
    v.dedup();
    v
}

/// every truncation point (small seeds) or structure boundaries ±1 and random points (large),
/// every single-field corruption, plus a few random byte/bit flips
pub fn mutate(seed: &Seed, rng: &mut Rng, thorough: bool, out: &mut dyn Write) {
    let n = seed.bytes.len();
    emit(out, &seed.op, &seed.bytes, &seed.extra);
    // truncations
    let full_limit = if thorough { 8192 } else { 1200 };
    if n <= full_limit {
        for k in 0..n {
            emit(out, &seed.op, &seed.bytes[..k], &seed.extra);
        }
    } else {
        let mut pts: Vec<usize> = vec![0, 1, 2, 3, 4, 7, 8, n - 1];
        for b in &seed.bounds {
            for d in [-1i64, 0, 1] {
                let p = *b as i64 + d;
                if p >= 0 && (p as usize) < n {
                    pts.push(p as usize);
                }
            }
        }
        for f in &seed.fields {
            pts.push(f.off);
            pts.push(f.off + f.width - 1);
        }
        for _ in 0..(if thorough { 400 } else { 40 }) {
            pts.push(rng.below(n as u64) as usize);
        }
        pts.sort();
        pts.dedup();
        for k in pts {
            if k < n {
                emit(out, &seed.op, &seed.bytes[..k], &seed.extra);
            }
        }
    }
    // with trailing garbage
    let mut longer = seed.bytes.clone();
    longer.extend_from_slice(&rng.bytes(9));
    emit(out, &seed.op, &longer, &seed.extra);
    // single-field corruptions
    for f in &seed.fields {
        let cur = get(&seed.bytes, f);
        for v in corrupt_values(cur, f.width) {
            let mut m = seed.bytes.clone();
            put(&mut m, f, v);
            emit(out, &seed.op, &m, &seed.extra);
        }
    }
    // two fields corrupted at once (a count together with an offset, two dimensions, …)
    if seed.fields.len() >= 2 {
        let pairs = if thorough { 600 } else { 30 };
        for _ in 0..pairs {
            let f1 = &seed.fields[rng.below(seed.fields.len() as u64) as usize];
            let f2 = &seed.fields[rng.below(seed.fields.len() as u64) as usize];
            let mut m = seed.bytes.clone();
            for f in [f1, f2] {
                let vs = corrupt_values(get(&seed.bytes, f), f.width);
                if !vs.is_empty() {
                    let v = vs[rng.below(vs.len() as u64) as usize];
                    put(&mut m, f, v);
                }
            }
            emit(out, &seed.op, &m, &seed.extra);
        }
    }
    // runs of 2 and 3 consecutive fields set to the same extreme at once (dimensions, sizes and
    // counts of one record sit next to each other: width x height x depth, count + stride, …)
    if seed.fields.len() >= 2 {
        let nf = seed.fields.len();
        let starts: Vec<usize> = if nf <= 160 || thorough {
            (0..nf - 1).collect()
        } else {
            (0..160).map(|_| rng.below(nf as u64 - 1) as usize).collect()
        };
        for s0 in starts {
            for run in [2usize, 3] {
                if s0 + run > nf {
                    continue;
                }
                for class in 0..3 {
                    let mut m = seed.bytes.clone();
                    for f in &seed.fields[s0..s0 + run] {
                        let bits = 8 * f.width as u32;
                        let mask = if bits >= 64 { u64::MAX } else { (1u64 << bits) - 1 };
                        let v = match class {
                            0 => mask >> 1,
                            1 => (mask >> 1) + 1,
                            _ => mask,
                        };
                        put(&mut m, f, v);
                    }
                    emit(out, &seed.op, &m, &seed.extra);
                }
            }
        }
    }
    // random single-byte changes
    let flips = if thorough { 1000 } else { 24 };
    if n > 0 {
        for _ in 0..flips {
            let mut m = seed.bytes.clone();
            let i = rng.below(n as u64) as usize;
            m[i] = match rng.below(4) {
                0 => 0,
                1 => 0xFF,
                2 => m[i] ^ (1 << rng.below(8)),
                _ => rng.next() as u8,
            };
            emit(out, &seed.op, &m, &seed.extra);
        }
    }
}

/// random blobs for an entry point: empty, tiny, medium; with and without the right magic
pub fn blobs(op: &str, magic: &[u8], rng: &mut Rng, count: usize, big: bool, out: &mut dyn Write) {
    emit(out, op, &[], "");
    for i in 0..count {
        let len = match rng.below(10) {
            0 => rng.range(1, 8),
            1..=5 => rng.range(8, 128),
            6..=8 => rng.range(128, 4096),
            _ => rng.range(4096, 65536),
        } as usize;
        let mut b = rng.bytes(len);
        if i % 2 == 0 && !magic.is_empty() {
            for (k, m) in magic.iter().enumerate() {
                if k < b.len() {
                    b[k] = *m;
                }
            }
        }
        // sprinkle boundary words so that counts / offsets are often extreme
        if i % 3 == 0 && b.len() >= 16 {
            for _ in 0..4 {
                let p = rng.below(b.len() as u64 - 4) as usize;
                let w = rng.u32_edge().to_le_bytes();
                b[p..p + 4].copy_from_slice(&w);
            }
        }
        emit(out, op, &b, "");
    }
    if big {
        let mut b = rng.bytes(1 << 20);
        for (k, m) in magic.iter().enumerate() {
            b[k] = *m;
        }
        emit(out, op, &b, "");
    }
}

pub const HEADER_OPS: &[(&str, &[u8])] = &[
    ("uld", b"uldh"),
    ("sgb", b"SGB1"),
    ("scd", b"SEDB"),
    ("hwc", b""),
    ("iwc", b""),
    ("tmb", b"TMLB"),
    ("skp", b""),
    ("schd", b"ShCd"),
    ("phyb", b""),
    ("pap", b"pap "),
    ("sqdb", b"SqPack\0\0"),
    ("exh", b"EXHF"),
    ("exd", b"EXDF"),
];

pub fn generate(thorough: bool, seed: u64, out: &mut dyn Write) {
    // the parts write their cases one format after the other; the check splits the case file into
    // contiguous shards, so the lines are dealt round-robin into buckets first (deterministic) to give
    // every shard the same mix of cheap and expensive formats
    let mut buf: Vec<u8> = Vec::new();
    generate_all(thorough, seed, &mut buf);
    const BUCKETS: usize = 48;
    let mut buckets: Vec<Vec<&[u8]>> = vec![Vec::new(); BUCKETS];
    for (i, line) in buf.split(|b| *b == b'\n').filter(|l| !l.is_empty()).enumerate() {
        buckets[i % BUCKETS].push(line);
    }
    for b in buckets {
        for l in b {
            out.write_all(l).unwrap();
            out.write_all(b"\n").unwrap();
        }
    }
}

fn generate_all(thorough: bool, seed: u64, out: &mut dyn Write) {
    let mut rng = Rng::new(seed, "C18");
    for s in header_seeds(&mut rng) {
        mutate(&s, &mut rng, thorough, out);
    }
    for (op, magic) in HEADER_OPS {
        blobs(op, magic, &mut rng, if thorough { 400 } else { 30 }, *op == "exd" || *op == "sqdb" || thorough, out);
    }
    crate::c18_fmt::generate(thorough, seed, out);
    crate::c18_arc::generate(thorough, seed, out);
    crate::c18_mat::generate(thorough, seed, out);
    crate::c18_skel::generate(thorough, seed, out);
    crate::c18_mdl::generate(thorough, seed, out);
    crate::c18_pbc::generate(thorough, seed, out);
}

/// T2: the discriminant tables of the `repr` / magic enums the header grammars depend on, read off the
/// **compiled** parsers through the public API by sweeping the whole u8 / u16 domain of the field in a
/// minimal valid file (`from_existing(..).is_some()` ⟺ the value is a variant).  Printed as Lean
/// source (`Generated/C18Enums.lean`) on every run of the check; the models use these tables.
pub fn dump(out: &mut dyn Write) {
    let mut rng = Rng::new(1, "C18-dump");
    let seeds = header_seeds(&mut rng);
    let find = |op: &str, pred: &dyn Fn(&Seed) -> bool| -> Vec<u8> {
        seeds.iter().find(|s| s.op == op && pred(s)).expect("seed").bytes.clone()
    };
    let sweep = |name: &str, base: &[u8], off: usize, width: usize, be: bool, max: u32, ok: &dyn Fn(&[u8]) -> bool, out: &mut dyn Write| {
        let mut vals: Vec<u32> = vec![];
        let mut b = base.to_vec();
        for v in 0..=max {
            for i in 0..width {
                let sh = if be { 8 * (width - 1 - i) } else { 8 * i };
                b[off + i] = (v >> sh) as u8;
            }
            if ok(&b) {
                vals.push(v);
            }
        }
        let list = vals.iter().map(|v| v.to_string()).collect::<Vec<_>>().join(", ");
        writeln!(out, "def {} : List Nat := [{}]", name, list).unwrap();
    };
    writeln!(out, "-- GENERATED by `harness C18 dump` from the compiled code (T2: exhaustive sweep of the field's").unwrap();
    writeln!(out, "-- whole u8 / u16 domain through the public parsers) — do not edit, rewritten by ./check on every run").unwrap();
    writeln!(out, "namespace Physis.Generated.C18").unwrap();
    let sqdb = find("sqdb", &|s| s.bytes.len() == 2048);
    let is_sqdb = |b: &[u8]| physis::sqpack::SqPackDatabase::from_existing(b).is_some();
    writeln!(out, "/-- `Platform` (`src/common.rs`, repr u8) -/").unwrap();
    sweep("platformIds", &sqdb, 8, 1, false, 255, &is_sqdb, out);
    writeln!(out, "/-- `SqPackFileType` (`src/sqpack/mod.rs`, repr u8) -/").unwrap();
    sweep("sqpackFileTypes", &sqdb, 20, 1, false, 255, &is_sqdb, out);
    writeln!(out, "/-- `Region` (`src/common.rs`, repr i16) as u16 bit patterns -/").unwrap();
    sweep("regionIds", &sqdb, 32, 2, false, 65535, &is_sqdb, out);
    let exh = find("exh", &|s| s.bytes[8] == 0 && s.bytes[9] == 3); // 3 columns, 1 page, 1 language
    let is_exh = |b: &[u8]| physis::exh::EXH::from_existing(b).is_some();
    writeln!(out, "/-- `ColumnDataType` (`src/exh.rs`, repr u16) -/").unwrap();
    sweep("columnTypes", &exh, 32, 2, true, 65535, &is_exh, out);
    writeln!(out, "/-- `Language` (`src/common.rs`, repr u8) -/").unwrap();
    sweep("languageIds", &exh, 32 + 3 * 4 + 8, 1, false, 255, &is_exh, out);
    // texture formats: a header with zero dimensions parses for every variant
    let mut tex = vec![0u8; 80];
    tex[2] = 0x80;
    let is_tex = |b: &[u8]| physis::tex::Texture::from_existing(b).is_some();
    writeln!(out, "/-- `TextureFormat` (`src/tex.rs`, repr u32): the variants below 2^16 -/").unwrap();
    sweep("texFormats", &tex, 4, 2, false, 65535, &is_tex, out);
    let pap = find("pap", &|_| true);
    writeln!(out, "/-- `SkeletonType` (`src/pap.rs`, u8 magics) -/").unwrap();
    sweep("skeletonTypes", &pap, 12, 1, false, 255, &|b| physis::pap::Pap::from_existing(b).is_some(), out);
    let schd = find("schd", &|_| true);
    writeln!(out, "/-- `ShaderStage` (`src/schd.rs`, u8 magics) -/").unwrap();
    sweep("shaderStages", &schd, 7, 1, false, 255, &|b| physis::schd::Schd::from_existing(b).is_some(), out);
    // index type: through a file on disk
    let idx = crate::c18_arc::index_file(&[], false).v;
    let td = TempDir::new("c18dump");
    let path = td.path().join("x.index");
    let ps = path.to_str().unwrap().to_string();
    let is_idx = |b: &[u8]| {
        std::fs::write(&path, b).unwrap();
        physis::sqpack::SqPackIndex::from_existing(&ps).is_some()
    };
    writeln!(out, "/-- `IndexType` (`src/sqpack/index.rs`, repr u8) -/").unwrap();
    sweep("indexTypes", &idx, 1024 + 4 + 76 + 72 * 3, 1, false, 255, &is_idx, out);
    writeln!(out, "end Physis.Generated.C18").unwrap();
}
