//! Counting global allocator for the crash / resource checks (C17, C18).
//! Tracks live bytes, peak live bytes and the largest single request since the last `reset()`.
//! It never fails an allocation itself; a request the OS cannot satisfy aborts the process,
//! which the check's isolation loop reports as `abort:<signal>` for that case.
#![allow(dead_code)]
use std::alloc::{GlobalAlloc, Layout, System};
use std::sync::atomic::{AtomicUsize, Ordering::Relaxed};

pub struct Counting;

static LIVE: AtomicUsize = AtomicUsize::new(0);
static PEAK: AtomicUsize = AtomicUsize::new(0);
static MAXREQ: AtomicUsize = AtomicUsize::new(0);
static TOTAL: AtomicUsize = AtomicUsize::new(0);

#[inline]
fn on_alloc(n: usize) {
    let live = LIVE.fetch_add(n, Relaxed) + n;
    PEAK.fetch_max(live, Relaxed);
    MAXREQ.fetch_max(n, Relaxed);
    TOTAL.fetch_add(n, Relaxed);
}

unsafe impl GlobalAlloc for Counting {
    unsafe fn alloc(&self, l: Layout) -> *mut u8 {
        on_alloc(l.size());
        unsafe { System.alloc(l) }
    }
    unsafe fn alloc_zeroed(&self, l: Layout) -> *mut u8 {
        on_alloc(l.size());
        unsafe { System.alloc_zeroed(l) }
    }
    unsafe fn dealloc(&self, p: *mut u8, l: Layout) {
        LIVE.fetch_sub(l.size(), Relaxed);
        unsafe { System.dealloc(p, l) }
    }
    unsafe fn realloc(&self, p: *mut u8, l: Layout, new: usize) -> *mut u8 {
        if new > l.size() {
            on_alloc(new - l.size());
        } else {
            LIVE.fetch_sub(l.size() - new, Relaxed);
        }
        unsafe { System.realloc(p, l, new) }
    }
}

#[derive(Debug, Clone, Copy)]
pub struct Snapshot {
    pub live: usize,
    pub peak: usize,
    pub max_request: usize,
    pub total: usize,
}

/// start a measurement window: peak := live, max_request := 0, total := 0
pub fn reset() -> Snapshot {
    let live = LIVE.load(Relaxed);
    PEAK.store(live, Relaxed);
    MAXREQ.store(0, Relaxed);
    TOTAL.store(0, Relaxed);
    Snapshot { live, peak: live, max_request: 0, total: 0 }
}

pub fn snapshot() -> Snapshot {
    Snapshot {
        live: LIVE.load(Relaxed),
        peak: PEAK.load(Relaxed),
        max_request: MAXREQ.load(Relaxed),
        total: TOTAL.load(Relaxed),
    }
}

/// The allocation budget of C17/C18: memory "in proportion to the input".
pub fn budget(input_len: usize) -> usize {
    64 * input_len + (1 << 24)
}

/// Runs `f` and appends ` overalloc:<bytes>` to its answer when the peak heap growth or the
/// largest single request exceeded `budget(input_len)`.
pub fn measured<F: FnOnce() -> String>(input_len: usize, f: F) -> String {
    let before = reset();
    let mut s = f();
    let after = snapshot();
    let grown = after.peak.saturating_sub(before.live);
    let worst = grown.max(after.max_request);
    if worst > budget(input_len) {
        s.push_str(&format!(" overalloc:{}", worst));
    }
    s
}
