//! C17: untrusted user and launcher files never crash the caller.
//!
//! Cases are `<entry> <hex bytes>` (inputs are arbitrary byte strings, so the seed files are
//! built here and every case carries the raw bytes), `pl_write <kind> <abstract list>`, and
//! (see `c17_io.rs`) `apply …`, `execlookup …`, `bootdata …` for the path-taking entry points, and
//! (see `c17_leak.rs`) `leak <n> <any of these>`: the case repeated in one process, nothing may pile up.
//! `run` wraps every call in `guarded` + `alloc::measured` and prints one canonical outcome
//! line: `none` | `some:<digest>` | `ok:<digest>…` | `err` | `panic:<file>:<line>`, with
//! ` overalloc:<n>` appended when the allocation budget `64·|input| + 2^24` was exceeded.
//! The digest is FNV-1a-64 over a canonical byte string that the Lean driver builds from the
//! fault model's value in the same way (`Base/StrF.lean` `dNat`/`dBytes`/`dLossy`).
#![allow(unused)]
use crate::util::*;
use std::io::Write;

// ------------------------------------------------------------------------------------------
// canonical digests
// ------------------------------------------------------------------------------------------
pub struct D(pub Vec<u8>);
impl D {
    pub fn new() -> Self {
        D(Vec::new())
    }
    pub fn nat(&mut self, n: u128) {
        self.0.extend_from_slice(n.to_string().as_bytes());
        self.0.push(0xFF);
    }
    pub fn int(&mut self, n: i128) {
        self.0.extend_from_slice(n.to_string().as_bytes());
        self.0.push(0xFF);
    }
    pub fn bytes(&mut self, b: &[u8]) {
        self.0.extend_from_slice(b.len().to_string().as_bytes());
        self.0.push(b':');
        self.0.extend_from_slice(b);
        self.0.push(0xFF);
    }
    /// a string that went through a lossy decoder
    pub fn lossy(&mut self, s: &str) {
        if s.contains('\u{FFFD}') {
            self.0.extend_from_slice(&[0xFE, 0xFF]);
        } else {
            self.bytes(s.as_bytes());
        }
    }
    pub fn hex(&self) -> String {
        format!("{:016x}", fnv1a(&self.0))
    }
}

pub fn fnv1a(b: &[u8]) -> u64 {
    let mut h: u64 = 0xcbf29ce484222325;
    for x in b {
        h = (h ^ *x as u64).wrapping_mul(0x100000001b3);
    }
    h
}

fn some(d: D) -> String {
    format!("some:{}", d.hex())
}

// ------------------------------------------------------------------------------------------
// run: in-memory entry points
// ------------------------------------------------------------------------------------------
fn run_cfg(b: &[u8]) -> String {
    match physis::cfg::ConfigFile::from_existing(b) {
        None => "none".into(),
        Some(c) => {
            let mut d = D::new();
            d.nat(c.categories.len() as u128);
            let mut seen = std::collections::HashSet::new();
            for name in &c.categories {
                d.bytes(name.as_bytes());
                if !seen.insert(name.clone()) {
                    continue;
                }
                match c.settings.get(name) {
                    None => d.nat(0),
                    Some(m) => {
                        d.nat(m.keys.len() as u128 + 1);
                        for (k, v) in &m.keys {
                            d.bytes(k.as_bytes());
                            d.bytes(v.as_bytes());
                        }
                    }
                }
            }
            some(d)
        }
    }
}

fn run_exl(b: &[u8]) -> String {
    match physis::exl::EXL::from_existing(b) {
        None => "none".into(),
        Some(e) => {
            let mut d = D::new();
            d.int(e.version as i128);
            d.nat(e.entries.len() as u128);
            for (n, v) in &e.entries {
                d.bytes(n.as_bytes());
                d.int(*v as i128);
            }
            some(d)
        }
    }
}

fn run_fiin(b: &[u8]) -> String {
    match physis::fiin::FileInfo::from_existing(b) {
        None => "none".into(),
        Some(f) => {
            let mut d = D::new();
            d.nat(f.entries.len() as u128);
            for e in &f.entries {
                d.int(e.file_size as i128);
                d.lossy(&e.file_name);
                d.bytes(&e.sha1);
            }
            some(d)
        }
    }
}

fn run_chardat(b: &[u8]) -> String {
    match physis::chardat::CharacterData::from_existing(b) {
        None => "none".into(),
        Some(c) => {
            let mut d = D::new();
            d.nat(c.version as u128);
            let z = &c.customize;
            let f: [u8; 27] = [
                z.race.clone() as u8,
                z.gender.clone() as u8,
                z.age,
                z.height,
                z.tribe.clone() as u8,
                z.face,
                z.hair,
                z.enable_highlights as u8,
                z.skin_tone,
                z.right_eye_color,
                z.hair_tone,
                z.highlights,
                z.facial_features,
                z.facial_feature_color,
                z.eyebrows,
                z.left_eye_color,
                z.eyes,
                z.nose,
                z.jaw,
                z.mouth,
                z.lips_tone_fur_pattern,
                z.race_feature_size,
                z.race_feature_type,
                z.bust,
                z.face_paint,
                z.face_paint_color,
                z.voice,
            ];
            for x in f {
                d.nat(x as u128);
            }
            d.nat(c.timestamp as u128);
            d.lossy(&c.comment);
            some(d)
        }
    }
}

fn run_gearsets(b: &[u8]) -> String {
    match physis::gearsets::GearSets::from_existing(b) {
        None => "none".into(),
        Some(g) => {
            let mut d = D::new();
            d.nat(g.current_gearset as u128);
            d.nat(g.gearsets.len() as u128);
            for s in &g.gearsets {
                match s {
                    None => d.0.extend_from_slice(&[0x4E, 0xFF]),
                    Some(s) => {
                        d.nat(s.index as u128);
                        d.lossy(&s.name);
                        let mut slots: Vec<(usize, u32, u32)> = s
                            .slots
                            .iter()
                            .map(|(k, v)| (k.clone() as usize, v.id, v.glamour_id.unwrap_or(0)))
                            .collect();
                        slots.sort();
                        d.nat(slots.len() as u128);
                        for (i, id, gl) in slots {
                            d.nat(i as u128);
                            d.nat(id as u128);
                            d.nat(gl as u128);
                        }
                        d.nat(s.facewear.unwrap_or(0) as u128);
                    }
                }
            }
            some(d)
        }
    }
}

fn run_log(b: &[u8]) -> String {
    match physis::log::ChatLog::from_existing(b) {
        None => "none".into(),
        Some(l) => {
            let mut d = D::new();
            d.nat(l.entries.len() as u128);
            for e in l.entries {
                d.nat(e.filter as u32 as u128);
                d.nat(e.channel as u32 as u128);
                d.lossy(&e.message);
            }
            some(d)
        }
    }
}

fn digest_patches(ps: &[physis::patchlist::PatchEntry]) -> D {
    let mut d = D::new();
    d.nat(ps.len() as u128);
    for p in ps {
        d.bytes(p.url.as_bytes());
        d.bytes(p.version.as_bytes());
        d.int(p.hash_block_size as i128);
        d.int(p.length as i128);
        d.int(p.size_on_disk as i128);
        d.nat(p.hashes.len() as u128);
        for h in &p.hashes {
            d.bytes(h.as_bytes());
        }
    }
    d
}

fn kind(game: bool) -> physis::patchlist::PatchListType {
    if game { physis::patchlist::PatchListType::Game } else { physis::patchlist::PatchListType::Boot }
}

fn run_pl(game: bool, b: &[u8]) -> String {
    let Ok(s) = std::str::from_utf8(b) else { return "not-utf8".into() };
    let l = physis::patchlist::PatchList::from_string(kind(game), s);
    let d1 = digest_patches(&l.patches);
    let out = l.to_string(kind(game));
    let mut d2 = D::new();
    d2.bytes(out.as_bytes());
    format!("ok:{}:{}", d1.hex(), d2.hex())
}

/// `pl_write <boot|game> <len,size,hbs,nhashes;…>`: url "u<i>", version "v<i>", hashes "h0",…
fn parse_pl_write(f: &[&str]) -> Option<(bool, Vec<(i64, i64, i64, usize)>)> {
    if f.len() != 3 {
        return None;
    }
    let game = match f[1] {
        "boot" => false,
        "game" => true,
        _ => return None,
    };
    let mut v = vec![];
    if f[2] != "-" {
        for e in f[2].split(';') {
            let p: Vec<&str> = e.split(',').collect();
            if p.len() != 4 {
                return None;
            }
            v.push((p[0].parse().ok()?, p[1].parse().ok()?, p[2].parse().ok()?, p[3].parse().ok()?));
        }
    }
    Some((game, v))
}

fn run_pl_write(game: bool, es: &[(i64, i64, i64, usize)]) -> String {
    let patches = es
        .iter()
        .enumerate()
        .map(|(i, (len, size, hbs, nh))| physis::patchlist::PatchEntry {
            url: format!("u{}", i),
            version: format!("v{}", i),
            hash_block_size: *hbs,
            length: *len,
            size_on_disk: *size,
            hashes: (0..*nh).map(|j| format!("h{}", j)).collect(),
            unknown_a: 0,
            unknown_b: 0,
        })
        .collect();
    let l = physis::patchlist::PatchList {
        id: "ID".into(),
        patch_length: 0,
        content_location: "loc".into(),
        requested_version: "".into(),
        patches,
    };
    let out = l.to_string(kind(game));
    let mut d = D::new();
    d.bytes(out.as_bytes());
    format!("ok:{}", d.hex())
}

pub fn run(case: &str, input: &str) -> String {
    let f: Vec<&str> = input.split(' ').collect();
    if f.is_empty() {
        return "bad-case".into();
    }
    match f[0] {
        "cfg" | "exl" | "fiin" | "chardat" | "gearsets" | "log" | "pl_boot" | "pl_game" => {
            if f.len() != 2 {
                return "bad-case".into();
            }
            let Some(b) = unhex(f[1]) else { return "bad-case".into() };
            let op = f[0].to_string();
            let n = b.len();
            crate::alloc::measured(n, move || {
                guarded(move || match op.as_str() {
                    "cfg" => run_cfg(&b),
                    "exl" => run_exl(&b),
                    "fiin" => run_fiin(&b),
                    "chardat" => run_chardat(&b),
                    "gearsets" => run_gearsets(&b),
                    "log" => run_log(&b),
                    "pl_boot" => run_pl(false, &b),
                    _ => run_pl(true, &b),
                })
            })
        }
        "pl_write" => {
            let Some((game, es)) = parse_pl_write(&f) else { return "bad-case".into() };
            crate::alloc::measured(input.len(), move || guarded(move || run_pl_write(game, &es)))
        }
        "apply" | "applyfull" | "execlookup" | "bootdata" => crate::c17_io::run(&f),
        "leak" => crate::c17_leak::run(&f),
        _ => "bad-case".into(),
    }
}

// ------------------------------------------------------------------------------------------
// seeds
// ------------------------------------------------------------------------------------------
/// (offset, width, big_endian) of every header / record field of a seed
pub type Fields = Vec<(usize, usize, bool)>;

pub fn seed_cfg() -> Vec<u8> {
    b"\r\n<Version>\r\nGuidVersion\t1\r\nConfigVersion\t7\r\n\r\n<Display Settings>\r\nMainAdapter\tNVIDIA \xc3\xa9\r\nFPS\t2\r\n<Empty>\r\n<Version>\r\nLang\t\r\n\0".to_vec()
}

pub fn seed_exl() -> Vec<u8> {
    b"EXLT,2\nAchievement,209\nAction,4\n#comment,5\ncontent/Foo,-1\nBar,+7\nBaz,2147483647".to_vec()
}

pub fn seed_fiin(n: usize) -> (Vec<u8>, Fields) {
    let mut v = b"FileInfo".to_vec();
    v.extend_from_slice(&[0; 16]);
    v.extend_from_slice(&1024i32.to_le_bytes());
    v.extend_from_slice(&((n * 96) as i32).to_le_bytes());
    v.extend_from_slice(&[0; 992]);
    let mut fields: Fields = vec![(0, 4, false), (4, 4, false), (24, 4, false), (28, 4, false)];
    for i in 0..n {
        let o = v.len();
        fields.push((o, 4, false));
        fields.push((o + 8, 1, false));
        fields.push((o + 72, 1, false));
        v.extend_from_slice(&((1000 + i) as i32).to_le_bytes());
        v.extend_from_slice(&[0; 4]);
        let mut name = format!("file{}.ex\u{e9}", i).into_bytes();
        name.resize(64, 0);
        v.extend_from_slice(&name);
        v.extend((0..24).map(|j| if j < 20 { (i * 7 + j) as u8 } else { 0 }));
    }
    (v, fields)
}

pub fn seed_chardat() -> (Vec<u8>, Fields) {
    let mut v = 0x2013FF14u32.to_le_bytes().to_vec();
    v.extend_from_slice(&4u32.to_le_bytes()); // version
    v.extend_from_slice(&0x1234u32.to_le_bytes()); // checksum
    v.extend_from_slice(&[0; 4]);
    v.extend_from_slice(&[
        4, 1, 1, 50, 8, 2, 5, 1, 160, 91, 111, 12, 0, 6, 2, 91, 1, 2, 1, 3, 1, 50, 1, 25, 0, 2, 112,
    ]);
    v.push(0);
    v.extend_from_slice(&1_700_000_000u32.to_le_bytes());
    let mut c = "Custom Comment Text \u{2605}!".as_bytes().to_vec();
    c.resize(164, 0);
    v.extend_from_slice(&c);
    let mut fields: Fields = vec![(0, 4, false), (4, 4, false), (8, 4, false), (12, 4, false), (44, 4, false)];
    for i in 16..44 {
        fields.push((i, 1, false));
    }
    (v, fields)
}

const GEARSET_KEY: u8 = 0x73;

/// a gear-set file with sets at the given indices; returns plain payload offsets as fields
pub fn seed_gearsets(sets: &[usize]) -> (Vec<u8>, Fields) {
    let mut p = vec![0u8, 3, 0, 0];
    let mut fields: Fields = vec![(0, 4, false), (4, 4, false), (8, 4, false), (12, 4, false), (16, 1, false), (17, 1, false), (18, 1, false), (19, 2, false)];
    for i in 0..100 {
        let o = 17 + p.len();
        let mut g = vec![i as u8];
        let mut name = if sets.contains(&i) { format!("Set {} \u{266b}", i).into_bytes() } else { vec![] };
        name.resize(47, 0);
        g.extend_from_slice(&name);
        g.extend_from_slice(&0x0102030405060708u64.to_le_bytes());
        for s in 0..14 {
            let id: u32 = if sets.contains(&i) && s % 3 != 2 { (1_000_000u32 | (30000 + (i * 14 + s) as u32)) } else { 0 };
            let gl: u32 = if s % 2 == 0 { 0 } else { 777 + s as u32 };
            g.extend_from_slice(&id.to_le_bytes());
            g.extend_from_slice(&gl.to_le_bytes());
            g.extend_from_slice(&[s as u8; 20]);
        }
        g.extend_from_slice(&(if i % 2 == 0 { 0u32 } else { 9000 + i as u32 }).to_le_bytes());
        if sets.contains(&i) || i < 2 {
            fields.push((o, 1, false));
            fields.push((o + 1, 1, false));
            fields.push((o + 47, 1, false));
            fields.push((o + 48, 8, false));
            fields.push((o + 56, 4, false));
            fields.push((o + 60, 4, false));
            fields.push((o + 448, 4, false));
        }
        p.extend_from_slice(&g);
    }
    let mut v = 0x006d0005u32.to_le_bytes().to_vec();
    v.extend_from_slice(&45205u32.to_le_bytes());
    v.extend_from_slice(&((p.len() + 1) as u32).to_le_bytes());
    v.extend_from_slice(&[0; 4]);
    v.push(0xFF);
    v.extend(p.iter().map(|x| x ^ GEARSET_KEY));
    (v, fields)
}

/// chat log with the given messages; (filter, channel, message)
pub fn seed_log(msgs: &[(u8, u8, &[u8])]) -> (Vec<u8>, Fields) {
    // content_size = 0-ish so that `file_size - content_size` is the entry count
    let n = msgs.len() as u32;
    let content_size = 3u32;
    let file_size = content_size + n;
    let mut v = content_size.to_le_bytes().to_vec();
    v.extend_from_slice(&file_size.to_le_bytes());
    let mut fields: Fields = vec![(0, 4, false), (4, 4, false)];
    // offsets are relative to 8 + file_size * 4; the table itself is n words, so the first
    // entry starts at 8 + 4n, i.e. at relative offset 4n - 4·file_size (wraps) — keep it simple:
    // pad the table area up to 8 + 4·file_size
    let table_end = 8 + 4 * file_size as usize;
    let mut rel = 0u32;
    let mut body = vec![];
    for (i, (f, c, m)) in msgs.iter().enumerate() {
        fields.push((8 + 4 * i, 4, false));
        v.extend_from_slice(&rel.to_le_bytes());
        let o = table_end + body.len();
        fields.push((o, 4, false));
        fields.push((o + 4, 1, false));
        fields.push((o + 5, 1, false));
        fields.push((o + 6, 4, false));
        body.extend_from_slice(&(1_600_000_000u32 + i as u32).to_le_bytes());
        body.push(*f);
        body.push(*c);
        body.extend_from_slice(&1u32.to_le_bytes());
        body.extend_from_slice(m);
        rel = body.len() as u32;
    }
    v.resize(table_end, 0);
    v.extend_from_slice(&body);
    (v, fields)
}

pub fn seed_patchlist(game: bool, rows: usize) -> Vec<u8> {
    let mut s = String::from("--477D80B1_38BC_41d4_8B48_5273ADB89CAC\r\nContent-Type: application/octet-stream\r\nContent-Location: ffxivpatch/x/metainfo/D2023.04.28.0000.0001.http\r\nX-Patch-Length: 22221335\r\n\r\n");
    for i in 0..rows {
        if game {
            s.push_str(&format!("{}\t{}\t71\t11\t2023.09.15.0000.000{}\tsha1\t50000000\t{}\thttp://patch-dl.ffxiv.com/game/4e9a232b/D2023.09.15.0000.000{}.patch\r\n",
                1479062470 + i, 44145529682u64 + i as u64, i, ["1c66becde2a8cf26a99d0fc7c06f15f8bab2d87c,950725418366c965d824228bf20f0496f81e0b9a", "aa", ""][i % 3], i));
        } else {
            s.push_str(&format!("{}\t69674819\t19\t18\t2023.09.14.0000.000{}\thttp://patch-dl.ffxiv.com/boot/2b5cbc63/D2023.09.14.0000.000{}.patch\r\n", 22221335 + i, i, i));
        }
    }
    s.push_str("--477D80B1_38BC_41d4_8B48_5273ADB89CAC--\r\n");
    s.into_bytes()
}

// ------------------------------------------------------------------------------------------
// mutation engine
// ------------------------------------------------------------------------------------------
fn put(v: &mut [u8], off: usize, w: usize, be: bool, val: u64) {
    for k in 0..w {
        let byte = (val >> (8 * k)) as u8;
        let idx = if be { off + w - 1 - k } else { off + k };
        if idx < v.len() {
            v[idx] = byte;
        }
    }
}

fn get(v: &[u8], off: usize, w: usize, be: bool) -> u64 {
    let mut x = 0u64;
    for k in 0..w {
        let idx = if be { off + w - 1 - k } else { off + k };
        if idx < v.len() {
            x |= (v[idx] as u64) << (8 * k);
        }
    }
    x
}

/// every single-field corruption {0, 1, 0x7F.., 0x80.., 0xFF.., ±1} of every field
pub fn field_corruptions(seed: &[u8], fields: &Fields, emit: &mut dyn FnMut(Vec<u8>)) {
    for &(off, w, be) in fields {
        let bits = 8 * w as u32;
        let mask = if bits == 64 { u64::MAX } else { (1u64 << bits) - 1 };
        let orig = get(seed, off, w, be);
        let vals = [
            0,
            1,
            mask >> 1,
            (mask >> 1) + 1,
            mask,
            orig.wrapping_add(1) & mask,
            orig.wrapping_sub(1) & mask,
            2,
            mask - 1,
        ];
        for val in vals {
            if val == orig {
                continue;
            }
            let mut v = seed.to_vec();
            put(&mut v, off, w, be, val);
            emit(v);
        }
    }
}

/// truncation points: all of them for seeds ≤ `all_below`, otherwise the first 64, every field
/// boundary (±1) and `extra` pseudo-random points
pub fn truncations(seed: &[u8], fields: &Fields, all_below: usize, extra: usize, rng: &mut Rng, emit: &mut dyn FnMut(Vec<u8>)) {
    let mut pts: Vec<usize> = vec![];
    if seed.len() <= all_below {
        pts.extend(0..seed.len());
    } else {
        pts.extend(0..64.min(seed.len()));
        for &(off, w, _) in fields {
            for p in [off.wrapping_sub(1), off, off + 1, off + w - 1, off + w] {
                if p < seed.len() {
                    pts.push(p);
                }
            }
        }
        for _ in 0..extra {
            pts.push(rng.below(seed.len() as u64) as usize);
        }
        pts.push(seed.len() - 1);
    }
    pts.sort();
    pts.dedup();
    for p in pts {
        emit(seed[..p].to_vec());
    }
}

/// invalid UTF-8 / missing NULs in a fixed-size string field
pub fn string_corruptions(seed: &[u8], off: usize, len: usize, emit: &mut dyn FnMut(Vec<u8>)) {
    let pats: [&[u8]; 8] = [&[0xFF], &[0xC3, 0x28], &[0xE2, 0x82], &[0xED, 0xA0, 0x80], &[0xF4, 0x90, 0x80, 0x80], &[0xC0, 0x80], &[0xEF, 0xBF, 0xBD], &[0x80]];
    for pat in pats {
        for pos in [0usize, 1, len / 2, len.saturating_sub(pat.len()), len.saturating_sub(1)] {
            let mut v = seed.to_vec();
            for (k, b) in pat.iter().enumerate() {
                if pos + k < len && off + pos + k < v.len() {
                    v[off + pos + k] = *b;
                }
            }
            emit(v);
        }
    }
    // no NUL at all, all NUL, NUL first
    for fill in [b'A', 0u8, 0xE9] {
        let mut v = seed.to_vec();
        for k in 0..len {
            if off + k < v.len() {
                v[off + k] = fill;
            }
        }
        emit(v);
    }
    let mut v = seed.to_vec();
    if off < v.len() {
        v[off] = 0;
    }
    emit(v);
}

/// text mutations: at every position insert / replace / delete with structure characters
pub fn text_mutations(seed: &[u8], specials: &[&[u8]], stride: usize, emit: &mut dyn FnMut(Vec<u8>)) {
    let mut i = 0;
    while i <= seed.len() {
        for sp in specials {
            let mut v = seed[..i].to_vec();
            v.extend_from_slice(sp);
            v.extend_from_slice(&seed[i..]);
            emit(v);
            if i < seed.len() {
                let mut v = seed[..i].to_vec();
                v.extend_from_slice(sp);
                v.extend_from_slice(&seed[i + 1..]);
                emit(v);
            }
        }
        if i < seed.len() {
            let mut v = seed[..i].to_vec();
            v.extend_from_slice(&seed[i + 1..]);
            emit(v);
        }
        i += stride;
    }
}

/// all strings of length ≤ n over an alphabet
pub fn small_strings(alpha: &[u8], n: usize, emit: &mut dyn FnMut(Vec<u8>)) {
    let mut cur: Vec<Vec<u8>> = vec![vec![]];
    emit(vec![]);
    for _ in 0..n {
        let mut next = vec![];
        for c in &cur {
            for a in alpha {
                let mut v = c.clone();
                v.push(*a);
                emit(v.clone());
                next.push(v);
            }
        }
        cur = next;
    }
}

pub fn generate(thorough: bool, seed: u64, out: &mut dyn Write) {
    let mut rng = Rng::new(seed, "C17");
    let mut count = 0usize;
    macro_rules! emit_for {
        ($op:expr) => {
            &mut |v: Vec<u8>| {
                writeln!(out, "{} {}", $op, hex(&v)).unwrap();
            }
        };
    }

    // ---------------- cfg ----------------
    {
        let s = seed_cfg();
        writeln!(out, "cfg {}", hex(&s)).unwrap();
        truncations(&s, &vec![], 4096, 0, &mut rng, emit_for!("cfg"));
        let sp: [&[u8]; 10] = [b"<", b">", b"\t", b"\n", b"\r", b"\0", &[0xC3], &[0xC3, 0xA9], &[0xFF], b"<>"];
        text_mutations(&s, &sp, if thorough { 1 } else { 3 }, emit_for!("cfg"));
        small_strings(&[b'<', b'>', b'\t', b'\n', b'\r', 0, b'a', 0xC3, 0xA9, 0xE2, 0x98, 0x85], if thorough { 4 } else { 3 }, emit_for!("cfg"));
    }
    // ---------------- exl ----------------
    {
        let s = seed_exl();
        writeln!(out, "exl {}", hex(&s)).unwrap();
        truncations(&s, &vec![], 4096, 0, &mut rng, emit_for!("exl"));
        let sp: [&[u8]; 12] = [b",", b"#", b"\n", b"\r", b"-", b"+", b"9", b"99999999999", b"\0", &[0xC3], &[0xFF], b"EXLT,"];
        text_mutations(&s, &sp, if thorough { 1 } else { 2 }, emit_for!("exl"));
        small_strings(&[b',', b'#', b'\n', b'\r', b'-', b'+', b'0', b'9', b'a', 0xC3, 0xA9], if thorough { 4 } else { 3 }, emit_for!("exl"));
        for v in ["2147483647", "2147483648", "-2147483648", "-2147483649", "+0", "-0", "+-1", "", " 1", "1 ", "0x10", "00000000000000000000001"] {
            writeln!(out, "exl {}", hex(format!("EXLT,{}\nFoo,{}", v, v).as_bytes())).unwrap();
        }
    }
    // ---------------- fiin ----------------
    for n in [0usize, 1, 3] {
        let (s, fields) = seed_fiin(n);
        writeln!(out, "fiin {}", hex(&s)).unwrap();
        field_corruptions(&s, &fields, emit_for!("fiin"));
        truncations(&s, &fields, 0, if thorough { 400 } else { 40 }, &mut rng, emit_for!("fiin"));
        for i in 0..n {
            string_corruptions(&s, 1024 + 96 * i + 8, 64, emit_for!("fiin"));
        }
        // entries_size values around multiples of 96 and negative
        for es in [95i32, 96, 97, 191, 192, 96 * (n as i32 + 1), -1, -96, -97, i32::MIN, i32::MAX, 96 * 1000, 96 * 100000] {
            let mut v = s.clone();
            v[28..32].copy_from_slice(&es.to_le_bytes());
            writeln!(out, "fiin {}", hex(&v)).unwrap();
        }
    }
    // ---------------- chardat ----------------
    {
        let (s, fields) = seed_chardat();
        writeln!(out, "chardat {}", hex(&s)).unwrap();
        field_corruptions(&s, &fields, emit_for!("chardat"));
        truncations(&s, &fields, 4096, 0, &mut rng, emit_for!("chardat"));
        string_corruptions(&s, 48, 164, emit_for!("chardat"));
        // every value of the three enum bytes
        for off in [16usize, 17, 20] {
            for b in 0..=255u8 {
                let mut v = s.clone();
                v[off] = b;
                writeln!(out, "chardat {}", hex(&v)).unwrap();
            }
        }
    }
    // ---------------- gearsets ----------------
    {
        // short files: header only, every content_size
        let (s, fields) = seed_gearsets(&[0, 1, 5, 99]);
        writeln!(out, "gearsets {}", hex(&s)).unwrap();
        for cs in [0u32, 1, 2, 3, 45204, 45205, 45206, 0x7FFF_FFFF, 0x8000_0000, 0xFFFF_FFFF, 0xFFFF_FFFE] {
            for keep in [17usize, 18, 40, s.len()] {
                let mut v = s[..keep].to_vec();
                v[8..12].copy_from_slice(&cs.to_le_bytes());
                writeln!(out, "gearsets {}", hex(&v)).unwrap();
            }
        }
        let hdr_fields: Fields = fields.iter().cloned().filter(|f| f.0 < 21).collect();
        field_corruptions(&s, &hdr_fields, emit_for!("gearsets"));
        truncations(&s[..600], &hdr_fields, 100, 0, &mut rng, emit_for!("gearsets"));
        let rec_fields: Fields = fields.iter().cloned().filter(|f| f.0 >= 21).collect();
        let rec_fields: Fields = if thorough { rec_fields } else { rec_fields.into_iter().take(21).collect() };
        // record fields are stored XORed: corrupt the plain value
        let mut plain = s.clone();
        for b in plain[17..].iter_mut() {
            *b ^= GEARSET_KEY;
        }
        field_corruptions(&plain, &rec_fields, &mut |mut v: Vec<u8>| {
            for b in v[17..].iter_mut() {
                *b ^= GEARSET_KEY;
            }
            writeln!(out, "gearsets {}", hex(&v)).unwrap();
        });
        // names: no NUL within 47 bytes (the reader runs on), invalid UTF-8, all-NUL
        for set in [0usize, 5, 99] {
            let off = 17 + 4 + 452 * set + 1;
            string_corruptions(&plain, off, 47, &mut |mut v: Vec<u8>| {
                for b in v[17..].iter_mut() {
                    *b ^= GEARSET_KEY;
                }
                writeln!(out, "gearsets {}", hex(&v)).unwrap();
            });
        }
        // no NUL anywhere in the payload
        let mut v = plain.clone();
        for b in v[21..].iter_mut() {
            if *b == 0 {
                *b = b'x';
            }
        }
        for b in v[17..].iter_mut() {
            *b ^= GEARSET_KEY;
        }
        writeln!(out, "gearsets {}", hex(&v)).unwrap();
        truncations(&s, &rec_fields, 0, if thorough { 300 } else { 20 }, &mut rng, emit_for!("gearsets"));
        let (s2, _) = seed_gearsets(&[]);
        writeln!(out, "gearsets {}", hex(&s2)).unwrap();
    }
    // ---------------- log ----------------
    {
        let msgs: Vec<(u8, u8, &[u8])> = vec![
            (3, 0, b"Welcome to Eorzea!"),
            (69, 3, "caf\u{e9} \u{2605}".as_bytes()),
            (170, 59, &[0xFF, 0x41, 0xC3]),
            (64, 32, b""),
        ];
        for k in [0usize, 1, 4] {
            let (s, fields) = seed_log(&msgs[..k]);
            writeln!(out, "log {}", hex(&s)).unwrap();
            field_corruptions(&s, &fields, emit_for!("log"));
            truncations(&s, &fields, 4096, 0, &mut rng, emit_for!("log"));
            // all pairs of small header values
            if k == 1 {
                for cs in 0..6u32 {
                    for fs in 0..6u32 {
                        let mut v = s.clone();
                        v[0..4].copy_from_slice(&cs.to_le_bytes());
                        v[4..8].copy_from_slice(&fs.to_le_bytes());
                        writeln!(out, "log {}", hex(&v)).unwrap();
                    }
                }
                // every filter / channel byte
                let eo = 8 + 4 * 4;
                for b in 0..=255u8 {
                    let mut v = s.clone();
                    v[eo + 4] = b;
                    writeln!(out, "log {}", hex(&v)).unwrap();
                    let mut v = s.clone();
                    v[eo + 5] = b;
                    writeln!(out, "log {}", hex(&v)).unwrap();
                }
            }
            if k == 4 {
                // offsets: decreasing, equal, beyond the end, huge
                for (i, val) in [(0usize, 50u32), (1, 0), (1, 5), (2, 1000), (3, 0xFFFF_FFF0), (2, 29), (1, 27), (1, 29)] {
                    let mut v = s.clone();
                    v[8 + 4 * i..12 + 4 * i].copy_from_slice(&val.to_le_bytes());
                    writeln!(out, "log {}", hex(&v)).unwrap();
                }
            }
        }
        small_strings(&[0, 1, 2, 8, 0xFF], if thorough { 5 } else { 4 }, emit_for!("log"));
        // 8-byte headers over a grid, followed by nothing / a few bytes
        for cs in [0u32, 1, 8, 9, 0x3FFF_FFFF, 0x4000_0000, 0xFFFF_FFFF] {
            for fs in [0u32, 1, 2, 8, 9, 12, 0x3FFF_FFFF, 0x4000_0000, 0x4000_0001, 0xFFFF_FFFF] {
                for tail in [0usize, 4, 16, 40] {
                    let mut v = cs.to_le_bytes().to_vec();
                    v.extend_from_slice(&fs.to_le_bytes());
                    v.extend(std::iter::repeat(0u8).take(tail));
                    writeln!(out, "log {}", hex(&v)).unwrap();
                }
            }
        }
    }
    // ---------------- patch lists ----------------
    for game in [false, true] {
        let op = if game { "pl_game" } else { "pl_boot" };
        for rows in [0usize, 1, 3] {
            let s = seed_patchlist(game, rows);
            writeln!(out, "{} {}", op, hex(&s)).unwrap();
            // both parsers on both kinds of list
            writeln!(out, "{} {}", if game { "pl_boot" } else { "pl_game" }, hex(&s)).unwrap();
            if rows == 0 || rows == 3 && !thorough {
                truncations(&s, &vec![], 0, 60, &mut rng, emit_for!(op));
                continue;
            }
            truncations(&s, &vec![], 4096, 0, &mut rng, emit_for!(op));
            let sp: [&[u8]; 9] = [b"\t", b"\r\n", b"\r", b"\n", b",", b"-", b"x", b"99999999999999999999", "\u{e9}".as_bytes()];
            text_mutations(&s, &sp, if thorough { 1 } else { 5 }, emit_for!(op));
            // characters whose lower- / upper-case form has a different UTF-8 length (U+0130, U+212A,
            // U+1E9E, U+FB01) in front of the list, inside it and in front of a list cut right behind
            // its length header: a byte index found in a case-mapped copy must never slice the original
            let hdr = s.windows(16).position(|w| w == b"X-Patch-Length: ").unwrap_or(0);
            for pre in ["\u{130}", "\u{212a}", "\u{1e9e}", "\u{fb01}", "\u{130}\u{130}\u{130}", "x\u{212a}y", "\u{130}\u{212a}"] {
                for at in [0usize, hdr, hdr + 16, s.len()] {
                    let at = at.min(s.len());
                    let mut v = s[..at].to_vec();
                    v.extend_from_slice(pre.as_bytes());
                    v.extend_from_slice(&s[at..]);
                    writeln!(out, "{} {}", op, hex(&v)).unwrap();
                }
                for cut in [hdr + 15, hdr + 16, hdr + 17, hdr + 18, hdr + 20] {
                    let mut v = pre.as_bytes().to_vec();
                    v.extend_from_slice(&s[..cut.min(s.len())]);
                    writeln!(out, "{} {}", op, hex(&v)).unwrap();
                    v.extend_from_slice(pre.as_bytes());
                    writeln!(out, "{} {}", op, hex(&v)).unwrap();
                }
            }
        }
        // numeric columns
        let s = String::from_utf8(seed_patchlist(game, 1)).unwrap();
        let row_start = s.find("\r\n\r\n").unwrap() + 4;
        let row_end = row_start + s[row_start..].find("\r\n").unwrap();
        let cols: Vec<&str> = s[row_start..row_end].split('\t').collect();
        for c in 0..cols.len() {
            for val in ["", "-", "+", "abc", "9223372036854775807", "9223372036854775808", "-9223372036854775808", "-9223372036854775809", "1e3", " 1", "+5", "-0", "0"] {
                let mut cs: Vec<String> = cols.iter().map(|x| x.to_string()).collect();
                cs[c] = val.to_string();
                let t = format!("{}{}{}", &s[..row_start], cs.join("\t"), &s[row_end..]);
                writeln!(out, "{} {}", op, hex(t.as_bytes())).unwrap();
                // two such rows: the written total overflows
                let t2 = format!("{}{}\r\n{}{}", &s[..row_start], cs.join("\t"), cs.join("\t"), &s[row_end..]);
                writeln!(out, "{} {}", op, hex(t2.as_bytes())).unwrap();
            }
            // drop columns from c on
            let t = format!("{}{}{}", &s[..row_start], cols[..c].join("\t"), &s[row_end..]);
            writeln!(out, "{} {}", op, hex(t.as_bytes())).unwrap();
        }
        // number of `\r\n`-separated parts 1..9 with a well-formed row at every position
        let row = &s[row_start..row_end];
        for parts in 1..10usize {
            for at in 0..parts {
                let v: Vec<&str> = (0..parts).map(|i| if i == at { row } else { "x" }).collect();
                writeln!(out, "{} {}", op, hex(v.join("\r\n").as_bytes())).unwrap();
            }
        }
        small_strings(&[b'\r', b'\n', b'\t', b'1', b','], if thorough { 6 } else { 5 }, emit_for!(op));
        writeln!(out, "{} {}", op, hex(&[0xFF, 0xFE])).unwrap();
    }
    // to_string on constructed lists
    {
        let big = i64::MAX;
        let small = i64::MIN;
        let lens = [0i64, 1, -1, big, small, big - 1, 1 << 62];
        for game in ["boot", "game"] {
            writeln!(out, "pl_write {} -", game).unwrap();
            for nh in 0..3usize {
                for a in lens {
                    writeln!(out, "pl_write {} {},5,6,{}", game, a, nh).unwrap();
                    for b in lens {
                        writeln!(out, "pl_write {} {},5,6,{};{},{},{},{}", game, a, nh, b, a, b, (nh + 1) % 3).unwrap();
                    }
                }
            }
            let n = if thorough { 2000 } else { 100 };
            for _ in 0..n {
                let k = rng.range(1, 5);
                let es: Vec<String> = (0..k)
                    .map(|_| {
                        let v = |r: &mut Rng| match r.below(4) {
                            0 => *r.pick(&lens),
                            1 => r.next() as i64,
                            _ => r.below(1 << 40) as i64,
                        };
                        format!("{},{},{},{}", v(&mut rng), v(&mut rng), v(&mut rng), rng.below(4))
                    })
                    .collect();
                writeln!(out, "pl_write {} {}", game, es.join(";")).unwrap();
            }
        }
    }
    // ---------------- random blobs ----------------
    {
        let ops = ["cfg", "exl", "fiin", "chardat", "gearsets", "log"];
        let sizes: &[usize] = if thorough { &[7, 100, 4096, 65536, 1 << 20] } else { &[7, 100, 4096, 1 << 20] };
        for (i, op) in ops.iter().enumerate() {
            for &n in sizes {
                if n == 1 << 20 && !thorough && i % 3 != 0 {
                    continue;
                }
                let reps = if n <= 4096 { if thorough { 200 } else { 10 } } else { 1 };
                for _ in 0..reps {
                    let mut b = rng.bytes(n);
                    // half of the blobs get the right magic so that the header stage is passed
                    if rng.chance(1, 2) {
                        let magic: &[u8] = match *op {
                            "fiin" => b"FileInfo",
                            "chardat" => &[0x14, 0xFF, 0x13, 0x20],
                            "gearsets" => &[0x05, 0x00, 0x6D, 0x00],
                            _ => &[],
                        };
                        for (k, m) in magic.iter().enumerate() {
                            if k < b.len() {
                                b[k] = *m;
                            }
                        }
                    }
                    writeln!(out, "{} {}", op, hex(&b)).unwrap();
                }
            }
        }
        // ASCII-ish random text for the line-based readers
        for op in ["cfg", "exl", "pl_boot", "pl_game"] {
            let n = if thorough { 3000 } else { 150 };
            for _ in 0..n {
                let len = rng.range(0, 200) as usize;
                let alpha: &[u8] = b"<>\t\r\n,#-+0123456789abcXYZ \0";
                let v: Vec<u8> = (0..len).map(|_| *rng.pick(alpha)).collect();
                writeln!(out, "{} {}", op, hex(&v)).unwrap();
            }
        }
    }
    crate::c17_io::generate(thorough, &mut rng, out);
    crate::c17_leak::generate(thorough, &mut rng, out);
}

// ------------------------------------------------------------------------------------------
// T2: enum tables of the `repr = u8` enums, from the compiled code
// ------------------------------------------------------------------------------------------
pub fn dump(out: &mut dyn Write) {
    let args: Vec<String> = std::env::args().collect();
    if args.get(3).map(|s| s.as_str()) != Some("enums") {
        return;
    }
    install_panic_hook();
    let (cd, _) = seed_chardat();
    let mut tab = |off: usize, which: usize| -> Vec<u8> {
        let mut ok = vec![];
        for b in 0..=255u8 {
            let mut v = cd.clone();
            v[off] = b;
            if let Some(c) = physis::chardat::CharacterData::from_existing(&v) {
                let got = match which {
                    0 => c.customize.race.clone() as u8,
                    1 => c.customize.gender.clone() as u8,
                    _ => c.customize.tribe.clone() as u8,
                };
                assert_eq!(got, b);
                ok.push(b);
            }
        }
        ok
    };
    let race = tab(16, 0);
    let gender = tab(17, 1);
    let tribe = tab(20, 2);
    let (lg, _) = seed_log(&[(3, 0, b"x")]);
    let eo = 8 + 4 * 4;
    let mut filter = vec![];
    let mut channel = vec![];
    for b in 0..=255u8 {
        let mut v = lg.clone();
        v[eo + 4] = b;
        let r = std::panic::catch_unwind(|| physis::log::ChatLog::from_existing(&v));
        if let Ok(Some(l)) = r {
            if let Some(e) = l.entries.into_iter().next() {
                filter.push((b, e.filter as u32));
            }
        }
        let mut v = lg.clone();
        v[eo + 5] = b;
        let r = std::panic::catch_unwind(|| physis::log::ChatLog::from_existing(&v));
        if let Ok(Some(l)) = r {
            if let Some(e) = l.entries.into_iter().next() {
                channel.push((b, e.channel as u32));
            }
        }
    }
    let list = |v: &[u8]| v.iter().map(|x| x.to_string()).collect::<Vec<_>>().join(", ");
    let pairs = |v: &[(u8, u32)]| v.iter().map(|(a, b)| format!("({}, {})", a, b)).collect::<Vec<_>>().join(", ");
    writeln!(out, "/-! GENERATED by `harness C17 dump enums` from the compiled Physis code (T2). Do not edit. -/").unwrap();
    writeln!(out, "namespace Physis.Generated.C17Enums").unwrap();
    writeln!(out, "def raceValid : List Nat := [{}]", list(&race)).unwrap();
    writeln!(out, "def genderValid : List Nat := [{}]", list(&gender)).unwrap();
    writeln!(out, "def tribeValid : List Nat := [{}]", list(&tribe)).unwrap();
    writeln!(out, "/-- byte ↦ discriminant of `EventFilter` -/").unwrap();
    writeln!(out, "def filterTable : List (Nat × Nat) := [{}]", pairs(&filter)).unwrap();
    writeln!(out, "/-- byte ↦ discriminant of `EventChannel` -/").unwrap();
    writeln!(out, "def channelTable : List (Nat × Nat) := [{}]", pairs(&channel)).unwrap();
    writeln!(out, "end Physis.Generated.C17Enums").unwrap();
}
