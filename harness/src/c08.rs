//! C08: configuration files (`src/cfg.rs`) and Excel lists (`src/exl.rs`) survive parse / edit / write.
//!
//! Abstract cases (grammar shared with `lean/PhysisModel/Driver/C08.lean`):
//!   cfg  <config> <edits> <probes>     parse the documented file, observe, set_value*, observe
//!   cfgw <config> <presence>           build the ConfigFile value directly, write, parse back
//!   exl  <version> <rows> <probes>     parse the documented list file, observe, write, parse back
//!   exlw <version> <entries>           build the EXL value directly, write, parse back
//! The files themselves are produced by the Lean `Spec/` encoders (the `<input>` column of the
//! driver's answer); nothing here writes the formats.
#![allow(unused)]
use crate::util::*;
use physis::cfg::{ConfigFile, ConfigMap};
use physis::exl::EXL;
use std::collections::HashMap;
use std::io::Write;

// ------------------------------------------------------------------------------------------
// generator
// ------------------------------------------------------------------------------------------

const MULTI: [&str; 8] = ["é", "ß", "あ", "設定", "😀", "Ω", "ñ", "—"];

/// text over the quantifier's alphabet: printable ASCII + multi-byte UTF-8, minus `excluded`
fn text(rng: &mut Rng, max: usize, excluded: &[u8]) -> Vec<u8> {
    let n = match rng.below(8) {
        0 => 0,
        1 => 1,
        2..=5 => rng.range(1, 8) as usize,
        _ => rng.range(0, max as u64) as usize,
    };
    let mut v = Vec::new();
    while v.len() < n {
        match rng.below(10) {
            0 => v.extend_from_slice(rng.pick(&MULTI).as_bytes()),
            1 => v.push(b' '),
            2 | 3 => v.push(rng.range(b'0' as u64, b'9' as u64) as u8),
            4..=6 => v.push(rng.range(b'a' as u64, b'z' as u64) as u8),
            7 => v.push(rng.range(b'A' as u64, b'Z' as u64) as u8),
            _ => {
                let c = rng.range(0x20, 0x7e) as u8;
                if !excluded.contains(&c) {
                    v.push(c)
                }
            }
        }
    }
    v
}

const CFG_STRUCT: &[u8] = b"<>";

fn cfg_value(rng: &mut Rng) -> Vec<u8> {
    let mut v = text(rng, 40, CFG_STRUCT);
    // a value may carry a TAB (only the first TAB of a line separates key and value)
    if rng.chance(1, 25) {
        let mut at = rng.below(v.len() as u64 + 1) as usize;
        while at < v.len() && (v[at] & 0xC0) == 0x80 {
            at += 1; // stay on a char boundary
        }
        v.insert(at, 9);
    }
    v
}

fn pair(k: &[u8], v: &[u8]) -> String {
    format!("{}={}", hex(k), hex(v))
}

struct CfgCase {
    cats: Vec<(Vec<u8>, Vec<(Vec<u8>, Vec<u8>)>)>,
    edits: Vec<(Vec<u8>, Vec<u8>)>,
    probes: Vec<Vec<u8>>,
}

fn show_config(cats: &[(Vec<u8>, Vec<(Vec<u8>, Vec<u8>)>)]) -> String {
    if cats.is_empty() {
        return ".".into();
    }
    cats.iter()
        .map(|(n, kvs)| {
            let mut s = hex(n);
            for (k, v) in kvs {
                s.push(',');
                s.push_str(&pair(k, v));
            }
            s
        })
        .collect::<Vec<_>>()
        .join(";")
}

fn show_list(xs: &[String]) -> String {
    if xs.is_empty() {
        ".".into()
    } else {
        xs.join(",")
    }
}

fn cfg_line(c: &CfgCase) -> String {
    format!(
        "cfg {} {} {}",
        show_config(&c.cats),
        show_list(&c.edits.iter().map(|(k, v)| pair(k, v)).collect::<Vec<_>>()),
        show_list(&c.probes.iter().map(|p| hex(p)).collect::<Vec<_>>())
    )
}

fn random_cfg(rng: &mut Rng) -> CfgCase {
    // a small pool of keys so that keys repeat within and across categories
    let npool = rng.range(1, 6) as usize;
    let mut pool: Vec<Vec<u8>> = (0..npool).map(|_| text(rng, 24, b"<>")).collect();
    if rng.chance(1, 6) {
        pool.push(vec![]); // the empty key
    }
    let ncat = match rng.below(10) {
        0 => 0,
        1 => 1,
        2..=7 => rng.range(1, 5),
        _ => rng.range(5, 12),
    } as usize;
    let mut cats: Vec<(Vec<u8>, Vec<(Vec<u8>, Vec<u8>)>)> = Vec::new();
    for _ in 0..ncat {
        let mut name = text(rng, 30, b"");
        if rng.chance(1, 10) {
            // a name that is also a key
            name = rng.pick(&pool).clone();
        }
        if name.contains(&b'<') || name.contains(&b'>') {
            // the quantifier excludes structural characters from names
            name.retain(|c| *c != b'<' && *c != b'>');
        }
        if cats.iter().any(|(n, _)| *n == name) {
            continue; // distinct category names
        }
        let nkeys = match rng.below(10) {
            0 | 1 => 0,
            2..=7 => rng.range(1, 5),
            _ => rng.range(5, 20),
        } as usize;
        let kvs = (0..nkeys)
            .map(|_| {
                let k = if rng.chance(3, 4) { rng.pick(&pool).clone() } else { text(rng, 24, b"<>") };
                (k, cfg_value(rng))
            })
            .collect();
        cats.push((name, kvs));
    }
    let nedit = if rng.chance(1, 5) { 0 } else { rng.range(1, 10) as usize };
    let all_keys: Vec<Vec<u8>> = cats.iter().flat_map(|(_, kvs)| kvs.iter().map(|(k, _)| k.clone())).collect();
    let edits = (0..nedit)
        .map(|_| {
            let k = match rng.below(6) {
                0 => text(rng, 12, b"<>"),                                   // (most likely) absent key
                1 if !cats.is_empty() => rng.pick(&cats).0.clone(),           // a category name as key
                _ if !all_keys.is_empty() => rng.pick(&all_keys).clone(),     // present (maybe duplicated) key
                _ => rng.pick(&pool).clone(),
            };
            (k, cfg_value(rng))
        })
        .collect::<Vec<_>>();
    let mut probes: Vec<Vec<u8>> = Vec::new();
    for (n, _) in &cats {
        if rng.chance(2, 3) {
            probes.push(n.clone());
        }
    }
    for k in &pool {
        if rng.chance(2, 3) {
            probes.push(k.clone());
        }
    }
    for (k, v) in &edits {
        if rng.chance(1, 3) {
            probes.push(k.clone());
        }
        if rng.chance(1, 6) {
            probes.push(v.clone());
        }
    }
    probes.push(text(rng, 10, b"<>"));
    CfgCase { cats, edits, probes }
}

fn exl_name(rng: &mut Rng) -> Vec<u8> {
    loop {
        let mut n = match rng.below(12) {
            0 => b"EXLT2".to_vec(),
            1 => b"exlt".to_vec(),
            2 => b"a#b".to_vec(),
            3 => b"exd/Item".to_vec(),
            _ => text(rng, 30, b","),
        };
        n.retain(|c| *c != b',');
        if n.first() == Some(&b'#') || n == b"EXLT" {
            continue;
        }
        return n;
    }
}

fn i32_edge(rng: &mut Rng) -> i32 {
    match rng.below(12) {
        0 => 0,
        1 => -1,
        2 => i32::MAX,
        3 => i32::MIN,
        4 => i32::MIN + 1,
        5 => rng.range(0, 9) as i32,
        6 => -(rng.range(1, 9) as i32),
        7 => rng.range(10, 100000) as i32,
        8 => *rng.pick(&[9, 10, 99, 100, 999, 1000, 999_999_999, 1_000_000_000, -10, -100, -999_999_999, -1_000_000_000, 2_000_000_000, -2_000_000_000]),
        _ => rng.next() as u32 as i32,
    }
}

fn random_exl(rng: &mut Rng, direct: bool) -> String {
    let version = i32_edge(rng);
    let nrows = match rng.below(10) {
        0 => 0,
        1 => 1,
        2..=7 => rng.range(1, 12),
        _ => rng.range(12, 200),
    } as usize;
    let mut rows = Vec::new();
    let mut names: Vec<Vec<u8>> = Vec::new();
    for _ in 0..nrows {
        if !direct && rng.chance(1, 6) {
            // a comment row: `#…`, possibly looking like an entry or like the header
            let mut t = b"#".to_vec();
            match rng.below(5) {
                0 => {}
                1 => t.extend_from_slice(format!("{},{}", String::from_utf8_lossy(&exl_name(rng)), i32_edge(rng)).as_bytes()),
                2 => t.extend_from_slice(b"EXLT,7"),
                3 => t.extend_from_slice(b",5"),
                _ => t.extend(text(rng, 30, b"")),
            }
            rows.push(format!("C{}", hex(&t)));
        } else {
            let n = if !names.is_empty() && rng.chance(1, 8) { rng.pick(&names).clone() } else { exl_name(rng) };
            rows.push(format!("E{}={}", hex(&n), i32_edge(rng)));
            names.push(n);
        }
    }
    if direct {
        return format!("exlw {} {}", version, show_list(&rows));
    }
    let mut probes: Vec<String> = Vec::new();
    for n in &names {
        if rng.chance(1, 3) {
            probes.push(hex(n));
            // case matters
            let flipped: Vec<u8> = n.iter().map(|c| if c.is_ascii_alphabetic() { c ^ 0x20 } else { *c }).collect();
            if rng.chance(1, 3) {
                probes.push(hex(&flipped));
            }
        }
    }
    probes.push(hex(&exl_name(rng)));
    probes.push(hex(b"EXLT"));
    probes.push(hex(b"#c"));
    if probes.len() > 24 {
        probes.truncate(24);
    }
    format!("exl {} {} {}", version, show_list(&rows), show_list(&probes))
}

pub fn generate(thorough: bool, seed: u64, out: &mut dyn Write) {
    let mut rng = Rng::new(seed, "C08");

    // ---- exhaustive sweep of small configurations: up to 3 categories A, B, (empty name),
    // each with 0..=2 lines over the keys {k, j}; edit k:=1 ; probes over every name and key
    let names: [&[u8]; 3] = [b"A", b"B", b""];
    let keysets: [&[&[u8]]; 7] = [&[], &[b"k"], &[b"j"], &[b"k", b"k"], &[b"k", b"j"], &[b"j", b"k"], &[b""]];
    let probes: Vec<Vec<u8>> = vec![b"k".to_vec(), b"j".to_vec(), b"A".to_vec(), b"B".to_vec(), vec![], b"z".to_vec()];
    for ncat in 0..=3usize {
        let combos = keysets.len().pow(ncat as u32);
        for code in 0..combos {
            let mut c = code;
            let mut cats = Vec::new();
            for i in 0..ncat {
                let ks = keysets[c % keysets.len()];
                c /= keysets.len();
                cats.push((
                    names[i].to_vec(),
                    ks.iter().enumerate().map(|(j, k)| (k.to_vec(), format!("v{}{}", i, j).into_bytes())).collect(),
                ));
            }
            for edits in [vec![], vec![(b"k".to_vec(), b"1".to_vec())], vec![(b"k".to_vec(), b"1".to_vec()), (b"".to_vec(), b"".to_vec()), (b"k".to_vec(), b"2".to_vec())]] {
                if ncat == 3 && edits.len() == 3 && !thorough {
                    continue;
                }
                writeln!(out, "{}", cfg_line(&CfgCase { cats: cats.clone(), edits, probes: probes.clone() })).unwrap();
            }
            if ncat <= 2 {
                // the same value built directly, with every presence pattern for key-less categories
                for pres in 0..(1u32 << ncat) {
                    let bits: String = (0..ncat).map(|i| if pres >> i & 1 == 1 { '1' } else { '0' }).collect();
                    writeln!(out, "cfgw {} {}", show_config(&cats), if ncat == 0 { ".".to_string() } else { bits }).unwrap();
                }
            }
        }
    }

    // ---- every 32-bit boundary id / version through the list format
    for v in [0i32, 1, -1, 9, 10, -9, -10, 99, 100, i32::MAX, i32::MIN, i32::MAX - 1, i32::MIN + 1, 1_000_000_000, -1_000_000_000, 999_999_999, 2_000_000_000] {
        writeln!(out, "exl {} E466f6f={} 466f6f,666f6f", v, v).unwrap();
        writeln!(out, "exlw {} E466f6f={}", v, v).unwrap();
    }
    writeln!(out, "exl 0 . 466f6f").unwrap();
    writeln!(out, "exlw 0 .").unwrap();

    // ---- large files: a configuration / a sheet list whose written form lies on either side of
    // 2^16 bytes and well beyond it (a fixed read buffer, a 16-bit length or an early stop shows
    // only there); edits and probes in the head, around the 64 KiB mark and in the tail
    for (ncat, nkeys) in if thorough { vec![(36usize, 60usize), (40, 60), (90, 60), (300, 100), (3, 2000)] } else { vec![(36, 60), (40, 60), (110, 60)] } {
        let cats: Vec<(Vec<u8>, Vec<(Vec<u8>, Vec<u8>)>)> = (0..ncat)
            .map(|i| {
                (
                    format!("Category {:03}", i).into_bytes(),
                    (0..nkeys).map(|j| (format!("Key{:03}_{:04}", i, j).into_bytes(), format!("{}", rng.below(100000)).into_bytes())).collect(),
                )
            })
            .collect();
        let pick = |i: usize, j: usize| format!("Key{:03}_{:04}", i, j).into_bytes();
        let marks = [(0usize, 0usize), (ncat / 2, nkeys / 2), (ncat - 1, nkeys - 1), (ncat - 1, 0)];
        let edits: Vec<(Vec<u8>, Vec<u8>)> = marks.iter().map(|&(i, j)| (pick(i, j), b"edited".to_vec())).collect();
        let mut probes: Vec<Vec<u8>> = marks.iter().map(|&(i, j)| pick(i, j)).collect();
        probes.push(format!("Category {:03}", ncat - 1).into_bytes());
        probes.push(b"Category 000".to_vec());
        probes.push(b"absent".to_vec());
        writeln!(out, "{}", cfg_line(&CfgCase { cats, edits, probes })).unwrap();
    }
    for nrows in if thorough { vec![3000usize, 5000, 70000] } else { vec![3000, 5000] } {
        // ~ 16 bytes per row: 3000 rows < 2^16 bytes < 5000 rows; 70000 rows > 2^16 rows
        let rows: Vec<String> = (0..nrows).map(|i| format!("E{}={}", hex(format!("sheet/Name{:06}", i).as_bytes()), i as i32 - 7)).collect();
        let probes = [0, nrows / 2, nrows - 1].iter().map(|i| hex(format!("sheet/Name{:06}", i).as_bytes())).collect::<Vec<_>>().join(",");
        writeln!(out, "exl 7 {} {},{}", rows.join(","), probes, hex(b"sheet/absent")).unwrap();
    }

    // ---- random stream
    let n = if thorough { 600_000 } else { 4_000 };
    for i in 0..n {
        match i % 10 {
            0..=4 => {
                let c = random_cfg(&mut rng);
                writeln!(out, "{}", cfg_line(&c)).unwrap();
            }
            5 => {
                let c = random_cfg(&mut rng);
                let bits: String = c.cats.iter().map(|_| if rng.chance(1, 2) { '1' } else { '0' }).collect();
                writeln!(out, "cfgw {} {}", show_config(&c.cats), if c.cats.is_empty() { ".".to_string() } else { bits }).unwrap();
            }
            6..=8 => writeln!(out, "{}", random_exl(&mut rng, false)).unwrap(),
            _ => writeln!(out, "{}", random_exl(&mut rng, true)).unwrap(),
        }
    }
}

// ------------------------------------------------------------------------------------------
// run: the real code
// ------------------------------------------------------------------------------------------

fn s(b: &[u8]) -> String {
    hex(b)
}

fn text_of(h: &str) -> Option<String> {
    String::from_utf8(unhex(h)?).ok()
}

fn list_of<'a>(f: &'a str, sep: char) -> Vec<&'a str> {
    if f == "." {
        vec![]
    } else {
        f.split(sep).collect()
    }
}

fn pairs_of(f: &str) -> Option<Vec<(String, String)>> {
    list_of(f, ',')
        .into_iter()
        .map(|p| {
            let (k, v) = p.split_once('=')?;
            Some((text_of(k)?, text_of(v)?))
        })
        .collect()
}

/// canonical dump of a ConfigFile: categories in order with the keys the map holds for them,
/// then the number of map entries that belong to no listed category
fn dump_cfg(cf: &ConfigFile) -> String {
    let body = if cf.categories.is_empty() {
        ".".to_string()
    } else {
        cf.categories
            .iter()
            .map(|n| {
                let mut t = hex(n.as_bytes());
                if let Some(m) = cf.settings.get(n) {
                    for (k, v) in &m.keys {
                        t.push(',');
                        t.push_str(&pair(k.as_bytes(), v.as_bytes()));
                    }
                }
                t
            })
            .collect::<Vec<_>>()
            .join(";")
    };
    let extra = cf.settings.keys().filter(|k| !cf.categories.contains(k)).count();
    format!("{} x={}", body, extra)
}

fn queries(cf: &ConfigFile, probes: &[String]) -> String {
    probes
        .iter()
        .map(|p| format!("{}{}", cf.has_key(p) as u8, cf.has_category(p) as u8))
        .collect()
}

fn run_cfg(file: &[u8], edits: &[(String, String)], probes: &[String]) -> String {
    let Some(mut cf) = ConfigFile::from_existing(file) else { return "none".into() };
    let p = dump_cfg(&cf);
    let w0 = match cf.write_to_buffer() {
        Some(w) => {
            if w == file {
                "same".to_string()
            } else {
                hex(&w)
            }
        }
        None => "none".into(),
    };
    let q0 = queries(&cf, probes);
    for (k, v) in edits {
        cf.set_value(k, v);
    }
    let e = dump_cfg(&cf);
    let Some(w1) = cf.write_to_buffer() else { return "write-none".into() };
    let q1 = queries(&cf, probes);
    let r = match ConfigFile::from_existing(&w1) {
        Some(cf2) => {
            let d = dump_cfg(&cf2);
            if d == e {
                "ok".to_string()
            } else {
                format!("diff:{}", d)
            }
        }
        None => "none".into(),
    };
    format!("P[{}]|W0[{}]|Q0[{}]|E[{}]|W1[{}]|Q1[{}]|R[{}]", p, w0, q0, e, hex(&w1), q1, r)
}

fn config_of(f: &str) -> Option<Vec<(String, Vec<(String, String)>)>> {
    list_of(f, ';')
        .into_iter()
        .map(|c| {
            let mut it = c.split(',');
            let name = text_of(it.next()?)?;
            let kvs = it
                .map(|p| {
                    let (k, v) = p.split_once('=')?;
                    Some((text_of(k)?, text_of(v)?))
                })
                .collect::<Option<Vec<_>>>()?;
            Some((name, kvs))
        })
        .collect()
}

fn run_cfgw(cats: Vec<(String, Vec<(String, String)>)>, presence: &str) -> String {
    let bits: Vec<bool> = if presence == "." { vec![] } else { presence.chars().map(|c| c == '1').collect() };
    if bits.len() != cats.len() {
        return "bad-case".into();
    }
    let mut cf = ConfigFile { categories: Vec::new(), settings: HashMap::new() };
    for ((name, kvs), present) in cats.into_iter().zip(bits) {
        cf.categories.push(name.clone());
        if !kvs.is_empty() || present {
            cf.settings.insert(name, ConfigMap { keys: kvs });
        }
    }
    let Some(w) = cf.write_to_buffer() else { return "write-none".into() };
    let r = match ConfigFile::from_existing(&w) {
        Some(cf2) => dump_cfg(&cf2),
        None => "none".into(),
    };
    format!("W[{}]|R[{}]", hex(&w), r)
}

fn show_entries(es: &[(String, i32)]) -> String {
    if es.is_empty() {
        ".".into()
    } else {
        es.iter().map(|(n, i)| format!("{}={}", hex(n.as_bytes()), i)).collect::<Vec<_>>().join(",")
    }
}

fn run_exl(file: &[u8], probes: &[String]) -> String {
    let Some(exl) = EXL::from_existing(file) else { return "none".into() };
    let Some(w) = exl.write_to_buffer() else { return "write-none".into() };
    let c: String = probes.iter().map(|p| if exl.contains(p) { '1' } else { '0' }).collect();
    let r = match EXL::from_existing(&w) {
        Some(e2) => {
            if e2.version == exl.version && e2.entries == exl.entries {
                "ok".to_string()
            } else {
                format!("diff:{}:{}", e2.version, show_entries(&e2.entries))
            }
        }
        None => "none".into(),
    };
    format!("V[{}]|E[{}]|W[{}]|C[{}]|R[{}]", exl.version, show_entries(&exl.entries), hex(&w), c, r)
}

fn run_exlw(version: i32, entries: Vec<(String, i32)>) -> String {
    let exl = EXL { version, entries };
    let Some(w) = exl.write_to_buffer() else { return "write-none".into() };
    let r = match EXL::from_existing(&w) {
        Some(e2) => format!("{}:{}", e2.version, show_entries(&e2.entries)),
        None => "none".into(),
    };
    format!("W[{}]|R[{}]", hex(&w), r)
}

pub fn run(case: &str, input: &str) -> String {
    let f: Vec<&str> = input.split(' ').collect();
    match f.as_slice() {
        ["cfg", file, edits, probes] => {
            let (Some(file), Some(edits)) = (unhex(file), pairs_of(edits)) else { return "bad-case".into() };
            let Some(probes) = list_of(probes, ',').into_iter().map(text_of).collect::<Option<Vec<_>>>() else {
                return "bad-case".into();
            };
            guarded(move || run_cfg(&file, &edits, &probes))
        }
        ["cfgw", config, presence] => {
            let Some(cats) = config_of(config) else { return "bad-case".into() };
            let presence = presence.to_string();
            guarded(move || run_cfgw(cats, &presence))
        }
        ["exl", file, probes] => {
            let Some(file) = unhex(file) else { return "bad-case".into() };
            let Some(probes) = list_of(probes, ',').into_iter().map(text_of).collect::<Option<Vec<_>>>() else {
                return "bad-case".into();
            };
            guarded(move || run_exl(&file, &probes))
        }
        ["exlw", version, rows] => {
            let Ok(version) = version.parse::<i32>() else { return "bad-case".into() };
            let mut entries = Vec::new();
            for r in list_of(rows, ',') {
                let Some(r) = r.strip_prefix('E') else { return "bad-case".into() };
                let Some((n, i)) = r.split_once('=') else { return "bad-case".into() };
                let (Some(n), Ok(i)) = (text_of(n), i.parse::<i32>()) else { return "bad-case".into() };
                entries.push((n, i));
            }
            guarded(move || run_exlw(version, entries))
        }
        _ => "bad-case".into(),
    }
}

pub fn dump(out: &mut dyn Write) {}
