#![allow(dead_code)]
//! Shared helpers: splitmix64 PRNG (every random choice of a run derives from VERIF_SEED),
//! hex coding (`-` = empty), temp directories outside /repo and /verif.
use std::fmt::Write as _;
use std::path::PathBuf;

#[derive(Clone)]
pub struct Rng(pub u64);

impl Rng {
    pub fn new(seed: u64, stream: &str) -> Self {
        let mut s = seed ^ 0x9E3779B97F4A7C15;
        for b in stream.bytes() {
            s = s.wrapping_mul(0x100000001B3) ^ b as u64;
        }
        let mut r = Rng(s);
        r.next();
        r
    }
    pub fn next(&mut self) -> u64 {
        self.0 = self.0.wrapping_add(0x9E3779B97F4A7C15);
        let mut z = self.0;
        z = (z ^ (z >> 30)).wrapping_mul(0xBF58476D1CE4E5B9);
        z = (z ^ (z >> 27)).wrapping_mul(0x94D049BB133111EB);
        z ^ (z >> 31)
    }
    /// uniform in 0..n (n > 0)
    pub fn below(&mut self, n: u64) -> u64 {
        self.next() % n
    }
    /// uniform in lo..=hi
    pub fn range(&mut self, lo: u64, hi: u64) -> u64 {
        lo + self.below(hi - lo + 1)
    }
    pub fn chance(&mut self, num: u64, den: u64) -> bool {
        self.below(den) < num
    }
    pub fn pick<'a, T>(&mut self, xs: &'a [T]) -> &'a T {
        &xs[self.below(xs.len() as u64) as usize]
    }
    pub fn bytes(&mut self, n: usize) -> Vec<u8> {
        let mut v = Vec::with_capacity(n);
        while v.len() < n {
            let x = self.next().to_le_bytes();
            let k = (n - v.len()).min(8);
            v.extend_from_slice(&x[..k]);
        }
        v
    }
    /// "interesting" 32-bit value: boundaries as well as uniform
    pub fn u32_edge(&mut self) -> u32 {
        match self.below(8) {
            0 => 0,
            1 => 1,
            2 => 0x7FFF_FFFF,
            3 => 0x8000_0000,
            4 => 0xFFFF_FFFF,
            5 => self.below(256) as u32,
            _ => self.next() as u32,
        }
    }
}

pub fn hex(bs: &[u8]) -> String {
    if bs.is_empty() {
        return "-".to_string();
    }
    let mut s = String::with_capacity(bs.len() * 2);
    for b in bs {
        let _ = write!(s, "{:02x}", b);
    }
    s
}

pub fn unhex(s: &str) -> Option<Vec<u8>> {
    if s == "-" {
        return Some(vec![]);
    }
    if s.len() % 2 != 0 {
        return None;
    }
    let b = s.as_bytes();
    let mut v = Vec::with_capacity(b.len() / 2);
    for i in (0..b.len()).step_by(2) {
        let h = (b[i] as char).to_digit(16)?;
        let l = (b[i + 1] as char).to_digit(16)?;
        v.push((h * 16 + l) as u8);
    }
    Some(v)
}

/// A scratch directory under $VERIF_TMP (default: $TMPDIR or /tmp)/physis-verif-<pid>-<tag>,
/// removed on drop.
pub struct TempDir(pub PathBuf);

impl TempDir {
    pub fn new(tag: &str) -> Self {
        let base = std::env::var("VERIF_TMP")
            .or_else(|_| std::env::var("TMPDIR"))
            .unwrap_or_else(|_| "/tmp".to_string());
        let p = PathBuf::from(base).join(format!("physis-verif-{}-{}", std::process::id(), tag));
        let _ = std::fs::remove_dir_all(&p);
        std::fs::create_dir_all(&p).expect("cannot create scratch dir");
        TempDir(p)
    }
    pub fn path(&self) -> &std::path::Path {
        &self.0
    }
}

impl Drop for TempDir {
    fn drop(&mut self) {
        let _ = std::fs::remove_dir_all(&self.0);
    }
}

/// Run `f`, converting a panic into `panic:<file>:<line>` (location captured by the hook
/// installed in `install_panic_hook`).
pub fn guarded<F: FnOnce() -> String + std::panic::UnwindSafe>(f: F) -> String {
    match std::panic::catch_unwind(f) {
        Ok(s) => s,
        Err(_) => {
            let loc = LAST_PANIC.with(|l| l.borrow_mut().take()).unwrap_or_else(|| "?".into());
            match loc.strip_prefix("\u{1}harness:") {
                Some(l) => format!("harness-panic:{}", l),
                None => format!("panic:{}", loc),
            }
        }
    }
}

thread_local! {
    pub static LAST_PANIC: std::cell::RefCell<Option<String>> = const { std::cell::RefCell::new(None) };
}

pub fn install_panic_hook() {
    std::panic::set_hook(Box::new(|info| {
        let loc = info
            .location()
            .map(|l| {
                let f = l.file();
                // path relative to the repository / registry root
                let root = std::env::var("VERIF_REPO").unwrap_or_else(|_| "/repo".into());
                if !f.starts_with('/') {
                    // a relative path is a file of this crate: the harness itself panicked (it could
                    // not observe the answer) — reported apart from a panic of the library
                    return format!("\u{1}harness:{}:{}", f, l.line());
                }
                let f = f.strip_prefix(root.as_str()).map(|f| f.trim_start_matches('/')).unwrap_or(f);
                format!("{}:{}", f, l.line())
            })
            .unwrap_or_else(|| "?".into());
        LAST_PANIC.with(|l| *l.borrow_mut() = Some(loc));
    }));
}
