//! C01: archive lookup (GameData::exists / find_offset / extract) on synthetic installations.
//!
//! `gen` writes abstract archives (which index slots hold which entries, which dat files hold
//! which contents, a query history); the Lean driver encodes every file with `Spec/Archive` /
//! `Spec/SqPackData` and returns them as hex in `input`; `run` materialises them below a scratch
//! `<tmp>/game/sqpack/<dir>/` and issues the queries on one `GameData` handle or on fresh ones.
#![allow(unused)]
use crate::util::*;
use physis::common::Platform;
use physis::gamedata::GameData;
use std::io::Write;
use std::panic::AssertUnwindSafe;

const CATS: [(&str, u32); 15] = [
    ("common", 0x00),
    ("bgcommon", 0x01),
    ("bg", 0x02),
    ("cut", 0x03),
    ("chara", 0x04),
    ("shader", 0x05),
    ("ui", 0x06),
    ("sound", 0x07),
    ("vfx", 0x08),
    ("ui_script", 0x09),
    ("exd", 0x0a),
    ("game_script", 0x0b),
    ("music", 0x0c),
    ("sqpack_test", 0x12),
    ("debug", 0x13),
];

fn word(rng: &mut Rng) -> String {
    // one word in fifty is long: a path has no length limit (a fixed 256-byte or 1 KiB buffer on the
    // hashing side shows only beyond it)
    let n = if rng.chance(1, 50) { *rng.pick(&[100usize, 200, 246, 250, 256, 300, 1000, 4000]) } else { rng.range(1, 8) as usize };
    (0..n)
        .map(|_| match rng.below(12) {
            0 => (b'0' + rng.below(10) as u8) as char,
            1 => '_',
            2 => '.',
            3 => '-',
            _ => (b'a' + rng.below(26) as u8) as char,
        })
        .collect()
}

/// a lower-case game path: category, optional repository token, 0..4 folders, file name
fn gen_path(rng: &mut Rng, present_ex: &[u32]) -> String {
    let cat = CATS[rng.below(15) as usize].0;
    let mut comps: Vec<String> = vec![cat.to_string()];
    match rng.below(10) {
        0..=3 => {
            if !present_ex.is_empty() {
                comps.push(format!("ex{}", rng.pick(present_ex)));
            }
        }
        4 => comps.push(format!("ex{}", rng.range(0, 10))), // maybe absent / ex0 / ex10
        5 => comps.push("ffxiv".to_string()),
        6 => {
            // a component (or file name) that merely BEGINS like an installed repository
            // directory names no repository: the path belongs to the base game
            let e = if present_ex.is_empty() { rng.range(1, 9) as u32 } else { *rng.pick(present_ex) };
            comps.push(format!("ex{}{}", e, word(rng)));
        }
        _ => {}
    }
    let depth = rng.below(5);
    for _ in 0..depth {
        comps.push(word(rng));
    }
    if comps.len() < 2 || rng.chance(9, 10) {
        comps.push(format!("{}.{}", word(rng), rng.pick(&["exl", "mdl", "tex", "lgb", "dat"])));
    }
    comps.join("/")
}

fn mix_case(rng: &mut Rng, s: &str, mode: u64) -> String {
    s.chars()
        .map(|c| match mode {
            0 => c,
            1 => c.to_ascii_uppercase(),
            _ => {
                if rng.chance(1, 2) {
                    c.to_ascii_uppercase()
                } else {
                    c
                }
            }
        })
        .collect()
}

/// expansion the lookup will consult for a lower-case path (the generator's ground truth; the
/// expected answers are computed by the Lean specification, not from this)
fn repo_of(path: &str, present_ex: &[u32]) -> u32 {
    let mut it = path.split('/');
    it.next();
    if let Some(tok) = it.next() {
        for e in present_ex {
            if tok == format!("ex{}", e) {
                return *e;
            }
        }
    }
    0
}

fn cat_of(path: &str) -> Option<u32> {
    let c = path.split('/').next()?;
    CATS.iter().find(|(n, _)| *n == c).map(|(_, id)| *id)
}

struct Slot {
    exp: u32,
    cat: u32,
    chunk: u32,
    kind: u32,
    junk: Option<Vec<u8>>,
    plat: u32,
    hdr_kind: u32,
    data_len: u32,
    folder_len: u32,
    entries: Vec<String>,
}

struct Dat {
    exp: u32,
    cat: u32,
    chunk: u32,
    id: u32,
    next_unit: u64,
    entries: Vec<(u64, Vec<u8>)>,
}

fn slot_str(s: &Slot) -> String {
    match &s.junk {
        Some(j) => format!("{}:{}:{}:{}:J{}", s.exp, s.cat, s.chunk, s.kind, hex(j)),
        None => {
            let mut t = format!(
                "{}:{}:{}:{}:F,{},{},{},{}",
                s.exp, s.cat, s.chunk, s.kind, s.plat, s.hdr_kind, s.data_len, s.folder_len
            );
            for e in &s.entries {
                t.push(',');
                t.push_str(e);
            }
            t
        }
    }
}

fn gen_archive(rng: &mut Rng, n_paths: usize, n_queries: usize, out: &mut dyn Write) {
    let plat = rng.below(5) as u32;
    let mut present_ex: Vec<u32> = (1..=9).filter(|_| rng.chance(1, 3)).collect();
    let mut dirs: Vec<String> = vec![];
    if rng.chance(19, 20) {
        dirs.push("ffxiv".into());
    }
    for e in &present_ex {
        dirs.push(format!("ex{}", e));
    }
    for _ in 0..rng.below(3) {
        dirs.push(rng.pick(&["zzz", "movie", "abc_d", "exa", "ffxivgame", "tmp-x"]).to_string());
    }
    // listing order is arbitrary
    for i in (1..dirs.len()).rev() {
        let j = rng.below(i as u64 + 1) as usize;
        dirs.swap(i, j);
    }
    let has_base = dirs.iter().any(|d| d == "ffxiv");

    let mut slots: Vec<Slot> = vec![];
    let mut dats: Vec<Dat> = vec![];
    let mut stored: Vec<String> = vec![];
    let mut all_paths: Vec<String> = vec![];
    for _ in 0..n_paths {
        let p = gen_path(rng, &present_ex);
        all_paths.push(p.clone());
        let Some(cat) = cat_of(&p) else { continue };
        // where to store it: mostly where lookup goes, sometimes somewhere else (must not be found)
        let right = repo_of(&p, &present_ex);
        let (exp, cat) = match rng.below(12) {
            0 => (*rng.pick(&[0u32, 1, 2, 3]), cat),
            1 => (right, CATS[rng.below(15) as usize].1),
            _ => (right, cat),
        };
        let chunk = match rng.below(10) {
            0..=4 => 0,
            5..=7 => rng.range(1, 9) as u32,
            8 => rng.range(10, 99) as u32,
            _ => rng.range(100, 254) as u32,
        };
        let kinds: Vec<u32> = match rng.below(4) {
            0 => vec![1],
            1 => vec![2],
            _ => vec![1, 2],
        };
        let dat_id = rng.below(8) as u32;
        let extractable = rng.chance(2, 3);
        let syn = if rng.chance(1, 8) { 1 } else { 0 };
        let units: u64;
        if extractable {
            let di = match dats
                .iter()
                .position(|d| d.exp == exp && d.cat == cat && d.chunk == chunk && d.id == dat_id)
            {
                Some(i) => i,
                None => {
                    dats.push(Dat { exp, cat, chunk, id: dat_id, next_unit: rng.below(4), entries: vec![] });
                    dats.len() - 1
                }
            };
            let len = match rng.below(4) {
                0 => 0,
                1 => rng.range(1, 8),
                _ => rng.range(9, 300),
            } as usize;
            let mut content = rng.bytes(len);
            units = dats[di].next_unit;
            // 128-byte header + padded block
            let used = 1 + (16 + len as u64 + 127) / 128;
            dats[di].next_unit += used + rng.below(3);
            dats[di].entries.push((units, content));
        } else {
            units = match rng.below(4) {
                0 => rng.below(16),
                1 => (1u64 << 28) - 1 - rng.below(4),
                _ => rng.below(1 << 28),
            };
        }
        for k in kinds {
            let si = match slots
                .iter()
                .position(|s| s.exp == exp && s.cat == cat && s.chunk == chunk && s.kind == k && s.junk.is_none())
            {
                Some(i) => i,
                None => {
                    let hdr_kind = if rng.chance(1, 25) { 3 - k } else { k };
                    slots.push(Slot {
                        exp,
                        cat,
                        chunk,
                        kind: k,
                        junk: None,
                        plat: if rng.chance(1, 10) { rng.below(5) as u32 } else { plat },
                        hdr_kind,
                        data_len: 256 * rng.below(3) as u32 + if rng.chance(1, 6) { rng.below(256) as u32 } else { 0 },
                        folder_len: 16 * rng.below(4) as u32 + if rng.chance(1, 6) { rng.below(16) as u32 } else { 0 },
                        entries: vec![],
                    });
                    slots.len() - 1
                }
            };
            // a few unrelated entries around it
            for _ in 0..rng.below(3) {
                let e = format!(
                    "H{}/{}/{}/{}/{}",
                    rng.next() as u32,
                    rng.next() as u32,
                    rng.below(2),
                    rng.below(8),
                    rng.below(1 << 28)
                );
                slots[si].entries.push(e);
            }
            slots[si].entries.push(format!("P{}/{}/{}/{}", hex(p.as_bytes()), syn, dat_id, units));
            // a later duplicate in the same table must lose against the first one
            if rng.chance(1, 8) {
                let e = format!("P{}/0/{}/{}", hex(p.as_bytes()), rng.below(8), rng.below(1 << 20));
                slots[si].entries.push(e);
            }
        }
        // the same path again in a later chunk (shadowed: chunk ascending, index before index2)
        if chunk < 250 && rng.chance(1, 6) {
            let k = rng.range(1, 2) as u32;
            let chunk2 = chunk + rng.range(1, 4) as u32;
            if !slots.iter().any(|s| s.exp == exp && s.cat == cat && s.chunk == chunk2 && s.kind == k) {
                slots.push(Slot {
                    exp,
                    cat,
                    chunk: chunk2,
                    kind: k,
                    junk: None,
                    plat,
                    hdr_kind: k,
                    data_len: 256,
                    folder_len: 16,
                    entries: vec![format!("P{}/0/{}/{}", hex(p.as_bytes()), rng.below(8), rng.below(1 << 20))],
                });
            }
        }
        stored.push(p);
    }
    // junk and empty index files
    for _ in 0..rng.below(3) {
        let exp = if present_ex.is_empty() || rng.chance(1, 2) { 0 } else { *rng.pick(&present_ex) };
        let cat = CATS[rng.below(15) as usize].1;
        let chunk = rng.below(3) as u32;
        let kind = rng.range(1, 2) as u32;
        if slots.iter().any(|s| s.exp == exp && s.cat == cat && s.chunk == chunk && s.kind == kind) {
            continue;
        }
        let junk = match rng.below(3) {
            0 => vec![],
            1 => { let n = rng.range(1, 64) as usize; rng.bytes(n) }
            _ => b"SqPack\0".iter().cloned().chain(rng.bytes(40)).collect(),
        };
        slots.push(Slot { exp, cat, chunk, kind, junk: Some(junk), plat, hdr_kind: kind, data_len: 0, folder_len: 0, entries: vec![] });
    }
    // drop slots / dats of directories that do not exist (their files cannot exist)
    let dir_ok = |e: u32| if e == 0 { has_base } else { present_ex.contains(&e) };
    slots.retain(|s| dir_ok(s.exp));
    dats.retain(|d| dir_ok(d.exp));
    // occasionally remove a dat file that entries point into
    if !dats.is_empty() && rng.chance(1, 6) {
        let i = rng.below(dats.len() as u64) as usize;
        dats.remove(i);
    }

    let mut qs: Vec<String> = vec![];
    for _ in 0..n_queries {
        let p: String = match rng.below(10) {
            0..=5 if !stored.is_empty() => rng.pick(&stored).clone(),
            6 if !all_paths.is_empty() => rng.pick(&all_paths).clone(),
            7 => gen_path(rng, &present_ex),
            8 => match rng.below(6) {
                0 => word(rng),                                   // no '/'
                1 => format!("what/{}", word(rng)),               // unknown category
                2 => format!("bg/ex{}", rng.range(1, 9)),         // repository token is the file name
                3 => format!("{}/", CATS[rng.below(15) as usize].0),
                4 => format!("/{}", word(rng)),
                _ => format!("exd/{}", word(rng)),
            },
            _ => {
                // a stored path with its repository token changed / removed
                if stored.is_empty() {
                    gen_path(rng, &present_ex)
                } else {
                    let s = rng.pick(&stored).clone();
                    let mut c: Vec<String> = s.split('/').map(|x| x.to_string()).collect();
                    if c.len() > 2 && rng.chance(1, 2) {
                        c[1] = format!("ex{}", rng.range(1, 9));
                    } else {
                        let i = c.len() - 1;
                        c[i].push('x');
                    }
                    c.join("/")
                }
            }
        };
        let m = match rng.below(6) {
            0 => 1,
            1 | 2 => 2,
            _ => 0,
        };
        let p = mix_case(rng, &p, m);
        let kind = match rng.below(4) {
            0 => 'e',
            1 => 'o',
            _ => 'x',
        };
        qs.push(format!("{}{}", kind, hex(p.as_bytes())));
    }
    let mode = if rng.chance(1, 4) { "fresh" } else { "one" };
    let j = |v: Vec<String>, sep: &str| if v.is_empty() { "-".to_string() } else { v.join(sep) };
    writeln!(
        out,
        "arch {} {} {} {} {} {}",
        plat,
        j(dirs.iter().map(|d| hex(d.as_bytes())).collect(), ","),
        j(slots.iter().map(slot_str).collect(), ";"),
        j(
            dats.iter()
                .map(|d| {
                    format!(
                        "{}:{}:{}:{}:{}",
                        d.exp,
                        d.cat,
                        d.chunk,
                        d.id,
                        d.entries.iter().map(|(u, c)| format!("{}/{}", u, hex(c))).collect::<Vec<_>>().join(",")
                    )
                })
                .collect(),
            ";"
        ),
        j(qs, ","),
        mode
    )
    .unwrap();
}

/// one entry per (platform, repository, category, chunk, kind): bounded-exhaustive sweep
fn sweep(rng: &mut Rng, step: usize, out: &mut dyn Write) {
    let mut n = 0usize;
    for plat in 0..5u32 {
        for exp in 0..10u32 {
            for (cname, cat) in CATS.iter() {
                for chunk in 0..10u32 {
                    for kind in 1..=2u32 {
                        n += 1;
                        if n % step != 0 {
                            continue;
                        }
                        let dirs = if exp == 0 { vec!["ffxiv".to_string()] } else { vec!["ffxiv".to_string(), format!("ex{}", exp)] };
                        let w1 = word(rng);
                        let w2 = word(rng);
                        let p = if exp == 0 { format!("{}/{}/{}.dat", cname, w1, w2) } else { format!("{}/ex{}/{}/{}.dat", cname, exp, w1, w2) };
                        let dat = rng.below(8);
                        let clen = rng.range(1, 40) as usize;
                        let content = rng.bytes(clen);
                        let unit = rng.below(5);
                        let slot = format!("{}:{}:{}:{}:F,{},{},256,16,P{}/0/{}/{}", exp, cat, chunk, kind, plat, kind, hex(p.as_bytes()), dat, unit);
                        let d = format!("{}:{}:{}:{}:{}/{}", exp, cat, chunk, dat, unit, hex(&content));
                        let up = p.to_ascii_uppercase();
                        let other = format!("{}x", p);
                        writeln!(
                            out,
                            "arch {} {} {} {} e{},o{},x{},x{},e{} one",
                            plat,
                            dirs.iter().map(|d| hex(d.as_bytes())).collect::<Vec<_>>().join(","),
                            slot,
                            d,
                            hex(p.as_bytes()),
                            hex(p.as_bytes()),
                            hex(p.as_bytes()),
                            hex(up.as_bytes()),
                            hex(other.as_bytes())
                        )
                        .unwrap();
                    }
                }
            }
        }
    }
}

/// one index file queried through `SqPackIndex` directly: every dat id, offsets at the ends of the
/// 28-bit range, both kinds, 1..N entries
pub(crate) fn gen_idx(rng: &mut Rng, out: &mut dyn Write) {
    let kind = rng.range(1, 2);
    let n = match rng.below(4) {
        0 => 1,
        1 => rng.range(2, 9),
        _ => rng.range(2, 60),
    } as usize;
    let mut paths: Vec<String> = vec![];
    let mut ents: Vec<String> = vec![];
    for i in 0..n {
        let p = gen_path(rng, &[1, 2, 3]);
        let units = match rng.below(5) {
            0 => 0,
            1 => (1u64 << 28) - 1,
            2 => rng.below(16),
            _ => rng.below(1 << 28),
        };
        ents.push(format!("P{}/{}/{}/{}", hex(p.as_bytes()), rng.below(2), (i as u64 + rng.below(2)) % 8, units));
        paths.push(p);
    }
    let mut qs: Vec<String> = vec![];
    for _ in 0..(n + 3) {
        let p = if rng.chance(3, 4) { rng.pick(&paths).clone() } else { gen_path(rng, &[1, 2, 3]) };
        let m = rng.below(3);
        qs.push(hex(mix_case(rng, &p, m).as_bytes()));
    }
    writeln!(
        out,
        "idx F,{},{},{},{},{} {}",
        rng.below(5),
        kind,
        256 * rng.below(3),
        16 * rng.below(3),
        ents.join(","),
        qs.join(",")
    )
    .unwrap();
}

/// An index / index2 file with more than 2^16 entries (short paths: the case line stays below
/// 2 MiB): the queried paths sit in the first, the 65535th .. 65538th and the last slot
pub(crate) fn gen_idx_wide(rng: &mut Rng, kind: u64, n: usize, out: &mut dyn Write) {
    let mut ents: Vec<String> = Vec::with_capacity(n);
    let tag = rng.below(0xfff);
    let path = |i: usize| format!("a{:x}/{:x}", tag, i);
    for i in 0..n {
        ents.push(format!("P{}/0/{}/{}", hex(path(i).as_bytes()), i % 8, (i as u64 * 7) % (1 << 28)));
    }
    let mut qs: Vec<String> = vec![];
    for i in [0usize, 1, 255, 256, 65534, 65535, 65536, 65537, n - 2, n - 1] {
        if i < n {
            qs.push(hex(path(i).as_bytes()));
        }
    }
    qs.push(hex(path(n + 5).as_bytes()));
    writeln!(out, "idx F,{},{},256,16,{} {}", rng.below(5), kind, ents.join(","), qs.join(",")).unwrap();
}

/// One handle that has to load more index files than any fixed-size cache holds: every category in
/// the base game and two expansions, chunks 0 and 1, `.index` and `.index2` each (180 files, one stored path each);
/// every path is asked for in order, then again in reverse order, then a few at random
fn gen_archive_many(rng: &mut Rng, out: &mut dyn Write) {
    let plat = rng.below(5);
    let exps = [0u32, 1 + rng.below(4) as u32, 5 + rng.below(5) as u32];
    let mut dirs: Vec<String> = exps.iter().map(|e| if *e == 0 { "ffxiv".to_string() } else { format!("ex{}", e) }).collect();
    if rng.chance(1, 2) {
        dirs.reverse();
    }
    let mut slots: Vec<String> = vec![];
    let mut paths: Vec<String> = vec![];
    for (cname, cid) in CATS.iter() {
        for e in exps.iter() {
            // chunk 0 holds one path, chunk 1 another: a lookup of the second walks chunk 0's two
            // index files first (three or four files per repository and category)
            for chunk in [0u32, 1] {
                let p = if *e == 0 { format!("{}/f{}/{}{}.dat", cname, rng.below(99), word(rng), chunk) } else { format!("{}/ex{}/{}_{}{}.dat", cname, e, word(rng), rng.below(99), chunk) };
                for kind in [1u32, 2] {
                    slots.push(format!("{}:{}:{}:{}:F,{},{},256,16,P{}/0/{}/{}", e, cid, chunk, kind, plat, kind, hex(p.as_bytes()), rng.below(8), 1 + rng.below(1 << 20)));
                }
                if chunk == 1 || rng.chance(1, 4) {
                    paths.push(p);
                }
            }
        }
    }
    let mut qs: Vec<String> = vec![];
    for p in paths.iter() {
        qs.push(format!("{}{}", if rng.chance(1, 2) { "o" } else { "e" }, hex(p.as_bytes())));
    }
    for p in paths.iter().rev() {
        qs.push(format!("o{}", hex(p.as_bytes())));
    }
    for _ in 0..10 {
        qs.push(format!("o{}", hex(rng.pick(&paths).as_bytes())));
    }
    writeln!(out, "arch {} {} {} - {} one", plat, dirs.iter().map(|d| hex(d.as_bytes())).collect::<Vec<_>>().join(","), slots.join(";"), qs.join(",")).unwrap();
}

pub fn generate(thorough: bool, seed: u64, out: &mut dyn Write) {
    let mut rng = Rng::new(seed, "C01");
    for _ in 0..(if thorough { 2000 } else { 60 }) {
        gen_idx(&mut rng, out);
    }
    // damaged index files (`mut <seed> <k> idx …`, Base/Mutate.lean): the model of the code and the
    // code must agree on which paths are found, and where
    {
        let mut mrng = Rng::new(seed, "C01-mut");
        for _ in 0..(if thorough { 20000 } else { 300 }) {
            let mut buf: Vec<u8> = vec![];
            gen_idx(&mut mrng, &mut buf);
            let line = String::from_utf8(buf).unwrap();
            writeln!(out, "mut {} {} {}", mrng.next() >> 1, 1 + mrng.below(3), line.trim_end()).unwrap();
        }
    }
    // tables beyond 2^16 entries, both index kinds (thorough: also 2^16 - 1, 2^16, 2^17 + 1)
    gen_idx_wide(&mut rng, 1, 65537, out);
    gen_idx_wide(&mut rng, 2, 66000, out);
    if thorough {
        for n in [65535usize, 65536, 131073] {
            gen_idx_wide(&mut rng, 1 + (n as u64 % 2), n, out);
        }
    }
    for _ in 0..(if thorough { 20 } else { 2 }) {
        gen_archive_many(&mut rng, out);
    }
    let mut sweep_buf: Vec<u8> = vec![];
    sweep(&mut rng, if thorough { 1 } else { 41 }, &mut sweep_buf);
    let sweep_lines: Vec<&[u8]> = sweep_buf.split(|b| *b == b'\n').filter(|l| !l.is_empty()).collect();
    let (n_arch, n_q) = if thorough { (600, 200) } else { (40, 60) };
    // interleave the (cheap) sweep cases with the (expensive) random installations so that the
    // contiguous shards of the check are balanced
    let per = sweep_lines.len() / n_arch + 1;
    let mut next = 0usize;
    for i in 0..n_arch {
        for _ in 0..per {
            if next < sweep_lines.len() {
                out.write_all(sweep_lines[next]).unwrap();
                out.write_all(b"\n").unwrap();
                next += 1;
            }
        }
        let n_paths = match i % 5 {
            0 => rng.range(1, 3),
            1 => rng.range(20, 40),
            _ => rng.range(3, 15),
        } as usize;
        gen_archive(&mut rng, n_paths, n_q, out);
    }
    while next < sweep_lines.len() {
        out.write_all(sweep_lines[next]).unwrap();
        out.write_all(b"\n").unwrap();
        next += 1;
    }
}

fn platform(n: &str) -> Option<Platform> {
    Some(match n {
        "0" => Platform::Win32,
        "1" => Platform::PS3,
        "2" => Platform::PS4,
        "3" => Platform::PS5,
        "4" => Platform::Xbox,
        _ => return None,
    })
}

fn answer(game: &mut GameData, q: &str) -> String {
    let (kind, p) = q.split_at(1);
    let Some(p) = unhex(p) else { return "bad-case".into() };
    let Ok(p) = String::from_utf8(p) else { return "bad-case".into() };
    let mut g = AssertUnwindSafe(game);
    match kind {
        "e" => guarded(move || if g.exists(&p) { "T".into() } else { "F".into() }),
        "o" => guarded(move || match g.find_offset(&p) {
            Some(o) => format!("o{}", o),
            None => "onone".into(),
        }),
        "x" => guarded(move || match g.extract(&p) {
            Some(d) => format!("x{}", hex(&d)),
            None => "xnone".into(),
        }),
        _ => "bad-case".into(),
    }
}

pub(crate) fn run_idx(file: &str, qs: &str) -> String {
    let Some(content) = unhex(file) else { return "bad-case".into() };
    let tmp = TempDir::new("c01i");
    let path = tmp.path().join("000000.win32.index");
    std::fs::write(&path, content).unwrap();
    let p = path.to_str().unwrap().to_string();
    let Ok(Some(ix)) = std::panic::catch_unwind(move || physis::sqpack::SqPackIndex::from_existing(&p)) else {
        return qs.split(',').map(|_| "noindex").collect::<Vec<_>>().join(",");
    };
    let mut out = vec![];
    for q in qs.split(',') {
        let Some(p) = unhex(q).and_then(|p| String::from_utf8(p).ok()) else { return "bad-case".into() };
        let ixr = AssertUnwindSafe(&ix);
        out.push(guarded(move || {
            let found = ixr.find_entry(&p);
            // `exists` must agree with `find_entry`
            if ixr.exists(&p) != found.is_some() {
                return "exists-disagrees".into();
            }
            match found {
                Some(e) => format!("d{}o{}", e.data_file_id, e.offset),
                None => "none".into(),
            }
        }));
    }
    out.join(",")
}

pub fn run(case: &str, input: &str) -> String {
    let f: Vec<&str> = input.split(' ').collect();
    if f.len() == 2 {
        return run_idx(f[0], f[1]);
    }
    if f.len() != 5 {
        return "bad-case".into();
    }
    let Some(plat) = platform(f[0]) else { return "bad-case".into() };
    let tmp = TempDir::new("c01");
    let game = tmp.path().join("game");
    let sqpack = game.join("sqpack");
    std::fs::create_dir_all(&sqpack).unwrap();
    let mut dirs: Vec<String> = vec![];
    if f[1] != "-" {
        for d in f[1].split(',') {
            let Some(d) = unhex(d).and_then(|d| String::from_utf8(d).ok()) else { return "bad-case".into() };
            std::fs::create_dir_all(sqpack.join(&d)).unwrap();
            dirs.push(d);
        }
    }
    if f[2] != "-" {
        for file in f[2].split(';') {
            let Some((name, content)) = file.split_once(':') else { return "bad-case".into() };
            let Some((d, n)) = name.split_once('/') else { return "bad-case".into() };
            let (Some(d), Some(n), Some(content)) = (
                unhex(d).and_then(|d| String::from_utf8(d).ok()),
                unhex(n).and_then(|d| String::from_utf8(d).ok()),
                unhex(content),
            ) else {
                return "bad-case".into();
            };
            if !dirs.contains(&d) {
                return "bad-case".into();
            }
            std::fs::write(sqpack.join(&d).join(&n), content).unwrap();
        }
    }
    let qs: Vec<&str> = if f[3] == "-" { vec![] } else { f[3].split(',').collect() };
    let game_dir = game.to_str().unwrap().to_string();
    let mut answers: Vec<String> = vec![];
    match f[4] {
        "one" => {
            let gd = game_dir.clone();
            let opened = std::panic::catch_unwind(move || GameData::from_existing(plat, &gd));
            match opened {
                Ok(Some(mut g)) => {
                    for q in &qs {
                        answers.push(answer(&mut g, q));
                    }
                }
                Ok(None) => answers.push("nohandle".into()),
                Err(_) => answers.push("panic:open".into()),
            }
        }
        "fresh" => {
            for q in &qs {
                let gd = game_dir.clone();
                let pl = plat.clone();
                match std::panic::catch_unwind(move || GameData::from_existing(pl, &gd)) {
                    Ok(Some(mut g)) => answers.push(answer(&mut g, q)),
                    Ok(None) => answers.push("nohandle".into()),
                    Err(_) => answers.push("panic:open".into()),
                }
            }
        }
        _ => return "bad-case".into(),
    }
    if answers.is_empty() {
        "-".into()
    } else {
        answers.join(",")
    }
}

pub fn dump(out: &mut dyn Write) {}
