//! C18 part `fmt`: tex, cmp, EXD::read_row
#![allow(unused)]
use crate::alloc;
use crate::c18::*;
use crate::util::*;
use std::io::Write;

/// `None` = not an op of this part
pub fn run(f: &[&str]) -> Option<String> {
    match (f[0], f.len()) {
        ("cmp", 2) => Some(asset(f[1], |b| cls(physis::cmp::CMP::from_existing(b)))),
        ("tex", 2) => Some(asset(f[1], |b| cls(physis::tex::Texture::from_existing(b)))),
        ("exdrow", 4) => {
            let (Some(exh), Some(exd), Ok(id)) = (unhex(f[1]), unhex(f[2]), f[3].parse::<u32>()) else {
                return Some("bad-case".into());
            };
            let len = exh.len() + exd.len();
            Some(alloc::measured(len, move || {
                guarded(move || {
                    let Some(h) = physis::exh::EXH::from_existing(&exh) else { return "none".into() };
                    let Some(d) = physis::exd::EXD::from_existing(&exd) else { return "none".into() };
                    cls(d.read_row(&h, id))
                })
            }))
        }
        _ => None,
    }
}

fn tex_seed(format: u32, w: u16, h: u16, d: u16, payload: usize, rng: &mut Rng) -> Seed {
    let mut b = B::new(false);
    b.u32(if d > 1 { 0x1000000 } else { 0x800000 }).u32(format).u16(w).u16(h).u16(d).u16(1);
    b.u32(80).u32(0).u32(0);
    b.u32(80);
    for _ in 0..12 {
        b.u32(0);
    }
    b.bound();
    b.raw(&rng.bytes(payload), false);
    b.seed("tex")
}

pub fn tex_seeds(rng: &mut Rng) -> Vec<Seed> {
    vec![
        tex_seed(0x1440, 4, 2, 1, 16, rng),
        tex_seed(0x1440, 3, 3, 2, 36, rng),
        tex_seed(0x1450, 2, 2, 1, 16, rng),
        tex_seed(0x1450, 2, 1, 3, 24, rng),
        tex_seed(0x3420, 5, 3, 1, 16, rng),
        tex_seed(0x3420, 4, 4, 2, 16, rng),
        tex_seed(0x3431, 4, 5, 1, 32, rng),
        tex_seed(0x6230, 7, 2, 1, 32, rng),
        tex_seed(0x3420, 0, 0, 0, 0, rng),
        tex_seed(0x1450, 16, 16, 1, 1024 + 5, rng),
    ]
}

pub fn cmp_seeds(rng: &mut Rng) -> Vec<Seed> {
    let mut v = vec![];
    for (entries, extra) in [(0usize, 0usize), (1, 0), (3, 17)] {
        let mut b = B::new(false);
        b.raw(&vec![0u8; 0x2a800], false);
        b.bound();
        for _ in 0..entries {
            for _ in 0..14 {
                b.f32(1.0);
            }
            b.bound();
        }
        b.raw(&rng.bytes(extra), false);
        // only a handful of fields: the file is a table of floats
        b.fields.truncate(4);
        b.bounds.extend_from_slice(&[0x2a7ff, 0x2a800 + 55, 0x2a800 + 57]);
        v.push(b.seed("cmp"));
    }
    v
}

/// (exh, exd, ids)
fn sheet(subrows: u16, rng: &mut Rng) -> (B, B, Vec<u32>) {
    // columns: (type, offset) — fixed part is 24 bytes
    let cols: [(u16, u16); 10] =
        [(0, 0), (1, 4), (2, 5), (5, 6), (6, 8), (9, 12), (0xB, 16), (0x19, 4), (0x20, 4), (0, 0)];
    let data_offset = 24u16;
    let mut h = B::new(true);
    h.raw(b"EXHF", true).u16(3).u16(data_offset).u16(cols.len() as u16).u16(1).u16(1).zeros(6).u32(2).zeros(8).bound();
    for (t, o) in cols {
        h.u16(t).u16(o);
    }
    h.bound();
    h.u32(0).u32(2);
    h.u8(0);
    // exd: two rows
    let rows = 2u32;
    let mut d = B::new(true);
    d.raw(b"EXDF", true).u16(2).zeros(2).u32(rows * 8).zeros(20).bound();
    let fixed = |d: &mut B, k: u8| {
        d.u32(0); // string offset (relative to the end of the fixed part)
        d.u8(1).u8(0xFE).u16(513).u32(0xFFFF_FFF0).f32(1.5).u64(0x1122334455667788);
        let _ = k;
    };
    let row_size: u32 = if subrows > 1 {
        6 + subrows as u32 * (2 + data_offset as u32)
    } else {
        6 + data_offset as u32 + 8
    };
    let start = 32 + rows * 8;
    for i in 0..rows {
        d.u32(10 + i).u32(start + i * row_size);
    }
    d.bound();
    for i in 0..rows {
        d.u32(row_size - 6).u16(subrows.max(1));
        if subrows > 1 {
            for s in 0..subrows {
                d.u16(s);
                fixed(&mut d, s as u8);
            }
        } else {
            fixed(&mut d, 0);
            d.raw(b"hello\0\0\0", true);
        }
        d.bound();
    }
    (h, d, vec![10, 11, 12, 0])
}

pub fn generate(thorough: bool, seed: u64, out: &mut dyn Write) {
    let mut rng = Rng::new(seed, "C18-fmt");
    for s in tex_seeds(&mut rng) {
        mutate(&s, &mut rng, thorough, out);
    }
    blobs("tex", &[0, 0, 0x80, 0, 0x50, 0x14, 0, 0], &mut rng, if thorough { 400 } else { 40 }, true, out);
    // two-field corruptions of the dimensions (products, zero depth, huge × tiny)
    let edge = [0u16, 1, 2, 3, 4, 5, 0x7FFF, 0x8000, 0xFFFF];
    for fmt in [0x1440u32, 0x1450, 0x3420, 0x3431, 0x6230] {
        for &w in &edge {
            for &h in &edge {
                for &d in &[0u16, 1, 2, 0xFFFF] {
                    if !thorough && (w as u32 + h as u32 + d as u32) % 3 == 1 {
                        continue;
                    }
                    let s = tex_seed(fmt, w, h, d, 64, &mut rng);
                    emit(out, "tex", &s.bytes, "");
                }
            }
        }
    }
    for s in cmp_seeds(&mut rng) {
        if thorough {
            mutate(&s, &mut rng, thorough, out);
        } else {
            // the file is 170 KB of padding before a table of floats: the seed, the structure boundaries
            // +-1 and a few random cuts are what matters
            emit(out, "cmp", &s.bytes, "");
            let n = s.bytes.len();
            let mut pts: Vec<usize> = vec![0, 1, 0x2a800 - 1, 0x2a800, 0x2a800 + 1, 0x2a800 + 55, 0x2a800 + 56, 0x2a800 + 57, n - 1];
            for _ in 0..6 {
                pts.push(rng.below(n as u64) as usize);
            }
            pts.sort();
            pts.dedup();
            for k in pts {
                if k < n {
                    emit(out, "cmp", &s.bytes[..k], "");
                }
            }
        }
    }
    blobs("cmp", b"", &mut rng, 10, false, out);
    for subrows in [1u16, 2, 3] {
        let (h, d, ids) = sheet(subrows, &mut rng);
        let (hs, ds) = (h.seed("exdrow"), d.seed("exdrow"));
        for id in &ids {
            // corrupt the page, header fixed
            let mut s = ds.clone();
            s.op = format!("exdrow {}", hex(&hs.bytes));
            s.extra = id.to_string();
            if *id == 10 || thorough {
                mutate(&s, &mut rng, thorough, out);
            } else {
                emit(out, &s.op, &s.bytes, &s.extra);
            }
            // corrupt the header, page fixed
            let mut s = hs.clone();
            s.extra = format!("{} {}", hex(&ds.bytes), id);
            if *id == 11 || thorough {
                mutate(&s, &mut rng, thorough, out);
            }
        }
    }
}
