//! Directory trees for C03 / C04: text form (see lean/PhysisModel/Base/FsText.lean), materialising
//! a tree below a scratch directory, and the canonical dump of what is on disk afterwards.
#![allow(dead_code)]
use std::path::Path;

/// `None` content = directory
pub type Entries = Vec<(String, Option<Vec<u8>>)>;

/// scratch directory: `$VERIF_TMP`, else `/dev/shm` (tmpfs: thousands of small trees per second),
/// else `$TMPDIR` / `/tmp`; removed on drop
pub struct Scratch(pub std::path::PathBuf);
impl Scratch {
    pub fn new(tag: &str) -> Self {
        let base = std::env::var("VERIF_TMP").ok().unwrap_or_else(|| {
            if Path::new("/dev/shm").is_dir() && std::fs::create_dir_all("/dev/shm/physis-verif").is_ok() {
                "/dev/shm/physis-verif".to_string()
            } else {
                std::env::var("TMPDIR").unwrap_or_else(|_| "/tmp".to_string())
            }
        });
        let p = std::path::PathBuf::from(base).join(format!("physis-verif-{}-{}", std::process::id(), tag));
        let _ = std::fs::remove_dir_all(&p);
        std::fs::create_dir_all(&p).expect("cannot create scratch dir");
        Scratch(p)
    }
    pub fn path(&self) -> &Path {
        &self.0
    }
}
impl Drop for Scratch {
    fn drop(&mut self) {
        let _ = std::fs::remove_dir_all(&self.0);
    }
}

pub fn pattern(len: usize, seed: usize) -> Vec<u8> {
    (0..len).map(|i| (seed + 7 * i + 13 * (i / 256)) as u8).collect()
}

pub fn parse_content(s: &str) -> Option<Vec<u8>> {
    if let Some(r) = s.strip_prefix('~') {
        let (a, b) = r.split_once('.')?;
        return Some(pattern(a.parse().ok()?, b.parse().ok()?));
    }
    crate::util::unhex(s)
}

pub fn parse_tree(s: &str) -> Option<Entries> {
    let mut v = Vec::new();
    if s == "-" {
        return Some(v);
    }
    for e in s.split(';') {
        if let Some(p) = e.strip_suffix('/') {
            v.push((p.to_string(), None));
        } else {
            let (p, c) = e.split_once(':')?;
            v.push((p.to_string(), Some(parse_content(c)?)));
        }
    }
    Some(v)
}

pub fn materialise(root: &Path, es: &Entries) -> std::io::Result<()> {
    std::fs::create_dir_all(root)?;
    for (p, c) in es {
        let full = root.join(p);
        match c {
            None => std::fs::create_dir_all(&full)?,
            Some(d) => {
                if let Some(par) = full.parent() {
                    std::fs::create_dir_all(par)?;
                }
                std::fs::write(&full, d)?;
            }
        }
    }
    Ok(())
}

pub fn fnv1a(bs: &[u8]) -> u64 {
    let mut h: u64 = 0xcbf29ce484222325;
    for b in bs {
        h = (h ^ *b as u64).wrapping_mul(0x100000001b3);
    }
    h
}

pub fn show_content(d: &[u8]) -> String {
    if d.len() <= 32 {
        crate::util::hex(d)
    } else {
        format!("h{}.{:016x}", d.len(), fnv1a(d))
    }
}

fn walk(root: &Path, rel: &str, out: &mut Vec<(String, Option<Vec<u8>>)>) {
    let dir = if rel.is_empty() { root.to_path_buf() } else { root.join(rel) };
    let Ok(rd) = std::fs::read_dir(&dir) else { return };
    for e in rd.flatten() {
        let name = e.file_name().to_string_lossy().to_string();
        let r = if rel.is_empty() { name } else { format!("{}/{}", rel, name) };
        let Ok(meta) = e.metadata() else { continue };
        if meta.is_dir() {
            out.push((r.clone(), None));
            walk(root, &r, out);
        } else {
            out.push((r.clone(), Some(std::fs::read(e.path()).unwrap_or_default())));
        }
    }
}

pub fn snapshot(root: &Path) -> Entries {
    let mut v = Vec::new();
    walk(root, "", &mut v);
    v.sort_by(|a, b| a.0.as_bytes().cmp(b.0.as_bytes()));
    v
}

/// canonical text: sorted by path bytes; directories as `path/` when `with_dirs`
pub fn dump_tree(root: &Path, with_dirs: bool) -> String {
    let v = snapshot(root);
    let parts: Vec<String> = v
        .iter()
        .filter_map(|(p, c)| match c {
            Some(d) => Some(format!("{}:{}", p, show_content(d))),
            None => {
                if with_dirs {
                    Some(format!("{}/", p))
                } else {
                    None
                }
            }
        })
        .collect();
    if parts.is_empty() { "-".to_string() } else { parts.join(";") }
}
