//! Directory trees for C03 / C04: text form (see lean/PhysisModel/Base/FsText.lean), materialising
//! a tree below a scratch directory, and the canonical dump of what is on disk afterwards.
#![allow(dead_code)]
use std::path::Path;

/// `None` content = directory
pub type Entries = Vec<(String, Option<Vec<u8>>)>;

/// scratch directory: `$VERIF_TMP`, else `/dev/shm` (tmpfs: thousands of small trees per second),
/// else `$TMPDIR` / `/tmp`; removed on drop
pub struct Scratch(pub std::path::PathBuf);
impl Scratch {
    /// the default base directory (see the type's comment)
    pub fn default_base() -> String {
        std::env::var("VERIF_TMP").ok().unwrap_or_else(|| {
            if Path::new("/dev/shm").is_dir() && std::fs::create_dir_all("/dev/shm/physis-verif").is_ok() {
                "/dev/shm/physis-verif".to_string()
            } else {
                Self::disk_base()
            }
        })
    }
    /// a base directory on disk (`$TMPDIR` / `/tmp`)
    pub fn disk_base() -> String {
        std::env::var("TMPDIR").unwrap_or_else(|_| "/tmp".to_string())
    }
    pub fn new(tag: &str) -> Self {
        Self::new_in(&Self::default_base(), tag)
    }
    pub fn new_in(base: &str, tag: &str) -> Self {
        sweep_stale(base);
        let p = std::path::PathBuf::from(base).join(format!("physis-verif-{}-{}", std::process::id(), tag));
        let _ = std::fs::remove_dir_all(&p);
        std::fs::create_dir_all(&p).expect("cannot create scratch dir");
        Scratch(p)
    }
    pub fn path(&self) -> &Path {
        &self.0
    }
}
impl Drop for Scratch {
    fn drop(&mut self) {
        let _ = std::fs::remove_dir_all(&self.0);
    }
}

/// Once per process and base directory: remove scratch directories left behind by harness
/// processes that no longer exist (a run stage killed on a timeout cannot clean up after itself;
/// on tmpfs its files would keep occupying memory).
fn sweep_stale(base: &str) {
    static DONE: std::sync::Mutex<Vec<String>> = std::sync::Mutex::new(Vec::new());
    {
        let mut d = DONE.lock().unwrap();
        if d.iter().any(|b| b == base) {
            return;
        }
        d.push(base.to_string());
    }
    let Ok(rd) = std::fs::read_dir(base) else { return };
    for e in rd.flatten() {
        let name = e.file_name().to_string_lossy().to_string();
        let Some(rest) = name.strip_prefix("physis-verif-") else { continue };
        let Some((pid, _)) = rest.split_once('-') else { continue };
        let Ok(pid) = pid.parse::<u32>() else { continue };
        if pid != std::process::id() && !Path::new(&format!("/proc/{}", pid)).exists() {
            let _ = std::fs::remove_dir_all(e.path());
        }
    }
}

pub fn pattern(len: usize, seed: usize) -> Vec<u8> {
    (0..len).map(|i| (seed + 7 * i + 13 * (i / 256)) as u8).collect()
}

/// Pseudo-random content (`^len.seed.bits`): a 32-bit linear congruential generator started at
/// `(seed + 1)·2654435761`; byte i = the top `bits` bits of the state after i + 1 steps.  With
/// `bits = 8` deflate cannot shrink it (a "stored" stream: 5 bytes longer than the content); smaller
/// alphabets give Huffman-coded streams of about `bits/8` of the length.  Same definition:
/// `FsText.noise` (lean/PhysisModel/Base/FsText.lean).
pub fn noise(len: usize, seed: usize, bits: usize) -> Vec<u8> {
    let mut s: u32 = (seed as u32).wrapping_add(1).wrapping_mul(2654435761);
    (0..len)
        .map(|_| {
            s = s.wrapping_mul(1664525).wrapping_add(1013904223);
            ((s >> 24) as u8) >> (8 - bits)
        })
        .collect()
}

pub fn parse_content(s: &str) -> Option<Vec<u8>> {
    if let Some(r) = s.strip_prefix('^') {
        let f: Vec<&str> = r.split('.').collect();
        if f.len() != 3 {
            return None;
        }
        let bits: usize = f[2].parse().ok()?;
        if !(1..=8).contains(&bits) {
            return None;
        }
        return Some(noise(f[0].parse().ok()?, f[1].parse().ok()?, bits));
    }
    if let Some(r) = s.strip_prefix('~') {
        let (a, b) = r.split_once('.')?;
        return Some(pattern(a.parse().ok()?, b.parse().ok()?));
    }
    crate::util::unhex(s)
}

/// bytes that travel as themselves in a path of the line protocol (`FsText.plainByte`)
fn plain_byte(b: u8) -> bool {
    b.is_ascii_alphanumeric() || b == b'.' || b == b'_' || b == b'-'
}

/// Text of a `/`-separated path in the line protocol (`FsText.showPath`): every byte that is not a
/// letter, digit, `.`, `_`, `-` or a separating `/` is written `%hh` (lower-case hex): space = `%20`.
pub fn escape_path(p: &str) -> String {
    let mut o = String::with_capacity(p.len());
    for &b in p.as_bytes() {
        if plain_byte(b) || b == b'/' {
            o.push(b as char);
        } else {
            o.push_str(&format!("%{:02x}", b));
        }
    }
    o
}

/// Inverse of `escape_path` on ASCII paths (`FsText.pathText?`): a byte has exactly one spelling, so
/// `%41`, `%2F`, `%2f`, `%00`, `%80` and bare punctuation are malformed.
pub fn unescape_path(s: &str) -> Option<String> {
    let b = s.as_bytes();
    let mut o: Vec<u8> = Vec::with_capacity(b.len());
    let lhex = |c: u8| match c {
        b'0'..=b'9' => Some(c - b'0'),
        b'a'..=b'f' => Some(c - b'a' + 10),
        _ => None,
    };
    let mut i = 0;
    while i < b.len() {
        if b[i] == b'%' {
            if i + 2 >= b.len() {
                return None;
            }
            let v = lhex(b[i + 1])? * 16 + lhex(b[i + 2])?;
            if v == 0 || v >= 128 || v == b'/' || plain_byte(v) {
                return None;
            }
            o.push(v);
            i += 3;
        } else if plain_byte(b[i]) || b[i] == b'/' {
            o.push(b[i]);
            i += 1;
        } else {
            return None;
        }
    }
    String::from_utf8(o).ok()
}

/// the path of a tree entry: well-formed text, no empty component (`FsText.treePath?`)
fn tree_path(s: &str) -> Option<String> {
    let p = unescape_path(s)?;
    if p.is_empty() || p.split('/').any(|c| c.is_empty()) {
        return None;
    }
    Some(p)
}

/// entries with their **decoded** paths
pub fn parse_tree(s: &str) -> Option<Entries> {
    let mut v = Vec::new();
    if s == "-" {
        return Some(v);
    }
    for e in s.split(';') {
        if let Some(p) = e.strip_suffix('/') {
            v.push((tree_path(p)?, None));
        } else {
            let (p, c) = e.split_once(':')?;
            v.push((tree_path(p)?, Some(parse_content(c)?)));
        }
    }
    Some(v)
}

pub fn materialise(root: &Path, es: &Entries) -> std::io::Result<()> {
    std::fs::create_dir_all(root)?;
    for (p, c) in es {
        let full = root.join(p);
        match c {
            None => std::fs::create_dir_all(&full)?,
            Some(d) => {
                if let Some(par) = full.parent() {
                    std::fs::create_dir_all(par)?;
                }
                std::fs::write(&full, d)?;
            }
        }
    }
    Ok(())
}

pub fn fnv1a(bs: &[u8]) -> u64 {
    let mut h: u64 = 0xcbf29ce484222325;
    for b in bs {
        h = (h ^ *b as u64).wrapping_mul(0x100000001b3);
    }
    h
}

pub const FNV_BASIS: u64 = 0xcbf29ce484222325;
pub const FNV_PRIME: u64 = 0x100000001b3;

pub fn fnv1a_update(mut h: u64, bs: &[u8]) -> u64 {
    for b in bs {
        h = (h ^ *b as u64).wrapping_mul(FNV_PRIME);
    }
    h
}

/// FNV-1a over `n` zero bytes: each one maps h to (h xor 0)·prime, so the run multiplies the state
/// by prime^n mod 2^64 (square and multiply)
pub fn fnv1a_zeros(h: u64, mut n: u64) -> u64 {
    let mut acc: u64 = 1;
    let mut b = FNV_PRIME;
    while n > 0 {
        if n & 1 == 1 {
            acc = acc.wrapping_mul(b);
        }
        b = b.wrapping_mul(b);
        n >>= 1;
    }
    h.wrapping_mul(acc)
}

fn all_zero(bs: &[u8]) -> bool {
    let (a, m, z) = unsafe { bs.align_to::<u128>() };
    a.iter().all(|b| *b == 0) && m.iter().all(|w| *w == 0) && z.iter().all(|b| *b == 0)
}

unsafe extern "C" {
    fn lseek(fd: i32, offset: i64, whence: i32) -> i64;
}
const SEEK_DATA: i32 = 3;
const SEEK_HOLE: i32 = 4;

/// `(length, FNV-1a 64)` of a file of any size — bit-identical to `fnv1a` on its bytes — without
/// byte-wise work on zeros: holes are skipped with `lseek(SEEK_DATA / SEEK_HOLE)` where the file
/// system reports them (tmpfs, ext4; a hole reads as zeros by definition), everything else is read
/// in 4 MiB chunks and an all-zero chunk is folded in by `fnv1a_zeros`.  `use_seek = false` reads
/// every byte (the fallback when the file system does not support the two whence values).
pub fn fnv1a_file_opt(path: &Path, use_seek: bool) -> std::io::Result<(u64, u64)> {
    use std::os::unix::fs::FileExt;
    use std::os::unix::io::AsRawFd;
    let f = std::fs::File::open(path)?;
    let len = f.metadata()?.len();
    let fd = f.as_raw_fd();
    let mut seek_ok = use_seek;
    let mut h = FNV_BASIS;
    let mut pos: u64 = 0;
    let mut buf = vec![0u8; 4 << 20];
    while pos < len {
        // [pos, data) is a hole, [data, end) is (possibly) data
        let mut end = len;
        if seek_ok {
            let d = unsafe { lseek(fd, pos as i64, SEEK_DATA) };
            if d < 0 {
                let e = std::io::Error::last_os_error();
                if e.raw_os_error() == Some(6) {
                    // ENXIO: nothing but a hole up to the end of the file
                    h = fnv1a_zeros(h, len - pos);
                    break;
                }
                seek_ok = false;
            } else {
                let d = (d as u64).min(len);
                if d > pos {
                    h = fnv1a_zeros(h, d - pos);
                    pos = d;
                    if pos >= len {
                        break;
                    }
                }
                let e = unsafe { lseek(fd, pos as i64, SEEK_HOLE) };
                if e < 0 {
                    seek_ok = false;
                } else if (e as u64) > pos {
                    end = (e as u64).min(len);
                }
            }
        }
        while pos < end {
            let want = ((end - pos) as usize).min(buf.len());
            let n = f.read_at(&mut buf[..want], pos)?;
            if n == 0 {
                return Err(std::io::Error::new(std::io::ErrorKind::UnexpectedEof, "file shrank"));
            }
            if all_zero(&buf[..n]) {
                h = fnv1a_zeros(h, n as u64);
            } else {
                h = fnv1a_update(h, &buf[..n]);
            }
            pos += n as u64;
        }
    }
    Ok((len, h))
}

pub fn fnv1a_file(path: &Path) -> std::io::Result<(u64, u64)> {
    fnv1a_file_opt(path, true)
}

/// files up to this size are read whole and hashed byte by byte, as always
pub const STREAM_MIN: u64 = 1 << 20;

/// canonical content of a file on disk (= `show_content` of its bytes)
pub fn show_file(path: &Path) -> String {
    let len = std::fs::metadata(path).map(|m| m.len()).unwrap_or(0);
    if len <= STREAM_MIN {
        return show_content(&std::fs::read(path).unwrap_or_default());
    }
    match fnv1a_file(path) {
        Ok((len, h)) => format!("h{}.{:016x}", len, h),
        Err(_) => "unreadable".to_string(),
    }
}

/// Self-test of the hole-skipping hash on the given directory's file system: a 9 MiB file with
/// data islands, zero-filled (written) stretches and holes, hashed three ways.
pub fn fnv_selfcheck(dir: &Path) -> bool {
    use std::os::unix::fs::FileExt;
    let p = dir.join("fnv-selfcheck.bin");
    let ok = (|| -> std::io::Result<bool> {
        let f = std::fs::OpenOptions::new().write(true).create(true).truncate(true).open(&p)?;
        f.write_all_at(&pattern(5000, 3), 100)?;
        f.write_all_at(&vec![0u8; 300_000], (4 << 20) - 1000)?; // real zeros across a chunk boundary
        f.write_all_at(&pattern(70_000, 9), (6 << 20) + 4095)?;
        f.write_all_at(&[0u8, 0, 1], (9 << 20) - 3)?;
        f.set_len((9 << 20) + 12345)?; // trailing hole
        drop(f);
        let plain = fnv1a(&std::fs::read(&p)?);
        let a = fnv1a_file_opt(&p, true)?;
        let b = fnv1a_file_opt(&p, false)?;
        Ok(a == ((9 << 20) + 12345, plain) && b == a)
    })()
    .unwrap_or(false);
    let _ = std::fs::remove_file(&p);
    ok
}

pub fn show_content(d: &[u8]) -> String {
    if d.len() <= 32 {
        crate::util::hex(d)
    } else {
        format!("h{}.{:016x}", d.len(), fnv1a(d))
    }
}

/// `(relative path, is_dir)` of everything below `root`
fn walk(root: &Path, rel: &str, out: &mut Vec<(String, bool)>) {
    let dir = if rel.is_empty() { root.to_path_buf() } else { root.join(rel) };
    let Ok(rd) = std::fs::read_dir(&dir) else { return };
    for e in rd.flatten() {
        let name = e.file_name().to_string_lossy().to_string();
        let r = if rel.is_empty() { name } else { format!("{}/{}", rel, name) };
        let Ok(meta) = e.metadata() else { continue };
        if meta.is_dir() {
            out.push((r.clone(), true));
            walk(root, &r, out);
        } else {
            out.push((r.clone(), false));
        }
    }
}

fn listing(root: &Path) -> Vec<(String, bool)> {
    let mut v = Vec::new();
    walk(root, "", &mut v);
    v.sort_by(|a, b| a.0.as_bytes().cmp(b.0.as_bytes()));
    v
}

pub fn snapshot(root: &Path) -> Entries {
    listing(root)
        .into_iter()
        .map(|(p, is_dir)| {
            let c = if is_dir { None } else { Some(std::fs::read(root.join(&p)).unwrap_or_default()) };
            (p, c)
        })
        .collect()
}

/// canonical text: sorted by path bytes (the bytes, not their escaped text); paths escaped as in
/// the case grammar (`escape_path`); directories as `path/` when `with_dirs`; a file of any
/// size (contents are not held in memory: see `show_file`)
pub fn dump_tree(root: &Path, with_dirs: bool) -> String {
    let parts: Vec<String> = listing(root)
        .iter()
        .filter_map(|(p, is_dir)| {
            if !*is_dir {
                Some(format!("{}:{}", escape_path(p), show_file(&root.join(p))))
            } else if with_dirs {
                Some(format!("{}/", escape_path(p)))
            } else {
                None
            }
        })
        .collect();
    if parts.is_empty() { "-".to_string() } else { parts.join(";") }
}
