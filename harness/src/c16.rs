//! C16: auxiliary asset decoders (cmp, tera, empty lgb, pbd, sklb/Havok tag files).
//! Cases are abstract records; the Lean driver encodes them with the `Spec/` encoders and the
//! `run` stage feeds the resulting bytes to the real Physis readers / writers.
#![allow(unused)]
use crate::util::*;
use std::io::Write;

// ------------------------------------------------------------------------------------------
// generators
// ------------------------------------------------------------------------------------------

fn f32_edge(rng: &mut Rng) -> u32 {
    match rng.below(10) {
        0 => 0,
        1 => 0x8000_0000,
        2 => 0x3F80_0000,
        3 => 0x7FC0_0000,
        4 => 0x7F80_0000,
        5 => 0xFF80_0000,
        6 => rng.below(0x0080_0000) as u32, // subnormal
        _ => rng.next() as u32,
    }
}

fn coord_edge(rng: &mut Rng) -> u16 {
    match rng.below(10) {
        0 => 0,
        1 => 1,
        2 => 0xFFFF,
        3 => 0x7FFF,
        4 => 0x8000,
        5 => 0x8001,
        6 => rng.below(64) as u16,
        7 => (0x10000 - rng.range(1, 64)) as u16,
        _ => rng.next() as u16,
    }
}

fn join<T: ToString>(v: &[T], sep: &str) -> String {
    if v.is_empty() {
        "-".to_string()
    } else {
        v.iter().map(|x| x.to_string()).collect::<Vec<_>>().join(sep)
    }
}

fn gen_cmp(rng: &mut Rng, out: &mut dyn Write, n: usize) {
    for i in 0..n {
        let pat_len = rng.range(0, 8) as usize;
        let pat = rng.bytes(pat_len);
        let nrows = match i {
            0 => 0,
            1 => 1,
            _ => match rng.below(4) {
                0 => rng.range(0, 3),
                1 => rng.range(30, 60),
                _ => rng.range(1, 40), // the game file has 40-odd rows
            },
        } as usize;
        let rows: Vec<String> = (0..nrows)
            .map(|_| join(&(0..14).map(|_| f32_edge(rng)).collect::<Vec<_>>(), ","))
            .collect();
        let tail_len = match rng.below(4) {
            0 => 0,
            1 => 55,
            _ => rng.range(0, 55),
        } as usize;
        let tail = rng.bytes(tail_len);
        writeln!(out, "cmp {} {} {}", hex(&pat), join(&rows, ";"), hex(&tail)).unwrap();
    }
}

fn positions(rng: &mut Rng, n: usize) -> String {
    let v: Vec<String> = (0..n).map(|_| format!("{}:{}", coord_edge(rng), coord_edge(rng))).collect();
    join(&v, ",")
}

/// plate sizes whose products with every (2c+1)/2 are exactly representable: k·2^j, k odd ≤ 255
fn plate_size(rng: &mut Rng) -> u32 {
    match rng.below(10) {
        0..=4 => 128,
        5 => 0,
        6 => 1,
        _ => {
            let k = rng.below(128) * 2 + 1; // odd, at most 8 bits
            let bits = 64 - k.leading_zeros() as u64;
            let j = rng.below(32 - bits + 1);
            (k << j) as u32
        }
    }
}

fn gen_tera(rng: &mut Rng, out: &mut dyn Write, thorough: bool) {
    // every i16 coordinate, as x and as y (exhaustive over the plate grid), for reader, writer and both
    let chunk = 1024u32;
    for op in ["tera_parse 16777219 128 0 1065353216", "tera_rt", "tera_write"] {
        for base in (0..65536u32).step_by(chunk as usize) {
            let v: Vec<String> = (base..base + chunk).map(|c| format!("{}:{}", c, 65535 - c)).collect();
            writeln!(out, "{} {}", op, v.join(",")).unwrap();
        }
    }
    gen_tera_random(rng, out, if thorough { 20_000 } else { 600 });
}

/// random terrain cases: 2 of 5 are `tera_parse`
fn gen_tera_random(rng: &mut Rng, out: &mut dyn Write, n: usize) {
    for i in 0..n {
        let cnt = match rng.below(12) {
            0 => 0,
            1 => 1,
            2 => rng.range(200, 3000),
            _ => rng.range(1, 40),
        } as usize;
        match i % 5 {
            0 | 1 => writeln!(
                out,
                "tera_parse {} {} {} {} {}",
                rng.u32_edge(),
                plate_size(rng),
                f32_edge(rng),
                f32_edge(rng),
                positions(rng, cnt)
            )
            .unwrap(),
            2 => writeln!(out, "tera_rt {}", positions(rng, cnt)).unwrap(),
            3 => writeln!(out, "tera_write {}", positions(rng, cnt)).unwrap(),
            _ => {
                // float-model conformance: arbitrary positions handed to the writer
                let v: Vec<String> = (0..cnt.min(64).max(1))
                    .map(|_| format!("{}:{}", wany(rng), wany(rng)))
                    .collect();
                writeln!(out, "tera_wany {}", v.join(",")).unwrap()
            }
        }
    }
}

/// positions for the writer: specials, values around (k + 0.5)·128 ± a few ulp, around the i16 limits
fn wany(rng: &mut Rng) -> u32 {
    match rng.below(6) {
        0 => f32_edge(rng),
        1 | 2 => {
            let k = rng.range(0, 70000) as i64 - 35000;
            let v = (k as f32 + 0.5) * 128.0;
            let b = v.to_bits() as i64 + rng.range(0, 6) as i64 - 3;
            b as u32
        }
        3 => {
            let k = rng.range(0, 70000) as i64 - 35000;
            let v = k as f32 * 128.0 + rng.below(128) as f32;
            v.to_bits()
        }
        4 => {
            // tiny and huge magnitudes
            let e = *rng.pick(&[0u32, 1, 2, 100, 120, 126, 127, 133, 140, 141, 142, 143, 150, 200, 254]);
            ((rng.below(2) as u32) << 31) | (e << 23) | (rng.below(1 << 23) as u32)
        }
        _ => rng.next() as u32,
    }
}

fn ascii_name(rng: &mut Rng, n: usize) -> Vec<u8> {
    (0..n)
        .map(|_| match rng.below(6) {
            0 => rng.range(1, 127) as u8,
            1 => rng.range(b'A' as u64, b'Z' as u64) as u8,
            2 => *rng.pick(&[b'_', b' ', b'/', b'.', 0x7f, 0x01]),
            _ => rng.range(b'a' as u64, b'z' as u64) as u8,
        })
        .collect()
}

fn gen_layer(rng: &mut Rng, out: &mut dyn Write, n: usize) {
    // the repository's sample: LGB1 / LGP1 / 261 / "PlanLive"
    for op in ["layer_parse", "layer_write", "layer_rt"] {
        writeln!(out, "{} {} {} 261 {}", op, 0x3142474cu32, 0x3150474cu32, hex(b"PlanLive")).unwrap();
    }
    for i in 0..n {
        let len = match rng.below(10) {
            0 => 0,
            1 => 1,
            2 => rng.range(100, 2000),
            _ => rng.range(1, 40),
        } as usize;
        let name = ascii_name(rng, len);
        let op = ["layer_parse", "layer_write", "layer_rt"][i % 3];
        let file_id = if rng.chance(1, 2) { 0x3142474c } else { rng.u32_edge() };
        let chunk_id = if rng.chance(1, 2) { 0x3150474c } else { rng.u32_edge() };
        writeln!(out, "{} {} {} {} {}", op, file_id, chunk_id, rng.u32_edge(), hex(&name)).unwrap();
    }
}


/// a random forest of `n` body ids: abstract item / link tables with a random link permutation
fn gen_pbd(rng: &mut Rng, out: &mut dyn Write, n_files: usize) {
    for fi in 0..n_files {
        let n = match rng.below(8) {
            0 => 1,
            1 => 2,
            2 => rng.range(13, 30),
            _ => rng.range(2, 12),
        } as usize;
        // parent item of every item (None = root); item 0 is always a root; acyclic by construction
        let parent: Vec<Option<usize>> = (0..n)
            .map(|i| if i == 0 || rng.chance(1, 5) { None } else { Some(rng.below(i as u64) as usize) })
            .collect();
        // item order in the file and link order are independent permutations
        let mut item_pos: Vec<usize> = (0..n).collect();
        let mut link_pos: Vec<usize> = (0..n).collect();
        if rng.chance(2, 3) {
            for i in (1..n).rev() {
                item_pos.swap(i, rng.below(i as u64 + 1) as usize);
                link_pos.swap(i, rng.below(i as u64 + 1) as usize);
            }
        }
        let mut ids: Vec<u16> = Vec::new();
        for _ in 0..n {
            let id = if rng.chance(1, 12) && !ids.is_empty() {
                *rng.pick(&ids) // duplicate body id: `find` takes the first
            } else {
                match rng.below(3) {
                    0 => [101u16, 201, 301, 401, 501, 601, 701, 801, 901, 1001, 1101, 1201, 1301, 1401, 1501, 1601, 1701, 1801][rng.below(18) as usize],
                    1 => rng.below(16) as u16,
                    _ => rng.next() as u16,
                }
            };
            ids.push(id);
        }
        // children lists for sibling links
        let mut items = vec![String::new(); n];
        let mut links = vec![String::new(); n];
        for i in 0..n {
            let sibs: Vec<usize> = (0..n).filter(|j| parent[*j] == parent[i]).collect();
            let me = sibs.iter().position(|j| *j == i).unwrap();
            let next_sib: u16 = match rng.below(10) {
                0 => 0xFFFF,
                1 => rng.below(n as u64) as u16,
                _ => {
                    if me + 1 < sibs.len() {
                        link_pos[sibs[me + 1]] as u16
                    } else if rng.chance(5, 6) {
                        link_pos[sibs[0]] as u16 // ring
                    } else {
                        0xFFFF
                    }
                }
            };
            let first_child = (0..n).find(|j| parent[*j] == Some(i)).map(|j| link_pos[j] as u16).unwrap_or(0xFFFF);
            let par = parent[i].map(|p| link_pos[p] as u16).unwrap_or(0xFFFF);
            links[link_pos[i]] = format!("{}:{}:{}:{}", par, first_child, next_sib, item_pos[i]);
            // now and then one block larger than 32 KiB, so that name offsets use the whole u16 range
            let big = fi % 40 == 0 && i == n - 1;
            let nb = if big {
                rng.range(700, 1200)
            } else {
                match rng.below(6) {
                    0 => 0,
                    1 => 1,
                    _ => rng.range(1, 5),
                }
            } as usize;
            let bones: Vec<String> = (0..nb)
                .map(|_| {
                    let len = if big { rng.range(1, 2) } else { rng.range(1, 14) } as usize;
                    let name: Vec<u8> = (0..len)
                        .map(|_| match rng.below(8) {
                            0 => rng.range(1, 127) as u8,
                            1 => b'_',
                            _ => rng.range(b'a' as u64, b'z' as u64) as u8,
                        })
                        .collect();
                    let m: Vec<u32> = (0..12).map(|_| f32_edge(rng)).collect();
                    format!("{}/{}", hex(&name), join(&m, ","))
                })
                .collect();
            items[item_pos[i]] = format!("{}:{}:{}", ids[i], link_pos[i], join(&bones, "+"));
        }
        let it = items.join(";");
        let lk = links.join(";");
        // queries: every ordered pair for small forests, otherwise a sample; plus absent ids
        let mut qs: Vec<(u16, u16)> = Vec::new();
        if n <= 5 {
            for a in 0..n {
                for b in 0..n {
                    qs.push((ids[a], ids[b]));
                }
            }
        } else {
            for _ in 0..8 {
                let a = rng.below(n as u64) as usize;
                // bias `to` towards an ancestor of `from`
                let mut b = rng.below(n as u64) as usize;
                if rng.chance(1, 2) {
                    let mut cur = a;
                    let hops = rng.below(4);
                    for _ in 0..=hops {
                        if let Some(p) = parent[cur] {
                            cur = p;
                        }
                    }
                    b = cur;
                }
                qs.push((ids[a], ids[b]));
            }
        }
        qs.push((ids[rng.below(n as u64) as usize], 9999));
        qs.push((9999, ids[0]));
        let _ = fi;
        // the same forest in a non-canonical layout (`pbdl`, Spec/PbdLayout.lean): blocks stored in another
        // order behind filler bytes, a block nobody points at, non-zero reserved bytes, a trailer.
        // Forked stream: the `pbd` cases stay what they were.
        let mut prng = Rng::new(rng.0, "C16-pbdl");
        let mut placed = 0;
        for (qi, (a, b)) in qs.iter().enumerate() {
            writeln!(out, "pbd {} {} {} {}", it, lk, a, b).unwrap();
            // three per file, spread over the query list, never the trivial `from == to`
            if a == b || placed >= 3 || (qi % 2 == 1 && qs.len() > 6) {
                continue;
            }
            placed += 1;
            let mut order: Vec<usize> = (0..n).collect();
            if prng.chance(3, 4) {
                for i in (1..n).rev() {
                    order.swap(i, prng.below(i as u64 + 1) as usize);
                }
            }
            if prng.chance(1, 3) {
                // a second copy of some block: the items keep pointing at the first one
                let dup = order[prng.below(n as u64) as usize];
                let at = prng.below(order.len() as u64 + 1) as usize;
                order.insert(at, dup);
            }
            let stored: Vec<String> = order
                .iter()
                .map(|i| {
                    let g = match prng.below(8) {
                        0..=2 => 0,
                        3..=5 => prng.range(1, 3),
                        6 => prng.range(4, 16),
                        _ => prng.range(17, 70),
                    } as usize;
                    let fill: Vec<u8> = match prng.below(3) {
                        0 => vec![0u8; g],
                        1 => vec![0xFFu8; g],
                        _ => prng.bytes(g),
                    };
                    format!("{}:{}", i, hex(&fill))
                })
                .collect();
            let reserved: Vec<String> = (0..n)
                .map(|_| if prng.chance(1, 2) { hex(&f32_edge(&mut prng).to_le_bytes()) } else { hex(&prng.bytes(4)) })
                .collect();
            let tl = prng.below(9) as usize;
            let trailer = prng.bytes(tl);
            writeln!(out, "pbdl {} {} {} {} {} {} {}", it, lk, a, b, stored.join(";"), reserved.join(";"), hex(&trailer)).unwrap();
        }
    }
}

// ------------------------------------------------------------------------------------------
// skeletons: abstract Havok tag files (type declarations + objects in file order).
// Only the *abstract* file is built here; the bytes come from `Spec/HavokTag.lean`.
// Value tokens (prefix notation, `,`-separated): `_` absent, `b<u8>`, `i<int>`, `r<u32>`, `s<hex>`,
// `o<index>`, `B<hex>`, `I<kind>/<int>/..`, `R/<u32>/..`, `S/<hex>/..`, `O/<index>/..`,
// `V/<u32>.<u32>. ../..`, `X<n>x<k>` followed by `k` column values.
// ------------------------------------------------------------------------------------------

#[derive(Clone)]
struct HMember {
    name: Vec<u8>,
    ty: u32,
    tuple: i64,
    cls: Vec<u8>,
}

#[derive(Clone)]
struct HType {
    name: Vec<u8>,
    version: i64,
    parent: Option<usize>, // logical index into the table
    members: Vec<HMember>,
    /// usable as the class of a STRUCT array: extra members are scalar kinds only
    structy: bool,
}

#[derive(Clone)]
enum HVal {
    Absent,
    Byte(u8),
    Int(i64),
    Real(u32),
    Str(Vec<u8>),
    Ref(usize),
    Bytes(Vec<u8>),
    Ints(i64, Vec<i64>),
    Reals(Vec<u32>),
    Strs(Vec<Vec<u8>>),
    Refs(Vec<usize>),
    Vecs(Vec<Vec<u32>>),
    Structs(usize, Vec<HVal>),
}

fn sl<T: ToString>(head: &str, v: &[T]) -> String {
    let mut s = head.to_string();
    for x in v {
        s.push('/');
        s.push_str(&x.to_string());
    }
    s
}

fn val_tokens(v: &HVal, out: &mut Vec<String>) {
    match v {
        HVal::Absent => out.push("_".into()),
        HVal::Byte(b) => out.push(format!("b{}", b)),
        HVal::Int(i) => out.push(format!("i{}", i)),
        HVal::Real(r) => out.push(format!("r{}", r)),
        HVal::Str(s) => out.push(format!("s{}", hex(s))),
        HVal::Ref(i) => out.push(format!("o{}", i)),
        HVal::Bytes(b) => out.push(format!("B{}", hex(b))),
        HVal::Ints(k, l) => out.push(sl(&format!("I{}", k), l)),
        HVal::Reals(l) => out.push(sl("R", l)),
        HVal::Strs(l) => out.push(sl("S", &l.iter().map(|x| hex(x)).collect::<Vec<_>>())),
        HVal::Refs(l) => out.push(sl("O", l)),
        HVal::Vecs(l) => out.push(sl(
            "V",
            &l.iter().map(|v| v.iter().map(|x| x.to_string()).collect::<Vec<_>>().join(".")).collect::<Vec<_>>(),
        )),
        HVal::Structs(n, cols) => {
            out.push(format!("X{}x{}", n, cols.len()));
            for c in cols {
                val_tokens(c, out);
            }
        }
    }
}

/// does the array value / column store at least one byte per element
fn stores_data(v: &HVal) -> bool {
    match v {
        HVal::Absent => false,
        HVal::Structs(_, cols) => cols.iter().any(stores_data),
        _ => true,
    }
}

fn int_edge(rng: &mut Rng) -> i64 {
    let m: i64 = match rng.below(16) {
        0 => 0,
        1 => 1,
        2 => 63,
        3 => 64,
        4 => 8191,
        5 => 8192,
        6 => (1 << 20) - 1,
        7 => 1 << 20,
        8 => (1 << 27) - 1,
        9 => 1 << 27,
        10 => (1i64 << 31) - 1,
        11 => rng.below(1 << 13) as i64,
        12 => rng.below(1 << 20) as i64,
        13 => rng.below(1 << 27) as i64,
        14 => rng.below(1 << 31) as i64,
        _ => rng.below(64) as i64,
    };
    if rng.chance(1, 3) { -m } else { m }
}

fn utf8_name(rng: &mut Rng, pool: &mut Vec<Vec<u8>>) -> Vec<u8> {
    if !pool.is_empty() && rng.chance(1, 4) {
        return rng.pick(pool).clone();
    }
    let n = match rng.below(8) {
        0 => 0,
        1 => 1,
        2 => rng.range(60, 70),
        3 => rng.range(120, 140),
        _ => rng.range(2, 12),
    } as usize;
    let mut s = String::new();
    for _ in 0..n {
        let c = match rng.below(12) {
            0 => *rng.pick(&['é', 'ß', 'Ω', 'ж']),
            1 => *rng.pick(&['骨', '\u{FFFD}', '€']),
            2 => *rng.pick(&['😀', '\u{10FFFF}']),
            3 => '_',
            4 => (b'0' + rng.below(10) as u8) as char,
            _ => (b'a' + rng.below(26) as u8) as char,
        };
        s.push(c);
    }
    let v = s.into_bytes();
    pool.push(v.clone());
    v
}

fn all_members(tb: &[HType], t: usize) -> Vec<HMember> {
    let mut v = match tb[t].parent {
        Some(p) => all_members(tb, p),
        None => vec![],
    };
    v.extend(tb[t].members.iter().cloned());
    v
}

fn mem(name: &str, ty: u32, cls: &str) -> HMember {
    HMember { name: name.as_bytes().to_vec(), ty, tuple: 0, cls: cls.as_bytes().to_vec() }
}

fn std_types() -> Vec<HType> {
    let t = |name: &str, version: i64, parent: Option<usize>, members: Vec<HMember>, structy: bool| HType {
        name: name.as_bytes().to_vec(),
        version,
        parent,
        members,
        structy,
    };
    vec![
        t("hkRootLevelContainer", 0, None, vec![mem("namedVariants", 0x19, "hkRootLevelContainerNamedVariant")], false),
        t(
            "hkRootLevelContainerNamedVariant",
            0,
            None,
            vec![mem("name", 10, ""), mem("className", 10, ""), mem("variant", 8, "hkReferencedObject")],
            true,
        ),
        t("hkBaseObject", 0, None, vec![], false),
        t("hkReferencedObject", 0, Some(2), vec![mem("memSizeAndFlags", 2, ""), mem("referenceCount", 2, "")], false),
        t(
            "hkaAnimationContainer",
            1,
            Some(3),
            vec![
                mem("skeletons", 0x18, "hkaSkeleton"),
                mem("animations", 0x18, "hkaAnimation"),
                mem("bindings", 0x18, "hkaAnimationBinding"),
                mem("attachments", 0x18, "hkaBoneAttachment"),
                mem("skins", 0x18, "hkaMeshBinding"),
            ],
            false,
        ),
        t(
            "hkaSkeleton",
            5,
            Some(3),
            vec![
                mem("name", 10, ""),
                mem("parentIndices", 0x12, ""),
                mem("bones", 0x19, "hkaBone"),
                mem("referencePose", 0x16, ""),
                mem("referenceFloats", 0x13, ""),
                mem("floatSlots", 0x1a, ""),
                mem("localFrames", 0x19, "hkaSkeletonLocalFrameOnBone"),
                mem("partitions", 0x19, "hkaSkeletonPartition"),
            ],
            false,
        ),
        t("hkaBone", 0, None, vec![mem("name", 10, ""), mem("lockTranslation", 1, "")], true),
        t(
            "hkaSkeletonLocalFrameOnBone",
            0,
            None,
            vec![mem("localFrame", 8, "hkLocalFrame"), mem("boneIndex", 2, "")],
            true,
        ),
        t(
            "hkaSkeletonPartition",
            1,
            None,
            vec![mem("name", 10, ""), mem("startBoneIndex", 2, ""), mem("numBones", 2, "")],
            true,
        ),
    ]
}

const T_ROOT: usize = 0;
const T_NV: usize = 1;
const T_CONT: usize = 4;
const T_SKEL: usize = 5;
const T_BONE: usize = 6;

struct HGen<'a> {
    rng: &'a mut Rng,
    tb: Vec<HType>,
    pool: Vec<Vec<u8>>,
    nobjs: usize,
    uniq: usize,
    /// allow present members of kinds the reader has no code for (recorded finding)
    unimpl: bool,
    /// let extra INT members hold values outside i32 (recorded finding havok-int-beyond-i32)
    wide: bool,
}

impl HGen<'_> {
    fn fresh(&mut self, prefix: &str) -> Vec<u8> {
        self.uniq += 1;
        let mut s = format!("{}{}", prefix, self.uniq);
        if self.rng.chance(1, 4) {
            s.push_str(*self.rng.pick(&["é", "_x", "骨", "Zz"]));
        }
        s.into_bytes()
    }

    fn structy_types(&self, below: usize) -> Vec<usize> {
        (0..self.tb.len().min(below)).filter(|&i| self.tb[i].structy).collect()
    }

    /// a random extra member; `scalar_only` for types used as STRUCT classes; `below` limits the
    /// classes a nested STRUCT may refer to (no cycles)
    fn extra_member(&mut self, scalar_only: bool, below: usize) -> HMember {
        let name = self.fresh("x");
        let cands = self.structy_types(below);
        let mut m = HMember { name, ty: 2, tuple: 0, cls: vec![] };
        let pick_cls = |g: &mut Self| -> Vec<u8> {
            if cands.is_empty() { b"hkaBone".to_vec() } else { g.tb[*g.rng.pick(&cands)].name.clone() }
        };
        if scalar_only {
            m.ty = match self.rng.below(12) {
                0 | 1 => 1,
                2 | 3 => 2,
                4 => 3,
                5 | 6 => 10,
                7 => 8,
                8 => self.rng.range(4, 7) as u32,
                9 if !cands.is_empty() => 9,
                // array / tuple members of a struct class: always absent in columns
                10 => 0x10 | *self.rng.pick(&[1u32, 2, 3, 10]),
                11 => 0x20 | *self.rng.pick(&[1u32, 2, 3, 4]),
                _ => 2,
            };
        } else {
            m.ty = match self.rng.below(20) {
                0 => 1,
                1 | 2 => 2,
                3 => 3,
                4 | 5 => 10,
                6 => 8,
                7 => 0x11,
                8 => 0x12,
                9 => 0x13,
                10 => 0x1a,
                11 => 0x18,
                12 => 0x10 | self.rng.range(4, 7) as u32,
                13 | 14 => 0x19,
                15 => 0x20 | self.rng.range(1, 10) as u32,
                16 => self.rng.range(4, 7) as u32,
                17 => 0,
                18 => 0x30 | *self.rng.pick(&[1u32, 2, 3, 10]),
                _ => 2,
            };
        }
        if m.ty & 0x20 != 0 {
            m.tuple = self.rng.range(0, 300) as i64;
        }
        if m.ty & 0xf == 8 {
            m.cls = if self.rng.chance(1, 2) { b"hkReferencedObject".to_vec() } else { self.fresh("cls") };
        }
        if m.ty & 0xf == 9 {
            m.cls = pick_cls(self);
        }
        m
    }

    fn logical_type(&self, name: &[u8]) -> Option<usize> {
        self.tb.iter().position(|t| t.name == name)
    }

    fn string(&mut self) -> Vec<u8> {
        let HGen { rng, pool, .. } = self;
        utf8_name(rng, pool)
    }

    fn int_value(&mut self) -> i64 {
        if self.wide && self.rng.chance(1, 3) {
            return *self.rng.pick(&[
                1i64 << 31,
                -(1i64 << 31),
                (1i64 << 32) - 1,
                (1i64 << 34) - 1,
                1i64 << 34,
                -(1i64 << 40),
                i64::MAX,
                -i64::MAX,
            ]);
        }
        int_edge(self.rng)
    }

    fn small_len(&mut self) -> usize {
        match self.rng.below(6) {
            0 => 0,
            1 => 1,
            2 => self.rng.range(60, 70) as usize,
            _ => self.rng.range(2, 9) as usize,
        }
    }

    /// `n` elements of base type `base` (an array body / a STRUCT column)
    fn body(&mut self, base: u32, cls: &[u8], n: usize, depth: usize) -> HVal {
        match base {
            1 => HVal::Bytes(self.rng.bytes(n)),
            2 => HVal::Ints(int_edge(self.rng), (0..n).map(|_| self.int_value()).collect()),
            3 => HVal::Reals((0..n).map(|_| f32_edge(self.rng)).collect()),
            10 => HVal::Strs((0..n).map(|_| self.string()).collect()),
            8 => HVal::Refs((0..n).map(|_| self.rng.range(0, self.nobjs as u64) as usize).collect()),
            4..=7 => {
                let k = 4 * (base as usize - 3);
                HVal::Vecs((0..n).map(|_| (0..k).map(|_| f32_edge(self.rng)).collect()).collect())
            }
            9 => {
                let t = self.logical_type(cls).expect("struct class");
                let cols = self.columns(t, n, &[], depth + 1);
                // an object-level STRUCT array whose elements store nothing can have more elements than
                // bytes follow (recorded finding havok-array-length-guard): rare on purpose
                if depth == 0 && n >= 1 && !cols.iter().any(stores_data) && !self.rng.chance(1, 30) {
                    return HVal::Structs(0, self.columns(t, 0, &[], depth + 1));
                }
                HVal::Structs(n, cols)
            }
            _ => HVal::Absent,
        }
    }

    /// columns of a STRUCT array of class `t`; `fixed` = columns given by the caller (by member name)
    fn columns(&mut self, t: usize, n: usize, fixed: &[(&str, HVal)], depth: usize) -> Vec<HVal> {
        let ms = all_members(&self.tb, t);
        let mut seen = std::collections::HashSet::new();
        ms.iter()
            .map(|m| {
                let first = seen.insert(m.name.clone());
                if first {
                    if let Some((_, v)) = fixed.iter().find(|(k, _)| k.as_bytes() == &m.name[..]) {
                        return v.clone();
                    }
                }
                let scalar = m.ty & 0x30 == 0 && (1..=10).contains(&(m.ty & 0xf));
                if !scalar || self.rng.chance(2, 5) || (m.ty == 9 && depth >= 2) {
                    HVal::Absent
                } else {
                    self.body(m.ty, &m.cls, n, depth)
                }
            })
            .collect()
    }

    /// member values of an object of type `t`
    fn fields(&mut self, t: usize, fixed: &[(&str, HVal)]) -> Vec<HVal> {
        let ms = all_members(&self.tb, t);
        let mut seen = std::collections::HashSet::new();
        ms.iter()
            .map(|m| {
                let first = seen.insert(m.name.clone());
                if first {
                    if let Some((_, v)) = fixed.iter().find(|(k, _)| k.as_bytes() == &m.name[..]) {
                        return v.clone();
                    }
                }
                let ty = m.ty;
                let base = ty & 0xf;
                if ty & 0x10 != 0 && (1..=10).contains(&base) {
                    if self.rng.chance(1, 2) || (base == 9 && self.logical_type(&m.cls).is_none()) {
                        return HVal::Absent;
                    }
                    let n = self.small_len();
                    return self.body(base, &m.cls, n, 0);
                }
                if ty & 0x30 == 0 && [1, 2, 3, 8, 10].contains(&ty) {
                    if self.rng.chance(1, 2) {
                        return HVal::Absent;
                    }
                    return match ty {
                        1 => HVal::Byte(self.rng.next() as u8),
                        2 => HVal::Int(self.int_value()),
                        3 => HVal::Real(f32_edge(self.rng)),
                        8 => HVal::Ref(self.rng.range(0, self.nobjs as u64) as usize),
                        _ => HVal::Str(self.string()),
                    };
                }
                // tuple / scalar vector / scalar struct / void: no reader code for a present value
                if self.unimpl && self.rng.chance(1, 2) && (1..=10).contains(&base) && (base != 9 || self.logical_type(&m.cls).is_some()) {
                    let n = if ty & 0x20 != 0 { m.tuple as usize % 5 } else { 1 };
                    return self.body(base, &m.cls, n, 1);
                }
                HVal::Absent
            })
            .collect()
    }
}

struct BoneG {
    name: Vec<u8>,
    parent: i64,
    pose: Vec<u32>,
    lock: u8,
}

fn gen_bones(rng: &mut Rng, pool: &mut Vec<Vec<u8>>, big: bool) -> Vec<BoneG> {
    let n = match rng.below(10) {
        0 => 1,
        1 => 2,
        2 => rng.range(60, 70),
        3 if big => rng.range(200, 400),
        _ => rng.range(1, 24),
    } as usize;
    let style = rng.below(4);
    (0..n)
        .map(|i| BoneG {
            name: if rng.chance(1, 12) { utf8_name(rng, pool) } else {
                let mut s = format!("{}_{}", rng.pick(&["j", "n", "iv", "ex"]), rng.below(200)).into_bytes();
                if rng.chance(1, 6) { s.extend_from_slice("é骨".as_bytes()); }
                pool.push(s.clone());
                s
            },
            parent: match style {
                0 => i as i64 - 1,                                       // a chain
                1 => if i == 0 { -1 } else { rng.below(i as u64) as i64 }, // a tree
                2 => if rng.chance(1, 5) { -1 } else { rng.below(n as u64) as i64 }, // forest, forward links
                _ => int_edge(rng),                                      // arbitrary i32
            },
            pose: (0..12).map(|_| f32_edge(rng)).collect(),
            lock: rng.below(3) as u8,
        })
        .collect()
}

fn header_fields(rng: &mut Rng) -> String {
    let ver = *rng.pick(&[0x3132_3030u32, 0x3133_3030, 0x3133_3031]);
    let hdr: Vec<u32> = (0..6).map(|_| rng.u32_edge()).collect();
    let gap_kinds = if rng.chance(1, 25) { 7 } else { 6 };
    let gap_len = match rng.below(gap_kinds) {
        0 => 0,
        1 => 1,
        2 => rng.range(100, 3000),
        // the Havok data starts at or beyond 64 KiB (the offset is a 32-bit field in the newer
        // container, a 16-bit one in the old)
        6 => *rng.pick(&[65400u64, 65536, 65537, 70000, 131072]),
        _ => rng.range(0, 64),
    } as usize;
    // the old container stores the offset in 16 bits: its largest legal gap is 65507
    let gap_len = if ver == 0x3132_3030 && gap_len + 28 >= 65536 { 65507 } else { gap_len };
    let reuse = match rng.below(4) {
        0 => 0,
        1 => 0xFFFF,
        _ => rng.below(0x10000),
    };
    let width = match rng.below(8) {
        0 => 5,
        1 => rng.range(2, 4),
        _ => 1,
    };
    format!("{} {} {} {} {}", ver, join(&hdr, ","), hex(&rng.bytes(gap_len)), reuse, width)
}

/// the standard file of theorem `c16_skeleton`
fn gen_skel_std(rng: &mut Rng, out: &mut dyn Write, n: usize) {
    for i in 0..n {
        let mut pool = vec![];
        let bones = gen_bones(rng, &mut pool, i % 50 == 7);
        let b: Vec<String> = bones
            .iter()
            .map(|b| format!("{}:{}:{}:{}", hex(&b.name), b.parent, join(&b.pose, ","), b.lock))
            .collect();
        let name = utf8_name(rng, &mut pool);
        let vname = if rng.chance(1, 2) { b"hkaAnimationContainer".to_vec() } else { utf8_name(rng, &mut pool) };
        writeln!(out, "skelstd {} {} {} {} {}", header_fields(rng), hex(&name), hex(&vname), int_edge(rng), join(&b, ";")).unwrap();
    }
}

/// arbitrary type tables around the members the skeleton extraction needs
fn gen_skel_any(rng: &mut Rng, out: &mut dyn Write, n: usize) {
    for i in 0..n {
        let mut g = HGen { rng, tb: std_types(), pool: vec![], nobjs: 0, uniq: 0, unimpl: i % 40 == 39, wide: i % 40 == 19 };
        if g.rng.chance(1, 2) {
            g.tb.truncate(7); // the two classes skeleton files never instantiate are optional
        }
        let plain = i % 10 == 0; // the unmodified table
        if !plain {
            // extra struct classes (some with a chain of parents that have members)
            for _ in 0..g.rng.below(3) {
                let depth = g.rng.below(4) as usize;
                let mut parent = None;
                for d in 0..=depth {
                    let below = g.tb.len();
                    let k = g.rng.below(4) as usize;
                    let members = (0..k).map(|_| g.extra_member(true, below)).collect();
                    let name = g.fresh(if d == depth { "xs" } else { "xsp" });
                    g.tb.push(HType { name, version: int_edge(g.rng), parent, members, structy: true });
                    parent = Some(g.tb.len() - 1);
                }
            }
            // new parents spliced in above existing types (deep inheritance, also for hkaBone)
            for _ in 0..g.rng.below(4) {
                let t = g.rng.below(g.tb.len() as u64) as usize;
                let structy = g.tb[t].structy;
                let k = g.rng.below(4) as usize;
                // no nested STRUCT members here: the class graph must stay acyclic
                let members = (0..k).map(|_| g.extra_member(structy, 0)).collect();
                let name = g.fresh("xp");
                let old = g.tb[t].parent;
                g.tb.push(HType { name, version: int_edge(g.rng), parent: old, members, structy });
                g.tb[t].parent = Some(g.tb.len() - 1);
            }
            // extra members anywhere
            for _ in 0..g.rng.below(8) {
                let t = g.rng.below(g.tb.len() as u64) as usize;
                let structy = g.tb[t].structy;
                let m = g.extra_member(structy, if structy { 0 } else { usize::MAX });
                let at = g.rng.range(0, g.tb[t].members.len() as u64) as usize;
                g.tb[t].members.insert(at, m);
            }
            // unrelated types
            for _ in 0..g.rng.below(3) {
                let parent = if g.rng.chance(1, 2) { None } else { Some(g.rng.below(g.tb.len() as u64) as usize) };
                let structy = parent.map(|p| g.tb[p].structy).unwrap_or(false);
                let k = g.rng.below(5) as usize;
                let members = (0..k).map(|_| g.extra_member(structy, usize::MAX)).collect();
                let name = g.fresh("xt");
                g.tb.push(HType { name, version: int_edge(g.rng), parent, members, structy });
            }
            if g.unimpl {
                // a scalar STRUCT / vector / tuple member in a type that gets instantiated
                let t = *g.rng.pick(&[T_ROOT, T_CONT, T_SKEL]);
                let ty = *g.rng.pick(&[9u32, 4, 6, 0x22, 0x2a, 0x23]);
                let mut m = g.extra_member(false, usize::MAX);
                m.ty = ty;
                m.tuple = g.rng.range(1, 4) as i64;
                m.cls = b"hkaBone".to_vec();
                g.tb[t].members.push(m);
            }
            // member counts that are exact multiples of 8 (bit fields without a partial byte)
            for &t in &[T_ROOT, T_NV, T_CONT, T_SKEL, T_BONE] {
                if g.rng.chance(1, 3) {
                    while all_members(&g.tb, t).len() % 8 != 0 {
                        let structy = g.tb[t].structy;
                        let m = g.extra_member(structy, if structy { 0 } else { usize::MAX });
                        let at = g.rng.range(0, g.tb[t].members.len() as u64) as usize;
                        g.tb[t].members.insert(at, m);
                    }
                }
            }
        }
        // objects: 1 = root, the others in random order
        let n_skel = if plain { 1 } else { g.rng.range(1, 3) as usize };
        let n_extra = if plain { 0 } else { g.rng.below(4) as usize };
        // boundary of the reader's length guard (`array_len > remaining input`): the last object of the file
        // ends with a STRUCT array whose elements store nothing; 1..8 elements against the 2..8 bytes that follow
        let edge = !plain && g.rng.chance(1, 12);
        let mut edge_type = 0;
        if edge {
            let cands = g.structy_types(usize::MAX);
            let cls = g.tb[*g.rng.pick(&cands)].name.clone();
            let name = g.fresh("xg");
            let mname = g.fresh("xga");
            g.tb.push(HType {
                name,
                version: 0,
                parent: None,
                members: vec![HMember { name: mname, ty: 0x19, tuple: 0, cls }],
                structy: false,
            });
            edge_type = g.tb.len() - 1;
        }
        let tb_len = g.tb.len();
        let nobjs = 2 + n_skel + n_extra + edge as usize;
        g.nobjs = nobjs;
        let mut slots: Vec<usize> = (2..=nobjs - edge as usize).collect();
        for k in (1..slots.len()).rev() {
            let j = g.rng.below(k as u64 + 1) as usize;
            slots.swap(k, j);
        }
        let cont_no = slots[0];
        let skel_nos: Vec<usize> = slots[1..1 + n_skel].to_vec();
        let mut objs: Vec<Option<(usize, Vec<HVal>)>> = vec![None; nobjs + 1];

        // root
        let before = if plain { 0 } else { g.rng.below(3) as usize };
        let after = if plain { 0 } else { g.rng.below(2) as usize };
        let nv = before + 1 + after;
        let mut names = vec![];
        let mut classes = vec![];
        let mut variants = vec![];
        for k in 0..nv {
            if k == before {
                names.push(if g.rng.chance(1, 2) { b"hkaAnimationContainer".to_vec() } else { g.string() });
                classes.push(b"hkaAnimationContainer".to_vec());
                variants.push(cont_no);
            } else {
                names.push(g.string());
                classes.push(if k < before {
                    g.rng.pick(&[&b"hkaAnimationContaine"[..], b"hkaAnimationContainerX", b"hkxScene", b"", b"HKAANIMATIONCONTAINER"]).to_vec()
                } else {
                    g.rng.pick(&[&b"hkaAnimationContainer"[..], b"hkpPhysicsData"]).to_vec()
                });
                variants.push(g.rng.range(0, nobjs as u64) as usize);
            }
        }
        let cols = g.columns(
            T_NV,
            nv,
            &[("name", HVal::Strs(names)), ("className", HVal::Strs(classes)), ("variant", HVal::Refs(variants))],
            0,
        );
        objs[1] = Some((T_ROOT, g.fields(T_ROOT, &[("namedVariants", HVal::Structs(nv, cols))])));
        // container
        let bindings = if g.rng.chance(1, 2) { HVal::Absent } else { HVal::Refs(vec![]) };
        objs[cont_no] = Some((T_CONT, g.fields(T_CONT, &[("skeletons", HVal::Refs(skel_nos.clone())), ("bindings", bindings)])));
        // skeletons (every one must be well formed: the container builds them all)
        let mut first_bones = 0;
        for (k, &no) in skel_nos.iter().enumerate() {
            let HGen { rng, pool, .. } = &mut g;
            let bones = gen_bones(rng, pool, i % 50 == 7 && k == 0);
            if k == 0 {
                first_bones = bones.len();
            }
            let nb = bones.len();
            let lock = if g.rng.chance(1, 3) { HVal::Absent } else { HVal::Bytes(bones.iter().map(|b| b.lock).collect()) };
            let cols = g.columns(
                T_BONE,
                nb,
                &[
                    ("name", HVal::Strs(bones.iter().map(|b| b.name.clone()).collect())),
                    ("lockTranslation", lock),
                ],
                0,
            );
            let kind = int_edge(g.rng);
            let name = g.string();
            let f = g.fields(
                T_SKEL,
                &[
                    ("name", HVal::Str(name)),
                    ("parentIndices", HVal::Ints(kind, bones.iter().map(|b| b.parent).collect())),
                    ("bones", HVal::Structs(nb, cols)),
                    ("referencePose", HVal::Vecs(bones.iter().map(|b| b.pose.clone()).collect())),
                ],
            );
            objs[no] = Some((T_SKEL, f));
        }
        let _ = first_bones;
        // unrelated objects
        for &no in &slots[1 + n_skel..] {
            let cands: Vec<usize> = (0..tb_len)
                .filter(|&t| {
                    (!g.tb[t].structy || g.rng.chance(1, 4))
                        && (g.unimpl || all_members(&g.tb, t).iter().all(|m| m.ty != 9 && !(11..16).contains(&m.ty)))
                })
                .collect();
            let t = *g.rng.pick(&cands);
            let f = if t == T_ROOT || t == T_CONT || t == T_SKEL {
                // a second container / skeleton object that nothing refers to: members absent
                all_members(&g.tb, t).iter().map(|_| HVal::Absent).collect()
            } else {
                g.fields(t, &[])
            };
            objs[no] = Some((t, f));
        }

        if edge {
            let cls = g.tb[edge_type].members[0].cls.clone();
            let ct = g.logical_type(&cls).unwrap();
            let ncols = all_members(&g.tb, ct).len();
            let n = g.rng.range(1, 8) as usize;
            objs[nobjs] = Some((edge_type, vec![HVal::Structs(n, vec![HVal::Absent; ncols])]));
        }

        // emission order of the type declarations
        let lazy = !plain && g.rng.chance(1, 2);
        let mut emitted: Vec<Option<usize>> = vec![None; tb_len]; // logical -> file index
        let mut items: Vec<Result<usize, usize>> = vec![]; // Ok(logical type) | Err(object number)
        fn need(tb: &[HType], t: usize, emitted: &mut Vec<Option<usize>>, items: &mut Vec<Result<usize, usize>>, count: &mut usize, depth: usize) {
            if emitted[t].is_some() || depth > 50 {
                return;
            }
            if let Some(p) = tb[t].parent {
                need(tb, p, emitted, items, count, depth + 1);
            }
            *count += 1;
            emitted[t] = Some(*count);
            items.push(Ok(t));
            for m in all_members(tb, t) {
                if m.ty & 0xf == 9 {
                    if let Some(c) = tb.iter().position(|x| x.name == m.cls) {
                        need(tb, c, emitted, items, count, depth + 1);
                    }
                }
            }
        }
        let mut count = 0;
        if !lazy {
            let mut order: Vec<usize> = (0..tb_len).collect();
            if !plain {
                for k in (1..order.len()).rev() {
                    let j = g.rng.below(k as u64 + 1) as usize;
                    order.swap(k, j);
                }
            }
            for t in order {
                need(&g.tb, t, &mut emitted, &mut items, &mut count, 0);
            }
        }
        for no in 1..=nobjs {
            let t = objs[no].as_ref().unwrap().0;
            need(&g.tb, t, &mut emitted, &mut items, &mut count, 0);
            items.push(Err(no));
        }
        if lazy && g.rng.chance(1, 2) {
            for t in 0..tb_len {
                need(&g.tb, t, &mut emitted, &mut items, &mut count, 0);
            }
        }

        let its: Vec<String> = items
            .iter()
            .map(|it| match it {
                Ok(t) => {
                    let ty = &g.tb[*t];
                    let ms: Vec<String> = ty
                        .members
                        .iter()
                        .map(|m| format!("{}/{}/{}/{}", hex(&m.name), m.ty, m.tuple, hex(&m.cls)))
                        .collect();
                    format!(
                        "T:{}:{}:{}:{}",
                        hex(&ty.name),
                        ty.version,
                        ty.parent.map(|p| emitted[p].unwrap()).unwrap_or(0),
                        join(&ms, ",")
                    )
                }
                Err(no) => {
                    let (t, f) = objs[*no].as_ref().unwrap();
                    let mut toks = vec![];
                    for v in f {
                        val_tokens(v, &mut toks);
                    }
                    format!("O:{}:{}", emitted[*t].unwrap(), join(&toks, ","))
                }
            })
            .collect();
        let hf = header_fields(g.rng);
        writeln!(out, "skel {} {}", hf, join(&its, ";")).unwrap();
    }
}

/// family `mut`: every line an ordinary generator wrote into `lines` whose op is `op`, kept with
/// probability `num/den`, as `mut <seed> <k> <line>` — the Lean driver damages `k` = 1..3 bytes of the
/// encoded file at positions drawn from `<seed>` and answers with the model of the code on the damaged file
fn emit_mut(rng: &mut Rng, out: &mut dyn Write, lines: &[u8], op: &str, num: u64, den: u64) {
    for line in std::str::from_utf8(lines).unwrap().lines() {
        if line.split(' ').next() != Some(op) || !rng.chance(num, den) {
            continue;
        }
        writeln!(out, "mut {} {} {}", rng.next() >> 1, rng.range(1, 3), line).unwrap();
    }
}

/// damaged encodings of the single-file ops (`cmp`, `tera_parse`, `layer_parse`, `pbd`, `pbdl`, `skelstd`,
/// `skel`), derived from the ordinary generators; the queries of a `pbd` case are kept
fn gen_mut(seed: u64, out: &mut dyn Write, thorough: bool) {
    // independent streams: one for the ordinary generators, one for the choice of lines and damage seeds
    let mut g = Rng::new(seed, "C16-mut-gen");
    let mut rng = Rng::new(seed, "C16-mut");
    let x = if thorough { 100 } else { 1 };
    let mut buf: Vec<u8> = Vec::new();
    gen_cmp(&mut g, &mut buf, if thorough { 1000 } else { 20 });
    emit_mut(&mut rng, out, &buf, "cmp", 1, 1);
    buf.clear();
    gen_tera_random(&mut g, &mut buf, 200 * x);
    emit_mut(&mut rng, out, &buf, "tera_parse", 1, 1);
    buf.clear();
    gen_layer(&mut g, &mut buf, 240 * x);
    emit_mut(&mut rng, out, &buf, "layer_parse", 1, 1);
    buf.clear();
    gen_pbd(&mut g, &mut buf, 16 * x);
    emit_mut(&mut rng, out, &buf, "pbd", 1, 2);
    emit_mut(&mut rng, out, &buf, "pbdl", 1, 1);
    buf.clear();
    gen_skel_std(&mut g, &mut buf, 50 * x);
    emit_mut(&mut rng, out, &buf, "skelstd", 1, 1);
    buf.clear();
    gen_skel_any(&mut g, &mut buf, 100 * x);
    emit_mut(&mut rng, out, &buf, "skel", 1, 1);
}

pub fn generate(thorough: bool, seed: u64, out: &mut dyn Write) {
    let mut rng = Rng::new(seed, "C16");
    gen_cmp(&mut rng, out, if thorough { 1500 } else { 40 });
    gen_tera(&mut rng, out, thorough);
    gen_layer(&mut rng, out, if thorough { 20_000 } else { 900 });
    gen_pbd(&mut rng, out, if thorough { 3000 } else { 120 });
    // an independent stream so that the older case families keep their cases
    let mut rng = Rng::new(seed, "C16-skel");
    gen_skel_std(&mut rng, out, if thorough { 4000 } else { 150 });
    gen_skel_any(&mut rng, out, if thorough { 20_000 } else { 600 });
    gen_mut(seed, out, thorough);
}

// ------------------------------------------------------------------------------------------
// run: the real code
// ------------------------------------------------------------------------------------------

fn pairs_u32(s: &str) -> Option<Vec<(u32, u32)>> {
    if s == "-" {
        return Some(vec![]);
    }
    s.split(',')
        .map(|p| {
            let (a, b) = p.split_once(':')?;
            Some((a.parse().ok()?, b.parse().ok()?))
        })
        .collect()
}

fn show_plates(t: &physis::tera::Terrain) -> String {
    let v: Vec<String> = t
        .plates
        .iter()
        .map(|p| format!("{}:{}:{}", p.position.0.to_bits(), p.position.1.to_bits(), hex(p.filename.as_bytes())))
        .collect();
    format!("some {}", join(&v, ","))
}

fn terrain_of(ps: &[(u32, u32)]) -> physis::tera::Terrain {
    physis::tera::Terrain {
        plates: ps
            .iter()
            .map(|(x, y)| physis::tera::PlateModel {
                position: (f32::from_bits(*x), f32::from_bits(*y)),
                filename: String::new(),
            })
            .collect(),
    }
}

fn show_group(g: &physis::layer::LayerGroup) -> String {
    let mut s = String::from("some");
    if g.chunks.len() != 1 {
        return format!("some chunks={}", g.chunks.len());
    }
    let c = &g.chunks[0];
    s.push_str(&format!(
        " {} {} {} {}",
        g.file_id,
        c.chunk_id,
        c.layer_group_id as u32,
        hex(c.name.as_bytes())
    ));
    if !c.layers.is_empty() {
        s.push_str(&format!(" layers={}", c.layers.len()));
    }
    s
}

fn group_of(f: &[&str]) -> Option<physis::layer::LayerGroup> {
    let name = String::from_utf8(unhex(f[4])?).ok()?;
    Some(physis::layer::LayerGroup {
        file_id: f[1].parse().ok()?,
        chunks: vec![physis::layer::LayerChunk {
            chunk_id: f[2].parse().ok()?,
            layer_group_id: f[3].parse::<u32>().ok()? as i32,
            name,
            layers: Vec::new(),
        }],
    })
}

pub fn run(case: &str, input: &str) -> String {
    let f: Vec<&str> = input.split(' ').collect();
    match (f[0], f.len()) {
        ("cmp", 2) => {
            let Some(bytes) = unhex(f[1]) else { return "bad-case".into() };
            guarded(move || match physis::cmp::CMP::from_existing(&bytes) {
                None => "none".into(),
                Some(c) => {
                    let rows: Vec<String> = c
                        .parameters
                        .iter()
                        .map(|p| {
                            let w = [
                                p.male_min_size,
                                p.male_max_size,
                                p.male_min_tail,
                                p.male_max_tail,
                                p.female_min_size,
                                p.female_max_size,
                                p.female_min_tail,
                                p.female_max_tail,
                                p.bust_min_x,
                                p.bust_min_y,
                                p.bust_min_z,
                                p.bust_max_x,
                                p.bust_max_y,
                                p.bust_max_z,
                            ];
                            join(&w.iter().map(|x| x.to_bits()).collect::<Vec<_>>(), ",")
                        })
                        .collect();
                    format!("some {}", join(&rows, ";"))
                }
            })
        }
        ("tera_parse", 2) => {
            let Some(bytes) = unhex(f[1]) else { return "bad-case".into() };
            guarded(move || match physis::tera::Terrain::from_existing(&bytes) {
                None => "none".into(),
                Some(t) => show_plates(&t),
            })
        }
        ("tera_rt", 2) => {
            let Some(ps) = pairs_u32(f[1]) else { return "bad-case".into() };
            guarded(move || {
                let Some(buf) = terrain_of(&ps).write_to_buffer() else { return "none".into() };
                match physis::tera::Terrain::from_existing(&buf) {
                    None => "none".into(),
                    Some(t) => show_plates(&t),
                }
            })
        }
        ("tera_write", 2) | ("tera_wany", 2) => {
            let Some(ps) = pairs_u32(f[1]) else { return "bad-case".into() };
            guarded(move || match terrain_of(&ps).write_to_buffer() {
                None => "none".into(),
                Some(b) => hex(&b),
            })
        }
        ("layer_parse", 2) => {
            let Some(bytes) = unhex(f[1]) else { return "bad-case".into() };
            guarded(move || match physis::layer::LayerGroup::from_existing(&bytes) {
                None => "none".into(),
                Some(g) => show_group(&g),
            })
        }
        ("layer_write", 5) => {
            let Some(g) = group_of(&f) else { return "bad-case".into() };
            guarded(move || match g.write_to_buffer() {
                None => "none".into(),
                Some(b) => format!("some {}", hex(&b)),
            })
        }
        ("layer_rt", 5) => {
            let Some(g) = group_of(&f) else { return "bad-case".into() };
            guarded(move || {
                let Some(b) = g.write_to_buffer() else { return "none".into() };
                match physis::layer::LayerGroup::from_existing(&b) {
                    None => "none".into(),
                    Some(g) => show_group(&g),
                }
            })
        }
        ("pbd", 4) => {
            let Some(bytes) = unhex(f[1]) else { return "bad-case".into() };
            let (Ok(a), Ok(b)) = (f[2].parse::<u16>(), f[3].parse::<u16>()) else { return "bad-case".into() };
            guarded(move || {
                let Some(pbd) = physis::pbd::PreBoneDeformer::from_existing(&bytes) else { return "file-none".into() };
                match pbd.get_deform_matrices(a, b) {
                    None => "none".into(),
                    Some(m) => {
                        let v: Vec<String> = m
                            .bones
                            .iter()
                            .map(|x| {
                                format!(
                                    "{}/{}",
                                    hex(x.name.as_bytes()),
                                    join(&x.deform.iter().map(|w| w.to_bits()).collect::<Vec<_>>(), ",")
                                )
                            })
                            .collect();
                        format!("some {}", join(&v, "+"))
                    }
                }
            })
        }
        ("skel", 2) => {
            let Some(bytes) = unhex(f[1]) else { return "bad-case".into() };
            guarded(move || match physis::skeleton::Skeleton::from_existing(&bytes) {
                None => "none".into(),
                Some(sk) => {
                    let v: Vec<String> = sk
                        .bones
                        .iter()
                        .map(|b| {
                            format!(
                                "{}:{}:{}:{}:{}",
                                hex(b.name.as_bytes()),
                                b.parent_index,
                                join(&b.position.iter().map(|x| x.to_bits()).collect::<Vec<_>>(), ","),
                                join(&b.rotation.iter().map(|x| x.to_bits()).collect::<Vec<_>>(), ","),
                                join(&b.scale.iter().map(|x| x.to_bits()).collect::<Vec<_>>(), ",")
                            )
                        })
                        .collect();
                    format!("some {}", join(&v, ";"))
                }
            })
        }
        _ => "bad-case".into(),
    }
}

pub fn dump(out: &mut dyn Write) {}
