//! C16: auxiliary asset decoders (cmp, tera, empty lgb, pbd, sklb/Havok tag files).
//! Cases are abstract records; the Lean driver encodes them with the `Spec/` encoders and the
//! `run` stage feeds the resulting bytes to the real Physis readers / writers.
#![allow(unused)]
use crate::util::*;
use std::io::Write;

// ------------------------------------------------------------------------------------------
// generators
// ------------------------------------------------------------------------------------------

fn f32_edge(rng: &mut Rng) -> u32 {
    match rng.below(10) {
        0 => 0,
        1 => 0x8000_0000,
        2 => 0x3F80_0000,
        3 => 0x7FC0_0000,
        4 => 0x7F80_0000,
        5 => 0xFF80_0000,
        6 => rng.below(0x0080_0000) as u32, // subnormal
        _ => rng.next() as u32,
    }
}

fn coord_edge(rng: &mut Rng) -> u16 {
    match rng.below(10) {
        0 => 0,
        1 => 1,
        2 => 0xFFFF,
        3 => 0x7FFF,
        4 => 0x8000,
        5 => 0x8001,
        6 => rng.below(64) as u16,
        7 => (0x10000 - rng.range(1, 64)) as u16,
        _ => rng.next() as u16,
    }
}

fn join<T: ToString>(v: &[T], sep: &str) -> String {
    if v.is_empty() {
        "-".to_string()
    } else {
        v.iter().map(|x| x.to_string()).collect::<Vec<_>>().join(sep)
    }
}

fn gen_cmp(rng: &mut Rng, out: &mut dyn Write, n: usize) {
    for i in 0..n {
        let pat_len = rng.range(0, 8) as usize;
        let pat = rng.bytes(pat_len);
        let nrows = match i {
            0 => 0,
            1 => 1,
            _ => match rng.below(4) {
                0 => rng.range(0, 3),
                1 => rng.range(30, 60),
                _ => rng.range(1, 40), // the game file has 40-odd rows
            },
        } as usize;
        let rows: Vec<String> = (0..nrows)
            .map(|_| join(&(0..14).map(|_| f32_edge(rng)).collect::<Vec<_>>(), ","))
            .collect();
        let tail_len = match rng.below(4) {
            0 => 0,
            1 => 55,
            _ => rng.range(0, 55),
        } as usize;
        let tail = rng.bytes(tail_len);
        writeln!(out, "cmp {} {} {}", hex(&pat), join(&rows, ";"), hex(&tail)).unwrap();
    }
}

fn positions(rng: &mut Rng, n: usize) -> String {
    let v: Vec<String> = (0..n).map(|_| format!("{}:{}", coord_edge(rng), coord_edge(rng))).collect();
    join(&v, ",")
}

/// plate sizes whose products with every (2c+1)/2 are exactly representable: k·2^j, k odd ≤ 255
fn plate_size(rng: &mut Rng) -> u32 {
    match rng.below(10) {
        0..=4 => 128,
        5 => 0,
        6 => 1,
        _ => {
            let k = rng.below(128) * 2 + 1; // odd, at most 8 bits
            let bits = 64 - k.leading_zeros() as u64;
            let j = rng.below(32 - bits + 1);
            (k << j) as u32
        }
    }
}

fn gen_tera(rng: &mut Rng, out: &mut dyn Write, thorough: bool) {
    // every i16 coordinate, as x and as y (exhaustive over the plate grid), for reader, writer and both
    let chunk = 1024u32;
    for op in ["tera_parse 16777219 128 0 1065353216", "tera_rt", "tera_write"] {
        for base in (0..65536u32).step_by(chunk as usize) {
            let v: Vec<String> = (base..base + chunk).map(|c| format!("{}:{}", c, 65535 - c)).collect();
            writeln!(out, "{} {}", op, v.join(",")).unwrap();
        }
    }
    let n = if thorough { 20_000 } else { 600 };
    for i in 0..n {
        let cnt = match rng.below(12) {
            0 => 0,
            1 => 1,
            2 => rng.range(200, 3000),
            _ => rng.range(1, 40),
        } as usize;
        match i % 5 {
            0 | 1 => writeln!(
                out,
                "tera_parse {} {} {} {} {}",
                rng.u32_edge(),
                plate_size(rng),
                f32_edge(rng),
                f32_edge(rng),
                positions(rng, cnt)
            )
            .unwrap(),
            2 => writeln!(out, "tera_rt {}", positions(rng, cnt)).unwrap(),
            3 => writeln!(out, "tera_write {}", positions(rng, cnt)).unwrap(),
            _ => {
                // float-model conformance: arbitrary positions handed to the writer
                let v: Vec<String> = (0..cnt.min(64).max(1))
                    .map(|_| format!("{}:{}", wany(rng), wany(rng)))
                    .collect();
                writeln!(out, "tera_wany {}", v.join(",")).unwrap()
            }
        }
    }
}

/// positions for the writer: specials, values around (k + 0.5)·128 ± a few ulp, around the i16 limits
fn wany(rng: &mut Rng) -> u32 {
    match rng.below(6) {
        0 => f32_edge(rng),
        1 | 2 => {
            let k = rng.range(0, 70000) as i64 - 35000;
            let v = (k as f32 + 0.5) * 128.0;
            let b = v.to_bits() as i64 + rng.range(0, 6) as i64 - 3;
            b as u32
        }
        3 => {
            let k = rng.range(0, 70000) as i64 - 35000;
            let v = k as f32 * 128.0 + rng.below(128) as f32;
            v.to_bits()
        }
        4 => {
            // tiny and huge magnitudes
            let e = *rng.pick(&[0u32, 1, 2, 100, 120, 126, 127, 133, 140, 141, 142, 143, 150, 200, 254]);
            ((rng.below(2) as u32) << 31) | (e << 23) | (rng.below(1 << 23) as u32)
        }
        _ => rng.next() as u32,
    }
}

fn ascii_name(rng: &mut Rng, n: usize) -> Vec<u8> {
    (0..n)
        .map(|_| match rng.below(6) {
            0 => rng.range(1, 127) as u8,
            1 => rng.range(b'A' as u64, b'Z' as u64) as u8,
            2 => *rng.pick(&[b'_', b' ', b'/', b'.', 0x7f, 0x01]),
            _ => rng.range(b'a' as u64, b'z' as u64) as u8,
        })
        .collect()
}

fn gen_layer(rng: &mut Rng, out: &mut dyn Write, n: usize) {
    // the repository's sample: LGB1 / LGP1 / 261 / "PlanLive"
    for op in ["layer_parse", "layer_write", "layer_rt"] {
        writeln!(out, "{} {} {} 261 {}", op, 0x3142474cu32, 0x3150474cu32, hex(b"PlanLive")).unwrap();
    }
    for i in 0..n {
        let len = match rng.below(10) {
            0 => 0,
            1 => 1,
            2 => rng.range(100, 2000),
            _ => rng.range(1, 40),
        } as usize;
        let name = ascii_name(rng, len);
        let op = ["layer_parse", "layer_write", "layer_rt"][i % 3];
        let file_id = if rng.chance(1, 2) { 0x3142474c } else { rng.u32_edge() };
        let chunk_id = if rng.chance(1, 2) { 0x3150474c } else { rng.u32_edge() };
        writeln!(out, "{} {} {} {} {}", op, file_id, chunk_id, rng.u32_edge(), hex(&name)).unwrap();
    }
}


/// a random forest of `n` body ids: abstract item / link tables with a random link permutation
fn gen_pbd(rng: &mut Rng, out: &mut dyn Write, n_files: usize) {
    for fi in 0..n_files {
        let n = match rng.below(8) {
            0 => 1,
            1 => 2,
            2 => rng.range(13, 30),
            _ => rng.range(2, 12),
        } as usize;
        // parent item of every item (None = root); item 0 is always a root; acyclic by construction
        let parent: Vec<Option<usize>> = (0..n)
            .map(|i| if i == 0 || rng.chance(1, 5) { None } else { Some(rng.below(i as u64) as usize) })
            .collect();
        // item order in the file and link order are independent permutations
        let mut item_pos: Vec<usize> = (0..n).collect();
        let mut link_pos: Vec<usize> = (0..n).collect();
        if rng.chance(2, 3) {
            for i in (1..n).rev() {
                item_pos.swap(i, rng.below(i as u64 + 1) as usize);
                link_pos.swap(i, rng.below(i as u64 + 1) as usize);
            }
        }
        let mut ids: Vec<u16> = Vec::new();
        for _ in 0..n {
            let id = if rng.chance(1, 12) && !ids.is_empty() {
                *rng.pick(&ids) // duplicate body id: `find` takes the first
            } else {
                match rng.below(3) {
                    0 => [101u16, 201, 301, 401, 501, 601, 701, 801, 901, 1001, 1101, 1201, 1301, 1401, 1501, 1601, 1701, 1801][rng.below(18) as usize],
                    1 => rng.below(16) as u16,
                    _ => rng.next() as u16,
                }
            };
            ids.push(id);
        }
        // children lists for sibling links
        let mut items = vec![String::new(); n];
        let mut links = vec![String::new(); n];
        for i in 0..n {
            let sibs: Vec<usize> = (0..n).filter(|j| parent[*j] == parent[i]).collect();
            let me = sibs.iter().position(|j| *j == i).unwrap();
            let next_sib: u16 = match rng.below(10) {
                0 => 0xFFFF,
                1 => rng.below(n as u64) as u16,
                _ => {
                    if me + 1 < sibs.len() {
                        link_pos[sibs[me + 1]] as u16
                    } else if rng.chance(5, 6) {
                        link_pos[sibs[0]] as u16 // ring
                    } else {
                        0xFFFF
                    }
                }
            };
            let first_child = (0..n).find(|j| parent[*j] == Some(i)).map(|j| link_pos[j] as u16).unwrap_or(0xFFFF);
            let par = parent[i].map(|p| link_pos[p] as u16).unwrap_or(0xFFFF);
            links[link_pos[i]] = format!("{}:{}:{}:{}", par, first_child, next_sib, item_pos[i]);
            // now and then one block larger than 32 KiB, so that name offsets use the whole u16 range
            let big = fi % 40 == 0 && i == n - 1;
            let nb = if big {
                rng.range(700, 1200)
            } else {
                match rng.below(6) {
                    0 => 0,
                    1 => 1,
                    _ => rng.range(1, 5),
                }
            } as usize;
            let bones: Vec<String> = (0..nb)
                .map(|_| {
                    let len = if big { rng.range(1, 2) } else { rng.range(1, 14) } as usize;
                    let name: Vec<u8> = (0..len)
                        .map(|_| match rng.below(8) {
                            0 => rng.range(1, 127) as u8,
                            1 => b'_',
                            _ => rng.range(b'a' as u64, b'z' as u64) as u8,
                        })
                        .collect();
                    let m: Vec<u32> = (0..12).map(|_| f32_edge(rng)).collect();
                    format!("{}/{}", hex(&name), join(&m, ","))
                })
                .collect();
            items[item_pos[i]] = format!("{}:{}:{}", ids[i], link_pos[i], join(&bones, "+"));
        }
        let it = items.join(";");
        let lk = links.join(";");
        // queries: every ordered pair for small forests, otherwise a sample; plus absent ids
        let mut qs: Vec<(u16, u16)> = Vec::new();
        if n <= 5 {
            for a in 0..n {
                for b in 0..n {
                    qs.push((ids[a], ids[b]));
                }
            }
        } else {
            for _ in 0..8 {
                let a = rng.below(n as u64) as usize;
                // bias `to` towards an ancestor of `from`
                let mut b = rng.below(n as u64) as usize;
                if rng.chance(1, 2) {
                    let mut cur = a;
                    let hops = rng.below(4);
                    for _ in 0..=hops {
                        if let Some(p) = parent[cur] {
                            cur = p;
                        }
                    }
                    b = cur;
                }
                qs.push((ids[a], ids[b]));
            }
        }
        qs.push((ids[rng.below(n as u64) as usize], 9999));
        qs.push((9999, ids[0]));
        let _ = fi;
        // the same forest in a non-canonical layout (`pbdl`, Spec/PbdLayout.lean): blocks stored in another
        // order behind filler bytes, a block nobody points at, non-zero reserved bytes, a trailer.
        // Forked stream: the `pbd` cases stay what they were.
        let mut prng = Rng::new(rng.0, "C16-pbdl");
        let mut placed = 0;
        for (qi, (a, b)) in qs.iter().enumerate() {
            writeln!(out, "pbd {} {} {} {}", it, lk, a, b).unwrap();
            // three per file, spread over the query list, never the trivial `from == to`
            if a == b || placed >= 3 || (qi % 2 == 1 && qs.len() > 6) {
                continue;
            }
            placed += 1;
            let mut order: Vec<usize> = (0..n).collect();
            if prng.chance(3, 4) {
                for i in (1..n).rev() {
                    order.swap(i, prng.below(i as u64 + 1) as usize);
                }
            }
            if prng.chance(1, 3) {
                // a second copy of some block: the items keep pointing at the first one
                let dup = order[prng.below(n as u64) as usize];
                let at = prng.below(order.len() as u64 + 1) as usize;
                order.insert(at, dup);
            }
            let stored: Vec<String> = order
                .iter()
                .map(|i| {
                    let g = match prng.below(8) {
                        0..=2 => 0,
                        3..=5 => prng.range(1, 3),
                        6 => prng.range(4, 16),
                        _ => prng.range(17, 70),
                    } as usize;
                    let fill: Vec<u8> = match prng.below(3) {
                        0 => vec![0u8; g],
                        1 => vec![0xFFu8; g],
                        _ => prng.bytes(g),
                    };
                    format!("{}:{}", i, hex(&fill))
                })
                .collect();
            let reserved: Vec<String> = (0..n)
                .map(|_| if prng.chance(1, 2) { hex(&f32_edge(&mut prng).to_le_bytes()) } else { hex(&prng.bytes(4)) })
                .collect();
            let tl = prng.below(9) as usize;
            let trailer = prng.bytes(tl);
            writeln!(out, "pbdl {} {} {} {} {} {} {}", it, lk, a, b, stored.join(";"), reserved.join(";"), hex(&trailer)).unwrap();
        }
    }
}

pub fn generate(thorough: bool, seed: u64, out: &mut dyn Write) {
    let mut rng = Rng::new(seed, "C16");
    gen_cmp(&mut rng, out, if thorough { 1500 } else { 40 });
    gen_tera(&mut rng, out, thorough);
    gen_layer(&mut rng, out, if thorough { 20_000 } else { 900 });
    gen_pbd(&mut rng, out, if thorough { 3000 } else { 120 });
}

// ------------------------------------------------------------------------------------------
// run: the real code
// ------------------------------------------------------------------------------------------

fn pairs_u32(s: &str) -> Option<Vec<(u32, u32)>> {
    if s == "-" {
        return Some(vec![]);
    }
    s.split(',')
        .map(|p| {
            let (a, b) = p.split_once(':')?;
            Some((a.parse().ok()?, b.parse().ok()?))
        })
        .collect()
}

fn show_plates(t: &physis::tera::Terrain) -> String {
    let v: Vec<String> = t
        .plates
        .iter()
        .map(|p| format!("{}:{}:{}", p.position.0.to_bits(), p.position.1.to_bits(), hex(p.filename.as_bytes())))
        .collect();
    format!("some {}", join(&v, ","))
}

fn terrain_of(ps: &[(u32, u32)]) -> physis::tera::Terrain {
    physis::tera::Terrain {
        plates: ps
            .iter()
            .map(|(x, y)| physis::tera::PlateModel {
                position: (f32::from_bits(*x), f32::from_bits(*y)),
                filename: String::new(),
            })
            .collect(),
    }
}

fn show_group(g: &physis::layer::LayerGroup) -> String {
    let mut s = String::from("some");
    if g.chunks.len() != 1 {
        return format!("some chunks={}", g.chunks.len());
    }
    let c = &g.chunks[0];
    s.push_str(&format!(
        " {} {} {} {}",
        g.file_id,
        c.chunk_id,
        c.layer_group_id as u32,
        hex(c.name.as_bytes())
    ));
    if !c.layers.is_empty() {
        s.push_str(&format!(" layers={}", c.layers.len()));
    }
    s
}

fn group_of(f: &[&str]) -> Option<physis::layer::LayerGroup> {
    let name = String::from_utf8(unhex(f[4])?).ok()?;
    Some(physis::layer::LayerGroup {
        file_id: f[1].parse().ok()?,
        chunks: vec![physis::layer::LayerChunk {
            chunk_id: f[2].parse().ok()?,
            layer_group_id: f[3].parse::<u32>().ok()? as i32,
            name,
            layers: Vec::new(),
        }],
    })
}

pub fn run(case: &str, input: &str) -> String {
    let f: Vec<&str> = input.split(' ').collect();
    match (f[0], f.len()) {
        ("cmp", 2) => {
            let Some(bytes) = unhex(f[1]) else { return "bad-case".into() };
            guarded(move || match physis::cmp::CMP::from_existing(&bytes) {
                None => "none".into(),
                Some(c) => {
                    let rows: Vec<String> = c
                        .parameters
                        .iter()
                        .map(|p| {
                            let w = [
                                p.male_min_size,
                                p.male_max_size,
                                p.male_min_tail,
                                p.male_max_tail,
                                p.female_min_size,
                                p.female_max_size,
                                p.female_min_tail,
                                p.female_max_tail,
                                p.bust_min_x,
                                p.bust_min_y,
                                p.bust_min_z,
                                p.bust_max_x,
                                p.bust_max_y,
                                p.bust_max_z,
                            ];
                            join(&w.iter().map(|x| x.to_bits()).collect::<Vec<_>>(), ",")
                        })
                        .collect();
                    format!("some {}", join(&rows, ";"))
                }
            })
        }
        ("tera_parse", 2) => {
            let Some(bytes) = unhex(f[1]) else { return "bad-case".into() };
            guarded(move || match physis::tera::Terrain::from_existing(&bytes) {
                None => "none".into(),
                Some(t) => show_plates(&t),
            })
        }
        ("tera_rt", 2) => {
            let Some(ps) = pairs_u32(f[1]) else { return "bad-case".into() };
            guarded(move || {
                let Some(buf) = terrain_of(&ps).write_to_buffer() else { return "none".into() };
                match physis::tera::Terrain::from_existing(&buf) {
                    None => "none".into(),
                    Some(t) => show_plates(&t),
                }
            })
        }
        ("tera_write", 2) | ("tera_wany", 2) => {
            let Some(ps) = pairs_u32(f[1]) else { return "bad-case".into() };
            guarded(move || match terrain_of(&ps).write_to_buffer() {
                None => "none".into(),
                Some(b) => hex(&b),
            })
        }
        ("layer_parse", 2) => {
            let Some(bytes) = unhex(f[1]) else { return "bad-case".into() };
            guarded(move || match physis::layer::LayerGroup::from_existing(&bytes) {
                None => "none".into(),
                Some(g) => show_group(&g),
            })
        }
        ("layer_write", 5) => {
            let Some(g) = group_of(&f) else { return "bad-case".into() };
            guarded(move || match g.write_to_buffer() {
                None => "none".into(),
                Some(b) => format!("some {}", hex(&b)),
            })
        }
        ("layer_rt", 5) => {
            let Some(g) = group_of(&f) else { return "bad-case".into() };
            guarded(move || {
                let Some(b) = g.write_to_buffer() else { return "none".into() };
                match physis::layer::LayerGroup::from_existing(&b) {
                    None => "none".into(),
                    Some(g) => show_group(&g),
                }
            })
        }
        ("pbd", 4) => {
            let Some(bytes) = unhex(f[1]) else { return "bad-case".into() };
            let (Ok(a), Ok(b)) = (f[2].parse::<u16>(), f[3].parse::<u16>()) else { return "bad-case".into() };
            guarded(move || {
                let Some(pbd) = physis::pbd::PreBoneDeformer::from_existing(&bytes) else { return "file-none".into() };
                match pbd.get_deform_matrices(a, b) {
                    None => "none".into(),
                    Some(m) => {
                        let v: Vec<String> = m
                            .bones
                            .iter()
                            .map(|x| {
                                format!(
                                    "{}/{}",
                                    hex(x.name.as_bytes()),
                                    join(&x.deform.iter().map(|w| w.to_bits()).collect::<Vec<_>>(), ",")
                                )
                            })
                            .collect();
                        format!("some {}", join(&v, "+"))
                    }
                }
            })
        }
        _ => "bad-case".into(),
    }
}

pub fn dump(out: &mut dyn Write) {}
