//! C03: applying a ZiPatch has exactly the reference effect on the install.
//! Case grammar: lean/PhysisModel/Driver/C03.lean.  The generator emits abstract command lists; the
//! Lean driver encodes them with `Spec.ZiPatch.encodePatch` and the run stage applies the encoded
//! patch(es) with `ZiPatch::apply` / `GameData::apply_patch` / `BootData::apply_patch` to the start
//! tree materialised in a scratch directory, then prints outcome + the whole tree (files and
//! directories).
#![allow(unused)]
use crate::c03fs::*;
use crate::util::*;
use std::io::Write;

/// raw deflate (window bits -15), what `no_header_decompress` inflates
pub fn deflate_raw(data: &[u8]) -> Vec<u8> {
    deflate_raw_level(data, 6)
}

/// raw deflate at a given level (0 = stored blocks only, 1 = fastest, 9 = best)
pub fn deflate_raw_level(data: &[u8], level: i32) -> Vec<u8> {
    use libz_rs_sys::*;
    unsafe {
        let mut strm: z_stream = std::mem::MaybeUninit::zeroed().assume_init();
        let ret = deflateInit2_(
            &mut strm,
            level,
            Z_DEFLATED,
            -15,
            8,
            Z_DEFAULT_STRATEGY,
            zlibVersion(),
            core::mem::size_of::<z_stream>() as i32,
        );
        assert_eq!(ret, Z_OK);
        let mut out = vec![0u8; data.len() + data.len() / 8 + 128];
        strm.next_in = data.as_ptr() as *mut u8;
        strm.avail_in = data.len() as u32;
        strm.next_out = out.as_mut_ptr();
        strm.avail_out = out.len() as u32;
        let r = deflate(&mut strm, Z_FINISH);
        assert_eq!(r, Z_STREAM_END);
        out.truncate(strm.total_out as usize);
        deflateEnd(&mut strm);
        out
    }
}

fn zblock(len: usize, seed: usize) -> String {
    let d = pattern(len, seed);
    format!("z{}_~{}.{}", hex(&deflate_raw(&d)), len, seed)
}

/// the largest compressed length a deflated block may have (32000 in the length word marks a raw block)
const ZMAX: usize = 31999;

/// A deflated block of pseudo-random content (`^len.seed.bits`, see `c03fs::noise`) whose compressed
/// length is as close to `want` (≤ `ZMAX`) as the level allows and never above `ZMAX`.  Level 0 and
/// `bits = 8` hit `want` exactly (a stored stream is 5 bytes longer than its content, `want` ≥ 6);
/// otherwise the content length is estimated from `bits` and corrected a few times.
fn znoise(want: usize, seed: usize, bits: usize, level: i32) -> String {
    let want = want.clamp(6, ZMAX);
    let mut n = if level == 0 { want - 5 } else { (want * 8 / bits).max(1) };
    let mut best: Option<(usize, Vec<u8>)> = None;
    for _ in 0..5 {
        let c = deflate_raw_level(&noise(n, seed, bits), level);
        let len = c.len();
        if len <= ZMAX && best.as_ref().map_or(true, |(_, b)| want.abs_diff(len) < want.abs_diff(b.len())) {
            best = Some((n, c));
        }
        // close enough (exact lengths are the business of level 0), unless the top of the range is wanted
        if len == want || (len <= ZMAX && want < ZMAX - 100 && want.abs_diff(len) <= want / 100) {
            break;
        }
        // proportional correction (the compressed length is close to linear in the content length)
        let next = ((n as u64 * want as u64) / len.max(1) as u64) as usize;
        let next = if next == n { if len > want { n - 1 } else { n + 1 } } else { next };
        if next == 0 || next > (1 << 20) {
            break;
        }
        n = next;
    }
    let (n, c) = best.unwrap_or_else(|| {
        let n = 1000;
        (n, deflate_raw_level(&noise(n, seed, bits), level))
    });
    format!("z{}_^{}.{}.{}", hex(&c), n, seed, bits)
}

/// compressible content of `len` bytes (pattern) deflated at `level`: a short stream for a long content
fn zpattern(len: usize, seed: usize, level: i32) -> String {
    format!("z{}_~{}.{}", hex(&deflate_raw_level(&pattern(len, seed), level)), len, seed)
}

fn target(pl: u16) -> String {
    format!("T:{}:65535:0:1:0:0", pl)
}

/// the concrete alphabet of the bounded-exhaustive part
fn alphabet() -> Vec<String> {
    let mut v: Vec<String> = vec![
        target(0),
        target(2),
        "X:1:2:123456789".into(),
        "I:A:0:81985529216486895:3:1".into(),
        "FH3:44494646:1.2.3.4.5.6.7.8.9.10.11.12.13".into(),
        "ADIR:6d6f766965".into(),
        // AddData
        "A:4:0:0:0:0:~128.1".into(),
        "A:4:256:1:2:1:~256.2".into(),
        "A:10:0:0:1:3:~128.3".into(),
        // DeleteData / ExpandData
        "D:4:0:0:0:1".into(),
        "D:4:256:1:1:2".into(),
        "E:4:0:0:3:1".into(),
        "E:10:512:2:0:2".into(),
        // HeaderUpdate
        "H:D:V:4:0:0:~1024.4".into(),
        "H:I:I:4:0:0:~1024.5".into(),
        "H:I:D:4:256:1:~1024.6".into(),
        "H:D:D:4:0:0:~1024.7".into(),
        // file operations
        "FA:0:0:d0/f0:r0102030405".into(),
        "FA:0:0:sqpack/ffxiv/x.bin:r~300.8;r~17.9".into(),
        "FA:200:0:d0/f0:r~10.10".into(),
        format!("FA:0:0:f1:{};r~5.12", zblock(600, 11)),
        format!("FA:3:1:sqpack/ex1/ex1.ver:{}", zblock(40, 13)),
        "FD:0:d0/f0".into(),
        "FD:0:sqpack/ffxiv/040000.win32.dat0".into(),
        "FR:0:sqpack/ffxiv/x".into(),
        "FR:1:sqpack/ex1/x".into(),
        "FM:0:d1/d2/x".into(),
        "FM:2:sqpack/ex2/y".into(),
    ];
    v
}

const TREES: [&str; 3] = [
    "-",
    "sqpack/ffxiv/040000.win32.dat0:~300.20;sqpack/ex1/040100.win32.dat1:~700.21;d0/f0:~40.22;sqpack/ex1/ex1.ver:323031322e30312e30312e303030302e30303030",
    "sqpack/ffxiv/;sqpack/ex2/;sqpack/ffxiv/040000.win32.index:~2100.23;sqpack/ffxiv/0a0000.ps4.dat0:~130.24;f1:aa;d1/",
];

fn rand_content(rng: &mut Rng, n: usize) -> String {
    if n <= 16 && rng.chance(1, 2) { hex(&rng.bytes(n)) } else { format!("~{}.{}", n, rng.below(256)) }
}

const FILES: [&str; 8] = [
    "f0", "f1.bin", "d0/f0", "d0/d1/f2", "sqpack/ffxiv/x.bin", "sqpack/ex1/ex1.ver", "movie/ffxiv/f3.bk2",
    "sqpack/ffxiv/040000.win32.dat0",
];
/// expansion ids of file operations at the widths a narrower integer type or a shorter format
/// would lose: two and three digits, around 2^8, the sign bit and the end of the 16-bit range
const EDGE_EXP: [u16; 14] = [3, 9, 10, 12, 99, 100, 255, 256, 257, 258, 512, 0x7fff, 0x8000, 0xffff];
const DIRPATHS: [&str; 5] = ["d1/d2/x", "sqpack/ex2/y", "d0/z", "movie/ex1/m", "q"];

/// Paths with bytes beyond letters / digits / `._-` (raw here, escaped in the case line:
/// `c03fs::escape_path`): blanks in front of the first component, behind the file name, inside;
/// other white space; punctuation; control characters.  A small pool, so that commands meet files
/// of the start tree and of earlier commands.  No entry is a directory of another one or of `FILES`.
const ODD_FILES: [&str; 23] = [
    " f0", "f0 ", "f 0", " ", "d0/ f1 ", " d/f0", "d /f0", "d0/d 1/f2", "sqpack/ffxiv/x .bin", "movie/ffxiv/ f3.bk2",
    "sqpack/ex1/ex1.ver ", "a+b=c,(d)'!@#$%&[]", "d0/f\t", "f\n", "\rf", "d0/.f", "d~/^{f};:`", "f%20", "d0/f\\g*?\"<>|", "\x01/\x7f",
    "f..", "d0/f..old.log", "d../..f",
];
const ODD_DIRPATHS: [&str; 8] = ["d1/ d2/x ", " q", "q ", "d 1/d+2", "sqpack/ex2 /y", "m\t/n\n", "(a)/[b]/{c}", "%/%25"];

fn rand_file(rng: &mut Rng) -> String {
    if rng.chance(1, 8) { escape_path(*rng.pick(&ODD_FILES)) } else { rng.pick(&FILES).to_string() }
}

fn rand_dirpath(rng: &mut Rng) -> String {
    if rng.chance(1, 5) { escape_path(*rng.pick(&ODD_DIRPATHS)) } else { rng.pick(&DIRPATHS).to_string() }
}

/// expansions whose `sqpack/<folder>` certainly exists at this point of the sequence (DeleteData does
/// not create it: the generator aims at well-formed sequences)
fn initial_dirs(tree: &str) -> Vec<u16> {
    let mut v = vec![];
    for (name, e) in [("sqpack/ffxiv/", 0u16), ("sqpack/ex1/", 1), ("sqpack/ex2/", 2), ("sqpack/ex12/", 12)] {
        if tree.contains(name) {
            v.push(e);
        }
    }
    v
}

/// compressed lengths at which something changes: the 128-byte padding of a block (`c + 143` rounded
/// down to 128: c ≡ 112 / 113 mod 128), field widths, the size of the blocks the game writes (16000
/// bytes of content, 16005 stored) and the raw-block marker 32000
const ZLENS: [usize; 40] = [
    6, 7, 111, 112, 113, 127, 128, 129, 240, 241, 255, 256, 257, 4095, 4096, 4097, 8191, 8192, 8193, 15984, 15985,
    15999, 16000, 16001, 16004, 16005, 16006, 16383, 16384, 16385, 24000, 31856, 31857, 31871, 31872, 31873, 31990, 31997,
    31998, 31999,
];

/// a deflated block of noise: compressed length mostly in the upper half of the legal range
fn rand_znoise(rng: &mut Rng) -> String {
    let want = match rng.below(8) {
        0 => *rng.pick(&ZLENS),
        1 => rng.range(6, 16000) as usize,
        2 | 3 => rng.range(16000, 16400) as usize,
        4 => rng.range(31000, ZMAX as u64) as usize,
        _ => rng.range(16000, ZMAX as u64) as usize,
    };
    let level = *rng.pick(&[0, 0, 1, 6, 9]);
    let bits = if level == 0 { 8 } else { *rng.pick(&[8usize, 8, 7, 6, 5, 4, 3, 2, 1]) };
    // small alphabets mean long contents (up to 8 x the stream): the fast level for those
    let level = if bits <= 3 { level.min(1) } else { level };
    znoise(want, rng.below(1 << 16) as usize, bits, level)
}

/// one random AddFile block in `ZDEN` is a long deflated block (`rand_znoise`): set by `generate`
/// (quick 64, thorough 400 — a long block costs ~60 KB of case text and a few deflate runs; the
/// thorough tier has 60 times the sequences)
static ZDEN: std::sync::atomic::AtomicU64 = std::sync::atomic::AtomicU64::new(64);

fn rand_cmd(rng: &mut Rng, have: &mut Vec<u16>) -> String {
    let main = *rng.pick(&[0u16, 4, 4, 10, 19, 0x123, 0xffff]);
    // sub id = expansion (high byte) and chunk (low byte): mostly small, one in eight anywhere in the
    // 16-bit range (two- and three-digit expansion folders, chunk 255)
    let mut sub = if rng.chance(1, 8) {
        *rng.pick(&[0x00ffu16, 0x0a09, 0x6300, 0x6400, 0x7f80, 0x8000, 0xff00, 0xffff])
    } else {
        *rng.pick(&[0u16, 0, 1, 0x0100, 0x0101, 0x0200, 0x0c00])
    };
    let file = rng.below(4);
    let off = match rng.below(50) {
        0 => rng.range(1000, 3000), // a data file of several hundred KiB
        1..=12 => 0,
        13..=24 => rng.below(4),
        _ => rng.below(40),
    };
    match rng.below(20) {
        0 => target(*rng.pick(&[0u16, 1, 2, 3, 4])),
        1 => match rng.below(7) {
            0 => format!("X:{}:{}:{}", rng.below(256), rng.below(256), rng.next()),
            1 => format!("I:{}:{}:{}:{}:{}", rng.pick(&["A", "D"]), rng.below(2), rng.next(), rng.u32_edge(), rng.u32_edge()),
            2 => format!("FH2:44494646:{}", rng.u32_edge()),
            3 => {
                let ns: Vec<String> = (0..13).map(|_| rng.u32_edge().to_string()).collect();
                format!("FH3:48495354:{}", ns.join("."))
            }
            4 => format!("APLY:{}:{}", rng.range(1, 2), rng.u32_edge()),
            5 => format!("ADIR:{}", hex(b"sqpack/ex3")),
            _ => format!("DELD:{}", hex(b"movie")),
        },
        2..=6 => {
            if !have.contains(&(sub >> 8)) {
                have.push(sub >> 8);
            }
            let blocks = rng.range(1, 4) as usize;
            let del = if rng.chance(1, 2) { 0 } else { rng.below(6) };
            format!("A:{}:{}:{}:{}:{}:{}", main, sub, file, off, del, rand_content(rng, 128 * blocks))
        }
        7 | 8 => {
            // mostly into a repository directory that exists (1 in 16: anywhere)
            if !have.contains(&(sub >> 8)) && !rng.chance(1, 16) {
                if have.is_empty() {
                    have.push(sub >> 8);
                    return format!("E:{}:{}:{}:{}:{}", main, sub, file, off, rng.range(1, 5));
                }
                sub = (*rng.pick(&have) << 8) | (sub & 0xff);
            }
            format!("D:{}:{}:{}:{}:{}", main, sub, file, off, rng.range(1, 5))
        }
        9 | 10 => {
            if !have.contains(&(sub >> 8)) {
                have.push(sub >> 8);
            }
            format!("E:{}:{}:{}:{}:{}", main, sub, file, off, rng.range(1, 5))
        }
        11 | 12 => {
            if !have.contains(&(sub >> 8)) {
                have.push(sub >> 8);
            }
            format!(
            "H:{}:{}:{}:{}:{}:{}",
            rng.pick(&["D", "I"]),
            rng.pick(&["V", "I", "D"]),
            main,
            sub,
            file,
            rand_content(rng, 1024)
        )},
        13..=16 => {
            let nb = match rng.below(6) {
                0 => 0,
                1..=3 => 1,
                4 => 2,
                _ => rng.range(3, 5),
            };
            let mut bs: Vec<String> = vec![];
            for _ in 0..nb {
                let n = match rng.below(5) {
                    0 => *rng.pick(&[1usize, 2, 3, 4, 111, 112, 113, 127, 128, 129, 240, 241]),
                    1 => rng.range(1, 40) as usize,
                    2 => rng.range(1, 1200) as usize,
                    3 => 16000,
                    _ => rng.range(100, 3000) as usize,
                };
                if rng.chance(1, ZDEN.load(std::sync::atomic::Ordering::Relaxed)) {
                    // a deflated block anywhere in the legal range of compressed lengths
                    bs.push(rand_znoise(rng));
                } else if rng.chance(1, 2) {
                    bs.push(format!("r{}", rand_content(rng, n)));
                } else {
                    bs.push(zblock(n, rng.below(256) as usize));
                }
            }
            let offset = match rng.below(4) {
                0 | 1 => 0,
                2 => rng.below(50),
                _ => rng.below(3000),
            };
            format!(
                "FA:{}:{}:{}:{}",
                offset,
                rng.below(3),
                rand_file(rng),
                if bs.is_empty() { "-".to_string() } else { bs.join(";") }
            )
        }
        17 => format!("FD:{}:{}", rng.below(3), rand_file(rng)),
        18 => {
            // the expansion id of a file operation is a 16-bit field of its own (not the high byte of
            // a sub id): one in three is beyond the single-digit expansions
            let e = if rng.chance(1, 3) { *rng.pick(&EDGE_EXP) } else { rng.below(3) as u16 };
            have.retain(|x| *x != e);
            format!("FR:{}:{}", e, rand_file(rng))
        }
        _ => format!("FM:{}:{}", rng.below(3), rand_dirpath(rng)),
    }
}

fn rand_tree(rng: &mut Rng) -> String {
    if rng.chance(1, 4) {
        return TREES[rng.below(3) as usize].to_string();
    }
    let mut es: Vec<String> = vec![];
    for f in FILES.iter() {
        if rng.chance(1, 3) {
            let n = *rng.pick(&[1usize, 20, 127, 128, 129, 1000, 1024, 2048, 2100, 5000]);
            es.push(format!("{}:{}", f, rand_content(rng, n)));
        }
    }
    for d in ["sqpack/ffxiv/", "sqpack/ex1/", "sqpack/ex12/", "d9/"] {
        if rng.chance(1, 3) {
            es.push(d.to_string());
        }
    }
    // one tree in three: a few files with odd names
    if rng.chance(1, 3) {
        for f in ODD_FILES.iter() {
            if rng.chance(1, 5) {
                let n = *rng.pick(&[1usize, 20, 129, 1000]);
                es.push(format!("{}:{}", escape_path(f), rand_content(rng, n)));
            }
        }
    }
    if es.is_empty() { "-".into() } else { es.join(";") }
}

fn api_of(rng: &mut Rng, tree: &mut String) -> &'static str {
    match rng.below(6) {
        0 => "game",
        1 => {
            // BootData::from_existing needs ffxivboot.ver
            if *tree == "-" {
                *tree = "ffxivboot.ver:31".into();
            } else {
                tree.push_str(";ffxivboot.ver:31");
            }
            "boot"
        }
        _ => "zipatch",
    }
}

pub fn generate(thorough: bool, seed: u64, out: &mut dyn Write) {
    let mut rng = Rng::new(seed, "C03");
    ZDEN.store(if thorough { 400 } else { 64 }, std::sync::atomic::Ordering::Relaxed);
    let al = alphabet();
    let t0 = target(0);
    // file operations on paths with blanks, punctuation, control characters
    generate_odd(thorough, seed, out);
    generate_blocked_targets(thorough, out);
    generate_wide_ids(thorough, out);
    // bounded-exhaustive: all sequences of length <= 2 on every start tree, length 3 (quick) on one
    // start tree each / (thorough) on every start tree; every sequence starts with a TargetInfo
    for (ti, tree) in TREES.iter().enumerate() {
        writeln!(out, "apply api=zipatch tree={} cmds=-", tree).unwrap();
        writeln!(out, "apply api=zipatch tree={} cmds={}", tree, t0).unwrap();
        for a in al.iter() {
            writeln!(out, "apply api=zipatch tree={} cmds={},{}", tree, t0, a).unwrap();
            // the same command without a target platform (file operations and no-ops are defined)
            writeln!(out, "apply api=zipatch tree={} cmds={}", tree, a).unwrap();
            for b in al.iter() {
                writeln!(out, "apply api=zipatch tree={} cmds={},{},{}", tree, t0, a, b).unwrap();
            }
        }
    }
    // deflated blocks over the whole legal range of compressed lengths, long contents: these cases
    // are long (tens of KB); the check cuts the case list into contiguous shards, so they are spread
    // evenly over the length-3 sequences instead of sitting together in one shard
    let mut heavy_buf: Vec<u8> = vec![];
    generate_zrange(thorough, seed, &mut heavy_buf);
    let heavy_txt = String::from_utf8(heavy_buf).unwrap();
    let mut heavy = heavy_txt.lines();
    let stride = (al.len() * al.len() * al.len()) / heavy_txt.lines().count().max(1) + 1;
    let mut k = 0usize;
    for a in al.iter() {
        for b in al.iter() {
            for c in al.iter() {
                k += 1;
                for (ti, tree) in TREES.iter().enumerate() {
                    if thorough || k % 3 == ti {
                        writeln!(out, "apply api=zipatch tree={} cmds={},{},{},{}", tree, t0, a, b, c).unwrap();
                    }
                }
                if k % stride == 0 {
                    if let Some(l) = heavy.next() {
                        writeln!(out, "{}", l).unwrap();
                    }
                }
            }
        }
    }
    for l in heavy {
        writeln!(out, "{}", l).unwrap();
    }
    // damaged patches (`mut <seed> <k> apply …`, Base/Mutate.lean): 1..3 bytes of the encoded patch
    // changed; the model of the code against the code — outcome and the tree a partly applied patch
    // leaves behind.  Cases whose damaged fields ask for large writes are skipped by the driver
    {
        let mut mrng = Rng::new(seed, "C03-mut");
        let n = if thorough { 12000 } else { 300 };
        for _ in 0..n {
            let tree = rand_tree(&mut mrng);
            let mut have = initial_dirs(&tree);
            let len = 1 + mrng.below(5) as usize;
            let mut cmds = vec![target(*mrng.pick(&[0u16, 2]))];
            for _ in 0..len {
                let c = rand_cmd(&mut mrng, &mut have);
                // long deflated noise blocks make the case text large and add nothing here
                if c.len() < 4000 {
                    cmds.push(c);
                }
            }
            writeln!(out, "mut {} {} apply api=zipatch tree={} cmds={}", mrng.next() >> 1, 1 + mrng.below(3), tree, cmds.join(",")).unwrap();
        }
    }
    if thorough {
        // length 4 over a 16-command sub-alphabet (at least one representative per command kind)
        let sub: Vec<&String> =
            [1usize, 4, 5, 7, 8, 10, 12, 14, 15, 17, 19, 20, 21, 22, 25, 27].iter().map(|i| &al[*i]).collect();
        let mut k = 0usize;
        for a in sub.iter() {
            for b in sub.iter() {
                for c in sub.iter() {
                    for d in sub.iter() {
                        k += 1;
                        writeln!(out, "apply api=zipatch tree={} cmds={},{},{},{},{}", TREES[k % 3], t0, a, b, c, d).unwrap();
                    }
                }
            }
        }
    }
    // random long sequences through all three entry points
    let n = if thorough { 100_000 } else { 1_500 };
    for _ in 0..n {
        let mut tree = rand_tree(&mut rng);
        let api = api_of(&mut rng, &mut tree);
        let len = match rng.below(4) {
            0 => rng.range(1, 5),
            1 | 2 => rng.range(5, 20),
            _ => rng.range(20, 60),
        };
        let mut cs = vec![target(*rng.pick(&[0u16, 0, 0, 1, 2, 3, 4]))];
        let mut have = initial_dirs(&tree);
        for _ in 0..len {
            cs.push(rand_cmd(&mut rng, &mut have));
        }
        writeln!(out, "apply api={} tree={} cmds={}", api, tree, cs.join(",")).unwrap();
    }
    // chains of 2..5 patches
    let n = if thorough { 20_000 } else { 400 };
    for _ in 0..n {
        let mut tree = rand_tree(&mut rng);
        let api = api_of(&mut rng, &mut tree);
        let np = rng.range(2, 5);
        let mut ps: Vec<String> = vec![];
        let mut have = initial_dirs(&tree);
        for _ in 0..np {
            let len = rng.range(0, 8);
            let mut cs = vec![target(*rng.pick(&[0u16, 0, 2, 4]))];
            for _ in 0..len {
                cs.push(rand_cmd(&mut rng, &mut have));
            }
            ps.push(format!("cmds={}", cs.join(",")));
        }
        writeln!(out, "chain api={} tree={} {}", api, tree, ps.join(" ")).unwrap();
    }
    // byte offsets of 2^32 and more (sparse files), last: they stay together in one shard
    generate_big(thorough, seed, out);
}

/// File operations whose paths contain bytes beyond letters / digits / `._-` — the quantifier is
/// "ASCII relative paths".  Bounded-exhaustive: every sequence of length ≤ 2 over AddFile / DeleteFile /
/// MakeDirTree / RemoveAll on every odd path of the pool, on the empty tree and on a tree that holds
/// every odd file (quick: a third of the pairs, on one of the two trees each).
/// AddFile whose target cannot be opened (a directory stands at its path): the command is
/// skipped, but its data blocks still have to be consumed so that the chunks behind it are applied.
/// RemoveAll / AddData / DeleteData / HeaderUpdate with expansion, sub, main and file ids over the
/// whole width of their wire fields, on trees that hold files in the base, ex1, ex2 and ex12 folders
/// and in the folder the command names (an id cut to 8 bits or formatted with too few digits lands
/// in one of the former)
fn generate_wide_ids(thorough: bool, out: &mut dyn Write) {
    let base = "sqpack/ffxiv/x.bin:~20.1;sqpack/ffxiv/040000.win32.dat0:~300.2;sqpack/ex1/ex1.ver:~8.3;sqpack/ex2/f:~5.4;sqpack/ex12/g:~6.5;f0:~9.6";
    for (i, e) in EDGE_EXP.iter().enumerate() {
        for own in [false, true] {
            let tree = if own { format!("{};sqpack/ex{}/h:~7.{}", base, e, i) } else { base.to_string() };
            writeln!(out, "apply api=zipatch tree={} cmds={},FR:{}:sqpack/ffxiv/x", tree, target(0), e).unwrap();
            if thorough || own {
                writeln!(out, "apply api=game tree={} cmds=FR:{}:x,A:4:{}:0:0:0:~128.7", tree, e, (e & 0xff) << 8).unwrap();
            }
        }
    }
    let subs = [0x00ffu16, 0x0a09, 0x6300, 0x6400, 0x7f80, 0x8000, 0xff00, 0xffff];
    let mains = [0u16, 0xff, 0x100, 0x1234, 0xffff];
    let files = [0u32, 7, 9, 10, 255, 256, 65536, 0xffff_ffff];
    for (i, sub) in subs.iter().enumerate() {
        let main = mains[i % mains.len()];
        let file = files[i % files.len()];
        let t = target([0u16, 2, 3][i % 3]);
        writeln!(out, "apply api=zipatch tree={} cmds={},A:{}:{}:{}:1:0:~256.{},E:{}:{}:{}:4:2", base, t, main, sub, file, i, main, sub, file).unwrap();
        writeln!(out, "apply api=zipatch tree={} cmds={},A:{}:{}:{}:0:0:~128.{},H:D:V:{}:{}:{}:~1024.{},H:I:I:{}:{}:{}:~1024.{}",
            base, t, main, sub, file, i, main, sub, file, i + 1, main, sub, file, i + 2).unwrap();
        writeln!(out, "apply api=zipatch tree={} cmds={},A:{}:{}:{}:2:0:~128.{},D:{}:{}:{}:0:1", base, t, main, sub, file, i, main, sub, file).unwrap();
    }
    for (i, main) in mains.iter().enumerate() {
        for (j, file) in files.iter().enumerate() {
            if thorough || (i + j) % 2 == 0 {
                writeln!(out, "apply api=zipatch tree={} cmds={},A:{}:256:{}:0:0:~128.{}", base, target(0), main, file, i + j).unwrap();
            }
        }
    }
}

fn generate_blocked_targets(thorough: bool, out: &mut dyn Write) {
    let tree = "d0/d1/;f0:~40.22;sqpack/ffxiv/040000.win32.dat0:~300.20;sqpack/ex1/ex1.ver:323031322e30312e30312e303030302e30303030;ffxivboot.ver:31";
    let blocked: Vec<String> = vec![
        "FA:0:0:d0:r~100.5".into(),
        "FA:0:0:d0/d1:r~100.5;r~200.6".into(),
        format!("FA:0:0:d0/d1:r~16.1;{};r~40.2", zblock(300, 3)),
        format!("FA:64:0:sqpack/ffxiv:{}", zblock(900, 4)),
        "FA:0:0:d0/d1:r~15984.7;r~1.8".into(),
    ];
    // the same for commands that name a node of the wrong kind: DeleteFile on a directory / through
    // a regular file (the reference warns and goes on), AddFile below a regular file (an error)
    let wrong_kind: Vec<String> = vec![
        "FD:0:d0".into(),
        "FD:0:d0/d1".into(),
        "FD:0:sqpack/ffxiv".into(),
        "FD:0:f0/x".into(),
        "FD:0:ffxivboot.ver/a/b".into(),
        "FA:0:0:f0/x:r~10.1".into(),
        "FA:16:0:ffxivboot.ver/a/b:r~10.1".into(),
    ];
    for (i, w) in wrong_kind.iter().enumerate() {
        let api = ["zipatch", "boot", "game"][i % 3];
        writeln!(out, "apply api={} tree={} cmds=T:0:65535:0:1:0:0,{},FA:0:0:f1.bin:r~50.7,FD:0:f0", api, tree, w).unwrap();
        writeln!(out, "apply api={} tree={} cmds=T:0:65535:0:1:0:0,FM:0:d2/d3,FA:0:0:d2/d3:r~9.2,{},FD:0:d2/d3,E:4:256:1:2:2", api, tree, w).unwrap();
    }
    // raw blocks on either side of 1 MiB and beyond (a raw block is as long as its file says: only a
    // deflated block has the 1 MiB guard), alone, followed by another block, and at an offset
    for (i, n) in [1048575usize, 1048576, 1048577, 1500000, 2097153].iter().enumerate() {
        if !thorough && i % 2 == 1 {
            continue;
        }
        writeln!(out, "apply api=zipatch tree={} cmds=T:0:65535:0:1:0:0,FA:0:0:big.bin:r~{}.5,FD:0:f0", tree, n).unwrap();
        writeln!(out, "apply api=game tree={} cmds=T:0:65535:0:1:0:0,FA:128:0:f0:r~{}.6;r~10.7,FA:0:0:f1.bin:r~50.7", tree, n).unwrap();
    }
    let follow: Vec<String> = vec![
        "FA:0:0:f1.bin:r~50.7".into(),
        format!("FA:8:0:f0:{};r~3.9", zblock(120, 10)),
        "A:4:0:0:1:1:~256.11".into(),
        "E:4:256:1:2:2".into(),
        "FD:0:f0".into(),
        "FM:0:d2/d3".into(),
        "H:D:V:4:0:0:~1024.4".into(),
    ];
    for (i, b) in blocked.iter().enumerate() {
        for (j, f) in follow.iter().enumerate() {
            if !thorough && (i + j) % 2 == 1 {
                continue;
            }
            let api = ["zipatch", "boot", "game"][(i + j) % 3];
            writeln!(out, "apply api={} tree={} cmds=T:0:65535:0:1:0:0,{},{}", api, tree, b, f).unwrap();
            writeln!(out, "apply api={} tree={} cmds=T:0:65535:0:1:0:0,{},{},{}", api, tree, f, b, f).unwrap();
        }
    }
}

fn generate_odd(thorough: bool, seed: u64, out: &mut dyn Write) {
    let mut al: Vec<String> = vec![];
    for (i, f) in ODD_FILES.iter().enumerate() {
        let f = escape_path(f);
        al.push(format!("FA:0:0:{}:r~{}.{}", f, 10 + i, i));
        al.push(format!("FD:0:{}", f));
        if i % 4 == 0 {
            al.push(format!("FA:{}:0:{}:{};r~3.{}", 7 + i, f, zblock(200 + i, i), i));
        }
    }
    for d in ODD_DIRPATHS.iter() {
        al.push(format!("FM:0:{}", escape_path(d)));
    }
    al.push(format!("FR:0:{}", escape_path(ODD_FILES[0])));
    let full: Vec<String> = ODD_FILES.iter().enumerate().map(|(i, f)| format!("{}:~{}.{}", escape_path(f), 30 + i, 50 + i)).collect();
    let full = format!("{};sqpack/ffxiv/040000.win32.dat0:~300.20", full.join(";"));
    let trees = ["-", full.as_str()];
    let mut k = 0usize;
    for a in al.iter() {
        for tree in trees.iter() {
            writeln!(out, "apply api=zipatch tree={} cmds={}", tree, a).unwrap();
        }
        for b in al.iter() {
            k += 1;
            for (ti, tree) in trees.iter().enumerate() {
                if thorough || k % 6 == ti {
                    writeln!(out, "apply api={} tree={} cmds={},{}", if k % 7 == 0 { "game" } else { "zipatch" }, tree, a, b).unwrap();
                }
            }
        }
    }
}

/// AddFile payloads the small patterns of the other families never produce: deflated blocks whose
/// **compressed** length lies anywhere in the legal range 1..31999 (content deflate cannot shrink:
/// `c03fs::noise`; level 0 = stored streams of an exact length, levels 1/6/9 = Huffman-coded ones),
/// alone and among other blocks, and long **contents** that deflate to short streams (the other
/// length word of the block header), plus raw blocks around the marker value.
fn generate_zrange(thorough: bool, seed: u64, out: &mut dyn Write) {
    let mut rng = Rng::new(seed, "C03z");
    let t0 = target(0);
    let apis = ["zipatch", "game", "zipatch", "boot"];
    let mut k = 0usize;
    let mut emit = |out: &mut dyn Write, k: &mut usize, tree: &str, cmds: String| {
        let api = apis[*k % 4];
        *k += 1;
        let tree = match (api, tree) {
            ("boot", "-") => "ffxivboot.ver:31".to_string(),
            ("boot", t) => format!("{};ffxivboot.ver:31", t),
            (_, t) => t.to_string(),
        };
        writeln!(out, "apply api={} tree={} cmds={}", api, tree, cmds).unwrap();
    };
    // every boundary length exactly (stored stream), as the only block of a new file / of a file
    // that replaces an old one; thorough: also Huffman-coded streams near the same lengths
    for (i, &c) in ZLENS.iter().enumerate() {
        let f = FILES[i % 7];
        let tree = if i % 2 == 0 { "-" } else { TREES[1] };
        emit(out, &mut k, tree, format!("FA:0:0:{}:{}", f, znoise(c, i, 8, 0)));
        if thorough {
            for (level, bits) in [(1, 8usize), (9, 6), (6, 3)] {
                emit(out, &mut k, tree, format!("FA:0:0:{}:{}", f, znoise(c, 100 + i, bits, level)));
            }
        }
    }
    // one past the legal range: a compressed length of 32000 *is* the raw marker, 32001 is a raw block
    // too as far as the reader is concerned (outside WFseq: compared with the model only)
    for c in [32000usize, 32001] {
        let d = noise(c - 5, 7, 8);
        emit(out, &mut k, "-", format!("FA:0:0:f1.bin:z{}_^{}.7.8", hex(&deflate_raw_level(&d, 0)), c - 5));
    }
    // Huffman-coded streams (levels 1 / 6 / 9, alphabets of 1..8 bits) across the range
    let n = if thorough { 400 } else { 20 };
    for i in 0..n {
        let want = if i % 4 == 0 { rng.range(200, 16000) } else { rng.range(16000, ZMAX as u64) } as usize;
        let bits = [7usize, 6, 4, 8, 5, 2, 3, 1][i % 8];
        let level = if bits <= 3 && !thorough { 1 } else { [1, 9, 6][i % 3] };
        let off = if i % 5 == 4 { rng.range(1, 3000) } else { 0 };
        let tree = if i % 3 == 0 { TREES[1] } else { "-" };
        emit(out, &mut k, tree, format!("FA:{}:{}:{}:{}", off, rng.below(3), rng.pick(&FILES), znoise(want, rng.below(1 << 16) as usize, bits, level)));
    }
    // several blocks in one file: the game's own shape (16000 bytes of content per block, the last one
    // shorter; incompressible content is stored: 16005 bytes) and random mixtures of long deflated,
    // short deflated and raw blocks, at offset 0 and inside / behind an old file
    let game_shape = |seedb: usize, blocks: usize, last: usize, level: i32| -> String {
        let mut bs: Vec<String> = (0..blocks).map(|j| znoise(16005, seedb + j, 8, level)).collect();
        bs.push(format!("z{}_^{}.{}.8", hex(&deflate_raw_level(&noise(last, seedb + 99, 8), level)), last, seedb + 99));
        bs.join(";")
    };
    emit(out, &mut k, "-", format!("FA:0:0:movie/ffxiv/f3.bk2:{}", game_shape(1, 2, 77, 0)));
    emit(out, &mut k, TREES[1], format!("{},FA:0:1:sqpack/ex1/ex1.ver:{}", t0, game_shape(2, 1, 15999, 9)));
    emit(out, &mut k, TREES[1], format!("FA:25:0:d0/f0:{}", game_shape(3, 1, 1, 1)));
    let n = if thorough { 300 } else { 12 };
    for _ in 0..n {
        let nb = rng.range(2, 5);
        let mut bs: Vec<String> = vec![];
        for j in 0..nb {
            bs.push(match rng.below(if j == 0 { 2 } else { 6 }) {
                0 | 1 | 2 => rand_znoise(&mut rng),
                3 => {
                    let n = *rng.pick(&[1usize, 113, 128, 3000, 16000]);
                    format!("r{}", rand_content(&mut rng, n))
                }
                4 => zblock(rng.range(1, 3000) as usize, rng.below(256) as usize),
                _ => format!("r^{}.{}.8", rng.range(1, 20000), rng.below(256)),
            });
        }
        // the blocks in a random order (the long one is not always first)
        for i in (1..bs.len()).rev() {
            let j = rng.below(i as u64 + 1) as usize;
            bs.swap(i, j);
        }
        let off = match rng.below(3) {
            0 => rng.range(1, 5000),
            _ => 0,
        };
        let tree = if rng.chance(1, 2) { rand_tree(&mut rng) } else { "-".to_string() };
        let mut cs = vec![t0.clone()];
        if rng.chance(1, 2) {
            let mut have = initial_dirs(&tree);
            cs.push(rand_cmd(&mut rng, &mut have));
        }
        cs.push(format!("FA:{}:{}:{}:{}", off, rng.below(3), rng.pick(&FILES), bs.join(";")));
        if rng.chance(1, 2) {
            // a second file operation behind it: the reader must be positioned exactly after the blocks
            cs.push(format!("FA:0:0:{}:r{}", rng.pick(&FILES), rand_content(&mut rng, 40)));
        }
        emit(out, &mut k, &tree, cs.join(","));
    }
    // the other length word: long contents, short streams (up to the reader's limit of 1 MiB; one
    // byte more is outside WFseq), and raw blocks around the marker value / the next field widths
    let mut dl: Vec<usize> = vec![15999, 16000, 16001, 31999, 32000, 32001, 65535, 65536, 65537, 1 << 20, (1 << 20) + 1];
    if thorough {
        dl.extend_from_slice(&[(1 << 20) - 1, 1 << 19, 100_000, 262_144, 1_000_000]);
    }
    for (i, d) in dl.iter().enumerate() {
        let level = [6, 1, 9][i % 3];
        emit(out, &mut k, if i % 2 == 0 { "-" } else { TREES[1] }, format!("FA:0:0:{}:{};r~5.1", FILES[i % 7], zpattern(*d, i, level)));
    }
    for (i, d) in [31999usize, 32000, 32001, 65535, 65536, 65537].iter().enumerate() {
        emit(out, &mut k, "-", format!("FA:0:0:{}:r^{}.{}.8;{}", FILES[i % 7], d, i, zblock(300, i)));
    }
}

pub fn run(case: &str, input: &str) -> String {
    if input == "skip" {
        return "skip".into();
    }
    let is_mut = case.starts_with("mut ");
    let Some(tree) = case.split(' ').find_map(|f| f.strip_prefix("tree=")) else { return "bad-case".into() };
    let Some(es) = parse_tree(tree) else { return "bad-case".into() };
    let f: Vec<&str> = input.split(' ').collect();
    if f.len() < 2 {
        return "bad-case".into();
    }
    let api = f[0].to_string();
    let big = case.starts_with("applybig ");
    let (tmp, _guard) = if big {
        // files of 4–32 GiB, sparse: see `big_setup`
        let Some(real) = big_real_bytes(case) else { return "bad-case".into() };
        let Some(tmp) = big_setup(real) else { return "bad-case".into() };
        let g = DiskGuard::new(tmp.path().to_path_buf(), real + real / 2 + (64 << 20));
        (tmp, Some(g))
    } else if is_mut {
        // a damaged patch: whatever the code makes of it, it must not fill the disk
        let tmp = Scratch::new("c03m");
        let g = DiskGuard::new(tmp.path().to_path_buf(), 256 << 20);
        (tmp, Some(g))
    } else {
        (Scratch::new("c03"), None)
    };
    let root = tmp.path().join("root");
    if materialise(&root, &es).is_err() {
        return "bad-case".into();
    }
    let mut patch_paths: Vec<String> = vec![];
    for (i, h) in f[1..].iter().enumerate() {
        let Some(bytes) = unhex(h) else { return "bad-case".into() };
        let p = tmp.path().join(format!("p{}.patch", i));
        std::fs::write(&p, bytes).unwrap();
        patch_paths.push(p.to_str().unwrap().to_string());
    }
    let sroot = root.to_str().unwrap().to_string();
    let res = guarded(move || {
        for p in patch_paths.iter() {
            let r = match api.as_str() {
                "zipatch" => physis::patch::ZiPatch::apply(&sroot, p),
                "game" => {
                    let Some(g) = physis::gamedata::GameData::from_existing(physis::common::Platform::Win32, &sroot)
                    else {
                        return "none".to_string();
                    };
                    g.apply_patch(p)
                }
                "boot" => {
                    let Some(b) = physis::bootdata::BootData::from_existing(&sroot) else {
                        return "none".to_string();
                    };
                    b.apply_patch(p)
                }
                _ => return "bad-case".to_string(),
            };
            if let Err(e) = r {
                return format!("err:{:?}", e);
            }
        }
        "ok".to_string()
    });
    if res == "bad-case" || res == "none" {
        return res;
    }
    let res = if res.starts_with("panic") { "panic".to_string() } else { res };
    // damaged patches: success or failure, not which error
    let res = if is_mut && res.starts_with("err:") { "err".to_string() } else { res };
    format!("{} {}", res, dump_tree(&root, true))
}

// ---------------------------------------------------------------------------------------------
// `applybig`: byte offsets of 2^32 and more.  The files are sparse (a seek past the end and a
// write leave a hole), so a 32 GiB data file costs a few pages; `c03fs::dump_tree` hashes it
// without reading the holes.  What is *really* written is the payloads and the wiped ranges
// (`wipe` writes its zeros): the generator keeps those small except for the few cases that wipe
// 4 GiB + a little (the only way to exercise `block_delete_number << 7` past 32 bits).

#[repr(C)]
struct RLimit {
    cur: u64,
    max: u64,
}
unsafe extern "C" {
    fn setrlimit(resource: i32, rlim: *const RLimit) -> i32;
    fn signal(sig: i32, handler: usize) -> usize;
}

/// the largest file length a big case may produce (the generator stays below 2^35 + 2^33)
const BIG_MAX_LEN: u64 = 1 << 36;
/// the most a single case may really write (wipe + payload), checked before the case runs
const BIG_MAX_REAL: u64 = 5 << 30;

/// bytes the reference implementation really writes for the commands of a case line: payloads,
/// wiped ranges of AddData (`128·del`), the zeroed range of Delete/ExpandData (`128·num`), AddFile blocks
fn big_real_bytes(case: &str) -> Option<u64> {
    let mut total: u64 = 0;
    for f in case.split(' ') {
        if let Some(t) = f.strip_prefix("tree=") {
            total += t.len() as u64 * 64; // a pattern `~n.s` is short; bound generously below
            for e in t.split(';') {
                if let Some((_, c)) = e.split_once(':') {
                    if let Some(r) = c.strip_prefix('~') {
                        total += r.split_once('.')?.0.parse::<u64>().ok()?;
                    }
                }
            }
        }
        let Some(cs) = f.strip_prefix("cmds=") else { continue };
        for c in cs.split(',') {
            let p: Vec<&str> = c.split(':').collect();
            match p[0] {
                "A" if p.len() == 7 => total += 128 * p[5].parse::<u64>().ok()? + 4096,
                "D" | "E" if p.len() == 6 => total += 128 * p[5].parse::<u64>().ok()? + 4096,
                _ => total += c.len() as u64 + 4096,
            }
        }
    }
    Some(total)
}

/// Scratch directory for a big case, after the one-time set-up:
/// * `RLIMIT_FSIZE` = 2^36 with SIGXFSZ ignored: no file of the process can become longer than 64 GiB
///   (a write beyond fails with EFBIG → `Err`); this does **not** bound the space a sparse file occupies —
///   that is `DiskGuard`'s job;
/// * the hole-skipping hash is checked against the plain one on this file system.
/// A case that really writes a lot goes to tmpfs only when there is memory to spare, else to disk.
fn big_setup(real: u64) -> Option<Scratch> {
    static ONCE: std::sync::Once = std::sync::Once::new();
    ONCE.call_once(|| unsafe {
        signal(25, 1); // SIGXFSZ, SIG_IGN
        let l = RLimit { cur: BIG_MAX_LEN, max: BIG_MAX_LEN };
        setrlimit(1, &l); // RLIMIT_FSIZE
    });
    if real > BIG_MAX_REAL {
        return None;
    }
    let mut base = Scratch::default_base();
    if real > (256 << 20) && base.starts_with("/dev/shm") && std::env::var("VERIF_TMP").is_err() {
        let avail = std::fs::read_to_string("/proc/meminfo")
            .ok()
            .and_then(|m| {
                m.lines().find_map(|l| l.strip_prefix("MemAvailable:").and_then(|r| r.trim().trim_end_matches("kB").trim().parse::<u64>().ok()))
            })
            .unwrap_or(0)
            * 1024;
        if avail < 3 * real + (4 << 30) {
            base = Scratch::disk_base();
        }
    }
    let tmp = Scratch::new_in(&base, "c03big");
    static CHECKED: std::sync::Mutex<Vec<String>> = std::sync::Mutex::new(Vec::new());
    let mut c = CHECKED.lock().unwrap();
    if !c.iter().any(|b| *b == base) {
        if !fnv_selfcheck(tmp.path()) {
            eprintln!("C03: hole-skipping FNV disagrees with the plain one on {}", base);
            return None;
        }
        c.push(base);
    }
    Some(tmp)
}

/// Watches the space really occupied below a directory (`st_blocks`, not the apparent lengths) while
/// a big case runs.  An implementation that materialises a hole — writes the gigabytes instead of
/// seeking over them — would otherwise fill the tmpfs / disk long before the per-case timeout:
/// past the budget the scratch directory is removed and the process aborts (the check records
/// `abort:SIGABRT` as that case's answer, which is a mismatch, and restarts the run stage).
struct DiskGuard {
    done: std::sync::Arc<std::sync::atomic::AtomicBool>,
    th: Option<std::thread::JoinHandle<()>>,
}

fn occupied(dir: &std::path::Path) -> u64 {
    use std::os::unix::fs::MetadataExt;
    let mut n = 0u64;
    if let Ok(rd) = std::fs::read_dir(dir) {
        for e in rd.flatten() {
            let Ok(m) = e.metadata() else { continue };
            if m.is_dir() {
                n += occupied(&e.path());
            } else {
                n += m.blocks() * 512;
            }
        }
    }
    n
}

impl DiskGuard {
    fn new(dir: std::path::PathBuf, budget: u64) -> Self {
        use std::sync::atomic::Ordering;
        let done = std::sync::Arc::new(std::sync::atomic::AtomicBool::new(false));
        let d2 = done.clone();
        let th = std::thread::spawn(move || {
            while !d2.load(Ordering::Relaxed) {
                std::thread::sleep(std::time::Duration::from_millis(10));
                if occupied(&dir) > budget {
                    let _ = std::fs::remove_dir_all(&dir);
                    eprintln!("C03: big case occupies more than {} bytes on disk: aborting", budget);
                    std::process::abort();
                }
            }
        });
        DiskGuard { done, th: Some(th) }
    }
}
impl Drop for DiskGuard {
    fn drop(&mut self) {
        self.done.store(true, std::sync::atomic::Ordering::Relaxed);
        if let Some(t) = self.th.take() {
            let _ = t.join();
        }
    }
}

/// 2^32 bytes in 128-byte blocks
const B4G: u64 = 1 << 25;

fn big_offsets(rng: &mut Rng, n_random: usize) -> Vec<u64> {
    // around the 2^32 boundary, then random ones up to ~2^35 bytes
    let mut v = vec![B4G - 1, B4G, B4G + 1];
    for i in 0..n_random {
        v.push(match i % 3 {
            0 => rng.range(B4G, 2 * B4G),          // 4–8 GiB
            1 => rng.range(2 * B4G, 8 * B4G),      // 8–32 GiB
            _ => (rng.range(1, 8) << 25) | rng.below(4), // k·4 GiB + a few blocks: truncation to u32 lands near 0
        });
    }
    v
}

fn generate_big(thorough: bool, seed: u64, out: &mut dyn Write) {
    let mut rng = Rng::new(seed, "C03big");
    let t0 = target(0);
    let apis = ["zipatch", "game"];
    let mut k = 0usize;
    let mut emit = |out: &mut dyn Write, k: &mut usize, tree: &str, cmds: String| {
        // both entry points, alternating (the boot entry point once, below)
        let api = apis[*k % 2];
        *k += 1;
        writeln!(out, "applybig api={} tree={} cmds={}", api, tree, cmds).unwrap();
    };
    let offs = big_offsets(&mut rng, if thorough { 24 } else { 3 });
    for (i, off) in offs.iter().enumerate() {
        let seedb = rng.below(256);
        // AddData: one or two blocks at the offset, small wipe behind (crosses 2^32 for off = 2^25 − 1 … − 3)
        emit(out, &mut k, "-", format!("{},A:4:0:0:{}:{}:~{}.{}", t0, off, rng.below(3), 128 * rng.range(1, 2), seedb));
        // Expand / Delete at the offset (Delete needs the repository directory)
        emit(out, &mut k, "-", format!("{},E:4:256:1:{}:{}", t0, off, rng.range(1, 3)));
        emit(out, &mut k, "sqpack/ffxiv/", format!("{},D:10:0:2:{}:{}", t0, off, rng.range(1, 3)));
        // AddFile at a byte offset (not block aligned), raw or deflated
        let boff = match i {
            0 => (1u64 << 32) - 5,
            1 => 1u64 << 32,
            2 => (1u64 << 32) + 128,
            _ => 128 * off + rng.below(128),
        };
        let blk = if i % 2 == 0 { format!("r~{}.{}", rng.range(1, 300), seedb) } else { zblock(rng.range(20, 600) as usize, seedb as usize) };
        emit(out, &mut k, "-", format!("FA:{}:0:{}:{}", boff, rng.pick(&FILES), blk));
    }
    // wipe ranges that start below 2^32 and end above it
    for (off, blocks, del) in [(B4G - 1, 1u64, 2u64), (B4G - 2, 1, 3), (B4G - 3, 2, 4), (B4G - 4, 1, 2)] {
        emit(out, &mut k, "-", format!("{},A:4:0:0:{}:{}:~{}.{}", t0, off, del, 128 * blocks, rng.below(256)));
    }
    // the seeded demo: a record near the start, a second one 4 GiB further in the same file (a 32-bit
    // offset puts it on top of the first), as one patch and as a chain of two
    emit(out, &mut k, "-", format!("{},A:4:0:0:3:0:~128.7,A:4:0:0:{}:0:~128.9", t0, B4G + 3));
    writeln!(out, "applybig api=zipatch tree=- cmds={},A:4:0:0:3:0:~128.7 cmds={},A:4:0:0:{}:0:~128.9", t0, t0, B4G + 3).unwrap();
    // an old file with content, then a write far behind its end (gap = zeros), then one inside the gap
    emit(
        out,
        &mut k,
        "sqpack/ffxiv/040000.win32.dat0:~300.20;d0/f0:~40.22",
        format!("{},A:4:0:0:{}:1:~256.1,E:4:0:0:{}:2,D:4:0:0:{}:1,FA:{}:0:d0/f0:r~50.2", t0, 2 * B4G + 7, B4G, B4G - 1, (1u64 << 33) + 1),
    );
    // through BootData::apply_patch
    writeln!(out, "applybig api=boot tree=ffxivboot.ver:31 cmds={},A:0:0:0:{}:1:~128.3,FA:{}:0:f1.bin:r0102", t0, B4G + 2, (1u64 << 32) + 2).unwrap();
    // compositions of a few huge writes in one file, random order
    let n = if thorough { 200 } else { 6 };
    for _ in 0..n {
        let mut cs = vec![target(*rng.pick(&[0u16, 2]))];
        let file = rng.below(2);
        let m = rng.range(2, 5);
        for _ in 0..m {
            let off = match rng.below(4) {
                0 => rng.below(8),
                1 => B4G - 2 + rng.below(5),
                2 => (rng.range(1, 8) << 25) | rng.below(4),
                _ => rng.range(B4G, 8 * B4G),
            };
            cs.push(match rng.below(4) {
                0 | 1 => {
                    let n = 128 * rng.range(1, 3) as usize;
                    format!("A:4:0:{}:{}:{}:{}", file, off, rng.below(4), rand_content(&mut rng, n))
                }
                2 => format!("E:4:0:{}:{}:{}", file, off, rng.range(1, 4)),
                _ => format!("D:4:0:{}:{}:{}", file, off, rng.range(1, 4)),
            });
        }
        if rng.chance(1, 3) {
            let boff = match rng.below(3) {
                0 => (1u64 << 32) - 1 - rng.below(300),
                _ => rng.range(1u64 << 32, 1u64 << 35),
            };
            let n = rng.range(1, 400) as usize;
            cs.push(format!("FA:{}:{}:{}:r{}", boff, rng.below(3), rng.pick(&FILES[..7]), rand_content(&mut rng, n)));
        }
        emit(out, &mut k, "sqpack/ffxiv/", cs.join(","));
    }
    // wipe counts of 2^25 blocks and more: 4 GiB of zeros are really written, so very few of these,
    // one after the other (the check gives consecutive cases to one process)
    let wipes: Vec<(u64, u64)> = if thorough { vec![(1, B4G + 1), (B4G - 1, B4G), (0, B4G + 3)] } else { vec![(1, B4G + 1)] };
    for (off, del) in wipes {
        emit(out, &mut k, "-", format!("{},A:4:0:0:{}:{}:~128.5", t0, off, del));
    }
}

pub fn dump(out: &mut dyn Write) {}
