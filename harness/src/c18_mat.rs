//! C18 part `mat`: mtrl, shpk (+ find_node)
#![allow(unused)]
use crate::alloc;
use crate::c18::*;
use crate::util::*;
use std::io::Write;

/// `None` = not an op of this part
pub fn run(f: &[&str]) -> Option<String> {
    None
}

pub fn generate(thorough: bool, seed: u64, out: &mut dyn Write) {}
