//! C18 part `mat`: mtrl, shpk (+ find_node)
//!
//! Ops:
//!   `mtrl <hex>`                 `Material::from_existing`
//!   `shpk <hex>`                 `ShaderPackage::from_existing`
//!   `shpknode <hex> <selector>`  `ShaderPackage::from_existing` then `find_node(selector)`;
//!                                `some` only when the package parses and a node is found
#![allow(unused)]
use crate::alloc;
use crate::c18::*;
use crate::util::*;
use std::io::Write;

/// `None` = not an op of this part
pub fn run(f: &[&str]) -> Option<String> {
    match (f[0], f.len()) {
        ("mtrl", 2) => Some(asset(f[1], |b| cls(physis::mtrl::Material::from_existing(b)))),
        ("shpk", 2) => Some(asset(f[1], |b| cls(physis::shpk::ShaderPackage::from_existing(b)))),
        ("shpknode", 3) => {
            let Ok(sel) = f[2].parse::<u32>() else { return Some("bad-case".into()) };
            Some(asset(f[1], move |b| {
                cls(physis::shpk::ShaderPackage::from_existing(b).and_then(|p| p.find_node(sel).map(|_| ())))
            }))
        }
        _ => None,
    }
}

// ------------------------------------------------------------------------------------------
// mtrl seeds
// ------------------------------------------------------------------------------------------

const SAMPLER_MAGICS: [u32; 4] = [0x88408C04, 0x0C5EC1F1, 0x95E1F64D, 0xe5338c17];

struct MtrlSpec {
    textures: Vec<&'static [u8]>,
    /// texture_count (and offsets) beyond the texture strings in the table: the scan runs on
    /// into the following strings / past the end of the table
    extra_textures: u8,
    shpk_name: &'static [u8],
    uv_sets: u8,
    color_sets: u8,
    /// bytes of the additional-data block after the flags word
    additional_rest: usize,
    table_flags: u32,
    shader_keys: u16,
    /// (value_offset, value_size)
    constants: Vec<(u16, u16)>,
    samplers: u16,
    shader_values: u16, // floats
}

fn mtrl_seed(s: &MtrlSpec, rng: &mut Rng) -> Seed {
    let mut heap: Vec<u8> = vec![];
    let mut offs = vec![];
    for t in &s.textures {
        offs.push(heap.len() as u32);
        heap.extend_from_slice(t);
        heap.push(0);
    }
    let name_off = heap.len() as u16;
    heap.extend_from_slice(s.shpk_name);
    heap.push(0);
    for i in 0..(s.uv_sets + s.color_sets) {
        heap.extend_from_slice(format!("set{}", i).as_bytes());
        heap.push(0);
    }
    let mut b = B::new(false);
    b.u32(0x0103_0000).u16(0).u16(0).u16(heap.len() as u16).u16(name_off);
    b.u8(s.textures.len() as u8 + s.extra_textures).u8(s.uv_sets).u8(s.color_sets).u8(4 + s.additional_rest as u8);
    b.bound();
    for o in &offs {
        b.u32(*o);
    }
    for _ in 0..s.extra_textures {
        b.u32(0);
    }
    for i in 0..(s.uv_sets + s.color_sets) {
        b.u16(name_off + 4 * i as u16).u16(i as u16);
    }
    b.bound();
    // string heap: every byte corruptible (terminators!)
    b.raw(&heap, true).bound();
    b.u32(s.table_flags);
    b.raw(&rng.bytes(s.additional_rest), false).bound();
    let dims = (s.table_flags >> 4) as u8;
    if s.table_flags & 4 != 0 {
        let n = match dims {
            0 | 0x42 => 16 * 32,
            0x53 => 32 * 64,
            _ => 0,
        };
        b.raw(&rng.bytes(n), false).bound();
    }
    if s.table_flags & 8 != 0 {
        let n = match dims {
            0 => 16 * 2,
            0x50..=0x5F => 32 * 4,
            _ => 0,
        };
        b.raw(&rng.bytes(n), false).bound();
    }
    b.u16(s.shader_values * 4).u16(s.shader_keys).u16(s.constants.len() as u16).u16(s.samplers).u32(0x11);
    b.bound();
    for i in 0..s.shader_keys {
        b.u32(0xB616DC5A + i as u32).u32(0x5CC605B5);
    }
    b.bound();
    for (i, (o, z)) in s.constants.iter().enumerate() {
        b.u32(0x29AC0223 + i as u32).u16(*o).u16(*z);
    }
    b.bound();
    for i in 0..s.samplers {
        b.u32(SAMPLER_MAGICS[i as usize % 4]).u32(0x000F8340).u8(i as u8).u8(0).u8(0).u8(0);
    }
    b.bound();
    for i in 0..s.shader_values {
        b.f32(i as f32 * 0.5);
    }
    b.seed("mtrl")
}

pub fn mtrl_seeds(rng: &mut Rng) -> Vec<Seed> {
    let specs = vec![
        // minimal: no textures, no tables
        MtrlSpec {
            textures: vec![],
            extra_textures: 0,
            shpk_name: b"bg.shpk",
            uv_sets: 0,
            color_sets: 0,
            additional_rest: 0,
            table_flags: 0,
            shader_keys: 0,
            constants: vec![],
            samplers: 0,
            shader_values: 0,
        },
        // legacy colour table + legacy dye table
        MtrlSpec {
            textures: vec![b"chara/a_d.tex", b"chara/a_n.tex"],
            extra_textures: 0,
            shpk_name: b"character.shpk",
            uv_sets: 1,
            color_sets: 1,
            additional_rest: 0,
            table_flags: 0x4 | 0x8,
            shader_keys: 2,
            constants: vec![(0, 16), (16, 4), (4, 12), (0, 0)],
            samplers: 2,
            shader_values: 5,
        },
        // Dawntrail tables, longer additional block
        MtrlSpec {
            textures: vec![b"t.tex"],
            extra_textures: 0,
            shpk_name: b"characterlegacy.shpk",
            uv_sets: 0,
            color_sets: 2,
            additional_rest: 4,
            table_flags: 0x4 | 0x8 | (0x53 << 4),
            shader_keys: 1,
            constants: vec![(8, 8)],
            samplers: 4,
            shader_values: 4,
        },
        // opaque tables (nothing read), legacy 0x42 table without dye table
        MtrlSpec {
            textures: vec![b"x"],
            extra_textures: 0,
            shpk_name: b"s",
            uv_sets: 2,
            color_sets: 0,
            additional_rest: 1,
            table_flags: 0x4 | 0x8 | (0x21 << 4),
            shader_keys: 0,
            constants: vec![(0, 4)],
            samplers: 1,
            shader_values: 1,
        },
        MtrlSpec {
            textures: vec![],
            extra_textures: 0,
            shpk_name: b"",
            uv_sets: 0,
            color_sets: 0,
            additional_rest: 0,
            table_flags: 0x4 | (0x42 << 4),
            shader_keys: 0,
            constants: vec![],
            samplers: 0,
            shader_values: 0,
        },
        // one texture more than texture strings: the shader package name is read as a path
        MtrlSpec {
            textures: vec![b"a.tex"],
            extra_textures: 1,
            shpk_name: b"n.shpk",
            uv_sets: 0,
            color_sets: 0,
            additional_rest: 0,
            table_flags: 0,
            shader_keys: 0,
            constants: vec![],
            samplers: 0,
            shader_values: 0,
        },
        // two more: the third scan starts at the end of the table (mtrl.rs:502)
        MtrlSpec {
            textures: vec![b"a.tex"],
            extra_textures: 2,
            shpk_name: b"n.shpk",
            uv_sets: 0,
            color_sets: 0,
            additional_rest: 0,
            table_flags: 0,
            shader_keys: 0,
            constants: vec![],
            samplers: 0,
            shader_values: 0,
        },
    ];
    specs.iter().map(|s| mtrl_seed(s, rng)).collect()
}

// ------------------------------------------------------------------------------------------
// shpk seeds
// ------------------------------------------------------------------------------------------

struct ShaderSpec {
    /// parameter names per list (scalar, resource, uav, texture)
    params: [Vec<&'static [u8]>; 4],
    code: usize,
}

struct ShpkSpec {
    format: &'static [u8; 4],
    vertex: Vec<ShaderSpec>,
    pixel: Vec<ShaderSpec>,
    mat_params: u16,
    has_defaults: u16,
    mat_params_size: u32,
    /// package-level parameter names (scalar, sampler, texture, uav)
    params: [Vec<&'static [u8]>; 4],
    keys: [u32; 3],
    /// (selector, pass count)
    nodes: Vec<(u32, u32)>,
    /// (selector, node)
    aliases: Vec<(u32, u32)>,
}

fn shader_size(s: &ShaderSpec) -> usize {
    16 + 16 * s.params.iter().map(|p| p.len()).sum::<usize>()
}

fn shpk_seed_at(s: &ShpkSpec, op: &'static str, rng: &mut Rng) -> (Seed, usize, usize) {
    // sizes first: header 72, tables, then strings, then shader data
    let nparams: usize = s.params.iter().map(|p| p.len()).sum();
    let nkeys: usize = s.keys.iter().map(|k| *k as usize).sum();
    let defaults = if s.has_defaults == 1 { (s.mat_params_size >> 2) as usize } else { 0 };
    let node_fixed = 24 + 4 * (nkeys + 2);
    let tables = s.vertex.iter().chain(s.pixel.iter()).map(shader_size).sum::<usize>()
        + 8 * s.mat_params as usize
        + 4 * defaults
        + 16 * nparams
        + 8 * nkeys
        + 8
        + s.nodes.iter().map(|(_, p)| node_fixed + 12 * *p as usize).sum::<usize>()
        + 8 * s.aliases.len();
    let strings_offset = 72 + tables;
    // string heap
    let mut heap: Vec<u8> = vec![];
    let mut name_at = |n: &[u8], heap: &mut Vec<u8>| -> (u32, u16) {
        let o = heap.len() as u32;
        heap.extend_from_slice(n);
        heap.push(0);
        (o, n.len() as u16 + 1)
    };
    let mut shader_names: Vec<Vec<(u32, u16)>> = vec![];
    for sh in s.vertex.iter().chain(s.pixel.iter()) {
        let mut v = vec![];
        for l in &sh.params {
            for n in l {
                v.push(name_at(n, &mut heap));
            }
        }
        shader_names.push(v);
    }
    let mut pkg_names = vec![];
    for l in &s.params {
        for n in l {
            pkg_names.push(name_at(n, &mut heap));
        }
    }
    let shader_data_offset = strings_offset + heap.len();

    let mut b = B::new(false);
    b.raw(b"ShPk", true).u32(0x0B01).raw(s.format, true);
    let file_len_field = b.pos();
    b.u32(0).u32(shader_data_offset as u32).u32(strings_offset as u32);
    b.u32(s.vertex.len() as u32).u32(s.pixel.len() as u32);
    b.u32(s.mat_params_size).u16(s.mat_params).u16(s.has_defaults);
    b.u16(s.params[0].len() as u16).u16(0).u16(s.params[1].len() as u16).u16(s.params[2].len() as u16);
    b.u16(s.params[3].len() as u16).u16(0);
    b.u32(s.keys[0]).u32(s.keys[1]).u32(s.keys[2]).u32(s.nodes.len() as u32).u32(s.aliases.len() as u32);
    b.bound();
    let mut data_off = 0u32;
    for (i, sh) in s.vertex.iter().chain(s.pixel.iter()).enumerate() {
        let is_vertex = i < s.vertex.len();
        b.u32(data_off).u32(sh.code as u32);
        for l in &sh.params {
            b.u16(l.len() as u16);
        }
        for (k, (o, l)) in shader_names[i].iter().enumerate() {
            b.u32(0x1000 + k as u32).u32(*o).u16(*l).u16(0).u16(k as u16).u16(1);
        }
        b.bound();
        data_off += sh.code as u32 + if is_vertex { 8 } else { 0 };
    }
    for i in 0..s.mat_params {
        b.u32(0x2000 + i as u32).u16(4 * i).u16(4);
    }
    for i in 0..defaults {
        b.f32(i as f32);
    }
    b.bound();
    for (k, (o, l)) in pkg_names.iter().enumerate() {
        b.u32(0x3000 + k as u32).u32(*o).u16(*l).u16(0).u16(k as u16).u16(1);
    }
    b.bound();
    for i in 0..nkeys {
        b.u32(0x4000 + i as u32).u32(i as u32);
    }
    b.u32(7).u32(8).bound();
    let nodes_start = b.pos();
    for (sel, passes) in &s.nodes {
        b.u32(*sel).u32(*passes).raw(&[0, 1, 0xFF, 0xFF, 0xFF, 0xFF, 0xFF, 0xFF, 0xFF, 0xFF, 0xFF, 0xFF, 0xFF, 0xFF, 0xFF, 0xFF], false);
        for i in 0..(nkeys + 2) {
            b.u32(0x5000 + i as u32);
        }
        for p in 0..*passes {
            b.u32(0x6000 + p).u32(0).u32(0);
        }
        b.bound();
    }
    for (sel, node) in &s.aliases {
        b.u32(*sel).u32(*node);
    }
    b.bound();
    assert_eq!(b.pos(), strings_offset);
    b.raw(&heap, true).bound();
    assert_eq!(b.pos(), shader_data_offset);
    // shader data; at the pinned commit a vertex shader's `additional_data` is `shader_data_offset`
    // bytes long (C14's D15), so the blob area is padded to keep the seed valid under both readings
    b.raw(&rng.bytes(data_off as usize), false);
    if !s.vertex.is_empty() {
        b.zeros(shader_data_offset + 16);
    }
    let total = b.pos() as u32;
    b.v[file_len_field..file_len_field + 4].copy_from_slice(&total.to_le_bytes());
    (b.seed(op), nodes_start, strings_offset)
}

fn shpk_seed(s: &ShpkSpec, op: &'static str, rng: &mut Rng) -> Seed {
    shpk_seed_at(s, op, rng).0
}

fn shpk_specs() -> Vec<ShpkSpec> {
    vec![
        // empty package, DX9
        ShpkSpec {
            format: b"DX9\0",
            vertex: vec![],
            pixel: vec![],
            mat_params: 0,
            has_defaults: 0,
            mat_params_size: 0,
            params: [vec![], vec![], vec![], vec![]],
            keys: [0, 0, 0],
            nodes: vec![],
            aliases: vec![],
        },
        // everything present
        ShpkSpec {
            format: b"DX11",
            vertex: vec![ShaderSpec { params: [vec![b"g_World"], vec![b"g_Sampler"], vec![], vec![]], code: 24 }],
            pixel: vec![ShaderSpec { params: [vec![], vec![], vec![b"g_Uav"], vec![b"g_Tex"]], code: 12 }],
            mat_params: 2,
            has_defaults: 1,
            mat_params_size: 8,
            params: [vec![b"g_A"], vec![b"g_B"], vec![b"g_C"], vec![b"g_D"]],
            keys: [1, 2, 1],
            nodes: vec![(0x11111111, 1), (0x22222222, 2)],
            aliases: vec![(0x33333333, 1), (0x44444444, 0)],
        },
        // pixel shaders only, defaults flag off with a non-zero size, alias-only lookup
        ShpkSpec {
            format: b"DX11",
            vertex: vec![],
            pixel: vec![
                ShaderSpec { params: [vec![b"p"], vec![], vec![], vec![]], code: 4 },
                ShaderSpec { params: [vec![], vec![], vec![], vec![]], code: 0 },
            ],
            mat_params: 1,
            has_defaults: 0,
            mat_params_size: 64,
            params: [vec![], vec![b"s0", b"s1"], vec![], vec![]],
            keys: [0, 0, 2],
            nodes: vec![(5, 0)],
            aliases: vec![(6, 0)],
        },
    ]
}

pub fn shpk_seeds(rng: &mut Rng) -> Vec<Seed> {
    shpk_specs().iter().map(|s| shpk_seed(s, "shpk", rng)).collect()
}

/// the same packages with a selector query: node selectors, alias selectors, an absent one.
/// Only the fields of the node / alias tables and the counts that decide them stay corruptible
/// (the rest of the package is exercised under the `shpk` op).
pub fn shpknode_seeds(rng: &mut Rng) -> Vec<Seed> {
    let mut out = vec![];
    for s in shpk_specs() {
        let mut sels: Vec<u32> = s.nodes.iter().map(|n| n.0).chain(s.aliases.iter().map(|a| a.0)).collect();
        sels.push(0xDEADBEEF);
        for sel in sels {
            let (mut seed, nodes_start, heap_start) = shpk_seed_at(&s, "shpknode", rng);
            seed.extra = sel.to_string();
            seed.fields.retain(|f| (f.off >= 52 && f.off < 72) || (f.off >= nodes_start && f.off < heap_start));
            out.push(seed);
        }
    }
    out
}

pub fn generate(thorough: bool, seed: u64, out: &mut dyn Write) {
    let mut rng = Rng::new(seed, "C18-mat");
    for s in mtrl_seeds(&mut rng) {
        mutate(&s, &mut rng, thorough, out);
    }
    for s in shpk_seeds(&mut rng) {
        mutate(&s, &mut rng, thorough, out);
    }
    for s in shpknode_seeds(&mut rng) {
        if !thorough {
            // truncations are covered by the `shpk` op: only structure boundaries here
            let n = s.bytes.len();
            for b in s.bounds.clone() {
                if b > 0 && b <= n {
                    emit(out, &s.op, &s.bytes[..b - 1], &s.extra);
                }
            }
            mutate_fields_only(&s, &mut rng, out);
        } else {
            mutate(&s, &mut rng, thorough, out);
        }
    }
    // two-field corruptions of the mtrl header counts / offsets (heap scans depend on pairs)
    for s in mtrl_seeds(&mut rng) {
        let hdr: Vec<Field> = s.fields.iter().filter(|f| f.off >= 8 && f.off < 16).cloned().collect();
        let rounds = if thorough { 400 } else { 60 };
        for _ in 0..rounds {
            let mut m = s.bytes.clone();
            for _ in 0..2 {
                let f = rng.pick(&hdr).clone();
                let cur = get(&m, &f);
                let vs = corrupt_values(cur, f.width);
                let v = if rng.chance(1, 3) { rng.below(1 << (8 * f.width as u64).min(16)) } else { *rng.pick(&vs) };
                put(&mut m, &f, v);
            }
            emit(out, &s.op, &m, "");
        }
    }
    let n = if thorough { 400 } else { 40 };
    blobs("mtrl", b"", &mut rng, n, true, out);
    blobs("shpk", b"ShPk", &mut rng, n, true, out);
    // blobs that get past the shpk magic and format with small counts
    for _ in 0..(if thorough { 2000 } else { 200 }) {
        let len = rng.range(72, 600) as usize;
        let mut b = rng.bytes(len);
        b[..4].copy_from_slice(b"ShPk");
        b[8..12].copy_from_slice(b"DX11");
        for off in (12..72).step_by(2) {
            if rng.chance(3, 4) {
                b[off + 1] = 0;
                b[off] &= 3;
            }
        }
        if rng.chance(1, 2) {
            emit(out, "shpk", &b, "");
        } else {
            emit(out, "shpknode", &b, &(rng.below(4)).to_string());
        }
    }
    // mtrl blobs with small counts
    for _ in 0..(if thorough { 2000 } else { 200 }) {
        let len = rng.range(16, 400) as usize;
        let mut b = rng.bytes(len);
        b[9] = 0;
        b[8] &= 0x3F;
        b[11] = 0;
        b[10] &= 0x3F;
        for k in 12..15 {
            b[k] &= 3;
        }
        b[15] = *rng.pick(&[0u8, 1, 3, 4, 5, 8]);
        emit(out, "mtrl", &b, "");
    }
}

/// the whole seed plus every single-field corruption (no truncations / flips)
fn mutate_fields_only(seed: &Seed, rng: &mut Rng, out: &mut dyn Write) {
    emit(out, &seed.op, &seed.bytes, &seed.extra);
    for f in &seed.fields {
        let cur = get(&seed.bytes, f);
        for v in corrupt_values(cur, f.width) {
            let mut m = seed.bytes.clone();
            put(&mut m, f, v);
            emit(out, &seed.op, &m, &seed.extra);
        }
    }
}
