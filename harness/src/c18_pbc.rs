//! C18 part `pbc`: the "panic-by-construction" readers: sklb/havok, layer (lgb), avfx, dic, stm.
//!
//! Ops: `stm <hex>` / `avfx <hex>` / `lgb <hex>` (complete models after fixes 60-62, 65, 68, 69: outcome
//! class `none`/`some`), `sklb <hex>` / `dic <hex>` (recorded findings: any non-crashing outcome is `ok`).
#![allow(unused)]
use crate::alloc;
use crate::c18::*;
use crate::util::*;
use std::io::Write;

fn okc<T>(_o: Option<T>) -> String {
    "ok".into()
}

/// `None` = not an op of this part
pub fn run(f: &[&str]) -> Option<String> {
    match (f[0], f.len()) {
        ("stm", 2) => Some(asset(f[1], |b| cls(physis::stm::StainingTemplate::from_existing(b)))),
        ("avfx", 2) => Some(asset(f[1], |b| cls(physis::avfx::Avfx::from_existing(b)))),
        ("sklb", 2) => Some(asset(f[1], |b| cls(physis::skeleton::Skeleton::from_existing(b)))),
        ("lgb", 2) => Some(asset(f[1], |b| cls(physis::layer::LayerGroup::from_existing(b)))),
        ("dic", 2) => Some(asset(f[1], |b| okc(physis::dic::Dictionary::from_existing(b)))),
        _ => None,
    }
}

// ------------------------------------------------------------------------------------------
// seeds
// ------------------------------------------------------------------------------------------

/// stm: pad 4, entry_count i32, keys u16*n, offsets u16*n, entries (5 u16 "ends" + data)
fn stm_seeds(rng: &mut Rng) -> Vec<Seed> {
    let mut v = vec![];
    for n in [0u32, 1, 3] {
        let mut b = B::new(false);
        b.u32(0x314D5453).u32(n).bound();
        for i in 0..n {
            b.u16(100 + i as u16);
        }
        b.bound();
        for i in 0..n {
            b.u16((i * 9) as u16); // in u16 units: entry i at 8 + 4n + 18 i
        }
        b.bound();
        for i in 0..n {
            b.u16(1).u16(2).u16(3).u16(3).u16(4);
            b.raw(&rng.bytes(8), false);
            b.bound();
        }
        v.push(b.seed("stm"));
    }
    // ends whose doubling overflows u16, offsets pointing at the last bytes
    let mut b = B::new(false);
    b.u32(0).u32(2).u16(1).u16(2).u16(0).u16(3).bound();
    b.u16(0x7FFF).u16(0x8000).u16(0xFFFF).u16(0).u16(1);
    v.push(b.seed("stm"));
    v
}

fn avfx_block(b: &mut B, tag: &[u8; 4], size: u32, payload: &[u8]) {
    b.raw(tag, true).u32(size);
    b.raw(payload, false).bound();
}

fn avfx_seeds(rng: &mut Rng) -> Vec<Seed> {
    let mut v = vec![];
    let wrap = |body: B| -> Seed {
        let mut b = B::new(false);
        b.raw(b"XFVA", true).u32(body.v.len() as u32).bound();
        let base = b.pos();
        for f in &body.fields {
            b.fields.push(Field { off: f.off + base, width: f.width, be: f.be });
        }
        for x in &body.bounds {
            b.bounds.push(x + base);
        }
        b.v.extend_from_slice(&body.v);
        b.seed("avfx")
    };
    // empty body
    v.push(wrap(B::new(false)));
    // the supported kinds: no payload, u32, bool (padded to 4), f32
    let mut body = B::new(false);
    avfx_block(&mut body, b"XFVA", 0, &[]);
    avfx_block(&mut body, b"reV\0", 4, &[0x14, 0, 0, 0]);
    avfx_block(&mut body, b"PFDb", 4, &[1, 0, 0, 0]);
    avfx_block(&mut body, b"xPBC", 4, &1.5f32.to_le_bytes());
    avfx_block(&mut body, b"GFb\0", 1, &[1]);
    avfx_block(&mut body, b"RvR\0", 8, &[0, 0, 0x80, 0x3F, 9, 9, 9, 9]);
    v.push(wrap(body));
    // every tag of the table once (the 16 unimplemented ones are in their own seeds below)
    let tags: [&[u8; 4]; 57] = [
        b"XFVA", b"reV\0", b"PFDb", b"GFb\0", b"STb\0", b"HSAb", b"CBCb", b"luCb", b"xPBC", b"yPBC", b"zPBC",
        b"xSBC", b"ySBC", b"zSBC", b"sMBZ", b"dMBZ", b"SmCb", b"LEFb", b"tSOb", b"BCN\0", b"ECN\0", b"BCF\0",
        b"ECF\0", b"RFPS", b"OKS\0", b"yLwD", b"TOwD", b"TSLD", b"S1LP", b"S2LP", b"xPvR", b"yPvR", b"zPvR",
        b"xRvR", b"yRvR", b"zRvR", b"xSvR", b"ySvR", b"zSvR", b"RvR\0", b"GvR\0", b"BvR\0", b"eXFA", b"iXFA",
        b"oXFA", b"eYFA", b"iYFA", b"oYFA", b"eZFA", b"iZFA", b"oZFA", b"EFGb", b"MIFG", b"SGAb", b"STLb",
        b"XFVA", b"XFVA",
    ];
    let mut body = B::new(false);
    for t in tags.iter() {
        if *t == b"XFVA" {
            body.raw(*t, false).u32(0);
        } else {
            body.raw(*t, false).u32(4).raw(&rng.bytes(4), false);
        }
    }
    body.fields.clear();
    let mut s = wrap(body);
    s.fields.truncate(5);
    v.push(s);
    // unimplemented block kinds
    for t in [
        b"nCcS", b"nClT", b"nCmE", b"nCrP", b"nCfE", b"nCdB", b"nCxT", b"nCdM", b"dhcS", b"nLmT", b"timE", b"lctP",
        b"tcfE", b"dniB", b"xeT\0", b"ldoM",
    ] {
        let mut body = B::new(false);
        body.raw(b"reV\0", false).u32(4).u32(1);
        body.raw(t, false).u32(4).u32(1);
        let mut s = wrap(body);
        s.fields.clear();
        s.bounds.clear();
        v.push(s);
    }
    v
}

/// Havok packed integer
fn pint(v: i32) -> Vec<u8> {
    let neg = v < 0;
    let u = v.unsigned_abs();
    let mut out = vec![];
    let mut first = (((u & 0x3f) << 1) as u8) | (neg as u8);
    let mut rest = u >> 6;
    if rest > 0 {
        first |= 0x80;
    }
    out.push(first);
    while rest > 0 {
        let mut byte = (rest & 0x7f) as u8;
        rest >>= 7;
        if rest > 0 {
            byte |= 0x80;
        }
        out.push(byte);
    }
    out
}

fn hstr(s: &str) -> Vec<u8> {
    let mut o = pint(s.len() as i32);
    o.extend_from_slice(s.as_bytes());
    o
}

/// (name, type bits, class name)
fn htype(name: &str, parent: i32, members: &[(&str, i32, Option<&str>)]) -> Vec<u8> {
    let mut o = pint(2); // tag Type
    o.extend(hstr(name));
    o.extend(pint(0)); // version
    o.extend(pint(parent));
    o.extend(pint(members.len() as i32));
    for (n, t, c) in members {
        o.extend(hstr(n));
        o.extend(pint(*t));
        if t & 0x20 != 0 {
            o.extend(pint(3)); // tuple size
        }
        if let Some(c) = c {
            o.extend(hstr(c));
        }
    }
    o
}

/// a small but complete Havok binary tag file with one hkaSkeleton of `bones` bones.
/// `variant`: 0 plain, 1 skeleton type with a parent type, 2 one animation binding,
/// 3 no skeleton, 4 parentIndices shorter than bones, 5 referencePose shorter than bones,
/// 6 `bones` declared as an int array, 7 `className` declared as an int, 8 referencePose as VEC4 array,
/// 9 parentIndices as a real array, 10 a packed integer with six continuation bytes,
/// 11 referencePose as an int array, 12 `skeletons` as a plain int, 13 = 2 with `duration` as an int
fn havok_file(bones: usize, variant: u32, rng: &mut Rng) -> Vec<u8> {
    let with_parent_type = variant == 1;
    let mut o = vec![];
    o.extend_from_slice(&0xCAB0_0D1Eu32.to_le_bytes());
    o.extend_from_slice(&0xD011_FACEu32.to_le_bytes());
    o.extend(pint(1)); // FileInfo
    if variant == 10 {
        o.extend_from_slice(&[0x86, 0x80, 0x80, 0x80, 0x80, 0x80, 0x00]);
    } else {
        o.extend(pint(3)); // version
    }
    // types: 1 named variant, 2 root container, 3 bone, [4 parent,] skeleton, container, [binding, animation]
    o.extend(htype(
        "hkRootLevelContainerNamedVariant",
        0,
        &[("name", 10, None), ("className", if variant == 7 { 2 } else { 10 }, None), ("variant", 8, Some("hkReferencedObject"))],
    ));
    o.extend(htype("hkRootLevelContainer", 0, &[("namedVariants", 0x19, Some("hkRootLevelContainerNamedVariant"))]));
    o.extend(htype("hkaBone", 0, &[("name", 10, None), ("lockTranslation", 1, None)]));
    let mut skel_parent = 0;
    let mut next_type = 4;
    if with_parent_type {
        // hkReferencedObject-like parent with two plain members (INT, REAL)
        o.extend(htype("hkReferencedObject", 0, &[("memSizeAndFlags", 2, None), ("weight", 3, None)]));
        skel_parent = 4;
        next_type = 5;
    }
    let skel_type = next_type;
    o.extend(htype(
        "hkaSkeleton",
        skel_parent,
        &[
            ("name", 10, None),
            if variant == 6 { ("bones", 0x12, None) } else { ("bones", 0x19, Some("hkaBone")) },
            ("parentIndices", if variant == 9 { 0x13 } else { 0x12 }, None),
            ("referencePose", if variant == 8 { 0x14 } else if variant == 11 { 0x12 } else { 0x16 }, None),
            ("floats", 0x13, None),
            ("bytes", 0x11, None),
            ("names", 0x1A, None),
        ],
    ));
    let cont_type = skel_type + 1;
    o.extend(htype(
        "hkaAnimationContainer",
        0,
        &[
            if variant == 12 { ("skeletons", 2, None) } else { ("skeletons", 0x18, Some("hkaSkeleton")) },
            ("bindings", 0x18, Some("hkaAnimationBinding")),
        ],
    ));
    if variant == 2 || variant == 13 {
        o.extend(htype(
            "hkaAnimationBinding",
            0,
            &[("transformTrackToBoneIndices", 0x12, None), ("blendHint", 2, None), ("animation", 8, Some("hkaAnimation"))],
        ));
        o.extend(htype(
            "hkaSplineCompressedAnimation",
            0,
            &[
                ("duration", if variant == 13 { 2 } else { 3 }, None),
                ("numberOfTransformTracks", 2, None),
                ("numFrames", 2, None),
                ("numBlocks", 2, None),
                ("maxFramesPerBlock", 2, None),
                ("maskAndQuantizationSize", 2, None),
                ("blockInverseDuration", 3, None),
                ("frameDuration", 3, None),
                ("blockOffsets", 0x12, None),
                ("data", 0x11, None),
            ],
        ));
    }
    // object 1: root container
    o.extend(pint(4));
    o.extend(pint(2));
    o.push(0x01);
    o.extend(pint(1)); // one named variant
    o.push(0x07); // struct-of-arrays existence: name, className, variant
    o.extend(hstr("Merged Animation Container"));
    if variant == 7 {
        o.extend(pint(4));
        o.extend(pint(5));
    } else {
        o.extend(hstr("hkaAnimationContainer"));
    }
    o.extend(pint(2));
    // object 2: animation container
    o.extend(pint(4));
    o.extend(pint(cont_type));
    o.push(0x03);
    if variant == 3 {
        o.extend(pint(0));
    } else if variant == 12 {
        o.extend(pint(3));
    } else {
        o.extend(pint(1));
        o.extend(pint(3));
    }
    if variant == 2 || variant == 13 {
        o.extend(pint(1));
        o.extend(pint(4));
    } else {
        o.extend(pint(0));
    }
    // object 3: skeleton
    o.extend(pint(4));
    o.extend(pint(skel_type));
    if with_parent_type {
        // members: memSizeAndFlags, weight, name, bones, parentIndices, referencePose, floats, bytes, names
        o.push(0b1111_1111);
        o.push(0b0000_0001);
        o.extend(pint(-77));
        o.extend_from_slice(&0.5f32.to_le_bytes());
    } else {
        o.push(0b0111_1111);
    }
    o.extend(hstr("skeleton"));
    o.extend(pint(bones as i32));
    if variant == 6 {
        o.extend(pint(4));
        for i in 0..bones {
            o.extend(pint(i as i32));
        }
    } else {
        o.push(0x01); // bones: only the names are present
        for i in 0..bones {
            o.extend(hstr(&format!("n_bone{}", i)));
        }
    }
    let np = if variant == 4 { bones.saturating_sub(1) } else { bones };
    o.extend(pint(np as i32));
    if variant == 9 {
        for i in 0..np {
            o.extend_from_slice(&(i as f32).to_le_bytes());
        }
    } else {
        o.extend(pint(4)); // int array element type
        for i in 0..np {
            o.extend(pint(i as i32 - 1));
        }
    }
    let nr = if variant == 5 { bones.saturating_sub(1) } else { bones };
    o.extend(pint(nr as i32));
    if variant == 11 {
        o.extend(pint(4));
        for i in 0..nr {
            o.extend(pint(i as i32));
        }
    } else {
        for _ in 0..nr {
            for k in 0..(if variant == 8 { 4 } else { 12 }) {
                o.extend_from_slice(&(k as f32 * 0.25).to_le_bytes());
            }
        }
    }
    o.extend(pint(2));
    o.extend_from_slice(&1.0f32.to_le_bytes());
    o.extend_from_slice(&2.0f32.to_le_bytes());
    o.extend(pint(3));
    o.extend_from_slice(&[1, 2, 3]);
    o.extend(pint(2));
    o.extend(hstr("a"));
    o.extend(pint(-1)); // back reference to ""
    if variant == 2 || variant == 13 {
        // object 4: binding; object 5: spline compressed animation
        o.extend(pint(4));
        o.extend(pint(cont_type + 1));
        o.push(0x07);
        o.extend(pint(2));
        o.extend(pint(4));
        o.extend(pint(0));
        o.extend(pint(1));
        o.extend(pint(1)); // blendHint
        o.extend(pint(5)); // animation
        o.extend(pint(4));
        o.extend(pint(cont_type + 2));
        o.push(0xFF);
        o.push(0x03);
        if variant == 13 {
            o.extend(pint(1));
        } else {
            o.extend_from_slice(&1.0f32.to_le_bytes());
        }
        for v in [2, 3, 1, 256, 8] {
            o.extend(pint(v));
        }
        o.extend_from_slice(&0.5f32.to_le_bytes());
        o.extend_from_slice(&0.033f32.to_le_bytes());
        o.extend(pint(1));
        o.extend(pint(4));
        o.extend(pint(0));
        o.extend(pint(4));
        o.extend_from_slice(&[9, 8, 7, 6]);
    }
    o.extend(pint(7)); // FileEnd
    o
}

fn sklb_seeds(rng: &mut Rng) -> Vec<Seed> {
    let mut v = vec![];
    for (ver, bones, variant) in [
        (0x3132_3030u32, 2usize, 0u32),
        (0x3133_3030, 1, 1),
        (0x3133_3031, 0, 0),
        (0x3133_3030, 2, 2),
        (0x3133_3030, 2, 3),
        (0x3133_3030, 2, 4),
        (0x3133_3030, 2, 5),
        (0x3133_3030, 2, 6),
        (0x3133_3030, 1, 7),
        (0x3133_3030, 2, 8),
        (0x3133_3030, 2, 9),
        (0x3133_3030, 1, 10),
        (0x3133_3030, 2, 11),
        (0x3133_3030, 1, 12),
        (0x3133_3030, 2, 13),
    ] {
        let hk = havok_file(bones, variant, rng);
        let mut b = B::new(false);
        b.u32(0x736B_6C62).u32(ver);
        if ver == 0x3132_3030 {
            b.u16(28).u16(32).u32(101).u32(0).u32(0).u32(0).zeros(4);
        } else {
            b.u32(36).u32(36).u32(0).u32(101).u32(0).u32(0).u32(0);
        }
        b.bound();
        // every byte of the first four tag files is a corruptible field; the directed variants
        // (which already end in a panic of their own) only get truncations and random flips
        b.raw(&hk, variant <= 2).bound();
        v.push(b.seed("sklb"));
    }
    // header only / unknown version
    let mut b = B::new(false);
    b.u32(0x736B_6C62).u32(0x3134_3030).u32(36).u32(36).zeros(20);
    v.push(b.seed("sklb"));
    v
}

/// one instance object: (asset type, payload)
fn lgb_layer(objects: &[(u32, Vec<u8>)], sets: u32, obsets: u32, name: &str) -> B {
    let n = objects.len();
    let mut b = B::new(false);
    let objs_at = 52 + 4 * n;
    let mut obj_sizes = vec![];
    let mut total = 0usize;
    for (_, p) in objects {
        obj_sizes.push(total);
        total += 48 + p.len();
    }
    let lsr_at = objs_at + total;
    let obset_at = lsr_at + 12 + 4 * sets as usize;
    let oben_at = obset_at + 12 * obsets as usize;
    let name_at = oben_at + 12 * obsets as usize;
    b.u32(7).u32(name_at as u32).u32(objs_at as u32).u32(n as u32);
    b.u8(1).u8(0).u8(1).u8(0);
    b.u32(lsr_at as u32);
    b.u16(0).u16(0).u8(0).u8(0).u16(3);
    b.zeros(4);
    b.u32(obset_at as u32).u32(obsets).u32(oben_at as u32).u32(obsets);
    b.bound();
    for i in 0..n {
        b.u32(obj_sizes[i] as u32);
    }
    b.bound();
    for (i, (ty, p)) in objects.iter().enumerate() {
        b.u32(*ty).u32(1000 + i as u32).u32(4);
        for k in 0..9 {
            b.f32(k as f32);
        }
        // payload: 4-byte words are corruptible fields (inner enums), the tail is raw
        let mut k = 0;
        while k + 4 <= p.len() && k < 48 {
            b.u32(u32::from_le_bytes([p[k], p[k + 1], p[k + 2], p[k + 3]]));
            k += 4;
        }
        b.raw(&p[k..], false).bound();
    }
    b.u32(1).u32(0).u32(sets);
    for i in 0..sets {
        b.u32(i);
    }
    b.bound();
    for i in 0..obsets {
        b.u32(1).u32(i).u32(0);
    }
    for i in 0..obsets {
        b.u32(6).u32(i).u8(1).u8(0).zeros(2);
    }
    b.bound();
    b.raw(name.as_bytes(), false).u8(0);
    b
}

fn lgb_file(layers: Vec<B>) -> Seed {
    let mut b = B::new(false);
    let l = layers.len();
    let mut total = 36 + 4 * l;
    let mut offs = vec![];
    for x in &layers {
        offs.push(total - 36);
        total += x.v.len();
    }
    let name_at = total;
    total += 9;
    b.raw(b"LGB1", true).u32(total as u32).u32(1);
    b.raw(b"LGP1", true).u32((total - 20) as u32).u32(0x105).u32((name_at - 20) as u32).u32(16).u32(l as u32);
    b.bound();
    for o in &offs {
        b.u32(*o as u32);
    }
    b.bound();
    for x in layers {
        let base = b.pos();
        for f in &x.fields {
            b.fields.push(Field { off: f.off + base, width: f.width, be: f.be });
        }
        for k in &x.bounds {
            b.bounds.push(k + base);
        }
        b.v.extend_from_slice(&x.v);
        b.bound();
    }
    b.raw(b"PlanLive\0", false);
    b.seed("lgb")
}

fn lgb_seeds(rng: &mut Rng) -> Vec<Seed> {
    let mut v = vec![];
    // the repository's own sample shape: no layers
    v.push(lgb_file(vec![]));
    // one layer, no objects
    v.push(lgb_file(vec![lgb_layer(&[], 0, 0, "empty")]));
    // objects of several kinds
    let pop = {
        let mut p = vec![];
        p.extend_from_slice(&1u32.to_le_bytes());
        p.extend_from_slice(&0u32.to_le_bytes());
        p.extend_from_slice(&0u32.to_le_bytes());
        p.extend_from_slice(&1.0f32.to_le_bytes());
        p.extend_from_slice(&[0, 0, 0, 0, 0, 0, 0, 0]);
        p
    };
    let bg = {
        let mut p = vec![];
        for x in [0u32, 0, 1, 0, 0, 0] {
            p.extend_from_slice(&x.to_le_bytes());
        }
        p.extend_from_slice(&[1, 1, 0, 0]);
        p.extend_from_slice(&10.0f32.to_le_bytes());
        p
    };
    let objs: Vec<(u32, Vec<u8>)> = vec![
        (0x28, pop),
        (0x1, bg),
        (0xE, vec![5, 0, 0, 0, 0, 0, 0, 0]),
        (0x10, vec![1, 0, 0, 0, 0, 0, 0, 0, 0, 0, 0, 0]),
        (0x31, vec![]),
        (0xC, vec![9, 0, 0, 0, 1, 0, 0, 0, 0, 0, 0, 0]),
        (90, vec![]),
    ];
    v.push(lgb_file(vec![lgb_layer(&objs[..3], 2, 1, "objs")]));
    v.push(lgb_file(vec![lgb_layer(&objs[3..], 0, 2, "more"), lgb_layer(&objs[..1], 1, 0, "second")]));
    // every object kind that has a reader: (asset type, [(is_enum, value-or-length)])
    let kinds: Vec<(u32, Vec<(bool, u32)>)> = vec![
        (0x1, vec![(false, 8), (true, 2), (false, 20)]),
        (0x3, vec![(true, 6), (false, 8), (true, 1), (false, 43)]),
        (0x4, vec![(false, 40)]),
        (0x5, vec![(true, 4), (false, 8)]),
        (0x6, vec![(false, 4), (true, 3), (false, 8), (true, 2), (false, 16), (true, 3), (true, 0)]),
        (0x7, vec![(false, 8)]),
        (0x8, vec![(false, 40)]),
        (0x9, vec![(false, 104)]),
        (0xC, vec![(false, 12)]),
        (0xD, vec![(false, 8), (true, 3), (false, 24)]),
        (0xE, vec![(false, 8)]),
        (0x10, vec![(false, 12)]),
        (0x28, vec![(true, 3), (false, 20)]),
        (0x29, vec![(true, 6), (false, 8), (true, 1), (false, 24)]),
        (0x2B, vec![]),
        (0x2D, vec![]),
        (0x2F, vec![]),
        (0x33, vec![]),
        (0x39, vec![]),
        (0x3B, vec![]),
        (0x41, vec![]),
        (0x42, vec![]),
        (0x43, vec![]),
        (0x44, vec![]),
        (0x45, vec![]),
        (0x47, vec![]),
        (0x48, vec![]),
    ];
    for chunk in kinds.chunks(7) {
        let mut objs2: Vec<(u32, Vec<u8>)> = vec![];
        for (ty, items) in chunk {
            let mut p = vec![];
            for (is_enum, x) in items {
                if *is_enum {
                    p.extend_from_slice(&x.to_le_bytes());
                } else {
                    p.extend(rng.bytes(*x as usize));
                }
            }
            objs2.push((*ty, p));
        }
        let mut s = lgb_file(vec![lgb_layer(&objs2, 1, 1, "kinds")]);
        // the enum fields of the payloads are worth corrupting: register every 4-byte word of the objects
        v.push(s);
    }
    // an object kind without a reader (Attribute = 2): no variant matches
    v.push(lgb_file(vec![lgb_layer(&[(2, vec![0; 8])], 0, 0, "nov")]));
    v
}

pub struct DicEntry {
    flag: u32,
    sibling: u32,
    child: u32,
    offset: u32,
}

/// dic: header at 0x8124, the five blocks behind 0x8B50.  `protect` collects byte ranges that the
/// random flips must not touch (sibling counts of word entries: see the finding `dic.walk-unbounded`).
fn dic_file(
    begin: &[u16],
    inner: &[u16],
    chara: &[u16],
    word: &[u16],
    entries: &[DicEntry],
    protect: &mut Vec<(usize, usize)>,
) -> Seed {
    let mut b = B::new(false);
    b.zeros(0x8124);
    b.bound();
    for k in 0..3 {
        for i in 0..256u32 {
            b.v.extend_from_slice(&((i as u16).wrapping_add(k)).to_le_bytes());
        }
    }
    b.bound();
    let sizes = [begin.len() * 2, inner.len() * 2, chara.len() * 2, word.len() * 2, entries.len() * 16];
    let mut at = 0x8B50usize + 16;
    let mut offs = vec![];
    for s in sizes {
        offs.push(at);
        at += s + 6;
    }
    for o in &offs {
        b.u32((*o - 0x8950) as u32);
    }
    for s in sizes {
        b.u32(s as u32);
    }
    b.zeros(4);
    b.bound();
    for i in 0..256u32 {
        if i < 4 {
            b.u32(i);
        } else {
            b.v.extend_from_slice(&i.to_le_bytes());
        }
    }
    b.bound();
    b.zeros(16);
    for (k, t) in [begin, inner, chara, word].iter().enumerate() {
        assert_eq!(b.pos(), offs[k]);
        for (i, x) in t.iter().enumerate() {
            if i < 6 || *x != 0 {
                b.u16(*x);
            } else {
                b.v.extend_from_slice(&x.to_le_bytes());
            }
        }
        b.zeros(6);
        b.bound();
    }
    assert_eq!(b.pos(), offs[4]);
    for e in entries {
        b.u32(e.flag);
        if e.flag != 0 {
            // not a corruptible field (a large count here makes the reader push that many words)
            protect.push((b.pos(), b.pos() + 4));
            b.v.extend_from_slice(&e.sibling.to_le_bytes());
        } else {
            b.u32(e.sibling);
        }
        b.u32(e.child).u32(e.offset);
    }
    b.zeros(6);
    b.seed("dic")
}

fn e(flag: u32, sibling: u32, child: u32, offset: u32) -> DicEntry {
    DicEntry { flag, sibling, child, offset }
}

fn dic_seeds(protect: &mut Vec<Vec<(usize, usize)>>) -> Vec<Seed> {
    let mut v = vec![];
    let mut p = vec![];
    // empty tables
    v.push(dic_file(&[], &[], &[], &[], &[], &mut p));
    protect.push(std::mem::take(&mut p));
    // a small trie: begin 1 -> e1 {c,d}; c -> e2 (word "ab"); begin 0x103 -> e3 (chara e)
    let mut begin = vec![0u16; 0x104];
    begin[1] = 1;
    begin[0x103] = 3;
    v.push(dic_file(
        &begin,
        &[0, 2, 0],
        &[0, 0x63, 0x64, 0x65, 0],
        &[0x61, 0x62, 0, 0x66, 0],
        &[e(0, 0, 0, 0), e(0, 2, 1, 2), e(1, 1, 0, 0), e(0, 1, 0, 6)],
        &mut p,
    ));
    protect.push(std::mem::take(&mut p));
    // deeper: chain of four nodes, a word entry with children, a surrogate in the word table
    v.push(dic_file(
        &[2, 0, 1],
        &[0, 2, 3, 4, 0, 0],
        &[0, 0x41, 0x42, 0x43, 0x44, 0],
        &[0x78, 0x79, 0, 0xD800, 0, 0x7A],
        &[e(0, 0, 0, 0), e(0, 1, 1, 2), e(0, 1, 2, 4), e(1, 2, 3, 0), e(1, 1, 0, 6), e(1, 1, 0, 10)],
        &mut p,
    ));
    protect.push(std::mem::take(&mut p));
    v
}

/// `mutate` of c18.rs for the large dic seeds, with byte ranges the random flips leave alone
fn mutate_dic(seed: &Seed, protect: &[(usize, usize)], rng: &mut Rng, thorough: bool, out: &mut dyn Write) {
    let n = seed.bytes.len();
    emit(out, &seed.op, &seed.bytes, "");
    let mut pts: Vec<usize> = vec![0, 1, 4, n - 1];
    for b in &seed.bounds {
        for d in [-1i64, 0, 1] {
            let p = *b as i64 + d;
            if p >= 0 && (p as usize) < n {
                pts.push(p as usize);
            }
        }
    }
    for f in &seed.fields {
        pts.push(f.off + f.width - 1);
    }
    for _ in 0..(if thorough { 100 } else { 10 }) {
        pts.push(rng.below(n as u64) as usize);
    }
    pts.sort();
    pts.dedup();
    for k in pts {
        emit(out, &seed.op, &seed.bytes[..k], "");
    }
    for f in &seed.fields {
        let cur = get(&seed.bytes, f);
        for v in corrupt_values(cur, f.width) {
            let mut m = seed.bytes.clone();
            put(&mut m, f, v);
            emit(out, &seed.op, &m, "");
        }
    }
    // word entries: small repeat counts only
    for (a, _) in protect {
        for v in [0u32, 2, 3, 300] {
            let mut m = seed.bytes.clone();
            m[*a..*a + 4].copy_from_slice(&v.to_le_bytes());
            emit(out, &seed.op, &m, "");
        }
    }
    let flips = if thorough { 200 } else { 16 };
    let mut done = 0;
    while done < flips {
        let i = 0x8124 + rng.below((n - 0x8124) as u64) as usize;
        if protect.iter().any(|(a, b)| *a <= i && i < *b) {
            continue;
        }
        let mut m = seed.bytes.clone();
        m[i] = match rng.below(4) {
            0 => 0,
            1 => 0xFF,
            2 => m[i] ^ (1 << rng.below(8)),
            _ => rng.next() as u8,
        };
        emit(out, &seed.op, &m, "");
        done += 1;
    }
}

pub fn generate(thorough: bool, seed: u64, out: &mut dyn Write) {
    let mut rng = Rng::new(seed, "C18-pbc");
    for s in stm_seeds(&mut rng) {
        mutate(&s, &mut rng, thorough, out);
    }
    for s in avfx_seeds(&mut rng) {
        mutate(&s, &mut rng, thorough, out);
    }
    for s in sklb_seeds(&mut rng) {
        mutate(&s, &mut rng, thorough, out);
    }
    for s in lgb_seeds(&mut rng) {
        mutate(&s, &mut rng, thorough, out);
    }
    let mut protect = vec![];
    let ds = dic_seeds(&mut protect);
    for (s, p) in ds.iter().zip(protect.iter()) {
        mutate_dic(s, p, &mut rng, thorough, out);
    }
    let k = if thorough { 400 } else { 40 };
    blobs("stm", b"", &mut rng, k, thorough, out);
    blobs("avfx", b"XFVA", &mut rng, k, thorough, out);
    blobs("sklb", &[0x62, 0x6C, 0x6B, 0x73, 0x30, 0x30, 0x32, 0x31], &mut rng, k, thorough, out);
    blobs("lgb", b"LGB1", &mut rng, k, thorough, out);
    blobs("dic", b"", &mut rng, k / 4, false, out);
}
