//! C18 part `pbc`: the "panic-by-construction" readers: sklb/havok, layer (lgb), avfx, dic, stm.
//!
//! Ops: `stm <hex>` / `avfx <hex>` / `lgb <hex>` (complete models after fixes 60-62, 65, 68, 69: outcome
//! class `none`/`some`), `sklb <hex>` / `dic <hex>` (recorded findings: any non-crashing outcome is `ok`).
#![allow(unused)]
use crate::alloc;
use crate::c18::*;
use crate::util::*;
use std::io::Write;

fn okc<T>(_o: Option<T>) -> String {
    "ok".into()
}

/// `None` = not an op of this part
pub fn run(f: &[&str]) -> Option<String> {
    match (f[0], f.len()) {
        ("stm", 2) => Some(asset(f[1], |b| cls(physis::stm::StainingTemplate::from_existing(b)))),
        ("avfx", 2) => Some(asset(f[1], |b| cls(physis::avfx::Avfx::from_existing(b)))),
        ("sklb", 2) => Some(asset(f[1], |b| cls(physis::skeleton::Skeleton::from_existing(b)))),
        ("lgb", 2) => Some(asset(f[1], |b| cls(physis::layer::LayerGroup::from_existing(b)))),
        ("dic", 2) => Some(asset(f[1], |b| okc(physis::dic::Dictionary::from_existing(b)))),
        _ => None,
    }
}

// ------------------------------------------------------------------------------------------
// seeds
// ------------------------------------------------------------------------------------------

/// stm: pad 4, entry_count i32, keys u16*n, offsets u16*n, entries (5 u16 "ends" + data)
fn stm_seeds(rng: &mut Rng) -> Vec<Seed> {
    let mut v = vec![];
    for n in [0u32, 1, 3] {
        let mut b = B::new(false);
        b.u32(0x314D5453).u32(n).bound();
        for i in 0..n {
            b.u16(100 + i as u16);
        }
        b.bound();
        for i in 0..n {
            b.u16((i * 9) as u16); // in u16 units: entry i at 8 + 4n + 18 i
        }
        b.bound();
        for i in 0..n {
            b.u16(1).u16(2).u16(3).u16(3).u16(4);
            b.raw(&rng.bytes(8), false);
            b.bound();
        }
        v.push(b.seed("stm"));
    }
    // ends whose doubling overflows u16, offsets pointing at the last bytes
    let mut b = B::new(false);
    b.u32(0).u32(2).u16(1).u16(2).u16(0).u16(3).bound();
    b.u16(0x7FFF).u16(0x8000).u16(0xFFFF).u16(0).u16(1);
    v.push(b.seed("stm"));
    v
}

fn avfx_block(b: &mut B, tag: &[u8; 4], size: u32, payload: &[u8]) {
    b.raw(tag, true).u32(size);
    b.raw(payload, false).bound();
}

fn avfx_seeds(rng: &mut Rng) -> Vec<Seed> {
    let mut v = vec![];
    let wrap = |body: B| -> Seed {
        let mut b = B::new(false);
        b.raw(b"XFVA", true).u32(body.v.len() as u32).bound();
        let base = b.pos();
        for f in &body.fields {
            b.fields.push(Field { off: f.off + base, width: f.width, be: f.be });
        }
        for x in &body.bounds {
            b.bounds.push(x + base);
        }
        b.v.extend_from_slice(&body.v);
        b.seed("avfx")
    };
    // empty body
    v.push(wrap(B::new(false)));
    // the supported kinds: no payload, u32, bool (padded to 4), f32
    let mut body = B::new(false);
    avfx_block(&mut body, b"XFVA", 0, &[]);
    avfx_block(&mut body, b"reV\0", 4, &[0x14, 0, 0, 0]);
    avfx_block(&mut body, b"PFDb", 4, &[1, 0, 0, 0]);
    avfx_block(&mut body, b"xPBC", 4, &1.5f32.to_le_bytes());
    avfx_block(&mut body, b"GFb\0", 1, &[1]);
    avfx_block(&mut body, b"RvR\0", 8, &[0, 0, 0x80, 0x3F, 9, 9, 9, 9]);
    v.push(wrap(body));
    // every tag of the table once (the 16 unimplemented ones are in their own seeds below)
    let tags: [&[u8; 4]; 57] = [
        b"XFVA", b"reV\0", b"PFDb", b"GFb\0", b"STb\0", b"HSAb", b"CBCb", b"luCb", b"xPBC", b"yPBC", b"zPBC",
        b"xSBC", b"ySBC", b"zSBC", b"sMBZ", b"dMBZ", b"SmCb", b"LEFb", b"tSOb", b"BCN\0", b"ECN\0", b"BCF\0",
        b"ECF\0", b"RFPS", b"OKS\0", b"yLwD", b"TOwD", b"TSLD", b"S1LP", b"S2LP", b"xPvR", b"yPvR", b"zPvR",
        b"xRvR", b"yRvR", b"zRvR", b"xSvR", b"ySvR", b"zSvR", b"RvR\0", b"GvR\0", b"BvR\0", b"eXFA", b"iXFA",
        b"oXFA", b"eYFA", b"iYFA", b"oYFA", b"eZFA", b"iZFA", b"oZFA", b"EFGb", b"MIFG", b"SGAb", b"STLb",
        b"XFVA", b"XFVA",
    ];
    let mut body = B::new(false);
    for t in tags.iter() {
        if *t == b"XFVA" {
            body.raw(*t, false).u32(0);
        } else {
            body.raw(*t, false).u32(4).raw(&rng.bytes(4), false);
        }
    }
    body.fields.clear();
    let mut s = wrap(body);
    s.fields.truncate(5);
    v.push(s);
    // unimplemented block kinds
    for t in [
        b"nCcS", b"nClT", b"nCmE", b"nCrP", b"nCfE", b"nCdB", b"nCxT", b"nCdM", b"dhcS", b"nLmT", b"timE", b"lctP",
        b"tcfE", b"dniB", b"xeT\0", b"ldoM",
    ] {
        let mut body = B::new(false);
        body.raw(b"reV\0", false).u32(4).u32(1);
        body.raw(t, false).u32(4).u32(1);
        let mut s = wrap(body);
        s.fields.clear();
        s.bounds.clear();
        v.push(s);
    }
    v
}

/// Havok packed integer
fn pint(v: i32) -> Vec<u8> {
    let neg = v < 0;
    let u = v.unsigned_abs();
    let mut out = vec![];
    let mut first = (((u & 0x3f) << 1) as u8) | (neg as u8);
    let mut rest = u >> 6;
    if rest > 0 {
        first |= 0x80;
    }
    out.push(first);
    while rest > 0 {
        let mut byte = (rest & 0x7f) as u8;
        rest >>= 7;
        if rest > 0 {
            byte |= 0x80;
        }
        out.push(byte);
    }
    out
}

fn hstr(s: &str) -> Vec<u8> {
    let mut o = pint(s.len() as i32);
    o.extend_from_slice(s.as_bytes());
    o
}

/// (name, type bits, class name)
fn htype(name: &str, parent: i32, members: &[(&str, i32, Option<&str>)]) -> Vec<u8> {
    let mut o = pint(2); // tag Type
    o.extend(hstr(name));
    o.extend(pint(0)); // version
    o.extend(pint(parent));
    o.extend(pint(members.len() as i32));
    for (n, t, c) in members {
        o.extend(hstr(n));
        o.extend(pint(*t));
        if t & 0x20 != 0 {
            o.extend(pint(3)); // tuple size
        }
        if let Some(c) = c {
            o.extend(hstr(c));
        }
    }
    o
}

/// a small but complete Havok binary tag file with one hkaSkeleton of `bones` bones.
/// `variant`: 0 plain, 1 skeleton type with a parent type, 2 one animation binding,
/// 3 no skeleton, 4 parentIndices shorter than bones, 5 referencePose shorter than bones,
/// 6 `bones` declared as an int array, 7 `className` declared as an int, 8 referencePose as VEC4 array,
/// 9 parentIndices as a real array, 10 a packed integer with six continuation bytes,
/// 11 referencePose as an int array, 12 `skeletons` as a plain int, 13 = 2 with `duration` as an int
fn havok_file(bones: usize, variant: u32, rng: &mut Rng) -> Vec<u8> {
    let with_parent_type = variant == 1;
    let mut o = vec![];
    o.extend_from_slice(&0xCAB0_0D1Eu32.to_le_bytes());
    o.extend_from_slice(&0xD011_FACEu32.to_le_bytes());
    o.extend(pint(1)); // FileInfo
    if variant == 10 {
        o.extend_from_slice(&[0x86, 0x80, 0x80, 0x80, 0x80, 0x80, 0x00]);
    } else {
        o.extend(pint(3)); // version
    }
    // types: 1 named variant, 2 root container, 3 bone, [4 parent,] skeleton, container, [binding, animation]
    o.extend(htype(
        "hkRootLevelContainerNamedVariant",
        0,
        &[("name", 10, None), ("className", if variant == 7 { 2 } else { 10 }, None), ("variant", 8, Some("hkReferencedObject"))],
    ));
    o.extend(htype("hkRootLevelContainer", 0, &[("namedVariants", 0x19, Some("hkRootLevelContainerNamedVariant"))]));
    o.extend(htype("hkaBone", 0, &[("name", 10, None), ("lockTranslation", 1, None)]));
    let mut skel_parent = 0;
    let mut next_type = 4;
    if with_parent_type {
        // hkReferencedObject-like parent with two plain members (INT, REAL)
        o.extend(htype("hkReferencedObject", 0, &[("memSizeAndFlags", 2, None), ("weight", 3, None)]));
        skel_parent = 4;
        next_type = 5;
    }
    let skel_type = next_type;
    o.extend(htype(
        "hkaSkeleton",
        skel_parent,
        &[
            ("name", 10, None),
            if variant == 6 { ("bones", 0x12, None) } else { ("bones", 0x19, Some("hkaBone")) },
            ("parentIndices", if variant == 9 { 0x13 } else { 0x12 }, None),
            ("referencePose", if variant == 8 { 0x14 } else if variant == 11 { 0x12 } else { 0x16 }, None),
            ("floats", 0x13, None),
            ("bytes", 0x11, None),
            ("names", 0x1A, None),
        ],
    ));
    let cont_type = skel_type + 1;
    o.extend(htype(
        "hkaAnimationContainer",
        0,
        &[
            if variant == 12 { ("skeletons", 2, None) } else { ("skeletons", 0x18, Some("hkaSkeleton")) },
            ("bindings", 0x18, Some("hkaAnimationBinding")),
        ],
    ));
    if variant == 2 || variant == 13 {
        o.extend(htype(
            "hkaAnimationBinding",
            0,
            &[("transformTrackToBoneIndices", 0x12, None), ("blendHint", 2, None), ("animation", 8, Some("hkaAnimation"))],
        ));
        o.extend(htype(
            "hkaSplineCompressedAnimation",
            0,
            &[
                ("duration", if variant == 13 { 2 } else { 3 }, None),
                ("numberOfTransformTracks", 2, None),
                ("numFrames", 2, None),
                ("numBlocks", 2, None),
                ("maxFramesPerBlock", 2, None),
                ("maskAndQuantizationSize", 2, None),
                ("blockInverseDuration", 3, None),
                ("frameDuration", 3, None),
                ("blockOffsets", 0x12, None),
                ("data", 0x11, None),
            ],
        ));
    }
    // object 1: root container
    o.extend(pint(4));
    o.extend(pint(2));
    o.push(0x01);
    o.extend(pint(1)); // one named variant
    o.push(0x07); // struct-of-arrays existence: name, className, variant
    o.extend(hstr("Merged Animation Container"));
    if variant == 7 {
        o.extend(pint(4));
        o.extend(pint(5));
    } else {
        o.extend(hstr("hkaAnimationContainer"));
    }
    o.extend(pint(2));
    // object 2: animation container
    o.extend(pint(4));
    o.extend(pint(cont_type));
    o.push(0x03);
    if variant == 3 {
        o.extend(pint(0));
    } else if variant == 12 {
        o.extend(pint(3));
    } else {
        o.extend(pint(1));
        o.extend(pint(3));
    }
    if variant == 2 || variant == 13 {
        o.extend(pint(1));
        o.extend(pint(4));
    } else {
        o.extend(pint(0));
    }
    // object 3: skeleton
    o.extend(pint(4));
    o.extend(pint(skel_type));
    if with_parent_type {
        // members: memSizeAndFlags, weight, name, bones, parentIndices, referencePose, floats, bytes, names
        o.push(0b1111_1111);
        o.push(0b0000_0001);
        o.extend(pint(-77));
        o.extend_from_slice(&0.5f32.to_le_bytes());
    } else {
        o.push(0b0111_1111);
    }
    o.extend(hstr("skeleton"));
    o.extend(pint(bones as i32));
    if variant == 6 {
        o.extend(pint(4));
        for i in 0..bones {
            o.extend(pint(i as i32));
        }
    } else {
        o.push(0x01); // bones: only the names are present
        for i in 0..bones {
            o.extend(hstr(&format!("n_bone{}", i)));
        }
    }
    let np = if variant == 4 { bones.saturating_sub(1) } else { bones };
    o.extend(pint(np as i32));
    if variant == 9 {
        for i in 0..np {
            o.extend_from_slice(&(i as f32).to_le_bytes());
        }
    } else {
        o.extend(pint(4)); // int array element type
        for i in 0..np {
            o.extend(pint(i as i32 - 1));
        }
    }
    let nr = if variant == 5 { bones.saturating_sub(1) } else { bones };
    o.extend(pint(nr as i32));
    if variant == 11 {
        o.extend(pint(4));
        for i in 0..nr {
            o.extend(pint(i as i32));
        }
    } else {
        for _ in 0..nr {
            for k in 0..(if variant == 8 { 4 } else { 12 }) {
                o.extend_from_slice(&(k as f32 * 0.25).to_le_bytes());
            }
        }
    }
    o.extend(pint(2));
    o.extend_from_slice(&1.0f32.to_le_bytes());
    o.extend_from_slice(&2.0f32.to_le_bytes());
    o.extend(pint(3));
    o.extend_from_slice(&[1, 2, 3]);
    o.extend(pint(2));
    o.extend(hstr("a"));
    o.extend(pint(-1)); // back reference to ""
    if variant == 2 || variant == 13 {
        // object 4: binding; object 5: spline compressed animation
        o.extend(pint(4));
        o.extend(pint(cont_type + 1));
        o.push(0x07);
        o.extend(pint(2));
        o.extend(pint(4));
        o.extend(pint(0));
        o.extend(pint(1));
        o.extend(pint(1)); // blendHint
        o.extend(pint(5)); // animation
        o.extend(pint(4));
        o.extend(pint(cont_type + 2));
        o.push(0xFF);
        o.push(0x03);
        if variant == 13 {
            o.extend(pint(1));
        } else {
            o.extend_from_slice(&1.0f32.to_le_bytes());
        }
        for v in [2, 3, 1, 256, 8] {
            o.extend(pint(v));
        }
        o.extend_from_slice(&0.5f32.to_le_bytes());
        o.extend_from_slice(&0.033f32.to_le_bytes());
        o.extend(pint(1));
        o.extend(pint(4));
        o.extend(pint(0));
        o.extend(pint(4));
        o.extend_from_slice(&[9, 8, 7, 6]);
    }
    o.extend(pint(7)); // FileEnd
    o
}

// ------------------------------------------------------------------------------------------
// Havok tag files, directed: one file per former panic / abort site of the reader (fixes C18-70..78;
// the same constructions as `lib/c18b_havok_witness.py`, which wrote `corpus/C18/hvk-fx-*.case`)
// ------------------------------------------------------------------------------------------

fn hk_sig() -> Vec<u8> {
    let mut o = vec![];
    o.extend_from_slice(&0xCAB0_0D1Eu32.to_le_bytes());
    o.extend_from_slice(&0xD011_FACEu32.to_le_bytes());
    o
}

fn hk_head() -> Vec<u8> {
    let mut o = hk_sig();
    o.extend(pint(1));
    o.extend(pint(3));
    o
}

fn cat(parts: &[&[u8]]) -> Vec<u8> {
    parts.iter().flat_map(|p| p.iter().copied()).collect()
}

/// types 1 NamedVariant, 2 RootLevelContainer, 3 hkaBone, 4 hkaSkeleton, 5 hkaAnimationContainer
fn hk_std_types(pose_type: i32, skeletons_type: i32) -> Vec<u8> {
    let mut o = htype(
        "hkRootLevelContainerNamedVariant",
        0,
        &[("name", 10, None), ("className", 10, None), ("variant", 8, Some("hkReferencedObject"))],
    );
    o.extend(htype("hkRootLevelContainer", 0, &[("namedVariants", 0x19, Some("hkRootLevelContainerNamedVariant"))]));
    o.extend(htype("hkaBone", 0, &[("name", 10, None), ("lockTranslation", 1, None)]));
    o.extend(htype(
        "hkaSkeleton",
        0,
        &[("name", 10, None), ("bones", 0x19, Some("hkaBone")), ("parentIndices", 0x12, None), ("referencePose", pose_type, None)],
    ));
    o.extend(htype(
        "hkaAnimationContainer",
        0,
        &[
            if skeletons_type == 0x18 { ("skeletons", 0x18, Some("hkaSkeleton")) } else { ("skeletons", skeletons_type, None) },
            ("bindings", 0x18, Some("hkaAnimationBinding")),
        ],
    ));
    o
}

/// object 1 (root container, one variant of class `class`) and object 2 (container with `skels`)
fn hk_root_objs(class: &str, skels: &[i32], bindings: &[i32]) -> Vec<u8> {
    let mut o = cat(&[&pint(4), &pint(2), &[0x01], &pint(1), &[0x07], &hstr("Merged Animation Container"), &hstr(class), &pint(2)]);
    o.extend(cat(&[&pint(4), &pint(5), &[0x03], &pint(skels.len() as i32)]));
    for s in skels {
        o.extend(pint(*s));
    }
    o.extend(pint(bindings.len() as i32));
    for b in bindings {
        o.extend(pint(*b));
    }
    o
}

fn hk_skel_obj(names: usize, parents: usize, poses: usize, floats_per_pose: usize) -> Vec<u8> {
    let mut o = cat(&[&pint(4), &pint(4), &[0x0f], &hstr("skeleton"), &pint(names as i32), &[0x01]]);
    for i in 0..names {
        o.extend(hstr(&format!("n_bone{}", i)));
    }
    o.extend(pint(parents as i32));
    o.extend(pint(4));
    for i in 0..parents {
        o.extend(pint(i as i32 - 1));
    }
    o.extend(pint(poses as i32));
    for _ in 0..poses {
        for k in 0..floats_per_pose {
            o.extend_from_slice(&(k as f32 * 0.25).to_le_bytes());
        }
    }
    o
}

fn hk_valid(bones: usize) -> Vec<u8> {
    cat(&[&hk_head(), &hk_std_types(0x16, 0x18), &hk_root_objs("hkaAnimationContainer", &[3], &[]), &hk_skel_obj(bones, bones, bones, 12), &pint(7)])
}

/// the valid two-bone file with more types (index 6..) and more objects behind the skeleton
fn hk_valid_plus(types: &[u8], objs: &[u8]) -> Vec<u8> {
    cat(&[&hk_head(), &hk_std_types(0x16, 0x18), types, &hk_root_objs("hkaAnimationContainer", &[3], &[]), &hk_skel_obj(2, 2, 2, 12), objs, &pint(7)])
}

fn hk_binding_file(blend: i32, anim_class: &str, duration_type: i32) -> Vec<u8> {
    let mut t = hk_std_types(0x16, 0x18);
    t.extend(htype(
        "hkaAnimationBinding",
        0,
        &[("transformTrackToBoneIndices", 0x12, None), ("blendHint", 2, None), ("animation", 8, Some("hkaAnimation"))],
    ));
    t.extend(htype(
        anim_class,
        0,
        &[
            ("duration", duration_type, None),
            ("numberOfTransformTracks", 2, None),
            ("numFrames", 2, None),
            ("numBlocks", 2, None),
            ("maxFramesPerBlock", 2, None),
            ("maskAndQuantizationSize", 2, None),
            ("blockInverseDuration", 3, None),
            ("frameDuration", 3, None),
            ("blockOffsets", 0x12, None),
            ("data", 0x11, None),
        ],
    ));
    let mut o = hk_root_objs("hkaAnimationContainer", &[3], &[4]);
    o.extend(hk_skel_obj(1, 1, 1, 12));
    o.extend(cat(&[&pint(4), &pint(6), &[0x07], &pint(2), &pint(4), &pint(0), &pint(1), &pint(blend), &pint(5)]));
    o.extend(cat(&[&pint(4), &pint(7), &[0xff, 0x03]]));
    if duration_type == 3 {
        o.extend_from_slice(&1.0f32.to_le_bytes());
    } else {
        o.extend(pint(1));
    }
    for v in [2, 3, 1, 256, 8] {
        o.extend(pint(v));
    }
    o.extend_from_slice(&0.5f32.to_le_bytes());
    o.extend_from_slice(&0.033f32.to_le_bytes());
    o.extend(cat(&[&pint(1), &pint(4), &pint(0), &pint(4), &[9, 8, 7, 6]]));
    cat(&[&hk_head(), &t, &o, &pint(7)])
}

fn hk_nesting(k: usize) -> Vec<u8> {
    let t = htype("a", 0, &[("v", 0x19, Some("a"))]);
    let o = cat(&[&pint(4), &pint(6), &[0x01], &pint(0), &vec![0x01u8; k], &[0x00]]);
    hk_valid_plus(&t, &o)
}

/// `l * (1 + k)` struct elements without member data in an unrelated object; the byte array behind them
/// makes the tag file `slack` bytes longer than its number of struct elements
fn hk_elements(k: usize, l: usize, slack: i64) -> Option<Vec<u8>> {
    let names: Vec<String> = (0..k).map(|i| format!("m{}", i)).collect();
    let ms: Vec<(&str, i32, Option<&str>)> = names.iter().map(|n| (n.as_str(), 9, Some("e"))).collect();
    let t = cat(&[&htype("e", 0, &[]), &htype("b", 0, &ms), &htype("a", 0, &[("v", 0x19, Some("b")), ("pad", 0x11, None)])]);
    let total = (1 + 2 + l * (1 + k)) as i64;
    let bits: Vec<u8> = (0..k.div_ceil(8)).map(|i| if (i + 1) * 8 <= k { 0xffu8 } else { (1u8 << (k % 8)) - 1 }).collect();
    for pad in 0..6000usize {
        let o = cat(&[&pint(4), &pint(8), &[0x03], &pint(l as i32), &bits, &pint(pad as i32), &vec![0u8; pad]]);
        let v = hk_valid_plus(&t, &o);
        if v.len() as i64 == total + slack {
            return Some(v);
        }
    }
    None
}

fn hk_type_chain(n: usize) -> Vec<u8> {
    let mut v = hk_head();
    v.extend(htype("a", 0, &[]));
    for i in 1..n {
        v.extend(cat(&[&pint(2), &pint(-2), &pint(0), &pint(i as i32), &pint(0)]));
    }
    v.extend(cat(&[&pint(4), &pint(n as i32), &pint(7)]));
    v
}

fn hk_object_chain(n: usize) -> Vec<u8> {
    let mut v = hk_head();
    v.extend(htype("a", 0, &[("p", 8, Some("a"))]));
    v.extend(cat(&[&pint(4), &pint(1), &[0x00]]));
    for k in 1..n {
        v.extend(cat(&[&pint(4), &pint(1), &[0x01], &pint(k as i32)]));
    }
    v.extend(pint(7));
    v
}

/// (tag files, without the SKLB header)
fn havok_directed(thorough: bool) -> Vec<Vec<u8>> {
    let head = hk_head();
    let sig = hk_sig();
    let std = hk_std_types(0x16, 0x18);
    let valid = hk_valid(2);
    let ty = |name: &str, parent: i32, ms: &[(&str, i32, Option<&str>)]| htype(name, parent, ms);
    let one = |t: Vec<u8>, obj: &[u8]| cat(&[&head, &t, obj]);
    let f1 = 1.0f32.to_le_bytes();
    let i = valid.windows(5).position(|w| w == b"hkRoo").unwrap();
    let mut v: Vec<Vec<u8>> = vec![
        // 70: the data ends early
        valid[..9].to_vec(),
        valid[..i + 5].to_vec(),
        valid[..valid.len() - 3].to_vec(),
        sig[..6].to_vec(),
        // 71: packed integers
        cat(&[&sig, &pint(1), &[0x86, 0x80, 0x80, 0x80, 0x80, 0x80, 0x00]]),
        cat(&[&sig, &pint(1), &[0x81, 0x80, 0x80, 0x80, 0x10]]),
        cat(&[&sig, &pint(1), &[0x86, 0x80, 0x80, 0x80, 0x0f], &valid[10..]]), // five bytes, high bits lost: version 3 again
        // 72: tag dispatch
        cat(&[&0xCAB0_0D1Eu32.to_le_bytes(), &0xD011_FACFu32.to_le_bytes(), &valid[8..]]),
        cat(&[&head, &pint(9)]),
        cat(&[&head, &pint(5)]),
        cat(&[&head, &pint(3)]),
        cat(&[&head, &pint(6)]),
        cat(&[&head, &pint(0)]),
        cat(&[&head, &pint(-1)]),
        cat(&[&head, &pint(255)]),
        cat(&[&head, &pint(256 + 7)]), // `as u8`: FileEnd
        cat(&[&sig, &pint(1), &pint(2), &valid[10..]]),
        cat(&[&sig, &pint(1), &pint(256 + 3), &valid[10..]]), // `as u8`: version 3
        cat(&[&head, &pint(7)]),
        cat(&[&sig, &valid[10..]]), // no FileInfo: object indices shift by one
        cat(&[&head, &pint(1), &pint(3), &valid[10..]]), // FileInfo twice
        // 73: remembered indices
        cat(&[&head, &pint(2), &pint(-9)]),
        cat(&[&head, &pint(2), &[0x80, 0x80, 0x80, 0x80, 0x10]]),
        cat(&[&head, &pint(2), &pint(2), &[0xc3, 0x28]]),
        one(ty("a", 7, &[]), &[]),
        one(ty("a", -1, &[]), &[]),
        one(ty("a", 0, &[("m", 0x40, None)]), &[]),
        one(ty("a", 0, &[("m", -1, None)]), &[]),
        cat(&[&head, &pint(2), &hstr("a"), &pint(0), &pint(0), &pint(1000), &[0u8; 8]]),
        cat(&[&head, &pint(2), &hstr("a"), &pint(0), &pint(0), &pint(-5), &pint(7)]), // negative count: no members
        cat(&[&head, &std, &pint(4), &pint(77)]),
        cat(&[&head, &std, &pint(4), &pint(-1)]),
        cat(&[&head, &std, &hk_root_objs("hkaAnimationContainer", &[9], &[]), &hk_skel_obj(1, 1, 1, 12), &pint(7)]),
        cat(&[&head, &std, &hk_root_objs("hkaAnimationContainer", &[-3], &[]), &hk_skel_obj(1, 1, 1, 12), &pint(7)]),
        cat(&[&head, &std, &pint(4), &pint(2), &[0x01], &pint(1), &[0x07], &hstr("x"), &hstr("y"), &pint(55), &pint(7)]),
        // 74: member kinds without code, lengths
        one(ty("a", 0, &[("t", 0x22, None)]), &cat(&[&pint(4), &pint(1), &[0x01], &pint(1)])),
        one(ty("a", 0, &[("v", 4, None)]), &cat(&[&pint(4), &pint(1), &[0x01], &f1, &f1, &f1, &f1])),
        one(ty("a", 0, &[("s", 9, Some("a"))]), &cat(&[&pint(4), &pint(1), &[0x00], &pint(7)])),
        one(ty("a", 0, &[("s", 9, Some("a"))]), &cat(&[&pint(4), &pint(1), &[0x01], &pint(7)])),
        one(ty("a", 0, &[("s", 0, None)]), &cat(&[&pint(4), &pint(1), &[0x01], &pint(7)])),
        one(ty("a", 0, &[("s", 11, None)]), &cat(&[&pint(4), &pint(1), &[0x00], &pint(7)])),
        one(ty("a", 0, &[("v", 0x10, None)]), &cat(&[&pint(4), &pint(1), &[0x01], &pint(0)])),
        one(ty("a", 0, &[("v", 0x1b, None)]), &cat(&[&pint(4), &pint(1), &[0x01], &pint(0)])),
        one(ty("a", 0, &[("v", 0x11, None)]), &cat(&[&pint(4), &pint(1), &[0x01], &pint(-1)])),
        one(ty("a", 0, &[("v", 0x11, None)]), &cat(&[&pint(4), &pint(1), &[0x01], &pint(1 << 30)])),
        one(ty("a", 0, &[("v", 0x11, None)]), &cat(&[&pint(4), &pint(1), &[0x01], &pint(3), &[1, 2, 3]])), // exactly as many as left
        one(ty("a", 0, &[("v", 0x11, None)]), &cat(&[&pint(4), &pint(1), &[0x01], &pint(4), &[1, 2, 3]])),
        one(ty("a", 0, &[("v", 0x19, Some("nope"))]), &cat(&[&pint(4), &pint(1), &[0x01], &pint(0)])),
        cat(&[&head, &ty("e", 0, &[("t", 0x22, None)]), &ty("a", 0, &[("v", 0x19, Some("e"))]), &pint(4), &pint(2), &[0x01], &pint(1), &[0x01]]),
        // 75: extraction
        cat(&[&head, &std, &hk_root_objs("hkaOther", &[], &[]), &pint(7)]),
        cat(&[&head, &std, &pint(4), &pint(3), &[0x00], &pint(7)]),
        cat(&[&head, &std, &hk_root_objs("hkaAnimationContainer", &[], &[]), &pint(7)]),
        cat(&[&head, &std, &hk_root_objs("hkaAnimationContainer", &[3], &[]), &pint(4), &pint(4), &[0x0f], &hstr("skeleton"), &pint(1), &[0x00], &pint(0), &pint(4), &pint(0), &pint(7)]),
        cat(&[&head, &std, &hk_root_objs("hkaAnimationContainer", &[3], &[]), &hk_skel_obj(2, 1, 2, 12), &pint(7)]),
        cat(&[&head, &std, &hk_root_objs("hkaAnimationContainer", &[3], &[]), &hk_skel_obj(2, 2, 1, 12), &pint(7)]),
        cat(&[&head, &std, &hk_root_objs("hkaAnimationContainer", &[3], &[]), &hk_skel_obj(0, 0, 0, 12), &pint(7)]),
        cat(&[&head, &std, &hk_root_objs("hkaAnimationContainer", &[3], &[]), &hk_skel_obj(1, 3, 2, 12), &pint(7)]),
        cat(&[&head, &hk_std_types(0x14, 0x18), &hk_root_objs("hkaAnimationContainer", &[3], &[]), &hk_skel_obj(1, 1, 1, 4), &pint(7)]),
        cat(&[&head, &hk_std_types(0x17, 0x18), &hk_root_objs("hkaAnimationContainer", &[3], &[]), &hk_skel_obj(1, 1, 1, 16), &pint(7)]),
        cat(&[&head, &hk_std_types(0x16, 2), &pint(4), &pint(2), &[0x01], &pint(1), &[0x07], &hstr("x"), &hstr("hkaAnimationContainer"), &pint(2), &pint(4), &pint(5), &[0x03], &pint(5), &pint(0), &pint(7)]),
        cat(&[&head, &std, &hk_root_objs("hkaAnimationContainer", &[3, 3], &[]), &hk_skel_obj(1, 1, 1, 12), &pint(7)]),
        cat(&[&head, &std, &hk_root_objs("hkaAnimationContainer", &[2], &[]), &hk_skel_obj(1, 1, 1, 12), &pint(7)]), // a container as a skeleton
        cat(&[&head, &std, &hk_root_objs("hkaAnimationContainer", &[0], &[]), &hk_skel_obj(1, 1, 1, 12), &pint(7)]), // the placeholder object
        hk_binding_file(1, "hkaSplineCompressedAnimation", 3),
        hk_binding_file(0, "hkaSplineCompressedAnimation", 3),
        hk_binding_file(2, "hkaSplineCompressedAnimation", 3),
        hk_binding_file(256, "hkaSplineCompressedAnimation", 3),
        hk_binding_file(1, "hkaInterleavedUncompressedAnimation", 3),
        hk_binding_file(1, "hkaSplineCompressedAnimation", 2),
        // 76: struct arrays
        hk_nesting(0),
        hk_nesting(31),
        hk_nesting(32),
        hk_nesting(33),
        hk_nesting(34),
        hk_nesting(300),
    ];
    for (k, l) in [(7usize, 100usize), (1, 40), (20, 9)] {
        for slack in [-2i64, -1, 0, 1] {
            if let Some(f) = hk_elements(k, l, slack) {
                v.push(f);
            }
        }
    }
    if thorough {
        // the large ones (the default sizes are in the corpus and replayed on every run)
        v.push(hk_nesting(90_000));
        v.push(hk_type_chain(140_000));
        v.push(hk_object_chain(160_000));
        if let Some(f) = hk_elements(200, 1000, -1) {
            v.push(f);
        }
    }
    v
}

// random, mostly valid tag files: the valid two-bone skeleton plus random classes and objects

struct HkClass {
    /// (type bits, class index for struct / object members)
    members: Vec<(i32, usize)>,
}

fn hk_value(rng: &mut Rng, classes: &[HkClass], ty: i32, cls: usize, n: usize, depth: usize, o: &mut Vec<u8>) {
    // the elements of an array of `n` (or one scalar when `n == usize::MAX`)
    let scalar = n == usize::MAX;
    let count = if scalar { 1 } else { n };
    match ty & 0x0f {
        1 => o.extend(rng.bytes(count)),
        2 => {
            if !scalar {
                o.extend(pint(4));
            }
            for _ in 0..count {
                o.extend(pint(*rng.pick(&[0i32, 1, -1, 63, 64, -8192, 1 << 20, i32::MAX, -i32::MAX])));
            }
        }
        3 => o.extend(rng.bytes(4 * count)),
        4..=7 => o.extend(rng.bytes(4 * count * (4 * ((ty & 0x0f) as usize - 3)))),
        8 => {
            for _ in 0..count {
                o.extend(pint(rng.below(4) as i32));
            }
        }
        10 => {
            for _ in 0..count {
                if rng.chance(1, 3) {
                    o.extend(pint(-(rng.range(0, 4) as i32)));
                } else {
                    o.extend(hstr(&format!("s{}", rng.below(50))));
                }
            }
        }
        9 => {
            let c = &classes[cls];
            let present: Vec<bool> = c.members.iter().map(|m| depth < 3 && m.0 & 0x20 == 0 && rng.chance(2, 3)).collect();
            let mut bits = vec![0u8; c.members.len().div_ceil(8)];
            for (i, p) in present.iter().enumerate() {
                if *p {
                    bits[i / 8] |= 1 << (i % 8);
                }
            }
            o.extend(bits);
            for (i, m) in c.members.iter().enumerate() {
                if present[i] {
                    hk_value(rng, classes, m.0, m.1, count, depth + 1, o);
                }
            }
        }
        _ => {}
    }
}

fn havok_random(rng: &mut Rng) -> Vec<u8> {
    let kinds = [1i32, 2, 3, 10, 8, 0x11, 0x12, 0x13, 0x14, 0x16, 0x17, 0x18, 0x19, 0x1a, 9, 0x19, 0x19];
    let rare = [0i32, 4, 0x22, 0x2a, 0x10, 0x1b, 11, 0x31];
    let ncls = rng.range(1, 4) as usize;
    let mut classes: Vec<HkClass> = vec![];
    let mut types = vec![];
    for c in 0..ncls {
        let nm = rng.range(0, 9) as usize;
        let mut members = vec![];
        let mut decl: Vec<(String, i32, Option<String>)> = vec![];
        for m in 0..nm {
            let ty = if rng.chance(1, 25) { *rng.pick(&rare) } else { *rng.pick(&kinds) };
            let cls = if c == 0 { 0 } else { rng.below(c as u64) as usize };
            let needs_class = (ty & 0x0f) == 8 || (ty & 0x0f) == 9;
            // a struct member of the first class refers to the class itself (absent or empty below)
            decl.push((format!("m{}", m), ty, if needs_class { Some(format!("c{}", cls)) } else { None }));
            members.push((ty, cls));
        }
        let d: Vec<(&str, i32, Option<&str>)> = decl.iter().map(|(n, t, c)| (n.as_str(), *t, c.as_deref())).collect();
        // parent: `object` or an earlier random class (inherited members are not filled in: kept member-less)
        types.extend(htype(&format!("c{}", c), 0, &d));
        classes.push(HkClass { members });
    }
    let mut objs = vec![];
    for _ in 0..rng.range(1, 4) {
        let c = rng.below(ncls as u64) as usize;
        let cl = &classes[c];
        objs.extend(pint(4));
        objs.extend(pint(6 + c as i32));
        let present: Vec<bool> = cl.members.iter().map(|m| {
            let unimplemented = m.0 & 0x20 != 0 || matches!(m.0, 0 | 4..=7 | 9 | 11..=15) || matches!(m.0 & 0x1f, 0x10 | 0x1b..=0x1f);
            if unimplemented { rng.chance(1, 6) } else { rng.chance(3, 4) }
        }).collect();
        let mut bits = vec![0u8; cl.members.len().div_ceil(8)];
        for (i, p) in present.iter().enumerate() {
            if *p {
                bits[i / 8] |= 1 << (i % 8);
            }
        }
        objs.extend(bits);
        for (i, m) in cl.members.iter().enumerate() {
            if present[i] {
                if m.0 & 0x10 != 0 {
                    let n = *rng.pick(&[0usize, 1, 2, 3, 7]);
                    objs.extend(pint(n as i32));
                    // a struct array of the class itself (first class) stays without columns
                    hk_value(rng, &classes, m.0, m.1, n, if (m.0 & 0x0f) == 9 && m.1 >= c { 3 } else { 0 }, &mut objs);
                } else {
                    hk_value(rng, &classes, m.0, m.1, usize::MAX, 3, &mut objs);
                }
            }
        }
    }
    hk_valid_plus(&types, &objs)
}

fn sklb_wrap(hk: &[u8], fields: bool) -> Seed {
    let mut b = B::new(false);
    b.u32(0x736B_6C62).u32(0x3133_3030).u32(36).u32(36).u32(0).u32(101).u32(0).u32(0).u32(0).bound();
    b.raw(hk, fields).bound();
    b.seed("sklb")
}

fn gen_havok(rng: &mut Rng, thorough: bool, out: &mut dyn Write) {
    for (i, hk) in havok_directed(thorough).iter().enumerate() {
        let s = sklb_wrap(hk, false);
        if hk.len() <= 1200 && (thorough || i % 4 == 0) {
            mutate(&s, rng, thorough, out);
        } else {
            emit(out, "sklb", &s.bytes, "");
        }
    }
    for i in 0..(if thorough { 6000 } else { 500 }) {
        let mut hk = havok_random(rng);
        match i % 4 {
            1 => {
                let k = rng.below(hk.len() as u64) as usize;
                hk[k] = *rng.pick(&[0u8, 1, 0x7f, 0x80, 0xff, hk[k] ^ 1, hk[k].wrapping_add(1)]);
            }
            2 => {
                let k = rng.below(hk.len() as u64) as usize;
                hk.truncate(k);
            }
            _ => {}
        }
        emit(out, "sklb", &sklb_wrap(&hk, false).bytes, "");
    }
}

fn sklb_seeds(rng: &mut Rng) -> Vec<Seed> {
    let mut v = vec![];
    for (ver, bones, variant) in [
        (0x3132_3030u32, 2usize, 0u32),
        (0x3133_3030, 1, 1),
        (0x3133_3031, 0, 0),
        (0x3133_3030, 2, 2),
        (0x3133_3030, 2, 3),
        (0x3133_3030, 2, 4),
        (0x3133_3030, 2, 5),
        (0x3133_3030, 2, 6),
        (0x3133_3030, 1, 7),
        (0x3133_3030, 2, 8),
        (0x3133_3030, 2, 9),
        (0x3133_3030, 1, 10),
        (0x3133_3030, 2, 11),
        (0x3133_3030, 1, 12),
        (0x3133_3030, 2, 13),
    ] {
        let hk = havok_file(bones, variant, rng);
        let mut b = B::new(false);
        b.u32(0x736B_6C62).u32(ver);
        if ver == 0x3132_3030 {
            b.u16(28).u16(32).u32(101).u32(0).u32(0).u32(0).zeros(4);
        } else {
            b.u32(36).u32(36).u32(0).u32(101).u32(0).u32(0).u32(0);
        }
        b.bound();
        // every byte of the first four tag files is a corruptible field; the directed variants
        // (which already end in a panic of their own) only get truncations and random flips
        b.raw(&hk, variant <= 2).bound();
        v.push(b.seed("sklb"));
    }
    // header only / unknown version
    let mut b = B::new(false);
    b.u32(0x736B_6C62).u32(0x3134_3030).u32(36).u32(36).zeros(20);
    v.push(b.seed("sklb"));
    v
}

/// one instance object: (asset type, payload)
fn lgb_layer(objects: &[(u32, Vec<u8>)], sets: u32, obsets: u32, name: &str) -> B {
    let n = objects.len();
    let mut b = B::new(false);
    let objs_at = 52 + 4 * n;
    let mut obj_sizes = vec![];
    let mut total = 0usize;
    for (_, p) in objects {
        obj_sizes.push(total);
        total += 48 + p.len();
    }
    let lsr_at = objs_at + total;
    let obset_at = lsr_at + 12 + 4 * sets as usize;
    let oben_at = obset_at + 12 * obsets as usize;
    let name_at = oben_at + 12 * obsets as usize;
    b.u32(7).u32(name_at as u32).u32(objs_at as u32).u32(n as u32);
    b.u8(1).u8(0).u8(1).u8(0);
    b.u32(lsr_at as u32);
    b.u16(0).u16(0).u8(0).u8(0).u16(3);
    b.zeros(4);
    b.u32(obset_at as u32).u32(obsets).u32(oben_at as u32).u32(obsets);
    b.bound();
    for i in 0..n {
        b.u32(obj_sizes[i] as u32);
    }
    b.bound();
    for (i, (ty, p)) in objects.iter().enumerate() {
        b.u32(*ty).u32(1000 + i as u32).u32(4);
        for k in 0..9 {
            b.f32(k as f32);
        }
        // payload: 4-byte words are corruptible fields (inner enums), the tail is raw
        let mut k = 0;
        while k + 4 <= p.len() && k < 48 {
            b.u32(u32::from_le_bytes([p[k], p[k + 1], p[k + 2], p[k + 3]]));
            k += 4;
        }
        b.raw(&p[k..], false).bound();
    }
    b.u32(1).u32(0).u32(sets);
    for i in 0..sets {
        b.u32(i);
    }
    b.bound();
    for i in 0..obsets {
        b.u32(1).u32(i).u32(0);
    }
    for i in 0..obsets {
        b.u32(6).u32(i).u8(1).u8(0).zeros(2);
    }
    b.bound();
    b.raw(name.as_bytes(), false).u8(0);
    b
}

fn lgb_file(layers: Vec<B>) -> Seed {
    let mut b = B::new(false);
    let l = layers.len();
    let mut total = 36 + 4 * l;
    let mut offs = vec![];
    for x in &layers {
        offs.push(total - 36);
        total += x.v.len();
    }
    let name_at = total;
    total += 9;
    b.raw(b"LGB1", true).u32(total as u32).u32(1);
    b.raw(b"LGP1", true).u32((total - 20) as u32).u32(0x105).u32((name_at - 20) as u32).u32(16).u32(l as u32);
    b.bound();
    for o in &offs {
        b.u32(*o as u32);
    }
    b.bound();
    for x in layers {
        let base = b.pos();
        for f in &x.fields {
            b.fields.push(Field { off: f.off + base, width: f.width, be: f.be });
        }
        for k in &x.bounds {
            b.bounds.push(k + base);
        }
        b.v.extend_from_slice(&x.v);
        b.bound();
    }
    b.raw(b"PlanLive\0", false);
    b.seed("lgb")
}

fn lgb_seeds(rng: &mut Rng) -> Vec<Seed> {
    let mut v = vec![];
    // the repository's own sample shape: no layers
    v.push(lgb_file(vec![]));
    // one layer, no objects
    v.push(lgb_file(vec![lgb_layer(&[], 0, 0, "empty")]));
    // objects of several kinds
    let pop = {
        let mut p = vec![];
        p.extend_from_slice(&1u32.to_le_bytes());
        p.extend_from_slice(&0u32.to_le_bytes());
        p.extend_from_slice(&0u32.to_le_bytes());
        p.extend_from_slice(&1.0f32.to_le_bytes());
        p.extend_from_slice(&[0, 0, 0, 0, 0, 0, 0, 0]);
        p
    };
    let bg = {
        let mut p = vec![];
        for x in [0u32, 0, 1, 0, 0, 0] {
            p.extend_from_slice(&x.to_le_bytes());
        }
        p.extend_from_slice(&[1, 1, 0, 0]);
        p.extend_from_slice(&10.0f32.to_le_bytes());
        p
    };
    let objs: Vec<(u32, Vec<u8>)> = vec![
        (0x28, pop),
        (0x1, bg),
        (0xE, vec![5, 0, 0, 0, 0, 0, 0, 0]),
        (0x10, vec![1, 0, 0, 0, 0, 0, 0, 0, 0, 0, 0, 0]),
        (0x31, vec![]),
        (0xC, vec![9, 0, 0, 0, 1, 0, 0, 0, 0, 0, 0, 0]),
        (90, vec![]),
    ];
    v.push(lgb_file(vec![lgb_layer(&objs[..3], 2, 1, "objs")]));
    v.push(lgb_file(vec![lgb_layer(&objs[3..], 0, 2, "more"), lgb_layer(&objs[..1], 1, 0, "second")]));
    // every object kind that has a reader: (asset type, [(is_enum, value-or-length)])
    let kinds: Vec<(u32, Vec<(bool, u32)>)> = vec![
        (0x1, vec![(false, 8), (true, 2), (false, 20)]),
        (0x3, vec![(true, 6), (false, 8), (true, 1), (false, 43)]),
        (0x4, vec![(false, 40)]),
        (0x5, vec![(true, 4), (false, 8)]),
        (0x6, vec![(false, 4), (true, 3), (false, 8), (true, 2), (false, 16), (true, 3), (true, 0)]),
        (0x7, vec![(false, 8)]),
        (0x8, vec![(false, 40)]),
        (0x9, vec![(false, 104)]),
        (0xC, vec![(false, 12)]),
        (0xD, vec![(false, 8), (true, 3), (false, 24)]),
        (0xE, vec![(false, 8)]),
        (0x10, vec![(false, 12)]),
        (0x28, vec![(true, 3), (false, 20)]),
        (0x29, vec![(true, 6), (false, 8), (true, 1), (false, 24)]),
        (0x2B, vec![]),
        (0x2D, vec![]),
        (0x2F, vec![]),
        (0x33, vec![]),
        (0x39, vec![]),
        (0x3B, vec![]),
        (0x41, vec![]),
        (0x42, vec![]),
        (0x43, vec![]),
        (0x44, vec![]),
        (0x45, vec![]),
        (0x47, vec![]),
        (0x48, vec![]),
    ];
    for chunk in kinds.chunks(7) {
        let mut objs2: Vec<(u32, Vec<u8>)> = vec![];
        for (ty, items) in chunk {
            let mut p = vec![];
            for (is_enum, x) in items {
                if *is_enum {
                    p.extend_from_slice(&x.to_le_bytes());
                } else {
                    p.extend(rng.bytes(*x as usize));
                }
            }
            objs2.push((*ty, p));
        }
        let mut s = lgb_file(vec![lgb_layer(&objs2, 1, 1, "kinds")]);
        // the enum fields of the payloads are worth corrupting: register every 4-byte word of the objects
        v.push(s);
    }
    // an object kind without a reader (Attribute = 2): no variant matches
    v.push(lgb_file(vec![lgb_layer(&[(2, vec![0; 8])], 0, 0, "nov")]));
    v
}

pub struct DicEntry {
    flag: u32,
    sibling: u32,
    child: u32,
    offset: u32,
}

/// dic: header at 0x8124, the five blocks behind 0x8B50.  `protect` collects byte ranges that the
/// random flips must not touch (sibling counts of word entries: see the finding `dic.walk-unbounded`).
fn dic_file(
    begin: &[u16],
    inner: &[u16],
    chara: &[u16],
    word: &[u16],
    entries: &[DicEntry],
    protect: &mut Vec<(usize, usize)>,
) -> Seed {
    let mut b = B::new(false);
    b.zeros(0x8124);
    b.bound();
    for k in 0..3 {
        for i in 0..256u32 {
            b.v.extend_from_slice(&((i as u16).wrapping_add(k)).to_le_bytes());
        }
    }
    b.bound();
    let sizes = [begin.len() * 2, inner.len() * 2, chara.len() * 2, word.len() * 2, entries.len() * 16];
    let mut at = 0x8B50usize + 16;
    let mut offs = vec![];
    for s in sizes {
        offs.push(at);
        at += s + 6;
    }
    for o in &offs {
        b.u32((*o - 0x8950) as u32);
    }
    for s in sizes {
        b.u32(s as u32);
    }
    b.zeros(4);
    b.bound();
    for i in 0..256u32 {
        if i < 4 {
            b.u32(i);
        } else {
            b.v.extend_from_slice(&i.to_le_bytes());
        }
    }
    b.bound();
    b.zeros(16);
    for (k, t) in [begin, inner, chara, word].iter().enumerate() {
        assert_eq!(b.pos(), offs[k]);
        for (i, x) in t.iter().enumerate() {
            if i < 6 || *x != 0 {
                b.u16(*x);
            } else {
                b.v.extend_from_slice(&x.to_le_bytes());
            }
        }
        b.zeros(6);
        b.bound();
    }
    assert_eq!(b.pos(), offs[4]);
    for e in entries {
        b.u32(e.flag);
        if e.flag != 0 {
            // not a corruptible field (a large count here makes the reader push that many words)
            protect.push((b.pos(), b.pos() + 4));
            b.v.extend_from_slice(&e.sibling.to_le_bytes());
        } else {
            b.u32(e.sibling);
        }
        b.u32(e.child).u32(e.offset);
    }
    b.zeros(6);
    b.seed("dic")
}

fn e(flag: u32, sibling: u32, child: u32, offset: u32) -> DicEntry {
    DicEntry { flag, sibling, child, offset }
}

fn dic_seeds(protect: &mut Vec<Vec<(usize, usize)>>) -> Vec<Seed> {
    let mut v = vec![];
    let mut p = vec![];
    // empty tables
    v.push(dic_file(&[], &[], &[], &[], &[], &mut p));
    protect.push(std::mem::take(&mut p));
    // a small trie: begin 1 -> e1 {c,d}; c -> e2 (word "ab"); begin 0x103 -> e3 (chara e)
    let mut begin = vec![0u16; 0x104];
    begin[1] = 1;
    begin[0x103] = 3;
    v.push(dic_file(
        &begin,
        &[0, 2, 0],
        &[0, 0x63, 0x64, 0x65, 0],
        &[0x61, 0x62, 0, 0x66, 0],
        &[e(0, 0, 0, 0), e(0, 2, 1, 2), e(1, 1, 0, 0), e(0, 1, 0, 6)],
        &mut p,
    ));
    protect.push(std::mem::take(&mut p));
    // deeper: chain of four nodes, a word entry with children, a surrogate in the word table
    v.push(dic_file(
        &[2, 0, 1],
        &[0, 2, 3, 4, 0, 0],
        &[0, 0x41, 0x42, 0x43, 0x44, 0],
        &[0x78, 0x79, 0, 0xD800, 0, 0x7A],
        &[e(0, 0, 0, 0), e(0, 1, 1, 2), e(0, 1, 2, 4), e(1, 2, 3, 0), e(1, 1, 0, 6), e(1, 1, 0, 10)],
        &mut p,
    ));
    protect.push(std::mem::take(&mut p));
    v
}

/// `mutate` of c18.rs for the large dic seeds, with byte ranges the random flips leave alone
fn mutate_dic(seed: &Seed, protect: &[(usize, usize)], rng: &mut Rng, thorough: bool, out: &mut dyn Write) {
    let n = seed.bytes.len();
    emit(out, &seed.op, &seed.bytes, "");
    let mut pts: Vec<usize> = vec![0, 1, 4, n - 1];
    for b in &seed.bounds {
        for d in [-1i64, 0, 1] {
            let p = *b as i64 + d;
            if p >= 0 && (p as usize) < n {
                pts.push(p as usize);
            }
        }
    }
    for f in &seed.fields {
        pts.push(f.off + f.width - 1);
    }
    for _ in 0..(if thorough { 100 } else { 10 }) {
        pts.push(rng.below(n as u64) as usize);
    }
    pts.sort();
    pts.dedup();
    for k in pts {
        emit(out, &seed.op, &seed.bytes[..k], "");
    }
    for f in &seed.fields {
        let cur = get(&seed.bytes, f);
        for v in corrupt_values(cur, f.width) {
            let mut m = seed.bytes.clone();
            put(&mut m, f, v);
            emit(out, &seed.op, &m, "");
        }
    }
    // word entries: small repeat counts only
    for (a, _) in protect {
        for v in [0u32, 2, 3, 300] {
            let mut m = seed.bytes.clone();
            m[*a..*a + 4].copy_from_slice(&v.to_le_bytes());
            emit(out, &seed.op, &m, "");
        }
    }
    let flips = if thorough { 200 } else { 16 };
    let mut done = 0;
    while done < flips {
        let i = 0x8124 + rng.below((n - 0x8124) as u64) as usize;
        if protect.iter().any(|(a, b)| *a <= i && i < *b) {
            continue;
        }
        let mut m = seed.bytes.clone();
        m[i] = match rng.below(4) {
            0 => 0,
            1 => 0xFF,
            2 => m[i] ^ (1 << rng.below(8)),
            _ => rng.next() as u8,
        };
        emit(out, &seed.op, &m, "");
        done += 1;
    }
}

pub fn generate(thorough: bool, seed: u64, out: &mut dyn Write) {
    let mut rng = Rng::new(seed, "C18-pbc");
    for s in stm_seeds(&mut rng) {
        mutate(&s, &mut rng, thorough, out);
    }
    for s in avfx_seeds(&mut rng) {
        mutate(&s, &mut rng, thorough, out);
    }
    for s in sklb_seeds(&mut rng) {
        mutate(&s, &mut rng, thorough, out);
    }
    let mut hrng = Rng::new(seed, "C18-havok");
    gen_havok(&mut hrng, thorough, out);
    for s in lgb_seeds(&mut rng) {
        mutate(&s, &mut rng, thorough, out);
    }
    let mut protect = vec![];
    let ds = dic_seeds(&mut protect);
    for (s, p) in ds.iter().zip(protect.iter()) {
        mutate_dic(s, p, &mut rng, thorough, out);
    }
    let k = if thorough { 400 } else { 40 };
    blobs("stm", b"", &mut rng, k, thorough, out);
    blobs("avfx", b"XFVA", &mut rng, k, thorough, out);
    blobs("sklb", &[0x62, 0x6C, 0x6B, 0x73, 0x30, 0x30, 0x32, 0x31], &mut rng, k, thorough, out);
    blobs("lgb", b"LGB1", &mut rng, k, thorough, out);
    blobs("dic", b"", &mut rng, k / 4, false, out);
}
