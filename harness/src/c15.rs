//! C15: race codes, path builders, repository ordering and index/dat file names.
//! T2: `dump` evaluates the compiled `get_race_id` / `get_supported_tribes` over their whole
//! finite domain and prints `Generated/RaceTable.lean`; `dump witness` brute-forces the property
//! on the real code (used when a theorem over the regenerated table breaks).
#![allow(unused)]
use crate::util::*;
use physis::common::Platform;
use physis::equipment::*;
use physis::race::*;
use physis::repository::{Category, Repository, RepositoryType};
use std::io::Write;

fn race(n: u64) -> Option<Race> {
    Race::try_from(n as u8).ok()
}
fn tribe(n: u64) -> Option<Tribe> {
    Tribe::try_from(n as u8).ok()
}
fn gender(n: u64) -> Option<Gender> {
    Gender::try_from(n as u8).ok()
}
fn slot(n: u64) -> Option<Slot> {
    Some(match n {
        0 => Slot::Head,
        1 => Slot::Hands,
        2 => Slot::Legs,
        3 => Slot::Feet,
        4 => Slot::Body,
        5 => Slot::Earring,
        6 => Slot::Neck,
        7 => Slot::Wrists,
        8 => Slot::RingLeft,
        9 => Slot::RingRight,
        _ => return None,
    })
}
fn slot_index(s: &Slot) -> u64 {
    match s {
        Slot::Head => 0,
        Slot::Hands => 1,
        Slot::Legs => 2,
        Slot::Feet => 3,
        Slot::Body => 4,
        Slot::Earring => 5,
        Slot::Neck => 6,
        Slot::Wrists => 7,
        Slot::RingLeft => 8,
        Slot::RingRight => 9,
    }
}
fn char_cat(n: u64) -> Option<CharacterCategory> {
    Some(match n {
        0 => CharacterCategory::Body,
        1 => CharacterCategory::Hair,
        2 => CharacterCategory::Face,
        3 => CharacterCategory::Tail,
        4 => CharacterCategory::Ear,
        _ => return None,
    })
}
const CATEGORIES: [(u64, Category); 15] = [
    (0x00, Category::Common),
    (0x01, Category::BackgroundCommon),
    (0x02, Category::Background),
    (0x03, Category::Cutscene),
    (0x04, Category::Character),
    (0x05, Category::Shader),
    (0x06, Category::UI),
    (0x07, Category::Sound),
    (0x08, Category::VFX),
    (0x09, Category::UIScript),
    (0x0A, Category::EXD),
    (0x0B, Category::GameScript),
    (0x0C, Category::Music),
    (0x12, Category::SqPackTest),
    (0x13, Category::Debug),
];
fn category(n: u64) -> Option<Category> {
    CATEGORIES.iter().find(|(k, _)| *k == n).map(|(_, c)| *c)
}
fn platform(n: u64) -> Option<Platform> {
    Some(match n {
        0 => Platform::Win32,
        1 => Platform::PS3,
        2 => Platform::PS4,
        3 => Platform::PS5,
        4 => Platform::Xbox,
        _ => return None,
    })
}

/// the valid (race, tribe) pairs according to the *implementation* (supported tribes)
fn valid_triples() -> Vec<(u64, u64, u64)> {
    let mut v = vec![];
    for r in 1..=8u64 {
        for t in get_supported_tribes(race(r).unwrap()) {
            for g in 0..=1u64 {
                v.push((r, t as u8 as u64, g));
            }
        }
    }
    v
}

pub fn generate(thorough: bool, seed: u64, out: &mut dyn Write) {
    let mut rng = Rng::new(seed, "C15");
    // race ids and supported tribes: the whole domain, every run
    for r in 1..=8 {
        writeln!(out, "tribes {}", r).unwrap();
        for t in 1..=16 {
            for g in 0..=1 {
                writeln!(out, "race {} {} {}", r, t, g).unwrap();
            }
        }
    }
    // own tribes of each race (the specification's table, not the implementation's)
    let own = |r: u64| [2 * r - 1, 2 * r];
    for r in 1..=8u64 {
        for t in own(r) {
            for g in 0..=1u64 {
                writeln!(out, "skel {} {} {}", r, t, g).unwrap();
                for cat in 0..5 {
                    for ver in [0u64, 1, 9, 10, 99, 100, 101, 999, 1000, 9999, rng.below(10000)] {
                        writeln!(out, "char {} {} {} {} {}", cat, ver, r, t, g).unwrap();
                    }
                }
            }
        }
    }
    // equipment paths: 10 slots x ids 0..9999 (thorough: all; quick: every 10th + boundaries)
    for s in 0..10u64 {
        for id in 0..10000u64 {
            let take = thorough
                || id % 10 == (s % 10)
                || matches!(id, 0 | 1 | 9 | 10 | 99 | 100 | 999 | 1000 | 9998 | 9999);
            if take {
                let r = rng.range(1, 8);
                let t = own(r)[rng.below(2) as usize];
                let g = rng.below(2);
                writeln!(out, "equip {} {} {} {} {}", id, r, t, g, s).unwrap();
            }
        }
    }
    // file names: 15 categories x ex 0..9 x chunk 0..9 x 5 platforms x dat 0..7
    for (c, _) in CATEGORIES.iter() {
        for ex in 0..10u64 {
            for chunk in 0..10u64 {
                for p in 0..5u64 {
                    for dat in 0..8u64 {
                        let take = thorough || (c + ex + chunk + p + dat + seed) % 10 == 0;
                        if take {
                            writeln!(out, "names {} {} {} {} {}", c, ex, chunk, p, dat).unwrap();
                        }
                    }
                }
            }
        }
    }
    // file names, several TargetInfo commands in one patch (the last one before a command is in
    // force): the `.index` / `.index2` / `.dat` commands each under their own platform, in any order.
    // One (category, expansion, chunk): all 125 platform triples x 6 orders; every (category,
    // expansion, chunk): one triple with at least two platforms (thorough: 25 of the 125 triples)
    for pi in 0..5u64 {
        for pi2 in 0..5u64 {
            for pd in 0..5u64 {
                for ord in 0..6u64 {
                    writeln!(out, "names2 4 1 0 {} {} {} {} {}", (pi + pi2 + pd + ord) % 8, pi, pi2, pd, ord).unwrap();
                }
            }
        }
    }
    for (c, _) in CATEGORIES.iter() {
        for ex in 0..10u64 {
            for chunk in 0..10u64 {
                let m = if thorough { 25 } else { 1 };
                for _ in 0..m {
                    let pi = rng.below(5);
                    let mut pi2 = rng.below(5);
                    let pd = rng.below(5);
                    if pi == pi2 && pi2 == pd {
                        pi2 = (pi2 + 1 + rng.below(4)) % 5;
                    }
                    writeln!(out, "names2 {} {} {} {} {} {} {} {}", c, ex, chunk, rng.below(8), pi, pi2, pd, rng.below(6)).unwrap();
                    // consecutive commands that differ in the data-file number only
                    writeln!(out, "names3 {} {} {} {} {} {} {}", c, ex, chunk, pd, rng.below(8), rng.below(8), rng.below(8)).unwrap();
                }
            }
        }
    }
    // repository ordering: permutations of subsets of {0 (base), 1..9}, up to 7 members
    let n = if thorough { 3000 } else { 300 };
    // all permutations of a few fixed sets
    let fixed: Vec<Vec<u64>> = vec![vec![0, 1, 2], vec![0, 1, 2, 3], vec![1, 2, 3], vec![0, 5, 9, 2]];
    for set in fixed {
        let mut idx: Vec<usize> = (0..set.len()).collect();
        permute(&mut idx, 0, &mut |p| {
            let l: Vec<String> = p.iter().map(|i| set[*i].to_string()).collect();
            writeln!(out, "sort {}", l.join(",")).unwrap();
            if set.contains(&0) {
                writeln!(out, "discover {}", l.join(",")).unwrap();
            }
        });
    }
    for _ in 0..n {
        let k = rng.range(1, 7) as usize;
        let mut pool: Vec<u64> = (0..10).collect();
        let mut l: Vec<String> = vec![];
        for _ in 0..k {
            let i = rng.below(pool.len() as u64) as usize;
            l.push(pool.remove(i).to_string());
        }
        writeln!(out, "sort {}", l.join(",")).unwrap();
        // discovery always finds the base game (the game directory itself): include it
        if !l.iter().any(|x| x == "0") {
            let at = rng.below(l.len() as u64 + 1) as usize;
            l.insert(at, "0".to_string());
        }
        writeln!(out, "discover {}", l.join(",")).unwrap();
    }
}

fn permute(idx: &mut Vec<usize>, k: usize, f: &mut dyn FnMut(&[usize])) {
    if k == idx.len() {
        f(idx);
        return;
    }
    for i in k..idx.len() {
        idx.swap(k, i);
        permute(idx, k + 1, f);
        idx.swap(k, i);
    }
}

fn nums(f: &[&str]) -> Option<Vec<u64>> {
    f.iter().map(|s| s.parse().ok()).collect()
}

/// one SQPK command of a naming patch
#[derive(Clone, Copy)]
enum NP {
    /// TargetInfo(platform)
    T(u64),
    /// AddData with zero blocks at offset 0 of `.dat<dat>`
    A(u64),
    /// HeaderUpdate (index file, index header) for file id 0 (`.index`) / 2 (`.index2`)
    H(u32),
}

/// A minimal well-formed ZiPatch: header, the given TargetInfo / AddData (zero blocks) / HeaderUpdate
/// commands in order, EOF.  Layout as the format defines it (platform is a big-endian u16).  Only
/// used to observe which files `ZiPatch::apply` touches.
fn naming_patch_of(cat: u64, ex: u64, chunk: u64, parts: &[NP]) -> Vec<u8> {
    let mut p = vec![0x91];
    p.extend_from_slice(b"ZIPATCH");
    p.extend_from_slice(&[0x0d, 0x0a, 0x1a, 0x0a]);
    let sub = ((ex << 8) | chunk) as u16;
    let sqpk = |p: &mut Vec<u8>, op: u8, body: &[u8]| {
        let inner = 4 + 1 + body.len();
        p.extend_from_slice(&(inner as u32).to_be_bytes()); // chunk size
        p.extend_from_slice(b"SQPK");
        p.extend_from_slice(&(inner as u32).to_be_bytes()); // sqpk size
        p.push(op);
        p.extend_from_slice(body);
        p.extend_from_slice(&[0, 0, 0, 0]); // crc32 (not checked)
    };
    for part in parts {
        match *part {
            NP::T(plat) => {
                let mut t = vec![0u8; 3];
                t.extend_from_slice(&(plat as u16).to_be_bytes());
                t.extend_from_slice(&(-1i16).to_be_bytes());
                t.extend_from_slice(&0u16.to_be_bytes());
                t.extend_from_slice(&0u16.to_be_bytes());
                t.extend_from_slice(&0u64.to_le_bytes());
                t.extend_from_slice(&0u64.to_le_bytes());
                t.extend_from_slice(&[0u8; 96]);
                sqpk(&mut p, b'T', &t);
            }
            NP::A(dat) if (cat + ex + chunk + dat) % 3 == 1 => {
                // the data file named through a HeaderUpdate on it (version or data header) instead
                // of an AddData: the file a command goes to depends on the FILE kind, not on the
                // header kind
                let mut h = vec![b'D', if (cat + dat) % 2 == 0 { b'V' } else { b'D' }, 0];
                h.extend_from_slice(&(cat as u16).to_be_bytes());
                h.extend_from_slice(&sub.to_be_bytes());
                h.extend_from_slice(&(dat as u32).to_be_bytes());
                h.extend_from_slice(&[0u8; 1024]);
                sqpk(&mut p, b'H', &h);
            }
            NP::A(dat) => {
                // zero blocks at offset 0
                let mut a = vec![0u8; 3];
                a.extend_from_slice(&(cat as u16).to_be_bytes());
                a.extend_from_slice(&sub.to_be_bytes());
                a.extend_from_slice(&(dat as u32).to_be_bytes());
                a.extend_from_slice(&0u32.to_be_bytes());
                a.extend_from_slice(&0u32.to_be_bytes());
                a.extend_from_slice(&0u32.to_be_bytes());
                sqpk(&mut p, b'A', &a);
            }
            NP::H(fid) => {
                // every index file has a version header, an index header (and the format allows a
                // data header word as well): all three kinds of update go to the index file
                let mut h = vec![b'I', [b'I', b'V', b'D'][((cat + ex + chunk) as usize + fid as usize / 2) % 3], 0];
                h.extend_from_slice(&(cat as u16).to_be_bytes());
                h.extend_from_slice(&sub.to_be_bytes());
                h.extend_from_slice(&fid.to_be_bytes());
                h.extend_from_slice(&[0u8; 1024]);
                sqpk(&mut p, b'H', &h);
            }
        }
    }
    p.extend_from_slice(&0u32.to_be_bytes());
    p.extend_from_slice(b"EOF_");
    p
}

/// The platform of the TargetInfo that precedes the real one in a `names` patch (a patch may name
/// its target more than once: the **last** TargetInfo before a command is the one in force).  A
/// function of the case's fields; always different from `plat`; `None` (one case in five) = the
/// patch carries a single TargetInfo.
fn decoy_platform(cat: u64, ex: u64, chunk: u64, plat: u64, dat: u64) -> Option<u64> {
    let d = (cat + 2 * ex + 3 * chunk + 4 * dat) % 5;
    if d == plat { None } else { Some(d) }
}

/// `names`: [TargetInfo(decoy)], TargetInfo(plat), AddData, HeaderUpdate `.index`, HeaderUpdate `.index2`,
/// [TargetInfo(another platform)] — a TargetInfo acts on the commands behind it only, so the trailing
/// one (one case in three) changes nothing
fn naming_patch(cat: u64, ex: u64, chunk: u64, plat: u64, dat: u64) -> Vec<u8> {
    let mut parts = vec![];
    if let Some(d) = decoy_platform(cat, ex, chunk, plat, dat) {
        parts.push(NP::T(d));
    }
    parts.extend_from_slice(&[NP::T(plat), NP::A(dat), NP::H(0), NP::H(2)]);
    if (cat + ex + 2 * chunk + dat) % 3 == 0 {
        parts.push(NP::T((plat + 1 + (cat + chunk) % 4) % 5));
    }
    naming_patch_of(cat, ex, chunk, &parts)
}

/// the six orders of (AddData, HeaderUpdate `.index`, HeaderUpdate `.index2`) of a `names2` patch
const ORDERS: [[usize; 3]; 6] = [[0, 1, 2], [0, 2, 1], [1, 0, 2], [1, 2, 0], [2, 0, 1], [2, 1, 0]];

/// `names2`: the three commands in the order `ord`, each under its own platform — a TargetInfo is
/// written in front of a command whenever its platform differs from the one in force (and in front
/// of the first one), so one patch writes names of up to three platforms.
fn naming_patch_split(cat: u64, ex: u64, chunk: u64, dat: u64, pi: u64, pi2: u64, pd: u64, ord: u64) -> Vec<u8> {
    let cmds = [(pd, NP::A(dat)), (pi, NP::H(0)), (pi2, NP::H(2))];
    let mut parts = vec![];
    let mut cur: Option<u64> = None;
    for k in ORDERS[ord as usize] {
        let (pl, c) = cmds[k];
        if cur != Some(pl) {
            parts.push(NP::T(pl));
            cur = Some(pl);
        }
        parts.push(c);
    }
    naming_patch_of(cat, ex, chunk, &parts)
}

fn list_files(root: &std::path::Path, rel: &str, out: &mut Vec<String>) {
    if let Ok(rd) = std::fs::read_dir(root.join(rel)) {
        for e in rd.flatten() {
            let name = e.file_name().to_string_lossy().to_string();
            let r = if rel.is_empty() { name.clone() } else { format!("{}/{}", rel, name) };
            if e.file_type().map(|t| t.is_dir()).unwrap_or(false) {
                list_files(root, &r, out);
            } else {
                out.push(r);
            }
        }
    }
}

/// `read=` the names `Repository::{index,index2,dat}_filename` compute for the platforms
/// `plats = [of .index, of .index2, of .dat]`; `patch=` the files `ZiPatch::apply` creates for `patch`
fn names_answer(tag: &str, c: Category, ex: u64, chunk: u64, dat: u64, plats: [Platform; 3], patch: Vec<u8>) -> String {
    let repo = |p: Platform| Repository {
        name: if ex == 0 { "ffxiv".into() } else { format!("ex{}", ex) },
        platform: p,
        repo_type: if ex == 0 { RepositoryType::Base } else { RepositoryType::Expansion { number: ex as i32 } },
        version: None,
    };
    let [pi, pi2, pd] = plats;
    let (ri, ri2, rd) = (repo(pi), repo(pi2), repo(pd));
    let read = format!(
        "{}/{},{}/{},{}/{}",
        ri.name,
        ri.index_filename(chunk as u8, c),
        ri2.name,
        ri2.index2_filename(chunk as u8, c),
        rd.name,
        rd.dat_filename(chunk as u8, c, dat as u32)
    );
    // patch side: which files does applying a patch for the same ids touch?
    // (tmpfs when there is one: thousands of small trees per second)
    let tmp = crate::c03fs::Scratch::new(tag);
    let root = tmp.path().join("game");
    std::fs::create_dir_all(&root).unwrap();
    let pf = tmp.path().join("p.patch");
    std::fs::write(&pf, patch).unwrap();
    let res = physis::patch::ZiPatch::apply(root.to_str().unwrap(), pf.to_str().unwrap());
    let mut files = vec![];
    list_files(&root.join("sqpack"), "", &mut files);
    files.sort();
    // order: dat, index, index2 sorts lexicographically as dat < index < index2 — reorder to index,index2,dat
    let pick = |suffix: &str| files.iter().find(|f| f.ends_with(suffix)).cloned().unwrap_or("-".into());
    let patch = if res.is_ok() && files.len() == 3 {
        let d = files.iter().find(|f| f.contains(".dat")).cloned().unwrap_or("-".into());
        format!("{},{},{}", pick(".index"), pick(".index2"), d)
    } else {
        format!("apply-{}:{}", if res.is_ok() { "ok" } else { "err" }, files.join(";"))
    };
    format!("read={} patch={}", read, patch)
}

pub fn run(case: &str, input: &str) -> String {
    let f: Vec<&str> = input.split(' ').collect();
    let Some(a) = nums(&f[1..]).or_else(|| if f[0] == "sort" || f[0] == "discover" { Some(vec![]) } else { None }) else {
        return "bad-case".into();
    };
    match (f[0], a.len()) {
        ("tribes", 1) => {
            let Some(r) = race(a[0]) else { return "bad-case".into() };
            guarded(move || {
                let t = get_supported_tribes(r);
                format!("{},{}", t[0] as u8, t[1] as u8)
            })
        }
        ("race", 3) => {
            let (Some(r), Some(t), Some(g)) = (race(a[0]), tribe(a[1]), gender(a[2])) else {
                return "bad-case".into();
            };
            guarded(move || match get_race_id(r, t, g) {
                Some(c) => format!("some:{}", c),
                None => "none".into(),
            })
        }
        ("skel", 3) => {
            let (Some(r), Some(t), Some(g)) = (race(a[0]), tribe(a[1]), gender(a[2])) else {
                return "bad-case".into();
            };
            guarded(move || build_skeleton_path(r, t, g))
        }
        ("char", 5) => {
            let (Some(c), Some(r), Some(t), Some(g)) = (char_cat(a[0]), race(a[2]), tribe(a[3]), gender(a[4])) else {
                return "bad-case".into();
            };
            let ver = a[1] as i32;
            guarded(move || build_character_path(c, ver, r, t, g))
        }
        ("equip", 5) => {
            let (Some(r), Some(t), Some(g), Some(s)) = (race(a[1]), tribe(a[2]), gender(a[3]), slot(a[4])) else {
                return "bad-case".into();
            };
            let id = a[0] as i32;
            guarded(move || {
                let p = build_equipment_path(id, r, t, g, s);
                let file = p.rsplit('/').next().unwrap().to_string();
                let d = match deconstruct_equipment_path(&file) {
                    Some((i, s)) => format!("some:{},{}", i, slot_index(&s)),
                    None => "none".into(),
                };
                format!("{} {}", p, d)
            })
        }
        ("names", 5) => {
            let (Some(c), Some(p)) = (category(a[0]), platform(a[3])) else { return "bad-case".into() };
            let (cat, ex, chunk, plat, dat) = (a[0], a[1], a[2], a[3], a[4]);
            guarded(move || {
                let tag = format!("c15-{}-{}-{}-{}-{}", cat, ex, chunk, plat, dat);
                names_answer(&tag, c, ex, chunk, dat, [p.clone(), p.clone(), p], naming_patch(cat, ex, chunk, plat, dat))
            })
        }
        ("names2", 8) => {
            // names2 <cat> <ex> <chunk> <dat> <platform of .index> <of .index2> <of .dat> <order 0..5>
            let (Some(c), Some(pi), Some(pi2), Some(pd)) = (category(a[0]), platform(a[4]), platform(a[5]), platform(a[6])) else {
                return "bad-case".into();
            };
            if a[7] >= 6 {
                return "bad-case".into();
            }
            let (cat, ex, chunk, dat) = (a[0], a[1], a[2], a[3]);
            let patch = naming_patch_split(cat, ex, chunk, dat, a[4], a[5], a[6], a[7]);
            guarded(move || {
                let tag = format!("c15s-{}-{}-{}-{}", cat, ex, chunk, dat);
                names_answer(&tag, c, ex, chunk, dat, [pi, pi2, pd], patch)
            })
        }
        ("names3", 7) => {
            // names3 <cat> <ex> <chunk> <platform> <dat> <dat> <dat>: one patch, one platform, three
            // AddData commands in a row on the same category / expansion / chunk and (possibly)
            // different data-file numbers; every command writes to the file its own number names
            let (Some(c), Some(p)) = (category(a[0]), platform(a[3])) else { return "bad-case".into() };
            let (cat, ex, chunk, plat) = (a[0], a[1], a[2], a[3]);
            let dats = [a[4], a[5], a[6]];
            let patch = naming_patch_of(cat, ex, chunk, &[NP::T(plat), NP::A(dats[0]), NP::A(dats[1]), NP::A(dats[2])]);
            guarded(move || {
                let repo = Repository {
                    name: if ex == 0 { "ffxiv".into() } else { format!("ex{}", ex) },
                    platform: p,
                    repo_type: if ex == 0 { RepositoryType::Base } else { RepositoryType::Expansion { number: ex as i32 } },
                    version: None,
                };
                let mut read: Vec<String> = dats.iter().map(|d| format!("{}/{}", repo.name, repo.dat_filename(chunk as u8, c, *d as u32))).collect();
                read.sort();
                read.dedup();
                let tmp = crate::c03fs::Scratch::new(&format!("c15n3-{}-{}-{}", cat, ex, chunk));
                let root = tmp.path().join("game");
                std::fs::create_dir_all(&root).unwrap();
                let pf = tmp.path().join("p.patch");
                std::fs::write(&pf, patch).unwrap();
                let res = physis::patch::ZiPatch::apply(root.to_str().unwrap(), pf.to_str().unwrap());
                let mut files = vec![];
                list_files(&root.join("sqpack"), "", &mut files);
                files.sort();
                format!("read={} patch={}{}", read.join(","), if res.is_ok() { "" } else { "apply-err:" }, files.join(","))
            })
        }
        ("sort", _) => {
            let Some(l) = nums(&f[1].split(',').collect::<Vec<_>>()) else { return "bad-case".into() };
            let style = l.iter().fold(l.len() as u64, |a, n| a.wrapping_mul(31).wrapping_add(*n));
            guarded(move || {
                // direct Vec<Repository>::sort from the given initial order
                let mut v: Vec<Repository> = l
                    .iter()
                    .map(|n| Repository {
                        name: if *n == 0 { "ffxiv".into() } else { spelled(*n, style) },
                        platform: Platform::Win32,
                        repo_type: if *n == 0 { RepositoryType::Base } else { RepositoryType::Expansion { number: *n as i32 } },
                        version: None,
                    })
                    .collect();
                v.sort();
                let direct: Vec<String> = v.iter().map(canonical_name).collect();
                direct.join(",")
            })
        }
        ("discover", _) => {
            let Some(l) = nums(&f[1].split(',').collect::<Vec<_>>()) else { return "bad-case".into() };
            let style = l.iter().fold(l.len() as u64, |a, n| a.wrapping_mul(31).wrapping_add(*n));
            guarded(move || {
                // directories created in the given order, then GameData::from_existing
                let tmp = TempDir::new("c15-sort");
                let game = tmp.path().join("game");
                std::fs::create_dir_all(game.join("sqpack")).unwrap();
                for n in &l {
                    if *n != 0 {
                        std::fs::create_dir_all(game.join("sqpack").join(spelled(*n, style))).unwrap();
                    } else {
                        std::fs::create_dir_all(game.join("sqpack").join("ffxiv")).unwrap();
                    }
                }
                let gd = physis::gamedata::GameData::from_existing(Platform::Win32, game.to_str().unwrap());
                let disc: Vec<String> = match gd {
                    Some(g) => g.repositories.iter().map(canonical_name).collect(),
                    None => vec!["none".into()],
                };
                disc.join(",")
            })
        }
        _ => "bad-case".into(),
    }
}

/// The folder of expansion `n` as this case spells it: the order of repositories is by NUMBER, and
/// the number is what `Repository::from_existing_expansion` reads from the third character, so two
/// cases out of three spell some folders in another letter case or with a suffix (`EX2`, `Ex4`,
/// `ex3b`); answers are reported by number (`canonical_name`), whatever the spelling.
fn spelled(n: u64, style: u64) -> String {
    if style % 3 == 0 {
        return format!("ex{}", n);
    }
    match (style / 3 + n * 5) % 6 {
        0 => format!("EX{}", n),
        1 => format!("Ex{}", n),
        2 => format!("eX{}", n),
        3 => format!("ex{}b", n),
        4 => format!("ex{}0", n),
        _ => format!("ex{}", n),
    }
}

fn canonical_name(r: &Repository) -> String {
    match r.repo_type {
        RepositoryType::Base => "ffxiv".to_string(),
        RepositoryType::Expansion { number } => format!("ex{}", number),
    }
}

pub fn dump(out: &mut dyn Write) {
    let args: Vec<String> = std::env::args().collect();
    if args.get(3).map(|s| s == "witness").unwrap_or(false) {
        witness(out);
        return;
    }
    writeln!(out, "-- GENERATED by `harness C15 dump` from the compiled get_race_id / get_supported_tribes").unwrap();
    writeln!(out, "-- (whole finite domain: 8 races x 16 tribes x 2 genders) — rewritten by ./check on every run").unwrap();
    writeln!(out, "namespace Physis.Generated").unwrap();
    writeln!(out, "/-- (race, tribe, gender, code) with code = 0 standing for `None` (no real code is 0) -/").unwrap();
    writeln!(out, "def raceIdTable : List (Nat × Nat × Nat × Nat) := [").unwrap();
    let mut first = true;
    for r in 1..=8u64 {
        for t in 1..=16u64 {
            for g in 0..=1u64 {
                let c = get_race_id(race(r).unwrap(), tribe(t).unwrap(), gender(g).unwrap()).unwrap_or(0);
                writeln!(out, "  {}({}, {}, {}, {})", if first { " " } else { "," }, r, t, g, c).unwrap();
                first = false;
            }
        }
    }
    writeln!(out, "]").unwrap();
    writeln!(out, "/-- (race, first supported tribe, second supported tribe) -/").unwrap();
    writeln!(out, "def supportedTribesTable : List (Nat × Nat × Nat) := [").unwrap();
    for r in 1..=8u64 {
        let t = get_supported_tribes(race(r).unwrap());
        writeln!(out, "  {}({}, {}, {})", if r == 1 { " " } else { "," }, r, t[0] as u8, t[1] as u8).unwrap();
    }
    writeln!(out, "]").unwrap();
    writeln!(out, "end Physis.Generated").unwrap();
}

/// brute force of path unambiguity on the real code: every equipment / skeleton / character path
/// over valid triples, all slots / categories and ids 0..9999 must be distinct unless it was
/// built from the same id, slot and body type
fn path_collisions(out: &mut dyn Write) {
    use std::collections::HashMap;
    let body = |r: u64, t: u64, g: u64| (r, g, if r == 1 { t } else { 0 });
    let mut n = 0;
    let mut seen: HashMap<String, (u64, u64, (u64, u64, u64))> = HashMap::new();
    let triples = valid_triples();
    for (r, t, g) in &triples {
        let (rr, tt, gg) = (race(*r).unwrap(), tribe(*t).unwrap(), gender(*g).unwrap());
        if get_race_id(rr, tt, gg.clone()).is_none() {
            continue;
        }
        for s in 0..10u64 {
            for id in 0..10000u64 {
                let p = build_equipment_path(id as i32, rr, tt, gg.clone(), slot(s).unwrap());
                let key = (id, s, body(*r, *t, *g));
                if let Some(prev) = seen.get(&p) {
                    if *prev != key && n < 5 {
                        writeln!(out, "WITNESS equipment path {} built from (id, slot, body) {:?} and {:?}", p, prev, key).unwrap();
                        n += 1;
                    }
                } else {
                    seen.insert(p, key);
                }
            }
        }
    }
    let mut seen: HashMap<String, (u64, u64, (u64, u64, u64))> = HashMap::new();
    for (r, t, g) in &triples {
        let (rr, tt, gg) = (race(*r).unwrap(), tribe(*t).unwrap(), gender(*g).unwrap());
        if get_race_id(rr, tt, gg.clone()).is_none() {
            continue;
        }
        let p = build_skeleton_path(rr, tt, gg.clone());
        let key = (0, 99, body(*r, *t, *g));
        if let Some(prev) = seen.get(&p) {
            if *prev != key {
                writeln!(out, "WITNESS skeleton path {} built from body types {:?} and {:?}", p, prev.2, key.2).unwrap();
            }
        } else {
            seen.insert(p, key);
        }
        for c in 0..5u64 {
            for ver in 0..10000u64 {
                let p = build_character_path(char_cat(c).unwrap(), ver as i32, rr, tt, gg.clone());
                let key = (ver, c, body(*r, *t, *g));
                if let Some(prev) = seen.get(&p) {
                    if *prev != key && n < 10 {
                        writeln!(out, "WITNESS character path {} built from (version, category, body) {:?} and {:?}", p, prev, key).unwrap();
                        n += 1;
                    }
                } else {
                    seen.insert(p, key);
                }
            }
        }
    }
}

/// brute force of the property's finite part on the real code
fn witness(out: &mut dyn Write) {
    path_collisions(out);
    let own = |r: u64| [2 * r - 1, 2 * r];
    let body = |r: u64, t: u64, g: u64| (r, g, if r == 1 { t } else { 0 });
    let mut seen: Vec<((u64, u64, u64), i32, (u64, u64, u64))> = vec![];
    for r in 1..=8u64 {
        let st = get_supported_tribes(race(r).unwrap());
        let st = [st[0] as u8 as u64, st[1] as u8 as u64];
        if st != own(r) {
            writeln!(out, "WITNESS get_supported_tribes(race {}) = {:?}, its own tribes are {:?}", r, st, own(r)).unwrap();
        }
        for t in 1..=16u64 {
            for g in 0..=1u64 {
                let c = get_race_id(race(r).unwrap(), tribe(t).unwrap(), gender(g).unwrap());
                let valid = own(r).contains(&t);
                match (valid, c) {
                    (true, None) => writeln!(out, "WITNESS get_race_id(race {}, tribe {}, gender {}) = None for a valid triple", r, t, g).unwrap(),
                    (false, Some(c)) => writeln!(out, "WITNESS get_race_id(race {}, tribe {}, gender {}) = Some({}) for an invalid triple", r, t, g, c).unwrap(),
                    (true, Some(c)) => {
                        for (b2, c2, tr2) in &seen {
                            if *c2 == c && *b2 != body(r, t, g) {
                                writeln!(out, "WITNESS race code {} shared by distinct body types {:?} and {:?}", c, tr2, (r, t, g)).unwrap();
                            }
                        }
                        seen.push((body(r, t, g), c, (r, t, g)));
                    }
                    _ => {}
                }
            }
        }
    }
}
