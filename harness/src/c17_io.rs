//! C17, path-taking entry points: `ZiPatch::apply`, `execlookup::extract_frontier_url`,
//! `BootData::from_existing` (cases carry the file contents / the start tree).
#![allow(unused)]
use crate::util::*;
use std::io::Write;

pub fn run(f: &[&str]) -> String {
    "bad-case".into()
}

pub fn generate(thorough: bool, rng: &mut Rng, out: &mut dyn Write) {}
