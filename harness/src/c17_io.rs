//! C17, path-taking entry points: `ZiPatch::apply`, `execlookup::extract_frontier_url`,
//! `BootData::from_existing`.
//!
//! * `apply <root> <tree> <patchmode> <hex>` — `root` ∈ dir | missing | file (what the data
//!   directory is when the call starts), `tree` = `-` or `d:<hex path>;f:<hex path>;…`
//!   (directories / files that already exist below it), `patchmode` ∈ file | missing | isdir,
//!   `<hex>` the patch bytes.  Answer: `ok` | `err` | `panic:…` (+ ` overalloc:<n>`).
//! * `execlookup <mode> <hex>` — mode ∈ file | missing | isdir.  Answer `none` | `some:<digest>`.
//! * `bootdata <mode> <hex>` — mode ∈ ok | nodir | nover | verdir; `<hex>` = ffxivboot.ver.
#![allow(unused)]
use crate::c17::{field_corruptions, truncations, Fields, D};
use crate::util::*;
use std::io::Write;
use std::path::PathBuf;

#[repr(C)]
struct RLimit {
    cur: u64,
    max: u64,
}
unsafe extern "C" {
    fn setrlimit(resource: i32, rlim: *const RLimit) -> i32;
    fn signal(sig: i32, handler: usize) -> usize;
}

/// The file-size limit the model's `writeOk` assumes: no file grows beyond 2^24 bytes
/// (`RLIMIT_FSIZE`, SIGXFSZ ignored so that the write fails with EFBIG → `Err`).  Without it a
/// corrupted block count makes `apply` wipe hundreds of GiB — I/O volume the format allows.
fn limit_file_size() {
    static ONCE: std::sync::Once = std::sync::Once::new();
    ONCE.call_once(|| unsafe {
        signal(25, 1); // SIGXFSZ, SIG_IGN
        let l = RLimit { cur: 1 << 24, max: 1 << 24 };
        setrlimit(1, &l); // RLIMIT_FSIZE
    });
}

/// A case of this file prepared for calling: the scratch directory it works in (removed on drop)
/// and the two arguments of the call.
pub struct Prepared {
    tmp: TempDir,
    op: u8,
    a: String,
    n: usize,
}

impl Prepared {
    /// one call of the entry point on the scratch directory *as it is now* (`apply` changes it)
    pub fn call(&self) -> String {
        let a = self.a.clone();
        match self.op {
            b'a' => {
                let p = self.tmp.path().join("a").join("b").join("c").join("patch.bin").to_str().unwrap().to_string();
                crate::alloc::measured(self.n, move || {
                    guarded(move || match physis::patch::ZiPatch::apply(&a, &p) {
                        Ok(()) => "ok".to_string(),
                        Err(_) => "err".to_string(),
                    })
                })
            }
            b'x' => crate::alloc::measured(self.n, move || {
                guarded(move || match physis::execlookup::extract_frontier_url(&a) {
                    None => "none".to_string(),
                    Some(s) => {
                        let mut d = D::new();
                        d.bytes(s.as_bytes());
                        format!("some:{}", d.hex())
                    }
                })
            }),
            _ => crate::alloc::measured(self.n, move || {
                guarded(move || match physis::bootdata::BootData::from_existing(&a) {
                    None => "none".to_string(),
                    Some(bd) => {
                        let mut d = D::new();
                        d.bytes(bd.version.as_bytes());
                        format!("some:{}", d.hex())
                    }
                })
            }),
        }
    }
}

/// Scratch directory for a case that is called hundreds of times: in memory (`/dev/shm`) when
/// nothing else was asked for through `VERIF_TMP` / `TMPDIR`.  On a journalling file system the
/// truncate-and-rewrite of an AddFile target is flushed at every close, milliseconds per call.
fn scratch(tag: &str) -> TempDir {
    if tag != "c17rep" || std::env::var("VERIF_TMP").is_ok() || std::env::var("TMPDIR").is_ok() {
        return TempDir::new(tag);
    }
    let p = PathBuf::from("/dev/shm").join(format!("physis-verif-{}-{}", std::process::id(), tag));
    let _ = std::fs::remove_dir_all(&p);
    if std::fs::create_dir_all(&p).is_ok() { TempDir(p) } else { TempDir::new(tag) }
}

fn prepare_apply(tag: &str, root: &str, tree: &str, mode: &str, patch: &[u8]) -> Prepared {
    limit_file_size();
    let tmp = scratch(tag);
    // nested so that a stray `..` in a corrupted path cannot leave the scratch area
    let base = tmp.path().join("a").join("b").join("c");
    std::fs::create_dir_all(&base).unwrap();
    let data = base.join("data");
    match root {
        "dir" => std::fs::create_dir_all(&data).unwrap(),
        "file" => std::fs::write(&data, b"x").unwrap(),
        _ => {}
    }
    if tree != "-" && root == "dir" {
        for e in tree.split(';') {
            let (k, h) = e.split_once(':').unwrap();
            let rel = String::from_utf8(unhex(h).unwrap()).unwrap();
            let p = data.join(rel);
            if k == "d" {
                std::fs::create_dir_all(&p).unwrap();
            } else {
                std::fs::create_dir_all(p.parent().unwrap()).unwrap();
                std::fs::write(&p, b"old").unwrap();
            }
        }
    }
    let pp = base.join("patch.bin");
    match mode {
        "file" => std::fs::write(&pp, patch).unwrap(),
        "isdir" => std::fs::create_dir_all(&pp).unwrap(),
        _ => {}
    }
    let a = data.to_str().unwrap().to_string();
    Prepared { tmp, op: b'a', a, n: patch.len() }
}

/// `applyfull`: the target path of the patch's AddFile command is a symbolic link to `/dev/full`
/// (opens, seeks, every write fails with ENOSPC)
fn prepare_apply_full(tag: &str, rel: &str, patch: &[u8]) -> Prepared {
    limit_file_size();
    let tmp = scratch(tag);
    let base = tmp.path().join("a").join("b").join("c");
    let data = base.join("data");
    let p = data.join(rel);
    std::fs::create_dir_all(p.parent().unwrap()).unwrap();
    std::os::unix::fs::symlink("/dev/full", &p).unwrap();
    std::fs::write(base.join("patch.bin"), patch).unwrap();
    let a = data.to_str().unwrap().to_string();
    Prepared { tmp, op: b'a', a, n: patch.len() }
}

fn prepare_exec(tag: &str, mode: &str, b: &[u8]) -> Prepared {
    let tmp = scratch(tag);
    let p = tmp.path().join("ffxivlauncher.exe");
    match mode {
        "file" => std::fs::write(&p, b).unwrap(),
        "isdir" => std::fs::create_dir_all(&p).unwrap(),
        _ => {}
    }
    let a = p.to_str().unwrap().to_string();
    Prepared { tmp, op: b'x', a, n: b.len() }
}

fn prepare_boot(tag: &str, mode: &str, b: &[u8]) -> Prepared {
    let tmp = scratch(tag);
    let dir = tmp.path().join("boot");
    match mode {
        "ok" => {
            std::fs::create_dir_all(&dir).unwrap();
            std::fs::write(dir.join("ffxivboot.ver"), b).unwrap();
        }
        "nover" => std::fs::create_dir_all(&dir).unwrap(),
        "verdir" => std::fs::create_dir_all(dir.join("ffxivboot.ver")).unwrap(),
        _ => {}
    }
    let a = dir.to_str().unwrap().to_string();
    Prepared { tmp, op: b'b', a, n: b.len() }
}

/// `None` = not a well-formed case of this file.  `tag` names the scratch directory.
pub fn prepare(tag: &str, f: &[&str]) -> Option<Prepared> {
    match f[0] {
        "apply" if f.len() == 5 => {
            let b = unhex(f[4])?;
            if !["dir", "missing", "file"].contains(&f[1]) || !["file", "missing", "isdir"].contains(&f[3]) {
                return None;
            }
            Some(prepare_apply(tag, f[1], f[2], f[3], &b))
        }
        "applyfull" if f.len() == 3 => {
            let rel = String::from_utf8(unhex(f[1])?).ok()?;
            // no such device here (not Linux): the fault cannot be injected — the case passes
            if std::fs::OpenOptions::new().write(true).open("/dev/full").is_err() {
                return None;
            }
            Some(prepare_apply_full(tag, &rel, &unhex(f[2])?))
        }
        "execlookup" if f.len() == 3 => Some(prepare_exec(tag, f[1], &unhex(f[2])?)),
        "bootdata" if f.len() == 3 => Some(prepare_boot(tag, f[1], &unhex(f[2])?)),
        _ => None,
    }
}

pub fn run(f: &[&str]) -> String {
    if f[0] == "applyfull" && std::fs::OpenOptions::new().write(true).open("/dev/full").is_err() {
        return "err".into();
    }
    let tag = match f[0] {
        "apply" | "applyfull" => "c17",
        "execlookup" => "c17x",
        _ => "c17b",
    };
    match prepare(tag, f) {
        Some(p) => p.call(),
        None => "bad-case".into(),
    }
}

// ------------------------------------------------------------------------------------------
// patch builder (seed files; the real writer is private and incomplete)
// ------------------------------------------------------------------------------------------
pub struct PB {
    pub v: Vec<u8>,
    pub fields: Fields,
    /// fields whose extreme values make `apply` write hundreds of GiB of zeros (a feature of
    /// the format, not a crash): only small corruptions are generated for them
    pub small_only: Fields,
    /// offsets into sparse files / wipe lengths: {0, 1, 2, ±1} only (a 2^38-byte sparse seek or
    /// wipe takes minutes on the scratch file system; it is I/O volume, not a crash)
    pub tiny_only: Fields,
    /// byte ranges of whole chunks (for removing / reordering)
    pub chunks: Vec<(usize, usize, &'static str)>,
}

impl PB {
    pub fn new() -> Self {
        let mut v = vec![0x91];
        v.extend_from_slice(b"ZIPATCH");
        v.extend_from_slice(&[0x0d, 0x0a, 0x1a, 0x0a]);
        PB { v, fields: vec![(0, 1, false), (1, 4, true), (8, 4, true)], small_only: vec![], tiny_only: vec![], chunks: vec![] }
    }
    fn begin(&mut self, magic: &[u8; 4], tag: &'static str) -> usize {
        let start = self.v.len();
        self.v.extend_from_slice(&[0; 4]); // size, patched in `end`
        self.v.extend_from_slice(magic);
        self.fields.push((start, 4, true));
        self.fields.push((start + 4, 4, true));
        self.chunks.push((start, 0, tag));
        start
    }
    fn end(&mut self, start: usize, crc: bool) {
        let size = (self.v.len() - start - 8) as u32;
        self.v[start..start + 4].copy_from_slice(&size.to_be_bytes());
        if crc {
            self.fields.push((self.v.len(), 4, false));
            self.v.extend_from_slice(&[0xAA, 0xBB, 0xCC, 0xDD]);
        }
        let n = self.chunks.len();
        self.chunks[n - 1].1 = self.v.len();
    }
    fn num(&mut self, val: u64, w: usize, be: bool) {
        self.fields.push((self.v.len(), w, be));
        for k in 0..w {
            let sh = if be { 8 * (w - 1 - k) } else { 8 * k };
            self.v.push((val >> sh) as u8);
        }
    }
    fn num_small(&mut self, val: u64, w: usize, be: bool) {
        self.small_only.push((self.v.len(), w, be));
        for k in 0..w {
            let sh = if be { 8 * (w - 1 - k) } else { 8 * k };
            self.v.push((val >> sh) as u8);
        }
    }
    fn num_tiny(&mut self, val: u64, w: usize, be: bool) {
        self.tiny_only.push((self.v.len(), w, be));
        for k in 0..w {
            let sh = if be { 8 * (w - 1 - k) } else { 8 * k };
            self.v.push((val >> sh) as u8);
        }
    }
    fn pad(&mut self, n: usize) {
        self.v.extend(std::iter::repeat(0).take(n));
    }
    pub fn fhdr(&mut self, ver: u8) {
        let s = self.begin(b"FHDR", "fhdr");
        self.pad(2);
        self.num(ver as u64, 1, false);
        self.v.extend_from_slice(b"DIFF");
        if ver == 2 {
            self.pad(8);
            self.num(0x12345678, 4, true);
        } else {
            for i in 0..13 {
                self.num(i, 4, true);
            }
            self.pad(0xB8);
        }
        self.pad(1);
        self.end(s, true);
    }
    pub fn aply(&mut self, opt: u32) {
        let s = self.begin(b"APLY", "aply");
        self.num(opt as u64, 4, true);
        self.pad(4);
        self.num(1, 4, true);
        self.end(s, true);
    }
    pub fn dir(&mut self, magic: &[u8; 4], name: &[u8]) {
        let s = self.begin(magic, "dir");
        self.num(name.len() as u64, 4, true); // big-endian (fix C03-01)
        self.fields.push((self.v.len(), 1, false));
        self.v.extend_from_slice(name);
        self.end(s, true);
    }
    fn sqpk(&mut self, op: u8, tag: &'static str) -> usize {
        let s = self.begin(b"SQPK", tag);
        self.num(0, 4, true); // inner size (unused by the reader)
        self.num(op as u64, 1, false);
        s
    }
    pub fn target(&mut self, platform: u8) {
        let s = self.sqpk(b'T', "target");
        self.pad(3);
        // both bytes of the u16 carry the platform: the pinned commit reads the first byte, a
        // pending fix of another property reads the second
        self.v.push(platform);
        self.v.push(platform);
        self.num(0xFFFF, 2, true); // region Global
        self.num(0, 2, true);
        self.num(0, 2, true);
        self.num(0, 8, false);
        self.num(0, 8, false);
        self.pad(96);
        self.end(s, true);
    }
    pub fn patch_info(&mut self) {
        let s = self.sqpk(b'X', "info");
        self.num(1, 1, false);
        self.num(2, 1, false);
        self.pad(1);
        self.num(123456, 8, true);
        self.end(s, true);
    }
    pub fn add_data(&mut self, main: u16, sub: u16, file: u32, off: u32, blocks: u32, del: u32) {
        let s = self.sqpk(b'A', "adddata");
        self.pad(3);
        self.num(main as u64, 2, true);
        self.num(sub as u64, 2, true);
        self.num(file as u64, 4, true);
        self.num_tiny(off as u64, 4, true);
        self.num(blocks as u64, 4, true);
        self.num_tiny(del as u64, 4, true);
        for i in 0..(blocks as usize * 128) {
            self.v.push(i as u8);
        }
        self.end(s, true);
    }
    pub fn delete_data(&mut self, expand: bool, main: u16, sub: u16, file: u32, off: u32, blocks: u32) {
        let s = self.sqpk(if expand { b'E' } else { b'D' }, if expand { "expand" } else { "delete" });
        self.pad(3);
        self.num(main as u64, 2, true);
        self.num(sub as u64, 2, true);
        self.num(file as u64, 4, true);
        self.num_tiny(off as u64, 4, true);
        self.num_small(blocks as u64, 4, true);
        self.pad(4);
        self.end(s, true);
    }
    pub fn header_update(&mut self, fk: u8, hk: u8, main: u16, sub: u16, file: u32) {
        let s = self.sqpk(b'H', "header");
        self.num(fk as u64, 1, false);
        self.num(hk as u64, 1, false);
        self.pad(1);
        self.num(main as u64, 2, true);
        self.num(sub as u64, 2, true);
        self.num(file as u64, 4, true);
        for i in 0..1024 {
            self.v.push((i * 7) as u8);
        }
        self.end(s, true);
    }
    pub fn index(&mut self) {
        let s = self.sqpk(b'I', "index");
        self.num(b'A' as u64, 1, false);
        self.num(0, 1, false);
        self.pad(1);
        self.num(0xDEADBEEF, 8, true);
        self.num(16, 4, true);
        self.num(2, 4, true);
        self.pad(8);
        self.end(s, true);
    }
    /// blocks: (kind, payload) — kind 0 uncompressed, 1 stored-deflate, 2 invalid deflate,
    /// 3 / 4 stored-deflate whose header declares 2^20 / 2^20 + 1 decompressed bytes (the reader's
    /// limit and one beyond it)
    pub fn file_op(&mut self, op: u8, offset: u64, file_size: u64, exp: u16, path: &[u8], blocks: &[(u8, Vec<u8>)]) {
        let raw: Vec<(i32, i32, Vec<u8>)> = blocks
            .iter()
            .map(|(kind, data)| match kind {
                0 => (32000, data.len() as i32, data.clone()),
                1 | 3 | 4 => {
                    let mut b = vec![0x01, data.len() as u8, (data.len() >> 8) as u8, !(data.len() as u8), !((data.len() >> 8) as u8)];
                    b.extend_from_slice(data);
                    let declared = match kind { 1 => data.len() as i32, 3 => 1 << 20, _ => (1 << 20) + 1 };
                    (b.len() as i32, declared, b)
                }
                _ => (data.len() as i32, 64, data.clone()),
            })
            .collect();
        self.file_op_raw(op, offset, file_size, exp, path, &raw);
    }
    /// blocks as they are laid out in the file: (first length word `x` — the compressed length, or
    /// 32000 for "not compressed" —, second length word `y` — the decompressed length —, the
    /// bytes behind the 16-byte header).  The bytes are cut or zero-padded to what the reader
    /// takes for a block with that `x`: `((x + 143) & !127) - 16`.
    pub fn file_op_raw(&mut self, op: u8, offset: u64, file_size: u64, exp: u16, path: &[u8], blocks: &[(i32, i32, Vec<u8>)]) {
        let s = self.sqpk(b'F', match op { b'A' => "addfile", b'D' => "delfile", b'R' => "removeall", _ => "mkdir" });
        self.num(op as u64, 1, false);
        self.pad(2);
        if op == b'A' {
            // offsets in [2^44, 2^63) depend on the file system's size limit: keep them out
            self.num_small(offset, 8, true);
        } else {
            self.num(offset, 8, true);
        }
        self.num(file_size, 8, true);
        let mut p = path.to_vec();
        p.push(0);
        self.num(p.len() as u64, 4, true);
        self.num(exp as u64, 2, true);
        self.pad(2);
        self.fields.push((self.v.len(), 1, false));
        self.fields.push((self.v.len() + p.len() - 1, 1, false));
        self.v.extend_from_slice(&p);
        for (x, y, body) in blocks {
            // header.size = 16 (the header itself); header + body are padded to 128 bytes:
            // the block occupies (len + 143) & !127 bytes in total
            let len = if (0..32000).contains(x) { *x as usize } else { body.len() };
            let total = (len + 143) & 0xFFFFFF80;
            self.num(16, 4, false);
            self.pad(4);
            self.num(*x as u32 as u64, 4, false);
            self.num(*y as u32 as u64, 4, false);
            let mut b = body.clone();
            b.resize(total - 16, 0);
            self.v.extend_from_slice(&b);
        }
        self.end(s, true);
    }
    pub fn eof(&mut self) {
        let s = self.begin(b"EOF_", "eof");
        self.end(s, false);
    }
}

pub fn seed_patch(with_target: bool) -> PB {
    let mut p = PB::new();
    p.fhdr(3);
    p.aply(1);
    p.dir(b"ADIR", b"sqpack/ffxiv\0");
    if with_target {
        p.target(0);
    }
    p.patch_info();
    p.add_data(0x0a, 0x0000, 0, 2, 1, 1);
    p.delete_data(true, 0x0a, 0x0100, 1, 0, 2);
    p.delete_data(false, 0x0a, 0x0100, 1, 1, 1);
    p.header_update(b'D', b'V', 0x0a, 0, 0);
    p.header_update(b'I', b'I', 0x0a, 0, 2);
    p.index();
    p.file_op(b'M', 0, 0, 0, b"sqpack/ex2/dir/x", &[]);
    p.file_op(b'A', 0, 300, 0, "sqpack/ffxiv/\u{e9}file.dat".as_bytes(), &[(0, (0..200u8).collect()), (1, vec![7u8; 100])]);
    p.file_op(b'A', 16, 10, 0, b"top.ver", &[(0, vec![1u8; 10])]);
    p.file_op(b'D', 0, 0, 0, b"top.ver", &[]);
    p.file_op(b'R', 0, 0, 2, b"", &[]);
    p.dir(b"DELD", b"old\0");
    p.eof();
    p
}

fn small_corruptions(seed: &[u8], fields: &Fields, tiny: bool, emit: &mut dyn FnMut(Vec<u8>)) {
    for &(off, w, be) in fields {
        let bits = 8 * w as u32;
        let mask = if bits == 64 { u64::MAX } else { (1u64 << bits) - 1 };
        let mut orig = 0u64;
        for k in 0..w {
            let idx = if be { off + w - 1 - k } else { off + k };
            orig |= (seed[idx] as u64) << (8 * k);
        }
        // 0x80..01 and 0xFF.. are rejected by the validation; 0x7F.. / 0x80.. would wipe 2^38 bytes
        for val in [0u64, 1, 2, orig.wrapping_add(1) & mask, orig.wrapping_sub(1) & mask, (mask >> 1) + 2, mask] {
            if val == orig || (tiny && val > 64) {
                continue;
            }
            let mut v = seed.to_vec();
            for k in 0..w {
                let idx = if be { off + w - 1 - k } else { off + k };
                v[idx] = (val >> (8 * k)) as u8;
            }
            emit(v);
        }
    }
}

pub fn generate(thorough: bool, rng: &mut Rng, out: &mut dyn Write) {
    // ---------------- apply ----------------
    {
        let p = seed_patch(true);
        let s = p.v.clone();
        writeln!(out, "apply dir - file {}", hex(&s)).unwrap();
        for root in ["missing", "file"] {
            writeln!(out, "apply {} - file {}", root, hex(&s)).unwrap();
        }
        for mode in ["missing", "isdir"] {
            writeln!(out, "apply dir - {} {}", mode, hex(&s)).unwrap();
        }
        // a target that opens and seeks but cannot be written (`applyfull`): small blocks (a
        // buffered writer would hold them back), a block above 8 KiB, several blocks, offset 0 and > 0
        for (i, (off, sizes)) in [(16u64, vec![10usize]), (16, vec![200, 100]), (4096, vec![9000]), (1, vec![3000, 3000, 3000]), (0, vec![50]), (100, vec![1])].iter().enumerate() {
            let rel: &[u8] = if i % 2 == 0 { b"full.bin" } else { b"sqpack/ex1/full.dat" };
            let mut p = PB::new();
            p.fhdr(3);
            let blocks: Vec<(u8, Vec<u8>)> = sizes.iter().map(|n| (0u8, vec![0x5a; *n])).collect();
            p.file_op(b'A', *off, sizes.iter().sum::<usize>() as u64, 0, rel, &blocks);
            p.eof();
            writeln!(out, "applyfull {} {}", hex(rel), hex(&p.v)).unwrap();
        }
        // file operations and directory chunks whose path is not an ordinary relative file name:
        // separators only, empty, dot components, a trailing or doubled separator, an absolute
        // path, a very long one (`paths` as hex in the case line: all bytes are the patch's)
        // (`.` / `..` components and paths beyond PATH_MAX are left out: Base/Fs has no such paths)
        let odd_paths: [&[u8]; 8] = [b"/", b"//", b"", b"a/", b"a//b", b"/abs/x", b"x/", b"///x"];
        for (i, path) in odd_paths.iter().enumerate() {
            for op in [b'A', b'D', b'R', b'M'] {
                let mut p = PB::new();
                p.fhdr(3);
                if op == b'A' {
                    p.file_op(op, if i % 2 == 0 { 0 } else { 8 }, 10, 0, path, &[(0, vec![1u8; 10])]);
                } else {
                    p.file_op(op, 0, 0, (i % 3) as u16, path, &[]);
                }
                p.file_op(b'A', 0, 3, 0, b"after.bin", &[(0, vec![2u8; 3])]);
                p.eof();
                writeln!(out, "apply dir - file {}", hex(&p.v)).unwrap();
            }
        }
        {
            let long: Vec<u8> = (0..3000).map(|i| if i % 200 == 199 { b'/' } else { b'a' + (i % 26) as u8 }).collect();
            let mut p = PB::new();
            p.fhdr(3);
            p.file_op(b'A', 0, 4, 0, &long, &[(0, vec![3u8; 4])]);
            p.file_op(b'D', 0, 0, 0, &long, &[]);
            p.eof();
            writeln!(out, "apply dir - file {}", hex(&p.v)).unwrap();
        }
        // start trees that make individual file-system steps fail
        let trees = [
            format!("f:{}", hex(b"sqpack")),
            format!("f:{}", hex(b"sqpack/ffxiv")),
            format!("d:{}", hex(b"sqpack/ffxiv/0a0000.win32.dat0")),
            format!("d:{}", hex(b"sqpack/ex1/0a0100.win32.dat1")),
            format!("d:{}", hex(b"sqpack/ffxiv/0a0000.win32.index2")),
            format!("f:{}", hex(b"sqpack/ex2")),
            format!("d:{}", hex(b"top.ver")),
            format!("d:{};f:{}", hex(b"sqpack/ex2/keep"), hex(b"sqpack/ex2/keep/f")),
            format!("d:{}", hex("sqpack/ffxiv/\u{e9}file.dat".as_bytes())),
        ];
        for t in &trees {
            writeln!(out, "apply dir {} file {}", t, hex(&s)).unwrap();
        }
        // every truncation point at field boundaries + all points of the first 400 bytes
        truncations(&s, &p.fields, 400, if thorough { 600 } else { 60 }, rng, &mut |v| {
            writeln!(out, "apply dir - file {}", hex(&v)).unwrap();
        });
        for k in 0..s.len().min(400) {
            writeln!(out, "apply dir - file {}", hex(&s[..k])).unwrap();
        }
        field_corruptions(&s, &p.fields, &mut |v| {
            writeln!(out, "apply dir - file {}", hex(&v)).unwrap();
        });
        small_corruptions(&s, &p.small_only, false, &mut |v| {
            writeln!(out, "apply dir - file {}", hex(&v)).unwrap();
        });
        small_corruptions(&s, &p.tiny_only, true, &mut |v| {
            writeln!(out, "apply dir - file {}", hex(&v)).unwrap();
        });
        // commands before / without target info: drop the target chunk, or move it after chunk k
        let (ts, te, _) = *p.chunks.iter().find(|c| c.2 == "target").unwrap();
        let tchunk = s[ts..te].to_vec();
        let mut without = s[..ts].to_vec();
        without.extend_from_slice(&s[te..]);
        writeln!(out, "apply dir - file {}", hex(&without)).unwrap();
        for &(cs, ce, tag) in &p.chunks {
            if tag == "target" {
                continue;
            }
            // the chunk alone (after the header), without and with target info before it
            let mut v = s[..12].to_vec();
            v.extend_from_slice(&s[cs..ce]);
            let mut e = PB::new();
            e.v.clear();
            e.eof();
            v.extend_from_slice(&e.v);
            writeln!(out, "apply dir - file {}", hex(&v)).unwrap();
            writeln!(out, "apply missing - file {}", hex(&v)).unwrap();
            let mut v = s[..12].to_vec();
            v.extend_from_slice(&tchunk);
            v.extend_from_slice(&s[cs..ce]);
            v.extend_from_slice(&e.v);
            writeln!(out, "apply dir - file {}", hex(&v)).unwrap();
            writeln!(out, "apply missing - file {}", hex(&v)).unwrap();
            writeln!(out, "apply file - file {}", hex(&v)).unwrap();
            // without the EOF chunk: the stream just ends
            let mut v = s[..12].to_vec();
            v.extend_from_slice(&tchunk);
            v.extend_from_slice(&s[cs..ce]);
            writeln!(out, "apply dir - file {}", hex(&v)).unwrap();
        }
        // every platform value (both bytes), every sqpk / file-op / kind byte
        for b in 0..=255u8 {
            let mut q = PB::new();
            q.target(b);
            q.add_data(1, 0x0200, 3, 0, 1, 0);
            q.header_update(b'I', b'D', 1, 0, 0);
            q.eof();
            writeln!(out, "apply dir - file {}", hex(&q.v)).unwrap();
        }
        let (hs, _, _) = *p.chunks.iter().find(|c| c.2 == "header").unwrap();
        let (fs_, _, _) = *p.chunks.iter().find(|c| c.2 == "mkdir").unwrap();
        let (is_, _, _) = *p.chunks.iter().find(|c| c.2 == "index").unwrap();
        for b in 0..=255u8 {
            for off in [hs + 12, hs + 13, hs + 14, fs_ + 12, fs_ + 13, is_ + 13] {
                let mut v = s.clone();
                if v[off] != b {
                    v[off] = b;
                    writeln!(out, "apply dir - file {}", hex(&v)).unwrap();
                }
            }
        }
        // paths: invalid UTF-8, interior NUL, no NUL, empty, trailing slash, double slash, dot, long names
        let long = vec![b'n'; 300];
        let paths: Vec<Vec<u8>> = vec![
            vec![0xFF, b'a'], b"a\0b".to_vec(), b"".to_vec(), b"dir/".to_vec(), b"a//b".to_vec(),
            b"/abs".to_vec(), long.clone(), [b"sqpack/".to_vec(), long.clone()].concat(), vec![0xC3], b"sqpack".to_vec(), b"a/b/c/d/e".to_vec(), b" ".to_vec(),
        ];
        for path in &paths {
            for op in [b'A', b'D', b'M', b'R'] {
                let mut q = PB::new();
                q.target(0);
                q.file_op(op, 0, if op == b'A' { 4 } else { 0 }, 1, path, &if op == b'A' { vec![(0u8, vec![9u8; 4])] } else { vec![] });
                q.eof();
                writeln!(out, "apply dir - file {}", hex(&q.v)).unwrap();
                writeln!(out, "apply dir d:{} file {}", hex(b"sqpack/ex1/sub"), hex(&q.v)).unwrap();
            }
        }
        // block headers: zero-size blocks (loop must end at EOF), invalid deflate, huge declared sizes
        let blocksets: Vec<(u64, Vec<(u8, Vec<u8>)>)> = vec![
            (0, vec![]),
            (1, vec![(0, vec![])]),
            (5, vec![(0, vec![]), (0, vec![1, 2, 3, 4, 5])]),
            (5, vec![(2, vec![0x07, 0, 0, 0])]),
            (5, vec![(1, vec![1, 2, 3, 4, 5])]),
            (5, vec![(1, vec![])]),
            (u64::MAX, vec![(0, vec![1, 2, 3])]),
            (1 << 40, vec![(0, vec![1; 130]), (1, vec![2; 130])]),
        ];
        for (fsz, bl) in &blocksets {
            let mut q = PB::new();
            q.target(0);
            q.file_op(b'A', 0, *fsz, 0, b"f.bin", bl);
            q.eof();
            writeln!(out, "apply dir - file {}", hex(&q.v)).unwrap();
            field_corruptions(&q.v, &q.fields, &mut |v| {
                writeln!(out, "apply dir - file {}", hex(&v)).unwrap();
            });
            for k in 0..q.v.len() {
                writeln!(out, "apply dir - file {}", hex(&q.v[..k])).unwrap();
            }
        }
        // the limit on a block's declared decompressed size (1 MiB), and many blocks at the limit
        // (2 KiB of patch for 12–20 MiB of file: memory must stay at one block, not at the file;
        // the 17th MiB crosses the harness' file-size limit).  Few cases: each writes megabytes.
        let big: Vec<(u64, Vec<(u8, Vec<u8>)>)> = vec![
            (1 << 20, vec![(3, vec![5; 9])]),
            ((1 << 20) + 1, vec![(4, vec![5; 9])]),
            ((1 << 20) + 1, vec![(3, vec![5; 9]), (0, vec![1])]),
            (3 << 20, vec![(3, vec![]), (4, vec![]), (3, vec![])]),
            (12 << 20, vec![(3, vec![]); 12]),
            (1 << 40, vec![(3, vec![]); 12]),
            (20 << 20, vec![(3, vec![]); 20]),
            (u64::MAX, vec![(3, vec![1, 2, 3]); 16]),
        ];
        for (fsz, bl) in &big {
            for off in [0u64, 1, 1 << 19] {
                let mut q = PB::new();
                q.target(0);
                q.file_op(b'A', off, *fsz, 0, b"f.bin", bl);
                q.eof();
                writeln!(out, "apply dir - file {}", hex(&q.v)).unwrap();
                // the target cannot be opened (it is a directory): the blocks are read and dropped
                writeln!(out, "apply dir d:{} file {}", hex(b"f.bin"), hex(&q.v)).unwrap();
                // an existing target
                writeln!(out, "apply dir f:{} file {}", hex(b"f.bin"), hex(&q.v)).unwrap();
                // the stream ends inside / right after the last block
                let n = q.v.len();
                for cut in [n - 4, n - 8, n - 12, n - 12 - 128, n - 12 - 129] {
                    writeln!(out, "apply dir - file {}", hex(&q.v[..cut])).unwrap();
                }
            }
        }
        // random blobs behind a valid header
        for n in [0usize, 3, 11, 12, 13, 64, 4096, if thorough { 1 << 20 } else { 1 << 16 }] {
            let mut b = rng.bytes(n);
            writeln!(out, "apply dir - file {}", hex(&b)).unwrap();
            let mut v = s[..12].to_vec();
            v.extend_from_slice(&b);
            writeln!(out, "apply dir - file {}", hex(&v)).unwrap();
        }
    }
    // ---------------- execlookup ----------------
    {
        let utf16be = |s: &str| -> Vec<u8> { s.encode_utf16().flat_map(|u| u.to_be_bytes()).collect() };
        let new = utf16be("https://launcher.finalfantasyxiv.com/v620/index.html?rc_lang={0}&time={1}\u{3042}");
        let old = utf16be("https://frontier.ffxiv.com/version_5_0_win/index.html");
        let mut seeds: Vec<Vec<u8>> = vec![];
        for url in [&new, &old] {
            for (pre, post) in [(0usize, 2usize), (1, 2), (17, 0), (16, 1), (0, 0), (5, 4)] {
                let mut v = vec![0x4Du8; pre];
                v.extend_from_slice(url);
                v.extend(std::iter::repeat(0u8).take(post));
                v.extend_from_slice(&vec![0x5A; post * 3]);
                seeds.push(v);
            }
        }
        // both needles, surrogates, odd tail
        let mut v = old.clone();
        v.extend_from_slice(&[0, 0]);
        v.extend_from_slice(&new);
        seeds.push(v);
        let mut v = new.clone();
        v.extend_from_slice(&[0xD8, 0x00, 0x00, 0x41, 0, 0]);
        seeds.push(v);
        let mut v = new.clone();
        v.extend_from_slice(&[0xDF, 0xFF]);
        seeds.push(v);
        let mut v = new.clone();
        v.push(0x00);
        seeds.push(v);
        for s in &seeds {
            writeln!(out, "execlookup file {}", hex(s)).unwrap();
        }
        writeln!(out, "execlookup missing -").unwrap();
        writeln!(out, "execlookup isdir -").unwrap();
        writeln!(out, "execlookup file -").unwrap();
        let s = &seeds[1];
        for k in 0..s.len() {
            writeln!(out, "execlookup file {}", hex(&s[..k])).unwrap();
        }
        let s = &seeds[8];
        for k in (0..s.len()).rev().take(40) {
            writeln!(out, "execlookup file {}", hex(&s[..k])).unwrap();
        }
        for i in 0..s.len() {
            for b in [0u8, 0xD8, 0xFF] {
                let mut v = s.clone();
                if v[i] != b {
                    v[i] = b;
                    writeln!(out, "execlookup file {}", hex(&v)).unwrap();
                }
            }
        }
        for n in [100usize, 4096, 1 << 16] {
            writeln!(out, "execlookup file {}", hex(&rng.bytes(n))).unwrap();
        }
    }
    // ---------------- bootdata ----------------
    {
        for mode in ["ok", "nodir", "nover", "verdir"] {
            for ver in [&b"2012.01.01.0000.0000"[..], b"", &[0xFF, 0xFE], "2023.\u{e9}".as_bytes(), b"a\nb\0c"] {
                writeln!(out, "bootdata {} {}", mode, hex(ver)).unwrap();
            }
        }
    }
}
