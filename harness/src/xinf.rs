//! auxiliary: validates the Lean inflate model against zlib (raw deflate, windowBits -15)
#![allow(unused)]
use crate::util::*;
use libz_rs_sys::*;
use std::io::Write;

pub fn deflate_raw(data: &[u8], level: i32, strategy: i32) -> Vec<u8> {
    unsafe {
        let mut strm: z_stream = std::mem::zeroed();
        let rc = deflateInit2_(
            &mut strm,
            level,
            Z_DEFLATED,
            -15,
            8,
            strategy,
            zlibVersion(),
            std::mem::size_of::<z_stream>() as i32,
        );
        assert_eq!(rc, Z_OK);
        let cap = deflateBound(&mut strm, data.len() as _) as usize + 64;
        let mut out = vec![0u8; cap];
        strm.next_in = data.as_ptr() as *mut u8;
        strm.avail_in = data.len() as u32;
        strm.next_out = out.as_mut_ptr();
        strm.avail_out = cap as u32;
        let rc = deflate(&mut strm, Z_FINISH);
        assert_eq!(rc, Z_STREAM_END);
        let n = strm.total_out as usize;
        deflateEnd(&mut strm);
        out.truncate(n);
        out
    }
}

pub fn inflate_raw(c: &[u8], max: usize) -> Option<Vec<u8>> {
    unsafe {
        let mut strm: z_stream = std::mem::zeroed();
        let rc = inflateInit2_(&mut strm, -15, zlibVersion(), std::mem::size_of::<z_stream>() as i32);
        assert_eq!(rc, Z_OK);
        let mut out = vec![0u8; max + 1];
        strm.next_in = c.as_ptr() as *mut u8;
        strm.avail_in = c.len() as u32;
        strm.next_out = out.as_mut_ptr();
        strm.avail_out = out.len() as u32;
        let rc = inflate(&mut strm, Z_FINISH);
        let n = strm.total_out as usize;
        inflateEnd(&mut strm);
        if rc != Z_STREAM_END {
            return None;
        }
        out.truncate(n);
        Some(out)
    }
}

pub fn sample_data(rng: &mut Rng, n: usize) -> Vec<u8> {
    match rng.below(5) {
        0 => rng.bytes(n),                                          // incompressible
        1 => (0..n).map(|_| b"abcdefgh "[rng.below(9) as usize]).collect(), // small alphabet
        2 => {
            // repeated phrases (long matches, overlapping copies)
            let pl = rng.range(1, 40) as usize;
            let phrase = rng.bytes(pl);
            (0..n).map(|i| phrase[i % phrase.len()]).collect()
        }
        3 => vec![rng.below(256) as u8; n],                          // one byte (distance-1 copies)
        _ => {
            // mixture
            let mut v = Vec::with_capacity(n);
            while v.len() < n {
                if rng.chance(1, 2) && v.len() > 4 {
                    let d = rng.range(1, v.len().min(3000) as u64) as usize;
                    let l = rng.range(3, 300) as usize;
                    for _ in 0..l {
                        let b = v[v.len() - d];
                        v.push(b);
                    }
                } else {
                    let k = rng.range(1, 20) as usize;
                    v.extend(rng.bytes(k));
                }
            }
            v.truncate(n);
            v
        }
    }
}

fn fnv(bs: &[u8]) -> u64 {
    let mut h: u64 = 0xcbf29ce484222325;
    for b in bs {
        h = (h ^ *b as u64).wrapping_mul(0x100000001b3);
    }
    h
}

pub fn generate(thorough: bool, seed: u64, out: &mut dyn Write) {
    generate_n(if thorough { 4000 } else { 300 }, thorough, seed, out)
}

pub fn generate_n(n: usize, thorough: bool, seed: u64, out: &mut dyn Write) {
    let mut rng = Rng::new(seed, "XINF");
    for i in 0..n {
        let len = match rng.below(8) {
            0 => rng.below(4),
            1..=4 => rng.range(1, 2000),
            5 | 6 => rng.range(2000, 20000),
            _ => rng.range(20000, if thorough { 300_000 } else { 70_000 }),
        } as usize;
        let d = sample_data(&mut rng, len);
        let level = *rng.pick(&[0, 1, 6, 9]);
        let strategy = *rng.pick(&[0, 0, 4, 2, 3]); // default, Z_FIXED, Z_HUFFMAN_ONLY, Z_RLE
        let c = deflate_raw(&d, level, strategy);
        writeln!(out, "inflate {} {}", hex(&c), hex(&d)).unwrap();
        if i % 5 == 0 && !c.is_empty() {
            // corrupted / truncated stream: model and zlib must agree on accept/reject + content
            let mut g = c.clone();
            if rng.chance(1, 2) {
                g.truncate(rng.below(g.len() as u64) as usize);
            } else {
                let k = rng.below(g.len() as u64) as usize;
                g[k] ^= 1 << rng.below(8);
            }
            writeln!(out, "garbage {}", hex(&g)).unwrap();
        }
    }
}

pub fn run(case: &str, input: &str) -> String {
    let f: Vec<&str> = input.split(' ').collect();
    let Some(c) = f.get(1).and_then(|s| unhex(s)) else { return "bad-case".into() };
    let max = match f[0] {
        "inflate" => f.get(2).and_then(|s| unhex(s)).map(|d| d.len()).unwrap_or(0) + 16,
        _ => 4 << 20,
    };
    match inflate_raw(&c, max) {
        Some(o) => format!("some:{}:{}", o.len(), fnv(&o)),
        None => "none".into(),
    }
}

pub fn dump(out: &mut dyn Write) {}
