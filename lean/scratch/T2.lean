import PhysisModel.Model.Sha1
import PhysisModel.Spec.Sha1
import Std.Tactic.BVDecide
open Physis Physis.Sha1
namespace T
open Spec.Sha1 (Vars Window)

/-- four spec rounds with a fixed boolean function and constant -/
def round' (F : UInt32 → UInt32 → UInt32 → UInt32) (K : UInt32) (v : Vars) (wt : UInt32) : Vars :=
  ⟨Spec.Sha1.rotl5 v.a + F v.b v.c v.d + v.e + K + wt, v.a, Spec.Sha1.rotl30 v.b, v.c, v.d⟩

theorem rotl5_eq (x) : rotl5 x = Spec.Sha1.rotl5 x := rfl
theorem rotl30_eq (x) : rotl30 x = Spec.Sha1.rotl30 x := rfl
theorem zadd (x : UInt32) : (0 : UInt32) + x = x := UInt32.zero_add x

theorem L1 (A Fv e x K : UInt32) : A + Fv + (e + x + K) = A + Fv + e + K + x := by ac_rfl
theorem L2 (d A Fv u K : UInt32) : d + A + Fv + (u + K) = A + Fv + d + K + u := by ac_rfl
theorem grp (F) (a b c d e x0 x1 x2 x3 K : UInt32) :
    round' F K (round' F K (round' F K (round' F K ⟨a,b,c,d,e⟩ x0) x1) x2) x3
    = (let h := sha1rnds4 F ⟨a,b,c,d⟩ ((sha1FirstAdd e ⟨x0,x1,x2,x3⟩).add ⟨K,K,K,K⟩)
      ⟨h.x0, h.x1, h.x2, h.x3, Spec.Sha1.rotl30 a⟩) := by
  simp only [round']
  simp only [sha1rnds4, sha1FirstAdd, U32x4.add]
  simp only [rotl5_eq, rotl30_eq]
  simp only [zadd]
  simp only [L1, L2]
end T
