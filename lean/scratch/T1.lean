import PhysisModel.Model.Sha1
import PhysisModel.Spec.Sha1
open Physis
#eval Bytes.toHex (Sha1.sha1 [0x61,0x62,0x63])
#eval Bytes.toHex (Spec.Sha1.sha1 [0x61,0x62,0x63])
#eval Bytes.toHex (Spec.Sha1.sha1 [])
#eval Bytes.toHex (Sha1.sha1 [])
#eval (List.range 300).all (fun n => let m := (List.range n).map (fun i => UInt8.ofNat (i*7+n)); Sha1.sha1 m == Spec.Sha1.sha1 m)
