import PhysisModel.Base.Bytes
import PhysisModel.Base.BytesLemmas
import PhysisModel.Properties.C12
import PhysisModel.Properties.C06
import PhysisModel.Properties.C07
