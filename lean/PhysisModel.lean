import PhysisModel.Base.Bytes
import PhysisModel.Base.BytesLemmas
import PhysisModel.Properties.C11
import PhysisModel.Properties.C12
