import PhysisModel.Proofs.MdlGeometry
import PhysisModel.Spec.MdlRedundant
/-!
The result of `MDL::from_existing` depends on the two header records only through the fields the
code after the grammar reads (C06).

1. `ReadsSame fh fh' md md'` — agreement of two pairs of header records on exactly those fields
   (found by reading `Model/Mdl.lean`: `readLod`, `readPart`, `elementAddress`, `readStreams`,
   `readSubmeshes`, `readShapes`, and the tail of `fromExisting`).
2. The congruence chain `elementAddress_congr … readLod_congr`, `afterHeaders_congr`: equalities
   between programs, for every file, no well-formedness.
3. `HasSections.parse_readsSame`: a file that holds the sections of `m` and whose header stage
   returns *any* records that `ReadsSame` as those of `m` is read to the geometry of `m` (and to
   those records).
4. `parse_encodeR`: the instance `encodeMdlR m ρ` (`Spec/MdlRedundant.lean`) for every `ρ`.
-/
namespace Physis.Mdl
open Physis Physis.Spec.Mdl

/-! ### 1. the fields that are read -/

/-- the fields of a LOD-table row that the reader looks at: `readLod` takes the mesh range from
`meshIndex` / `meshCount`, `elementAddress` and `readStreams` take the vertex base from
`vertexDataOffset`.  Nothing reads `mid`, `edgeGeometryDataOffset`, `polygonCount`,
`vertexBufferSize`, `indexBufferSize`, `indexDataOffset`. -/
def lodReadKey (l : MeshLod) : UInt16 × UInt16 × UInt32 := (l.meshIndex, l.meshCount, l.vertexDataOffset)

/-- `fh'` / `md'` agree with `fh` / `md` on every field that `fromExisting` reads after the two
header parses.  Of the file header that is `indexOffsets` alone (`readPart`); of the runtime block:
the three fields `lodReadKey` of every LOD row (`readLod`, `elementAddress`, `readStreams`), the
declarations and the mesh table (`readPart`), the sub-mesh table (`readSubmeshes`), the three shape
tables (`readShapes`), the string table (`readShapes`, the name lookups), the LOD count of the
`ModelHeader` (the loop of `fromExisting`) and the bone / material name offsets.

Not constrained, because never read: `FileHeader.version`, `stackSize`, `runtimeSize`,
`vertexDeclarationCount`, `materialCount`, `vertexOffsets`, `vertexBufferSize`, `indexBufferSize`,
`lodCount`, the two flags (`version` and `vertexDeclarationCount` are read by the *grammar*, i.e.
they influence which `md'` the header stage returns, not what happens afterwards); every
`ModelHeader` field but `strings` and `lodCount`; of a LOD row everything but `lodReadKey`;
`elementIds`, `attributeNameOffsets`, the terrain-shadow tables, both bone tables, the sub-mesh bone
map with its sizes, the padding and the bounding boxes. -/
structure ReadsSame (fh fh' : FileHeader) (md md' : ModelData) : Prop where
  indexOffsets : fh'.indexOffsets = fh.indexOffsets
  lods : md'.lods.map lodReadKey = md.lods.map lodReadKey
  decls : md'.decls = md.decls
  meshes : md'.meshes = md.meshes
  submeshes : md'.submeshes = md.submeshes
  shapes : md'.shapes = md.shapes
  shapeMeshes : md'.shapeMeshes = md.shapeMeshes
  shapeValues : md'.shapeValues = md.shapeValues
  strings : md'.header.strings = md.header.strings
  lodCount : md'.header.lodCount = md.header.lodCount
  boneNameOffsets : md'.boneNameOffsets = md.boneNameOffsets
  materialNameOffsets : md'.materialNameOffsets = md.materialNameOffsets

instance (fh fh' : FileHeader) (md md' : ModelData) : Decidable (ReadsSame fh fh' md md') :=
  decidable_of_iff
    (fh'.indexOffsets = fh.indexOffsets ∧ md'.lods.map lodReadKey = md.lods.map lodReadKey ∧
      md'.decls = md.decls ∧ md'.meshes = md.meshes ∧ md'.submeshes = md.submeshes ∧
      md'.shapes = md.shapes ∧ md'.shapeMeshes = md.shapeMeshes ∧ md'.shapeValues = md.shapeValues ∧
      md'.header.strings = md.header.strings ∧ md'.header.lodCount = md.header.lodCount ∧
      md'.boneNameOffsets = md.boneNameOffsets ∧ md'.materialNameOffsets = md.materialNameOffsets)
    ⟨fun ⟨a, b, c, d, e, f, g, h, i, j, k, l⟩ => ⟨a, b, c, d, e, f, g, h, i, j, k, l⟩,
     fun ⟨a, b, c, d, e, f, g, h, i, j, k, l⟩ => ⟨a, b, c, d, e, f, g, h, i, j, k, l⟩⟩

theorem ReadsSame.refl (fh : FileHeader) (md : ModelData) : ReadsSame fh fh md md :=
  ⟨rfl, rfl, rfl, rfl, rfl, rfl, rfl, rfl, rfl, rfl, rfl, rfl⟩

theorem ReadsSame.symm {fh fh' : FileHeader} {md md' : ModelData} (h : ReadsSame fh fh' md md') :
    ReadsSame fh' fh md' md :=
  ⟨h.1.symm, h.2.symm, h.3.symm, h.4.symm, h.5.symm, h.6.symm, h.7.symm, h.8.symm, h.9.symm,
    h.10.symm, h.11.symm, h.12.symm⟩

theorem ReadsSame.trans {fh fh' fh'' : FileHeader} {md md' md'' : ModelData}
    (h : ReadsSame fh fh' md md') (g : ReadsSame fh' fh'' md' md'') : ReadsSame fh fh'' md md'' :=
  ⟨g.1.trans h.1, g.2.trans h.2, g.3.trans h.3, g.4.trans h.4, g.5.trans h.5, g.6.trans h.6,
    g.7.trans h.7, g.8.trans h.8, g.9.trans h.9, g.10.trans h.10, g.11.trans h.11, g.12.trans h.12⟩

/-! ### 2. congruence: the programs are equal -/

variable {lod lod' : MeshLod}

theorem elementAddress_congr (hv : lod'.vertexDataOffset = lod.vertexDataOffset) (mesh : Mesh)
    (e : VertexElement) (k : UInt16) :
    elementAddress lod' mesh e k = elementAddress lod mesh e k := by
  unfold elementAddress
  rw [hv]

theorem readVertex_congr (hv : lod'.vertexDataOffset = lod.vertexDataOffset) (file : Array UInt8)
    (mesh : Mesh) (decl : List VertexElement) (k : UInt16) :
    readVertex file lod' mesh decl k = readVertex file lod mesh decl k := by
  unfold readVertex
  simp only [elementAddress_congr hv]

theorem readVertices_congr (hv : lod'.vertexDataOffset = lod.vertexDataOffset) (file : Array UInt8)
    (mesh : Mesh) (decl : List VertexElement) :
    readVertices file lod' mesh decl = readVertices file lod mesh decl := by
  unfold readVertices
  simp only [readVertex_congr hv]

theorem readStreams_congr (hv : lod'.vertexDataOffset = lod.vertexDataOffset) (file : Array UInt8)
    (mesh : Mesh) : readStreams file lod' mesh = readStreams file lod mesh := by
  unfold readStreams
  rw [hv]

variable {fh fh' : FileHeader} {md md' : ModelData}

theorem readSubmeshes_congr (RS : ReadsSame fh fh' md md') (mesh : Mesh) :
    readSubmeshes md' mesh = readSubmeshes md mesh := by
  unfold readSubmeshes
  rw [RS.submeshes]

theorem readShapes_congr (RS : ReadsSame fh fh' md md') (lodIx : Nat) (mesh : Mesh)
    (verts : List Vertex) (indices : List UInt16) :
    readShapes md' lodIx mesh verts indices = readShapes md lodIx mesh verts indices := by
  unfold readShapes
  rw [RS.shapes, RS.shapeMeshes, RS.shapeValues, RS.strings]

theorem readPart_congr (RS : ReadsSame fh fh' md md')
    (hv : lod'.vertexDataOffset = lod.vertexDataOffset) (file : Array UInt8) (lodIx j : Nat) :
    readPart file fh' md' lodIx lod' j = readPart file fh md lodIx lod j := by
  unfold readPart
  rw [RS.decls, RS.meshes, RS.indexOffsets]
  simp only [readVertices_congr hv, readStreams_congr hv, readSubmeshes_congr RS, readShapes_congr RS]

/-- **one LOD**: `readLod` gives the same result on both pairs of header records -/
theorem readLod_congr (RS : ReadsSame fh fh' md md') (file : Array UInt8) (i : Nat) :
    readLod file fh' md' i = readLod file fh md i := by
  have hk := congrArg (fun l => l[i]?) RS.lods
  simp only [List.getElem?_map] at hk
  unfold readLod idx
  cases h' : md'.lods[i]? with
  | none =>
    cases h : md.lods[i]? with
    | none => rfl
    | some l => rw [h', h] at hk; cases hk
  | some l' =>
    cases h : md.lods[i]? with
    | none => rw [h', h] at hk; cases hk
    | some l =>
      rw [h', h] at hk
      simp only [Option.map_some, Option.some.injEq, lodReadKey, Prod.mk.injEq] at hk
      obtain ⟨h1, h2, h3⟩ := hk
      simp only [R.ok_bind, h1, h2, readPart_congr RS h3]

/-- everything `fromExisting` does after the two header parses, as a function of the whole file
and the two header records -/
def afterHeaders (file : Array UInt8) (fh : FileHeader) (md : ModelData) : R View := do
  let affectedBoneNames ← md.boneNameOffsets.mapM (nameAt md.header.strings)
  let materialNames ← md.materialNameOffsets.mapM (nameAt md.header.strings)
  let lods ← (List.range md.header.lodCount.toNat).mapM (readLod file fh md)
  pure { lods, affectedBoneNames, materialNames }

/-- `fromExisting` = header stage, then `afterHeaders`, then the returned record -/
theorem fromExisting_of_headers {bytes rest rest' : Bytes} {fh : FileHeader} {md : ModelData}
    (hfh : parseFileHeader bytes = .ok (fh, rest)) (hmd : parseModelData fh rest = .ok (md, rest')) :
    fromExisting bytes =
      (afterHeaders bytes.toArray fh md).map fun v =>
        { fileHeader := fh, modelData := md, lods := v.lods,
          affectedBoneNames := v.affectedBoneNames, materialNames := v.materialNames } := by
  unfold fromExisting afterHeaders
  rw [hfh, R.ok_bind]
  dsimp only
  rw [hmd, R.ok_bind]
  dsimp only
  generalize md.boneNameOffsets.mapM (nameAt md.header.strings) = A
  generalize md.materialNameOffsets.mapM (nameAt md.header.strings) = B
  generalize (List.range md.header.lodCount.toNat).mapM (readLod bytes.toArray fh md) = C
  cases A <;> cases B <;> cases C <;> rfl

/-- **the whole stage after the headers** gives the same result on both pairs of header records -/
theorem afterHeaders_congr (RS : ReadsSame fh fh' md md') (file : Array UInt8) :
    afterHeaders file fh' md' = afterHeaders file fh md := by
  unfold afterHeaders
  rw [RS.boneNameOffsets, RS.materialNameOffsets, RS.strings, RS.lodCount,
    show readLod file fh' md' = readLod file fh md from funext (readLod_congr RS file)]

/-! ### 3. files whose header records differ from those of `m` in unread fields -/

/-- the stage after the headers, on the records of `m`, in every file that holds the sections of
`m` -/
theorem HasSections.afterHeaders_eq {m : AbstractModel} {file : Bytes} (S : HasSections m file)
    (h : WF m = true) (hw : noWeightsByte4 m = true) (v : View) (hv : view m = some v) :
    afterHeaders file.toArray (fileHeader m) (modelData m) = .ok v := by
  cases hlv : lodsView m m.lodCount.toNat 0 0 m.lods with
  | none => simp [view, hlv] at hv
  | some ls =>
    simp only [view, hlv, Option.bind_eq_bind, Option.bind_some, Option.some.injEq] at hv
    subst hv
    unfold afterHeaders
    rw [bone_names m h, R.ok_bind, material_names m h, R.ok_bind,
      S.readLods_core h hw
        (fun i l d mesh sh hl hm hsh => readShapes_eq m h i l hl d mesh hm sh hsh) ls hlv, R.ok_bind]
    rfl

/-- **every file that holds the sections of `m` and whose header stage returns records that agree
with those of `m` on the fields that are read**: the reader returns those records and the geometry
of `m` -/
theorem HasSections.parse_readsSame {m : AbstractModel} {file : Bytes} (S : HasSections m file)
    {rest rest' : Bytes} {fh' : FileHeader} {md' : ModelData}
    (hfh : parseFileHeader file = .ok (fh', rest))
    (hmd : parseModelData fh' rest = .ok (md', rest'))
    (hrs : ReadsSame (fileHeader m) fh' (modelData m) md')
    (h : WF m = true) (hw : noWeightsByte4 m = true) (v : View) (hv : view m = some v) :
    fromExisting file =
      .ok { fileHeader := fh', modelData := md', lods := v.lods,
            affectedBoneNames := v.affectedBoneNames, materialNames := v.materialNames } := by
  rw [fromExisting_of_headers hfh hmd, afterHeaders_congr hrs, S.afterHeaders_eq h hw v hv]
  rfl

/-! ### 4. the instance `encodeMdlR m ρ` -/

theorem lodReadKey_redundant (ρ : Redundant) (i : Nat) (l : MeshLod) : lodReadKey (ρ.lod i l) = lodReadKey l := rfl

theorem map_lodReadKey_redundant (ρ : Redundant) (l : List MeshLod) :
    ∀ i, (ρ.lods i l).map lodReadKey = l.map lodReadKey := by
  induction l with
  | nil => intro i; rfl
  | cons x xs ih => intro i; simp only [Redundant.lods, List.map_cons, ih, lodReadKey_redundant]

theorem length_lods_redundant (ρ : Redundant) (l : List MeshLod) :
    ∀ i, (ρ.lods i l).length = l.length := by
  induction l with
  | nil => intro i; rfl
  | cons x xs ih => intro i; simp only [Redundant.lods, List.length_cons, ih]

theorem all_mid_redundant (ρ : Redundant) (l : List MeshLod) :
    ∀ i, (ρ.lods i l).all (fun l => l.mid.length == 28) = l.all (fun l => l.mid.length == 28) := by
  induction l with
  | nil => intro i; rfl
  | cons x xs ih => intro i; simp only [Redundant.lods, List.all_cons, ih, Redundant.lod]

theorem length_encMeshLod_redundant (ρ : Redundant) (l : List MeshLod) :
    ∀ i, ((ρ.lods i l).flatMap encMeshLod).length = (l.flatMap encMeshLod).length := by
  induction l with
  | nil => intro i; rfl
  | cons x xs ih =>
    intro i
    simp only [Redundant.lods, List.flatMap_cons, List.length_append, ih]
    simp [encMeshLod, Redundant.lod]

/-- the replaced records agree with the original ones on every field that is read -/
theorem readsSame_redundant (ρ : Redundant) (fh : FileHeader) (md : ModelData) :
    ReadsSame fh (ρ.fh fh) md (ρ.md md) :=
  ⟨rfl, map_lodReadKey_redundant ρ md.lods 0, rfl, rfl, rfl, rfl, rfl, rfl, rfl, rfl, rfl, rfl⟩

/-- the grammar's consistency predicate does not mention a replaced field -/
theorem modelDataOk_redundant (ρ : Redundant) (fh : FileHeader) (md : ModelData) :
    modelDataOk (ρ.fh fh) (ρ.md md) = modelDataOk fh md := by
  unfold modelDataOk
  have h1 : (ρ.md md).lods.length = md.lods.length := length_lods_redundant ρ md.lods 0
  have h2 : (ρ.md md).lods.all (fun l => l.mid.length == 28) =
      md.lods.all (fun l => l.mid.length == 28) := all_mid_redundant ρ md.lods 0
  rw [h1, h2]
  rfl

/-- the runtime block keeps its length -/
theorem length_encModelData_redundant (ρ : Redundant) (version : UInt32) (md : ModelData) :
    (encModelData version (ρ.md md)).length = (encModelData version md).length := by
  simp only [encModelData, Redundant.md, List.length_append, length_encMeshLod_redundant]

/-- the two header parses on `encodeMdlR m ρ` return the replaced records -/
theorem parse_headersR (m : AbstractModel) (h : WF m = true) (ρ : Redundant) :
    parseFileHeader (encodeMdlR m ρ) =
        .ok (ρ.fh (fileHeader m), encModelData m.version (ρ.md (modelData m)) ++ sections m) ∧
    parseModelData (ρ.fh (fileHeader m)) (encModelData m.version (ρ.md (modelData m)) ++ sections m) =
        .ok (ρ.md (modelData m), sections m) :=
  ⟨parseFileHeader_enc _ _,
    parseModelData_enc (ρ.fh (fileHeader m)) (ρ.md (modelData m))
      (by rw [modelDataOk_redundant]; exact wf_modelDataOk m h) (sections m)⟩

/-- … and the sections lie at the same offset -/
theorem hasSections_redundant (m : AbstractModel) (ρ : Redundant) :
    HasSections m (encodeMdlR m ρ) := by
  refine ⟨encFileHeader (ρ.fh (fileHeader m)) ++ encModelData m.version (ρ.md (modelData m)), [],
    ?_, ?_⟩
  · simp [encodeMdlR]
  · rw [← length_headers m, List.length_append, List.length_append, length_encFileHeader,
      length_encFileHeader, length_encModelData_redundant]

/-- **parse ∘ encode with arbitrary redundant copies**, outside the recorded
`(BlendWeights, Byte4)` class: the reader returns the records as stored and the geometry of `m` -/
theorem parse_encodeR (m : AbstractModel) (h : WF m = true) (hw : noWeightsByte4 m = true)
    (ρ : Redundant) (v : View) (hv : view m = some v) :
    fromExisting (encodeMdlR m ρ) =
      .ok { fileHeader := ρ.fh (fileHeader m), modelData := ρ.md (modelData m), lods := v.lods,
            affectedBoneNames := v.affectedBoneNames, materialNames := v.materialNames } :=
  (hasSections_redundant m ρ).parse_readsSame (parse_headersR m h ρ).1 (parse_headersR m h ρ).2
    (readsSame_redundant ρ _ _) h hw v hv

theorem parse_encodeR_view (m : AbstractModel) (h : WF m = true) (hw : noWeightsByte4 m = true)
    (ρ : Redundant) (v : View) (hv : view m = some v) :
    (fromExisting (encodeMdlR m ρ)).map MDL.view = .ok v := by
  rw [parse_encodeR m h hw ρ v hv]; rfl

theorem lods_redundant_id (l : List MeshLod) : ∀ i, Redundant.id.lods i l = l := by
  induction l with
  | nil => intro i; rfl
  | cons x xs ih => intro i; simp only [Redundant.lods, ih]; rfl

/-- the identity replacement gives the file of `encodeMdl` -/
theorem encodeMdlR_id (m : AbstractModel) : encodeMdlR m Redundant.id = encodeMdl m := by
  have h1 : Redundant.id.fh (fileHeader m) = fileHeader m := rfl
  have h2 : Redundant.id.md (modelData m) = modelData m := by
    simp only [Redundant.md, lods_redundant_id]
  rw [encodeMdlR, h1, h2, encodeMdl]

end Physis.Mdl
