import PhysisModel.Proofs.Fs
import PhysisModel.Proofs.PatchBytes
import PhysisModel.Proofs.PatchCreate
import PhysisModel.Spec.ZiPatch
/-! C03: the model of `ZiPatch::apply` on an encoded command sequence refines the reference
semantics.  Part 1: reading back `Spec.ZiPatch.encodeCmd`. -/
set_option linter.unusedSimpArgs false
namespace Physis.Patch
open Physis Physis.Fs Physis.Spec.ZiPatch

/-- what the model's reader makes of a command -/
def toChunk : Cmd → Chunk
  | .fhdr2 .. => .fileHeader 2
  | .fhdr3 .. => .fileHeader 3
  | .aply o v => .applyOption o v
  | .adir n => .addDirectory n
  | .deld n => .deleteDirectory n
  | .patchInfo .. => .patchInfo
  | .index .. => .index
  | .target pl .. => .targetInfo pl.toUInt8
  | .addData m s f off del data => .addData m s f (off.toUInt64 <<< 7) (del.toUInt64 <<< 7) data
  | .deleteData m s f off num => .deleteData m s f (off.toUInt64 <<< 7) num
  | .expandData m s f off num => .expandData m s f (off.toUInt64 <<< 7) num
  | .header isIdx k m s f data => .headerUpdate isIdx (headerKindByte k) m s f data
  | .addFile off exp path blocks => .fileOp .addFile off (UInt64.ofNat (fileSize blocks)) exp path
  | .deleteFile exp path => .fileOp .deleteFile 0 0 exp path
  | .removeAll exp path => .fileOp .removeAll 0 0 exp path
  | .mkDirTree exp path => .fileOp .makeDirTree 0 0 exp path

theorem trimNul_id (s : Bytes) (h : ∀ b ∈ s, b ≠ 0) : trimNul s = s := by
  unfold trimNul
  rw [dropWhile_zero_id s h, dropWhile_zero_id _ (by intro b hb; exact h b (by simpa using hb))]
  simp

theorem asciiNoNul_facts (s : Bytes) (h : asciiNoNul s = true) : ∀ b ∈ s, b ≠ 0 ∧ b < 128 := by
  simpa [asciiNoNul] using h

theorem readString_id (s : Bytes) (h : asciiNoNul s = true) : readString s = some s := by
  have hf := asciiNoNul_facts s h
  have h0 : s.all (· < 128) = true := by
    simp only [List.all_eq_true, decide_eq_true_eq]; exact fun b hb => (hf b hb).2
  simp [readString, h0, trimNul_id s (fun b hb => (hf b hb).1)]

theorem rdString_id (n : Nat) (s rest : Bytes) (hn : n = s.length) (h : asciiNoNul s = true) :
    rdString n (s ++ rest) = .ok s rest := by
  simp only [rdString, rdN_append' n s rest hn, readString_id s h]

theorem u32_toNat (n : Nat) (h : n < 2 ^ 32) : (u32 n).toNat = n := by
  simp [u32, UInt32.toNat_ofNat']; omega

@[simp] theorem zeros_length (n : Nat) : (zeros n).length = n := by simp [zeros]

theorem drop_zeros (n : Nat) (r : Bytes) : (zeros n ++ r).drop n = r := by
  have : n = (zeros n).length := by simp
  conv => lhs; arg 1; rw [this]
  simp

/-- the chunk header: size, tag; then the tag's reader on the body -/
theorem rdChunkBody_sqpk (sz : UInt32) (x : Bytes) :
    rdChunkBody (putU32be sz ++ (Spec.ZiPatch.tagSQPK ++ x)) = rdSqpk x := by
  simp (config := {decide := true}) only [rdChunkBody, rdU32be_put, Patch.tagSQPK, Spec.ZiPatch.tagSQPK,
    Patch.tagFHDR, Patch.tagAPLY, Patch.tagADIR, Patch.tagDELD, List.cons_append, List.nil_append,
    List.take_succ_cons, List.take_zero, List.drop_succ_cons, List.drop_zero, ↓reduceIte]

theorem drop1_putU16be (v : UInt16) (r : Bytes) : (putU16be v ++ r).drop 1 = v.toUInt8 :: r := by
  simp [putU16be]

theorem rdSqpk_patchInfo (isz : UInt32) (st v : UInt8) (inst : UInt64) (rest : Bytes) :
    rdSqpk (putU32be isz ++ (sqpkBody (.patchInfo st v inst) ++ rest)) = .ok .patchInfo rest := by
  simp (config := {decide := true}) only [rdSqpk, sqpkBody, rdU32be_put, rdU8_cons, List.cons_append,
    List.nil_append, List.append_assoc, List.drop_succ_cons, List.drop_zero, rdU64be_put, ↓reduceIte]

theorem rdSqpk_target (isz : UInt32) (pl rg dbg v : UInt16) (del sk : UInt64) (rest : Bytes)
    (hwf : (Cmd.target pl rg dbg v del sk).wf = true) :
    rdSqpk (putU32be isz ++ (sqpkBody (.target pl rg dbg v del sk) ++ rest)) =
      .ok (.targetInfo pl.toUInt8) rest := by
  simp only [Cmd.wf, Bool.and_eq_true, Bool.or_eq_true, decide_eq_true_eq] at hwf
  have hpl : pl.toUInt8 ≤ 4 := by
    have := hwf.1; revert this; generalize pl = x; intro h; bv_decide (timeout := 300)
  simp (config := {decide := true}) only [rdSqpk, sqpkBody, rdU32be_put, rdU8_cons, List.cons_append,
    List.nil_append, List.append_assoc, List.drop_succ_cons, List.drop_zero, drop1_putU16be, rdU16be_put,
    rdU64le_put, ↓reduceIte, Option.bind_eq_bind, Option.bind_some, Option.pure_def, hpl, hwf.2,
    drop_zeros]

theorem rdSqpk_index (isz : UInt32) (add syn : Bool) (h : UInt64) (off num : UInt32) (rest : Bytes) :
    rdSqpk (putU32be isz ++ (sqpkBody (.index add syn h off num) ++ rest)) = .ok .index rest := by
  have hz : (zeros 8 ++ rest).drop 8 = rest := drop_zeros 8 rest
  cases add <;>
  simp (config := {decide := true}) only [rdSqpk, sqpkBody, rdU32be_put, rdU8_cons, List.cons_append,
    List.nil_append, List.append_assoc, List.drop_succ_cons, List.drop_zero, rdU64be_put,
    ↓reduceIte, Option.bind_eq_bind, Option.bind_some, Option.pure_def, hz, Bool.false_eq_true]

theorem shl7_toNat (n : Nat) (h : n < 2 ^ 32) : ((u32 n).toUInt64 <<< 7).toNat = n * 128 := by
  have h1 := u32_toNat n h
  have : (u32 n).toUInt64.toNat = n := by simpa using h1
  rw [UInt64.toNat_shiftLeft, this]
  simp only [UInt64.toNat_ofNat, Nat.reducePow, Nat.reduceMod, Nat.shiftLeft_eq]
  omega

theorem rdSqpk_addData (isz : UInt32) (m sub : UInt16) (f off del : UInt32) (data rest : Bytes)
    (hwf : (Cmd.addData m sub f off del data).wf = true) :
    rdSqpk (putU32be isz ++ (sqpkBody (.addData m sub f off del data) ++ rest)) =
      .ok (.addData m sub f (off.toUInt64 <<< 7) (del.toUInt64 <<< 7) data) rest := by
  simp only [Cmd.wf, Bool.and_eq_true, decide_eq_true_eq] at hwf
  have hn : ((u32 (data.length / 128)).toUInt64 <<< 7).toNat = data.length := by
    rw [shl7_toNat _ hwf.2]; omega
  have hrd := rdN_append' _ data rest hn
  simp (config := {decide := true}) only [rdSqpk, sqpkBody, rdU32be_put, rdU8_cons, List.cons_append,
    List.nil_append, List.append_assoc, List.drop_succ_cons, List.drop_zero, rdIds, targetIds, rdU16be_put,
    ↓reduceIte, Option.bind_eq_bind, Option.bind_some, Option.pure_def, hrd]

theorem rdSqpk_deleteData (isz : UInt32) (m sub : UInt16) (f off num : UInt32) (rest : Bytes) :
    rdSqpk (putU32be isz ++ (sqpkBody (.deleteData m sub f off num) ++ rest)) =
      .ok (.deleteData m sub f (off.toUInt64 <<< 7) num) rest := by
  have hz : (zeros 4 ++ rest).drop 4 = rest := drop_zeros 4 rest
  simp (config := {decide := true}) only [rdSqpk, sqpkBody, rdU32be_put, rdU8_cons, List.cons_append,
    List.nil_append, List.append_assoc, List.drop_succ_cons, List.drop_zero, rdIds, targetIds, rdU16be_put,
    ↓reduceIte, Option.bind_eq_bind, Option.bind_some, Option.pure_def, hz, or_true, true_or]

theorem rdSqpk_expandData (isz : UInt32) (m sub : UInt16) (f off num : UInt32) (rest : Bytes) :
    rdSqpk (putU32be isz ++ (sqpkBody (.expandData m sub f off num) ++ rest)) =
      .ok (.expandData m sub f (off.toUInt64 <<< 7) num) rest := by
  have hz : (zeros 4 ++ rest).drop 4 = rest := drop_zeros 4 rest
  simp (config := {decide := true}) only [rdSqpk, sqpkBody, rdU32be_put, rdU8_cons, List.cons_append,
    List.nil_append, List.append_assoc, List.drop_succ_cons, List.drop_zero, rdIds, targetIds, rdU16be_put,
    ↓reduceIte, Option.bind_eq_bind, Option.bind_some, Option.pure_def, hz, or_true, true_or]

theorem rdSqpk_header (isz : UInt32) (isIdx : Bool) (k : HeaderKind) (m sub : UInt16) (f : UInt32)
    (data rest : Bytes) (hwf : (Cmd.header isIdx k m sub f data).wf = true) :
    rdSqpk (putU32be isz ++ (sqpkBody (.header isIdx k m sub f data) ++ rest)) =
      .ok (.headerUpdate isIdx (headerKindByte k) m sub f data) rest := by
  simp only [Cmd.wf, decide_eq_true_eq] at hwf
  have hrd := rdN_append' 1024 data rest hwf.symm
  cases isIdx <;> cases k <;>
  simp (config := {decide := true}) only [rdSqpk, sqpkBody, rdU32be_put, rdU8_cons, List.cons_append,
    List.nil_append, List.append_assoc, List.drop_succ_cons, List.drop_zero, rdIds, targetIds, rdU16be_put,
    ↓reduceIte, Option.bind_eq_bind, Option.bind_some, Option.pure_def, hrd, headerKindByte,
    Bool.false_eq_true, or_true, true_or]

theorem pathOk_ascii (path : Bytes) (h : Spec.ZiPatch.pathOk path = true) : ∀ b ∈ path, b ≠ 0 ∧ b < 128 := by
  simp only [Spec.ZiPatch.pathOk, Bool.and_eq_true, List.all_eq_true, decide_eq_true_eq] at h
  intro b hb; simpa using h.1 b hb

theorem rdSqpk_fileOp (isz : UInt32) (op : UInt8) (fo : FileOp) (hop : fileOpOf op = some fo)
    (off size : UInt64) (exp : UInt16) (path rest : Bytes)
    (hp : ∀ b ∈ path, b ≠ 0 ∧ b < 128) (hl : path.length + 1 < 2 ^ 32) :
    rdSqpk (putU32be isz ++ (fileOpBody op off size exp path ++ rest)) = .ok (.fileOp fo off size exp path) rest := by
  have hn : (u32 (path.length + 1)).toNat = path.length + 1 := u32_toNat _ (by omega)
  have hs := rdString_nul _ path rest hn hp
  simp only [List.append_assoc, List.cons_append, List.nil_append] at hs
  simp (config := {decide := true}) only [rdSqpk, fileOpBody, rdU32be_put, rdU8_cons, List.cons_append,
    List.nil_append, List.append_assoc, List.drop_succ_cons, List.drop_zero, rdU16be_put, rdU64be_put,
    ↓reduceIte, Option.bind_eq_bind, Option.bind_some, Option.pure_def, hop, hs]

/-! ### the chunks that are not SQPK -/

theorem rdString_ascii (n : Nat) (s : Bytes) (h : n ≤ s.length) (hall : ∀ b ∈ s.take n, b < 128) :
    ∃ str, rdString n s = .ok str (s.drop n) := by
  have h0 : (s.take n).all (· < 128) = true := by
    simp only [List.all_eq_true, decide_eq_true_eq]; exact hall
  exact ⟨trimNul (s.take n), by simp [rdString, rdN, h, readString, h0]⟩

theorem name4 (name : Bytes) (h : name.length = 4) : ∃ a b c d, name = [a, b, c, d] := by
  match name, h with
  | [a, b, c, d], _ => exact ⟨a, b, c, d, rfl⟩

theorem zeros8 : zeros 8 = [0, 0, 0, 0, 0, 0, 0, 0] := rfl

theorem rdChunkBody_fhdr2 (sz : UInt32) (name : Bytes) (depot : UInt32) (rest : Bytes)
    (hwf : (Cmd.fhdr2 name depot).wf = true) :
    rdChunkBody (putU32be sz ++ (Spec.ZiPatch.tagFHDR ++ ((chunkParts (.fhdr2 name depot)).2 ++ rest))) =
      .ok (.fileHeader 2) rest := by
  simp only [Cmd.wf, Bool.and_eq_true, decide_eq_true_eq] at hwf
  obtain ⟨a, b, c, d, rfl⟩ := name4 name hwf.1
  have hasc := asciiNoNul_facts _ hwf.2
  obtain ⟨str, hs⟩ := rdString_ascii 4 (0 :: a :: b :: c :: d :: (zeros 8 ++ (putU32be depot ++ rest))) (by simp) (by
    intro x hx
    simp only [List.take_succ_cons, List.take_zero, List.mem_cons, List.not_mem_nil, or_false] at hx
    rcases hx with rfl | rfl | rfl | rfl
    · decide
    · exact (hasc _ (by simp)).2
    · exact (hasc _ (by simp)).2
    · exact (hasc _ (by simp)).2)
  simp only [List.drop_succ_cons, List.drop_zero, zeros8, putU32be, List.cons_append, List.nil_append] at hs
  simp (config := {decide := true}) only [rdChunkBody, chunkParts, rdU32be_put, Patch.tagFHDR, Spec.ZiPatch.tagFHDR,
    List.cons_append, List.nil_append, List.append_assoc, List.take_succ_cons, List.take_zero,
    List.drop_succ_cons, List.drop_zero, ↓reduceIte, rdFileHeader, rdU8_cons, zeros8, putU32be, hs, rdU32be,
    getU32be, Option.map_some]

theorem flatten_putU32be_length (nums : List UInt32) : ((nums.map putU32be).flatten).length = 4 * nums.length := by
  induction nums with
  | nil => rfl
  | cons n r ih => simp [ih]; omega

theorem rdChunkBody_fhdr3 (sz : UInt32) (name : Bytes) (nums : List UInt32) (rest : Bytes)
    (hwf : (Cmd.fhdr3 name nums).wf = true) :
    rdChunkBody (putU32be sz ++ (Spec.ZiPatch.tagFHDR ++ ((chunkParts (.fhdr3 name nums)).2 ++ rest))) =
      .ok (.fileHeader 3) rest := by
  simp only [Cmd.wf, Bool.and_eq_true, decide_eq_true_eq] at hwf
  obtain ⟨a, b, c, d, rfl⟩ := name4 name hwf.1.1
  have hasc := asciiNoNul_facts _ hwf.1.2
  generalize hX : (nums.map putU32be).flatten = X
  have hXl : X.length = 52 := by rw [← hX, flatten_putU32be_length, hwf.2]
  obtain ⟨str, hs⟩ := rdString_ascii 4 (0 :: a :: b :: c :: d :: (X ++ (zeros 0xB8 ++ rest))) (by simp) (by
    intro x hx
    simp only [List.take_succ_cons, List.take_zero, List.mem_cons, List.not_mem_nil, or_false] at hx
    rcases hx with rfl | rfl | rfl | rfl
    · decide
    · exact (hasc _ (by simp)).2
    · exact (hasc _ (by simp)).2
    · exact (hasc _ (by simp)).2)
  simp only [List.drop_succ_cons, List.drop_zero] at hs
  have hrd : rdN 52 (d :: (X ++ (zeros 0xB8 ++ rest))) =
      some ((d :: (X ++ (zeros 0xB8 ++ rest))).take 52, (d :: (X ++ (zeros 0xB8 ++ rest))).drop 52) := by
    simp [rdN, hXl]; omega
  have hdrop : (((d :: (X ++ (zeros 0xB8 ++ rest))).drop 52).drop 0xB8).drop 1 = rest := by
    rw [List.drop_drop, List.drop_drop]
    have : d :: (X ++ (zeros 0xB8 ++ rest)) = (d :: (X ++ zeros 0xB8)) ++ rest := by simp
    rw [this]
    have hl : (d :: (X ++ zeros 0xB8)).length = 52 + 184 + 1 := by simp [hXl]
    rw [← hl]; simp
  simp only [List.drop_succ_cons] at hdrop
  simp (config := {decide := true}) only [rdChunkBody, chunkParts, rdU32be_put, Patch.tagFHDR, Spec.ZiPatch.tagFHDR,
    List.cons_append, List.nil_append, List.append_assoc, List.take_succ_cons, List.take_zero,
    List.drop_succ_cons, List.drop_zero, ↓reduceIte, rdFileHeader, rdU8_cons, hs, hX, hrd, hdrop]

theorem rdChunkBody_aply (sz opt val : UInt32) (rest : Bytes) (hwf : (Cmd.aply opt val).wf = true) :
    rdChunkBody (putU32be sz ++ (Spec.ZiPatch.tagAPLY ++ ((chunkParts (.aply opt val)).2 ++ rest))) =
      .ok (.applyOption opt val) rest := by
  simp only [Cmd.wf, Bool.or_eq_true, decide_eq_true_eq] at hwf
  have hz : (zeros 4 ++ (putU32be val ++ rest)).drop 4 = putU32be val ++ rest := drop_zeros 4 _
  simp (config := {decide := true}) only [rdChunkBody, chunkParts, rdU32be_put, Patch.tagFHDR, Patch.tagAPLY,
    Spec.ZiPatch.tagAPLY, List.cons_append, List.nil_append, List.append_assoc, List.take_succ_cons, List.take_zero,
    List.drop_succ_cons, List.drop_zero, ↓reduceIte, hwf, hz]

theorem rdChunkBody_adir (sz : UInt32) (name rest : Bytes) (hwf : (Cmd.adir name).wf = true) :
    rdChunkBody (putU32be sz ++ (Spec.ZiPatch.tagADIR ++ ((chunkParts (.adir name)).2 ++ rest))) =
      .ok (.addDirectory name) rest := by
  simp only [Cmd.wf, Bool.and_eq_true, decide_eq_true_eq] at hwf
  have hs := rdString_id (u32 name.length).toNat name rest (u32_toNat _ (by omega)) hwf.1
  simp (config := {decide := true}) only [rdChunkBody, chunkParts, rdU32be_put, Patch.tagFHDR, Patch.tagAPLY,
    Patch.tagADIR, Spec.ZiPatch.tagADIR, List.cons_append, List.nil_append, List.append_assoc,
    List.take_succ_cons, List.take_zero, List.drop_succ_cons, List.drop_zero, ↓reduceIte, rdDirectory, hs]

theorem rdChunkBody_deld (sz : UInt32) (name rest : Bytes) (hwf : (Cmd.deld name).wf = true) :
    rdChunkBody (putU32be sz ++ (Spec.ZiPatch.tagDELD ++ ((chunkParts (.deld name)).2 ++ rest))) =
      .ok (.deleteDirectory name) rest := by
  simp only [Cmd.wf, Bool.and_eq_true, decide_eq_true_eq] at hwf
  have hs := rdString_id (u32 name.length).toNat name rest (u32_toNat _ (by omega)) hwf.1
  simp (config := {decide := true}) only [rdChunkBody, chunkParts, rdU32be_put, Patch.tagFHDR, Patch.tagAPLY,
    Patch.tagADIR, Patch.tagDELD, Spec.ZiPatch.tagDELD, List.cons_append, List.nil_append, List.append_assoc,
    List.take_succ_cons, List.take_zero, List.drop_succ_cons, List.drop_zero, ↓reduceIte, rdDirectory, hs]

/-! ### every command -/

def blocksBytes : Cmd → Bytes
  | .addFile _ _ _ blocks => (blocks.map encodeBlock).flatten
  | _ => []

def crcBytes (c : Cmd) : Bytes := putU32be (Spec.Crc32.zlibCrc32 0 ((chunkParts c).1 ++ (chunkParts c).2))

theorem crcBytes_length (c : Cmd) : (crcBytes c).length = 4 := by simp [crcBytes]

theorem rdChunkBody_encodeCmd (c : Cmd) (hwf : c.wf = true) (rest : Bytes) :
    rdChunkBody (encodeCmd c ++ rest) = .ok (toChunk c) (blocksBytes c ++ (crcBytes c ++ rest)) := by
  cases c with
  | fhdr2 name depot =>
    have := rdChunkBody_fhdr2 (u32 (chunkParts (.fhdr2 name depot)).2.length) name depot
      (crcBytes (.fhdr2 name depot) ++ rest) hwf
    simpa only [encodeCmd, chunkParts, List.append_assoc, toChunk, blocksBytes, crcBytes, List.nil_append] using this
  | fhdr3 name nums =>
    have := rdChunkBody_fhdr3 (u32 (chunkParts (.fhdr3 name nums)).2.length) name nums
      (crcBytes (.fhdr3 name nums) ++ rest) hwf
    simpa only [encodeCmd, chunkParts, List.append_assoc, toChunk, blocksBytes, crcBytes, List.nil_append] using this
  | aply opt val =>
    have := rdChunkBody_aply (u32 (chunkParts (.aply opt val)).2.length) opt val (crcBytes (.aply opt val) ++ rest) hwf
    simpa only [encodeCmd, chunkParts, List.append_assoc, toChunk, blocksBytes, crcBytes, List.nil_append] using this
  | adir name =>
    have := rdChunkBody_adir (u32 (chunkParts (.adir name)).2.length) name (crcBytes (.adir name) ++ rest) hwf
    simpa only [encodeCmd, chunkParts, List.append_assoc, toChunk, blocksBytes, crcBytes, List.nil_append] using this
  | deld name =>
    have := rdChunkBody_deld (u32 (chunkParts (.deld name)).2.length) name (crcBytes (.deld name) ++ rest) hwf
    simpa only [encodeCmd, chunkParts, List.append_assoc, toChunk, blocksBytes, crcBytes, List.nil_append] using this
  | patchInfo st v inst =>
    simp only [encodeCmd, chunkParts, List.append_assoc, rdChunkBody_sqpk, rdSqpk_patchInfo, toChunk, blocksBytes,
      crcBytes, List.nil_append]
  | target pl rg dbg v del sk =>
    simp only [encodeCmd, chunkParts, List.append_assoc, rdChunkBody_sqpk, rdSqpk_target _ _ _ _ _ _ _ _ hwf, toChunk,
      blocksBytes, crcBytes, List.nil_append]
  | index add syn h off num =>
    simp only [encodeCmd, chunkParts, List.append_assoc, rdChunkBody_sqpk, rdSqpk_index, toChunk, blocksBytes,
      crcBytes, List.nil_append]
  | addData m sub f off del data =>
    simp only [encodeCmd, chunkParts, List.append_assoc, rdChunkBody_sqpk, rdSqpk_addData _ _ _ _ _ _ _ _ hwf, toChunk,
      blocksBytes, crcBytes, List.nil_append]
  | deleteData m sub f off num =>
    simp only [encodeCmd, chunkParts, List.append_assoc, rdChunkBody_sqpk, rdSqpk_deleteData, toChunk, blocksBytes,
      crcBytes, List.nil_append]
  | expandData m sub f off num =>
    simp only [encodeCmd, chunkParts, List.append_assoc, rdChunkBody_sqpk, rdSqpk_expandData, toChunk, blocksBytes,
      crcBytes, List.nil_append]
  | header isIdx k m sub f data =>
    simp only [encodeCmd, chunkParts, List.append_assoc, rdChunkBody_sqpk, rdSqpk_header _ _ _ _ _ _ _ _ hwf, toChunk,
      blocksBytes, crcBytes, List.nil_append]
  | addFile off exp path blocks =>
    simp only [Cmd.wf, Bool.and_eq_true, decide_eq_true_eq] at hwf
    simp only [encodeCmd, chunkParts, sqpkBody, List.append_assoc, rdChunkBody_sqpk,
      rdSqpk_fileOp _ 0x41 .addFile (by decide) _ _ _ _ _ (pathOk_ascii _ hwf.1.1.1) hwf.1.1.2, toChunk,
      blocksBytes, crcBytes]
  | deleteFile exp path =>
    simp only [Cmd.wf, Bool.and_eq_true, decide_eq_true_eq] at hwf
    simp only [encodeCmd, chunkParts, sqpkBody, List.append_assoc, rdChunkBody_sqpk,
      rdSqpk_fileOp _ 0x44 .deleteFile (by decide) _ _ _ _ _ (pathOk_ascii _ hwf.1) hwf.2, toChunk,
      blocksBytes, crcBytes, List.nil_append]
  | removeAll exp path =>
    simp only [Cmd.wf, Bool.and_eq_true, decide_eq_true_eq] at hwf
    simp only [encodeCmd, chunkParts, sqpkBody, List.append_assoc, rdChunkBody_sqpk,
      rdSqpk_fileOp _ 0x52 .removeAll (by decide) _ _ _ _ _ (pathOk_ascii _ hwf.1) hwf.2, toChunk,
      blocksBytes, crcBytes, List.nil_append]
  | mkDirTree exp path =>
    simp only [Cmd.wf, Bool.and_eq_true, decide_eq_true_eq] at hwf
    simp only [encodeCmd, chunkParts, sqpkBody, List.append_assoc, rdChunkBody_sqpk,
      rdSqpk_fileOp _ 0x4d .makeDirTree (by decide) _ _ _ _ _ (pathOk_ascii _ hwf.1) hwf.2, toChunk,
      blocksBytes, crcBytes, List.nil_append]

/-! ### file blocks as the specification encodes them -/

theorem pad128_eq_div (l : UInt64) (h : l < 0x80000000) : pad128 l = (l + 143) / 128 * 128 := by
  simp only [pad128]; bv_decide (timeout := 300)

theorem pad128_toNat (n : Nat) (h : n < 2 ^ 31) : (pad128 (UInt64.ofNat n)).toNat = paddedLen n := by
  have hn : (UInt64.ofNat n).toNat = n := by simp [UInt64.toNat_ofNat']; omega
  have hlt : UInt64.ofNat n < 0x80000000 := by rw [UInt64.lt_iff_toNat_lt, hn]; simpa using h
  rw [pad128_eq_div _ hlt, UInt64.toNat_mul, UInt64.toNat_div, UInt64.toNat_add, hn]
  simp only [paddedLen, UInt64.toNat_ofNat, Nat.reducePow, Nat.reduceMod]
  omega

theorem ofNat32_toUInt64 (n : Nat) (h : n < 2 ^ 32) : (u32 n).toUInt64 = UInt64.ofNat n := by
  apply UInt64.toNat_inj.mp
  have := u32_toNat n h
  simp [this, UInt64.toNat_ofNat']; omega

theorem readDataBlockPatch_encodeBlock (inflate : Bytes → Nat → Option Bytes) (b : Block) (rest : Bytes)
    (hwf : b.wf = true) (hinf : b.inflateOk inflate) :
    readDataBlockPatch inflate (encodeBlock b ++ rest) = some (b.data, rest) := by
  cases b with
  | raw d =>
    simp only [Block.wf, Bool.and_eq_true, decide_eq_true_eq] at hwf
    have hpl : paddedLen d.length = (d.length + 143) / 128 * 128 := rfl
    obtain ⟨pv, pr, hp⟩ := rdU32le_isSome (d ++ (zeros (paddedLen d.length - 16 - d.length) ++ rest))
      (by simp; omega)
    have hy : (u32 d.length).toNat = d.length := u32_toNat _ (by omega)
    have hy64 := ofNat32_toUInt64 d.length (by omega)
    have hpad := pad128_toNat d.length hwf.2
    have hx : (32000 : UInt32).toNat = 32000 := by decide
    have h1 : ¬ (2 ^ 31 ≤ (32000 : UInt32).toNat ∨ 2 ^ 31 ≤ d.length) := by rw [hx]; omega
    have h2 : ¬ (32000 : UInt32).toNat < 32000 := by rw [hx]; omega
    have h16 : (16 : UInt32).toUInt64 = 16 := by decide
    have hL : (UInt64.ofNat d.length).toNat = d.length := by simp [UInt64.toNat_ofNat']; omega
    have h3 : ¬ pad128 (UInt64.ofNat d.length) < 16 + UInt64.ofNat d.length := by
      rw [UInt64.lt_iff_toNat_lt, hpad, UInt64.toNat_add, hL]
      simp only [UInt64.toNat_ofNat, Nat.reducePow, Nat.reduceMod]; omega
    have h4 : (pad128 (UInt64.ofNat d.length) - 16 - UInt64.ofNat d.length).toNat =
        paddedLen d.length - 16 - d.length := by
      have e1 : (pad128 (UInt64.ofNat d.length) - 16).toNat = paddedLen d.length - 16 := by
        rw [UInt64.toNat_sub_of_le _ _ (by rw [UInt64.le_iff_toNat_le, hpad]; simp; omega), hpad]; rfl
      rw [UInt64.toNat_sub_of_le _ _ (by rw [UInt64.le_iff_toNat_le, e1, hL]; omega), e1, hL]
    simp only [encodeBlock, List.append_assoc, readDataBlockPatch, rdU32le_put, drop4_putU32le,
      Option.bind_eq_bind, Option.bind_some, hp, hy, hy64, h1, h2, ↓reduceIte, rdN_append, h16, h3, h4,
      drop_zeros, Block.data]
    rfl
  | deflated c d =>
    simp only [Block.wf, Bool.and_eq_true, decide_eq_true_eq] at hwf
    have hpl : paddedLen c.length = (c.length + 143) / 128 * 128 := rfl
    obtain ⟨pv, pr, hp⟩ := rdU32le_isSome (c ++ (zeros (paddedLen c.length - 16 - c.length) ++ rest))
      (by simp; omega)
    have hx : (u32 c.length).toNat = c.length := u32_toNat _ (by omega)
    have hy : (u32 d.length).toNat = d.length := u32_toNat _ (by omega)
    have hx64 := ofNat32_toUInt64 c.length (by omega)
    have hpad := pad128_toNat c.length (by omega)
    have h1 : ¬ (2 ^ 31 ≤ c.length ∨ 2 ^ 31 ≤ d.length) := by omega
    have h2 : c.length < 32000 := hwf.2
    have hcap : ¬ 2 ^ 20 < d.length := by omega
    have h16 : (16 : UInt32).toUInt64 = 16 := by decide
    have h3 : ¬ pad128 (UInt64.ofNat c.length) < 16 := by
      rw [UInt64.lt_iff_toNat_lt, hpad]; simp; omega
    have h4 : (pad128 (UInt64.ofNat c.length) - 16).toNat =
        (c ++ zeros (paddedLen c.length - 16 - c.length)).length := by
      rw [UInt64.toNat_sub_of_le _ _ (by rw [UInt64.le_iff_toNat_le, hpad]; simp; omega), hpad]
      simp; omega
    have hrd := rdN_append' _ (c ++ zeros (paddedLen c.length - 16 - c.length)) rest h4
    simp only [List.append_assoc] at hrd
    simp only [Block.inflateOk] at hinf
    simp only [encodeBlock, List.append_assoc, readDataBlockPatch, rdU32le_put, drop4_putU32le,
      Option.bind_eq_bind, Option.bind_some, hp, hx, hy, hx64, h1, h2, hcap, ↓reduceIte, h16, h3, hrd, hinf, Block.data]
    rfl

theorem fileSize_cons (b : Block) (bs : List Block) : fileSize (b :: bs) = b.data.length + fileSize bs := by
  simp [fileSize]

theorem fileData_cons (b : Block) (bs : List Block) : fileData (b :: bs) = b.data ++ fileData bs := by
  simp [fileData]

theorem readBlocks_encode (inflate : Bytes → Nat → Option Bytes) (blocks : List Block)
    (hwf : ∀ b ∈ blocks, b.wf = true) (hinf : ∀ b ∈ blocks, b.inflateOk inflate) (rest acc : Bytes) (fuel : Nat)
    (hf : blocks.length + 1 ≤ fuel) :
    readBlocks inflate fuel ((blocks.map encodeBlock).flatten ++ rest) (acc.length + fileSize blocks) acc =
      some (acc ++ fileData blocks, rest) := by
  induction blocks generalizing acc fuel with
  | nil =>
    obtain ⟨k, rfl⟩ : ∃ k, fuel = k + 1 := ⟨fuel - 1, by simp at hf; omega⟩
    simp [readBlocks, fileSize, fileData]
  | cons b bs ih =>
    obtain ⟨k, rfl⟩ : ∃ k, fuel = k + 1 := ⟨fuel - 1, by simp at hf; omega⟩
    have hb := hwf b (List.mem_cons_self ..)
    have hpos : 0 < b.data.length := by
      cases b <;> simp only [Block.wf, Bool.and_eq_true, decide_eq_true_eq] at hb <;> simp only [Block.data] <;> omega
    have hrd := readDataBlockPatch_encodeBlock inflate b ((bs.map encodeBlock).flatten ++ rest) hb
      (hinf b (List.mem_cons_self ..))
    have := ih (fun x hx => hwf x (List.mem_cons_of_mem _ hx)) (fun x hx => hinf x (List.mem_cons_of_mem _ hx))
      (acc ++ b.data) k (by simp at hf ⊢; omega)
    simp only [List.length_append] at this
    simp only [readBlocks, List.map_cons, List.flatten_cons, List.append_assoc, fileSize_cons, fileData_cons, hrd,
      show acc.length < acc.length + (b.data.length + fileSize bs) by omega, ↓reduceIte]
    rw [← Nat.add_assoc, this, List.append_assoc]

/-- the AddFile payload a command carries -/
def payload : Cmd → Bytes
  | .addFile _ _ _ blocks => fileData blocks
  | _ => []

def cmdInflateOk (inflate : Bytes → Nat → Option Bytes) : Cmd → Prop
  | .addFile _ _ _ blocks => ∀ b ∈ blocks, b.inflateOk inflate
  | _ => True

theorem encodeBlock_length_pos (b : Block) : 0 < (encodeBlock b).length := by
  cases b <;> simp [encodeBlock] <;> omega

theorem applyLoop_encodeCmd (inflate : Bytes → Nat → Option Bytes) (fuel : Nat) (c : Cmd) (rest : Bytes)
    (ti : Option UInt8) (t : Tree) (hwf : c.wf = true) (hinf : cmdInflateOk inflate c) :
    applyLoop inflate (fuel + 1) (encodeCmd c ++ rest) ti t =
      match applyChunk ti t (payload c) (toChunk c) with
      | (ti', t', none) => applyLoop inflate fuel rest ti' t'
      | (_, t', some o) => (o, t') := by
  have hdrop : (crcBytes c ++ rest).drop 4 = rest := by rw [← crcBytes_length c]; simp
  have hlen : ¬ (blocksBytes c ++ (crcBytes c ++ rest)).length < 4 := by
    simp [crcBytes_length]; omega
  rw [applyLoop, rdChunkBody_encodeCmd c hwf rest]
  cases c with
  | addFile off exp path blocks =>
    simp only [Cmd.wf, Bool.and_eq_true, decide_eq_true_eq, List.all_eq_true] at hwf
    have hsz : (UInt64.ofNat (fileSize blocks)).toNat = fileSize blocks := by
      simp [UInt64.toNat_ofNat']; omega
    have hfuel : blocks.length + 1 ≤ (blocksBytes (.addFile off exp path blocks) ++
        (crcBytes (.addFile off exp path blocks) ++ rest)).length + 1 := by
      have := flatten_map_length_ge blocks encodeBlock encodeBlock_length_pos
      simp only [blocksBytes, List.length_append]; omega
    have hrb := readBlocks_encode inflate blocks hwf.1.2 hinf (crcBytes (.addFile off exp path blocks) ++ rest) [] _ hfuel
    simp only [List.length_nil, Nat.zero_add, List.nil_append] at hrb
    simp only [toChunk, hlen, ↓reduceIte, hsz, payload]
    cases hmk : mkdirAll t [] (pathComps path).1 with
    | none => simp [applyChunk, hmk]
    | some t1 =>
      simp only [blocksBytes] at hrb ⊢
      simp only [addFileBlocks_of_readBlocks inflate (pathComps path).2 off (fileSize blocks) _ _ _ _ t1 hrb,
        hdrop, applyChunk, hmk]
      cases openCreate t1 (pathComps path).2 <;> rfl
  | _ =>
    simp only [blocksBytes, List.nil_append] at hlen
    simp only [toChunk, hlen, ↓reduceIte, blocksBytes, List.nil_append, hdrop, payload]
    rfl

end Physis.Patch
