import PhysisModel.Model.Mdl
import PhysisModel.Spec.Mdl
import PhysisModel.Base.BytesLemmas
import Std.Tactic.BVDecide
/-!
Round-trip lemmas for the sequential grammar of the MDL reader: every record parser reads back
the record from its `Spec.Mdl.enc…` encoding, whatever follows.
-/
namespace Physis.Mdl
open Physis Physis.Spec.Mdl

/-! ### monad plumbing -/

@[simp] theorem pureP_apply (a : α) (s : Bytes) : (Pure.pure a : P α) s = .ok (a, s) := rfl

@[simp] theorem pureP_bind (a : α) (f : α → P β) (s : Bytes) :
    ((Pure.pure a : P α) >>= f) s = f a s := rfl

theorem P.bind_apply (p : P α) (f : α → P β) (s : Bytes) :
    (p >>= f) s = match p s with
      | .ok (a, s') => f a s'
      | .error e => .error e := rfl

theorem P.bind_ok {p : P α} {f : α → P β} {s s' : Bytes} {a : α} (h : p s = .ok (a, s')) :
    (p >>= f) s = f a s' := by
  rw [P.bind_apply, h]

@[simp] theorem P.failWith_apply (e : Err) (s : Bytes) : (P.failWith e : P α) s = .error e := rfl

/-! ### primitives on their own encodings -/

theorem u8_cons (a : UInt8) (r : Bytes) : u8 (a :: r) = .ok (a, r) := rfl

theorem u16_put (v : UInt16) (r : Bytes) : u16 (putU16le v ++ r) = .ok (v, r) := by
  have h := getU16le_put v
  simp only [putU16le, getU16le, Option.some.injEq] at h
  simp only [putU16le, u16, List.cons_append, List.nil_append, h]

theorem u32_put (v : UInt32) (r : Bytes) : u32 (putU32le v ++ r) = .ok (v, r) := by
  have h := getU32le_put v
  simp only [putU32le, getU32le, Option.some.injEq] at h
  simp only [putU32le, u32, List.cons_append, List.nil_append, h]

@[simp] theorem u8_bind (a : UInt8) (r : Bytes) (f : UInt8 → P β) :
    (u8 >>= f) (a :: r) = f a r := P.bind_ok (u8_cons a r)

@[simp] theorem u16_bind (v : UInt16) (r : Bytes) (f : UInt16 → P β) :
    (u16 >>= f) (putU16le v ++ r) = f v r := P.bind_ok (u16_put v r)

@[simp] theorem u32_bind (v : UInt32) (r : Bytes) (f : UInt32 → P β) :
    (u32 >>= f) (putU32le v ++ r) = f v r := P.bind_ok (u32_put v r)

@[simp] theorem skip_bind (n : Nat) (s : Bytes) (f : Unit → P β) :
    (skip n >>= f) s = f () (s.drop n) := rfl

theorem takeN_append (w r : Bytes) : takeN w.length (w ++ r) = .ok (w, r) := by
  simp [takeN]

theorem takeN_bind (w r : Bytes) (n : Nat) (h : w.length = n) (f : Bytes → P β) :
    (takeN n >>= f) (w ++ r) = f w r := by
  subst h; exact P.bind_ok (takeN_append w r)

theorem arr3_u32_bind (x : Arr3 UInt32) (r : Bytes) (f : Arr3 UInt32 → P β) :
    (arr3 u32 >>= f) (putArr3U32 x ++ r) = f x r := by
  apply P.bind_ok
  simp only [arr3, putArr3U32, List.append_assoc, u32_bind]; rfl

theorem arr3_u16_bind (x : Arr3 UInt16) (r : Bytes) (f : Arr3 UInt16 → P β) :
    (arr3 u16 >>= f) (putArr3U16 x ++ r) = f x r := by
  apply P.bind_ok
  simp only [arr3, putArr3U16, List.append_assoc, u16_bind]; rfl

theorem bool8_bind (b : Bool) (r : Bytes) (f : Bool → P β) :
    (bool8 >>= f) (putBool b ++ r) = f b r := by
  apply P.bind_ok
  cases b <;> simp [bool8, putBool] <;> rfl

/-- a vector of records: `count p l.length` reads back `l` from `l.flatMap enc` -/
theorem count_flatMap (p : P α) (enc : α → Bytes) (l : List α)
    (h : ∀ x ∈ l, ∀ r, p (enc x ++ r) = .ok (x, r)) (r : Bytes) :
    count p l.length (l.flatMap enc ++ r) = .ok (l, r) := by
  induction l with
  | nil => rfl
  | cons x xs ih =>
    simp only [List.length_cons, count, List.flatMap_cons, List.append_assoc]
    rw [P.bind_ok (h x (by simp) _), P.bind_ok (ih (fun y hy => h y (by simp [hy])))]
    rfl

theorem count_bind (p : P α) (enc : α → Bytes) (l : List α) (n : Nat) (hn : l.length = n)
    (h : ∀ x ∈ l, ∀ r, p (enc x ++ r) = .ok (x, r)) (r : Bytes) (f : List α → P β) :
    (count p n >>= f) (l.flatMap enc ++ r) = f l r := by
  subst hn; exact P.bind_ok (count_flatMap p enc l h r)

/-- fixed-size raw blocks: `count (takeN k) n` on the concatenation -/
theorem count_blocks (k : Nat) (l : List Bytes) (h : ∀ x ∈ l, x.length = k) (r : Bytes) :
    count (takeN k) l.length (l.flatten ++ r) = .ok (l, r) := by
  have := count_flatMap (takeN k) id l (fun x hx r => by
    have := takeN_append x r; rw [h x hx] at this; exact this) r
  simpa [List.flatMap_id] using this

theorem count_blocks_bind (k : Nat) (l : List Bytes) (n : Nat) (hn : l.length = n)
    (h : ∀ x ∈ l, x.length = k) (r : Bytes) (f : List Bytes → P β) :
    (count (takeN k) n >>= f) (l.flatten ++ r) = f l r := by
  subst hn; exact P.bind_ok (count_blocks k l h r)

/-! ### fixed-size records -/


theorem arr3_u8_bind (a b c : UInt8) (r : Bytes) (f : Arr3 UInt8 → P β) :
    (arr3 u8 >>= f) (a :: b :: c :: r) = f ⟨a, b, c⟩ r := by
  apply P.bind_ok
  simp only [arr3, u8_bind]; rfl

theorem parseSubmesh_enc (x : Submesh) (r : Bytes) : parseSubmesh (encSubmesh x ++ r) = .ok (x, r) := by
  simp only [parseSubmesh, encSubmesh, List.append_assoc, u32_bind, u16_bind]
  rfl

theorem parseMesh_enc (x : Mesh) (r : Bytes) : parseMesh (encMesh x ++ r) = .ok (x, r) := by
  simp only [parseMesh, encMesh, List.append_assoc, u32_bind, u16_bind, skip_bind, arr3_u32_bind,
    List.cons_append, List.nil_append, List.drop_succ_cons, List.drop_zero, arr3_u8_bind, u8_bind]
  rfl

theorem parseFileHeader_enc (x : FileHeader) (r : Bytes) :
    parseFileHeader (encFileHeader x ++ r) = .ok (x, r) := by
  simp only [parseFileHeader, encFileHeader, List.append_assoc, u32_bind, u16_bind, skip_bind,
    arr3_u32_bind, bool8_bind, List.cons_append, List.nil_append, List.drop_succ_cons, List.drop_zero, u8_bind]
  rfl

/-! ### the 17-slot declaration block -/


def elemValid (e : VertexElement) : Bool := validType e.vertexType && validUsage e.vertexUsage

theorem parseElement_enc (e : VertexElement) (h : elemValid e = true) (r : Bytes) :
    parseElement (encElement e ++ r) = .ok (e, r) := by
  simp only [elemValid, Bool.and_eq_true] at h
  simp only [parseElement, encElement, List.cons_append, List.nil_append, u8_bind, h.1, h.2,
    Bool.not_true, Bool.false_eq_true, ↓reduceIte, skip_bind, List.drop_succ_cons, List.drop_zero]
  rfl

def endElement : VertexElement := ⟨0xFF, 0, 0, 0, 0⟩

theorem parseElement_end (r : Bytes) : parseElement (endMarker ++ r) = .ok (endElement, r) := by
  simp only [parseElement, endMarker, List.cons_append, List.nil_append, u8_bind, skip_bind,
    List.drop_succ_cons, List.drop_zero]
  rfl

theorem declLoop_enc (es : List VertexElement) :
    ∀ (fuel : Nat) (e : VertexElement) (acc : List VertexElement) (r : Bytes), es.length < fuel →
      (∀ x ∈ es, elemValid x = true ∧ x.stream ≠ 0xFF) →
      declLoop fuel e acc (es.flatMap encElement ++ (endMarker ++ r)) = .ok (acc ++ e :: es, r) := by
  induction es with
  | nil =>
    intro fuel e acc r hf _
    obtain ⟨f, rfl⟩ : ∃ f, fuel = f + 1 := ⟨fuel - 1, by omega⟩
    simp only [declLoop, List.flatMap_nil, List.nil_append]
    rw [P.bind_ok (parseElement_end r)]
    rfl
  | cons x xs ih =>
    intro fuel e acc r hf hv
    obtain ⟨f, rfl⟩ : ∃ f, fuel = f + 1 := ⟨fuel - 1, by omega⟩
    have hx := hv x (by simp)
    simp only [declLoop, List.flatMap_cons, List.append_assoc]
    rw [P.bind_ok (parseElement_enc x hx.1 _)]
    have hne : (x.stream == 0xFF) = false := by simpa using hx.2
    simp only [hne, Bool.false_eq_true, ↓reduceIte]
    rw [ih f x (acc ++ [e]) r (by simp at hf; omega) (fun y hy => hv y (by simp [hy]))]
    simp

theorem length_flatMap_encElement (es : List VertexElement) :
    (es.flatMap encElement).length = 8 * es.length := by
  induction es with
  | nil => rfl
  | cons x xs ih => simp [List.flatMap_cons, encElement, ih]; omega

/-- the predicate under which a declaration block round-trips: 1..16 valid elements, none but
possibly the first carrying the end-of-stream marker as its stream -/
def declOk (d : List VertexElement) : Bool :=
  1 ≤ d.length && d.length ≤ 16 && d.all elemValid && (d.drop 1).all (fun e => e.stream != 0xFF)

theorem parseDecl_enc (d : List VertexElement) (h : declOk d = true) (r : Bytes) :
    parseDecl (encDecl d ++ r) = .ok (d, r) := by
  simp only [declOk, Bool.and_eq_true, decide_eq_true_eq, List.all_eq_true, bne_iff_ne] at h
  obtain ⟨⟨⟨h1, h16⟩, hv⟩, hs⟩ := h
  match d, h1 with
  | e :: es, _ =>
    simp only [List.length_cons] at h16
    have hlen : (encDecl (e :: es) ++ r).length = 136 + r.length := by
      simp only [encDecl, List.length_append, length_flatMap_encElement, endMarker, zeros,
        List.length_replicate, List.length_cons, List.length_nil]; omega
    unfold parseDecl
    simp only [hlen]
    simp only [encDecl, List.flatMap_cons, List.append_assoc]
    rw [P.bind_ok (parseElement_enc e (hv e (by simp)) _)]
    rw [P.bind_ok (declLoop_enc es _ e [] _ (by omega)
      (fun x hx => ⟨hv x (by simp [hx]), hs x (by simpa using hx)⟩))]
    simp only [List.nil_append, List.length_cons]
    have : ¬ ((es.length + 1 + 1) * 8 > 17 * 8) := by omega
    simp only [this, ↓reduceIte, skip_bind]
    have hz : (zeros ((16 - (es.length + 1)) * 8) ++ r).drop (17 * 8 - (es.length + 1 + 1) * 8) = r := by
      apply List.drop_left'
      simp [zeros]; omega
    rw [hz]; rfl



theorem parseMeshLod_enc (x : MeshLod) (h : x.mid.length = 28) (r : Bytes) :
    parseMeshLod (encMeshLod x ++ r) = .ok (x, r) := by
  simp only [parseMeshLod, encMeshLod, List.append_assoc, u32_bind, u16_bind, skip_bind,
    takeN_bind _ _ _ h, zeros, List.replicate, List.cons_append, List.nil_append,
    List.drop_succ_cons, List.drop_zero]
  rfl

theorem parseShape_enc (x : ShapeStruct) (r : Bytes) : parseShape (encShape x ++ r) = .ok (x, r) := by
  simp only [parseShape, encShape, List.append_assoc, u32_bind, arr3_u16_bind]
  rfl

theorem parseShapeMesh_enc (x : ShapeMesh) (r : Bytes) :
    parseShapeMesh (encShapeMesh x ++ r) = .ok (x, r) := by
  simp only [parseShapeMesh, encShapeMesh, List.append_assoc, u32_bind]
  rfl

theorem parseShapeValue_enc (x : ShapeValue) (r : Bytes) :
    parseShapeValue (encShapeValue x ++ r) = .ok (x, r) := by
  simp only [parseShapeValue, encShapeValue, List.append_assoc, u16_bind]
  rfl

theorem parseBoneTable_enc (x : BoneTable) (h : x.boneIndices.length = 64) (r : Bytes) :
    parseBoneTable (encBoneTable x ++ r) = .ok (x, r) := by
  simp only [parseBoneTable, encBoneTable, List.append_assoc]
  rw [count_bind u16 putU16le x.boneIndices 64 h (fun v _ r => u16_put v r)]
  simp only [List.cons_append, List.nil_append, u8_bind, skip_bind, zeros, List.replicate,
    List.drop_succ_cons, List.drop_zero]
  rfl

theorem parseBoneTableV2_enc (x : BoneTableV2) (h : boneTableV2Ok x = true) (r : Bytes) :
    parseBoneTableV2 (encBoneTableV2 x ++ r) = .ok (x, r) := by
  simp only [boneTableV2Ok, Bool.and_eq_true, beq_iff_eq, Bool.or_eq_true] at h
  simp only [parseBoneTableV2, encBoneTableV2, List.append_assoc, List.cons_append, List.nil_append,
    skip_bind, List.drop_succ_cons, List.drop_zero, u16_bind]
  rw [count_bind u16 putU16le x.boneIndices _ h.1 (fun v _ r => u16_put v r)]
  by_cases he : (x.boneCount % 2 == 0) = true
  · simp only [he, ↓reduceIte, condP, u16_bind]; rfl
  · simp only [he, Bool.false_eq_true, ↓reduceIte, condP, List.nil_append]
    have hp : x.padding = 0 := by
      rcases h.2 with h2 | h2
      · exact absurd (by simpa using h2) he
      · exact h2
    cases x; simp only at hp; subst hp; rfl

/-- header fields that must be valid enum discriminants / consistent lengths -/
def headerOk (h : ModelHeader) : Bool :=
  validFlags1 h.flags1 && validFlags2 h.flags2 && h.strings.length == h.stringSize.toNat

theorem parseModelHeader_enc (x : ModelHeader) (h : headerOk x = true) (r : Bytes) :
    parseModelHeader (encModelHeader x ++ r) = .ok (x, r) := by
  simp only [headerOk, Bool.and_eq_true, beq_iff_eq] at h
  simp only [parseModelHeader, encModelHeader, List.append_assoc, u32_bind, u16_bind, skip_bind,
    takeN_bind _ _ _ h.2, zeros, List.replicate, List.cons_append, List.nil_append,
    List.drop_succ_cons, List.drop_zero, u8_bind, h.1.1, h.1.2, Bool.not_true, Bool.false_eq_true,
    ↓reduceIte]
  rfl


/-! ### the whole runtime block -/


/-- consistency of a `ModelData` value with its own count fields (and the file header's
declaration count / version): exactly what the grammar needs to read the value back -/
def modelDataOk (fh : FileHeader) (d : ModelData) : Bool :=
  d.decls.length == fh.vertexDeclarationCount.toNat && d.decls.all declOk &&
  headerOk d.header &&
  d.elementIds.length == d.header.elementIdCount.toNat && blocksOk 32 d.elementIds &&
  d.lods.length == 3 && d.lods.all (fun l => l.mid.length == 28) &&
  d.meshes.length == d.header.meshCount.toNat &&
  d.attributeNameOffsets.length == d.header.attributeCount.toNat &&
  d.terrainShadowMeshes.length == d.header.terrainShadowMeshCount.toNat &&
  blocksOk 20 d.terrainShadowMeshes &&
  d.submeshes.length == d.header.submeshCount.toNat &&
  d.terrainShadowSubmeshes.length == d.header.terrainShadowSubmeshCount.toNat &&
  blocksOk 12 d.terrainShadowSubmeshes &&
  d.materialNameOffsets.length == d.header.materialCount.toNat &&
  d.boneNameOffsets.length == d.header.boneCount.toNat &&
  (if isV5 fh.version then
    d.boneTables.length == d.header.boneTableCount.toNat && d.boneTables.all boneTableOk &&
    d.boneTablesV2.isEmpty && d.submeshBoneMapSizeV2 == 0 &&
    d.submeshBoneMap.length == (d.submeshBoneMapSize / 2).toNat
   else
    d.boneTablesV2.length == d.header.boneTableCount.toNat && d.boneTablesV2.all boneTableV2Ok &&
    d.boneTables.isEmpty && d.submeshBoneMapSize == 0 &&
    d.submeshBoneMap.length == (d.submeshBoneMapSizeV2 / 2).toNat) &&
  d.shapes.length == d.header.shapeCount.toNat &&
  d.shapeMeshes.length == d.header.shapeMeshCount.toNat &&
  d.shapeValues.length == d.header.shapeValueCount.toNat &&
  d.unknownPadding.length == d.paddingAmount.toNat &&
  d.boundingBoxes.length == 128 &&
  d.boneBoundingBoxes.length == d.header.boneCount.toNat && blocksOk 32 d.boneBoundingBoxes

theorem v5_eq (v : UInt32) : v5 v = isV5 v := rfl
theorem v6_eq (v : UInt32) : v6 v = isV6 v := rfl
theorem isV6_of_not_isV5 (v : UInt32) (h : isV5 v = false) : isV6 v = true := by
  simp only [isV5, isV6, decide_eq_false_iff_not, decide_eq_true_eq, UInt32.not_le, ge_iff_le] at *
  exact UInt32.le_iff_toNat_le.mpr (by have := UInt32.lt_iff_toNat_lt.mp h; simp at this ⊢; omega)
theorem not_isV6_of_isV5 (v : UInt32) (h : isV5 v = true) : isV6 v = false := by
  simp only [isV5, isV6, decide_eq_false_iff_not, decide_eq_true_eq, UInt32.not_le, ge_iff_le] at *
  exact UInt32.lt_iff_toNat_lt.mpr (by have := UInt32.le_iff_toNat_le.mp h; simp at this ⊢; omega)

theorem blocksOk_iff (k : Nat) (l : List Bytes) : blocksOk k l = true ↔ ∀ x ∈ l, x.length = k := by
  simp [blocksOk]


theorem parseModelData_enc (fh : FileHeader) (d : ModelData) (h : modelDataOk fh d = true)
    (r : Bytes) : parseModelData fh (encModelData fh.version d ++ r) = .ok (d, r) := by
  simp only [modelDataOk, Bool.and_eq_true, beq_iff_eq, List.all_eq_true, blocksOk_iff, and_assoc] at h
  obtain ⟨hdl, hdo, hh, he1, he2, hl1, hl2, hm, ha, ht1, ht2, hs, hts1, hts2, hmat, hbn, hver, hsh,
    hsm, hsv, hpad, hbb, hbb1, hbb2⟩ := h
  simp only [parseModelData, encModelData, List.append_assoc, v5_eq, v6_eq]
  rw [count_bind parseDecl encDecl d.decls _ hdl (fun x hx r => parseDecl_enc x (hdo x hx) r)]
  rw [P.bind_ok (parseModelHeader_enc d.header hh _)]
  rw [count_blocks_bind 32 d.elementIds _ he1 he2]
  rw [count_bind parseMeshLod encMeshLod d.lods 3 hl1
    (fun x hx r => parseMeshLod_enc x (by simpa using hl2 x hx) r)]
  rw [count_bind parseMesh encMesh d.meshes _ hm (fun x _ r => parseMesh_enc x r)]
  rw [count_bind u32 putU32le d.attributeNameOffsets _ ha (fun x _ r => u32_put x r)]
  rw [count_blocks_bind 20 d.terrainShadowMeshes _ ht1 ht2]
  rw [count_bind parseSubmesh encSubmesh d.submeshes _ hs (fun x _ r => parseSubmesh_enc x r)]
  rw [count_blocks_bind 12 d.terrainShadowSubmeshes _ hts1 hts2]
  rw [count_bind u32 putU32le d.materialNameOffsets _ hmat (fun x _ r => u32_put x r)]
  rw [count_bind u32 putU32le d.boneNameOffsets _ hbn (fun x _ r => u32_put x r)]
  have hcases : isV5 fh.version = false ∨ isV5 fh.version = true := by
    cases isV5 fh.version <;> simp
  rcases hcases with hv | hv
  · -- version ≥ 6
    have hv6 := isV6_of_not_isV5 _ hv
    simp only [hv, Bool.false_eq_true, ↓reduceIte, Bool.and_eq_true, beq_iff_eq,
      List.all_eq_true, List.isEmpty_iff, and_assoc] at hver
    obtain ⟨hb1, hb2, hb3, hb4, hb5⟩ := hver
    simp only [hv, hv6, condP, Bool.false_eq_true, ↓reduceIte, List.nil_append, pureP_bind]
    rw [count_bind parseBoneTableV2 encBoneTableV2 d.boneTablesV2 _ hb1
      (fun x hx r => parseBoneTableV2_enc x (hb2 x hx) r)]
    rw [count_bind parseShape encShape d.shapes _ hsh (fun x _ r => parseShape_enc x r)]
    rw [count_bind parseShapeMesh encShapeMesh d.shapeMeshes _ hsm (fun x _ r => parseShapeMesh_enc x r)]
    rw [count_bind parseShapeValue encShapeValue d.shapeValues _ hsv (fun x _ r => parseShapeValue_enc x r)]
    simp only [u16_bind, pureP_bind]
    rw [count_bind u16 putU16le d.submeshBoneMap _ hb5 (fun x _ r => u16_put x r)]
    simp only [List.cons_append, List.nil_append, u8_bind]
    rw [takeN_bind _ _ _ hpad, takeN_bind _ _ _ hbb, count_blocks_bind 32 d.boneBoundingBoxes _ hbb1 hbb2]
    cases d; simp only at hb3 hb4; subst hb3 hb4; rfl
  · -- version ≤ 5
    have hv6 := not_isV6_of_isV5 _ hv
    simp only [hv, ↓reduceIte, Bool.and_eq_true, beq_iff_eq, List.all_eq_true,
      List.isEmpty_iff, and_assoc] at hver
    obtain ⟨hb1, hb2, hb3, hb4, hb5⟩ := hver
    simp only [hv, hv6, condP, Bool.false_eq_true, ↓reduceIte, List.nil_append, pureP_bind]
    rw [count_bind parseBoneTable encBoneTable d.boneTables _ hb1
      (fun x hx r => parseBoneTable_enc x (by simpa [boneTableOk] using hb2 x hx) r)]
    simp only [pureP_bind]
    rw [count_bind parseShape encShape d.shapes _ hsh (fun x _ r => parseShape_enc x r)]
    rw [count_bind parseShapeMesh encShapeMesh d.shapeMeshes _ hsm (fun x _ r => parseShapeMesh_enc x r)]
    rw [count_bind parseShapeValue encShapeValue d.shapeValues _ hsv (fun x _ r => parseShapeValue_enc x r)]
    simp only [u32_bind, pureP_bind]
    rw [count_bind u16 putU16le d.submeshBoneMap _ hb5 (fun x _ r => u16_put x r)]
    simp only [List.cons_append, List.nil_append, u8_bind]
    rw [takeN_bind _ _ _ hpad, takeN_bind _ _ _ hbb, count_blocks_bind 32 d.boneBoundingBoxes _ hbb1 hbb2]
    cases d; simp only at hb3 hb4; subst hb3 hb4; rfl


end Physis.Mdl
