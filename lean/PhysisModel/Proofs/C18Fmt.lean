import PhysisModel.Base.ParserALemmas
import PhysisModel.Model.C18Fmt
import PhysisModel.Proofs.C18Hdr
/-! `Good` for `cmp`, `tex`, `EXD::read_row`. -/
namespace Physis.C18Fmt
open Physis Physis.A Physis.C18Hdr

/-! ## cmp -/

theorem racialParams_good : PGood racialParams := by unfold racialParams; pgood

theorem cmp_good (b : Bytes) : Good (budget b.length) (cmp b) := by
  unfold cmp
  apply Good.bind (good_subQ _ _ _); intro rem _
  apply Good.bind'
  · apply PGood.run
    have := racialParams_good
    pgood
  · intro _; exact good_pure _ _

/-! ## tex -/

theorem u16leNat_post : PPost u16leNat (fun v => v ≤ 65535) :=
  PPost.map (fun a => by have := UInt16.toNat_lt a; omega)

theorem texHeader_good : PGood texHeader := by
  have := u32leNat_good; have := u16leNat_good
  unfold texHeader; pgood

theorem texHeader_post :
    PPost texHeader (fun h => h.width ≤ 65535 ∧ h.height ≤ 65535 ∧ h.depth ≤ 65535) := by
  unfold texHeader
  refine PPost.bind_skip (fun _ => ?_)
  refine PPost.bind_skip (fun _ => ?_)
  refine PPost.bind (Q1 := fun v => v ≤ 65535) u16leNat_post (fun w hw => ?_)
  refine PPost.bind (Q1 := fun v => v ≤ 65535) u16leNat_post (fun h hh => ?_)
  refine PPost.bind (Q1 := fun v => v ≤ 65535) u16leNat_post (fun d hd => ?_)
  refine PPost.bind_skip (fun _ => ?_)
  refine PPost.bind_skip (fun _ => ?_)
  refine PPost.bind_skip (fun _ => ?_)
  exact PPost.pure ⟨hw, hh, hd⟩

theorem texHeader_consumes : ConsumesN 80 texHeader := by
  unfold texHeader
  have h : ConsumesN (4 + (4 + (2 + (2 + (2 + (2 + (12 + (52 + 0)))))))) (do
      let _ ← P.u32le
      let format ← P.reprEnum u32leNat texFormats
      let width ← u16leNat
      let height ← u16leNat
      let depth ← u16leNat
      let _ ← P.u16le
      let _ ← P.bytes 12
      let _ ← P.bytes 52
      pure (⟨format, width, height, depth⟩ : TexHeader)) := by
    apply ConsumesN.bind ConsumesN.u32le; intro _
    apply ConsumesN.bind (ConsumesN.reprEnum (ConsumesN.map ConsumesN.u32le)); intro _
    apply ConsumesN.bind (ConsumesN.map ConsumesN.u16le); intro _
    apply ConsumesN.bind (ConsumesN.map ConsumesN.u16le); intro _
    apply ConsumesN.bind (ConsumesN.map ConsumesN.u16le); intro _
    apply ConsumesN.bind ConsumesN.u16le; intro _
    apply ConsumesN.bind (ConsumesN.bytes 12); intro _
    apply ConsumesN.bind (ConsumesN.bytes 52); intro _
    exact ConsumesN.pure _
  exact h

theorem loop4444_good (B srcLen dstLen : Nat) :
    ∀ (n off doff : Nat), off + 2 * n ≤ srcLen → doff + 4 * n ≤ dstLen →
      Good B (loop4444 srcLen dstLen n off doff) := by
  intro n
  induction n with
  | zero => intro off doff _ _; unfold loop4444; exact good_ok _ _
  | succ n ih =>
    intro off doff h1 h2
    unfold loop4444
    rw [if_pos (by omega)]
    exact ih (off + 2) (doff + 4) (by omega) (by omega)

theorem loop8888_good (B srcLen dstLen : Nat) :
    ∀ (n off : Nat), off + 4 * n ≤ srcLen → off + 4 * n ≤ dstLen →
      Good B (loop8888 srcLen dstLen n off) := by
  intro n
  induction n with
  | zero => intro off _ _; unfold loop8888; exact good_ok _ _
  | succ n ih =>
    intro off h1 h2
    unfold loop8888
    rw [if_pos (by omega)]
    exact ih (off + 4) (by omega) (by omega)

theorem ceil4 (w : Nat) : w ≤ 4 * ((w + 3) / 4) := by omega

/-! ### the block decoders: every slice and index stays in range once the decoder's own two
checks (`data.len() ≥ blocks·bs`, `image.len() ≥ w·h`) have passed -/

theorem copyRows_ok (w imgLen x cw h : Nat) (hx : x + cw ≤ w) (hcw : cw ≤ 4) (himg : w * h ≤ imgLen) :
    ∀ (r y bo : Nat), y + r ≤ h → bo + 4 * r ≤ 16 → copyRows w imgLen x cw r y bo = Res.ok () := by
  intro r
  induction r with
  | zero => intro y bo _ _; unfold copyRows; rfl
  | succ r ih =>
    intro y bo hy hbo
    unfold copyRows
    have h1 : (y + 1) * w ≤ h * w := Nat.mul_le_mul_right w (by omega)
    rw [Nat.succ_mul] at h1
    have h2 : h * w = w * h := Nat.mul_comm h w
    rw [if_pos ⟨by omega, by omega⟩]
    exact ih (y + 1) (bo + 4) (by omega) (by omega)

theorem copyWidth_ok (bx w : Nat) (hbx : 4 * bx < w) :
    ∃ cw, copyWidth bx w = Res.ok cw ∧ 4 * bx + cw ≤ w ∧ cw ≤ 4 := by
  unfold copyWidth
  by_cases h1 : 4 * (bx + 1) > w
  · rw [if_pos h1]; unfold subC; rw [if_pos (by omega)]
    exact ⟨_, rfl, by omega, by omega⟩
  · rw [if_neg h1]; exact ⟨4, rfl, by omega, by omega⟩

theorem copyHeight_ok (byy h : Nat) (hby : 4 * byy < h) :
    ∃ ch, copyHeight byy h = Res.ok ch ∧ byy * 4 + ch ≤ h ∧ ch ≤ 4 := by
  unfold copyHeight
  by_cases h1 : 4 * (byy + 1) > h
  · rw [if_pos h1]; unfold subC; rw [if_pos (by omega)]
    exact ⟨_, rfl, by omega, by omega⟩
  · rw [if_neg h1]; exact ⟨4, rfl, by omega, by omega⟩

theorem copyBlock_ok (bx byy w h imgLen : Nat) (hbx : 4 * bx < w) (hby : 4 * byy < h)
    (himg : w * h ≤ imgLen) : copyBlock bx byy w h imgLen = Res.ok () := by
  unfold copyBlock
  obtain ⟨cw, e1, c1, c2⟩ := copyWidth_ok bx w hbx
  obtain ⟨ch, e2, d1, d2⟩ := copyHeight_ok byy h hby
  rw [e1, Res.ok_bind, e2, Res.ok_bind]
  exact copyRows_ok w imgLen (4 * bx) cw h c1 c2 himg ch (byy * 4) 0 d1 (by omega)

theorem blockRow_ok (dataLen bs w h imgLen byy : Nat) (hby : 4 * byy < h) (himg : w * h ≤ imgLen) :
    ∀ (k bx off : Nat), 4 * (bx + k) < w + 4 → off + bs * k ≤ dataLen →
      blockRow dataLen bs w h imgLen byy k bx off = Res.ok (off + bs * k) := by
  intro k
  induction k with
  | zero => intro bx off _ _; unfold blockRow; simp
  | succ k ih =>
    intro bx off hb ho
    unfold blockRow
    rw [Nat.mul_succ] at ho
    rw [if_pos (by omega)]
    rw [copyBlock_ok bx byy w h imgLen (by omega) hby himg]
    simp only [Res.ok]
    rw [ih (bx + 1) (off + bs) (by omega) (by omega)]
    rw [Nat.mul_succ]
    congr 1; omega

theorem blockRows_ok (dataLen bs w h imgLen nbx : Nat) (hnbx : 4 * nbx < w + 4) (himg : w * h ≤ imgLen) :
    ∀ (j byy off : Nat), 4 * (byy + j) < h + 4 → off + (bs * nbx) * j ≤ dataLen →
      blockRows dataLen bs w h imgLen nbx j byy off = Res.ok () := by
  intro j
  induction j with
  | zero => intro byy off _ _; unfold blockRows; rfl
  | succ j ih =>
    intro byy off hb ho
    unfold blockRows
    rw [Nat.mul_succ] at ho
    rw [blockRow_ok dataLen bs w h imgLen byy (by omega) himg nbx 0 off (by omega) (by omega)]
    simp only [Res.ok]
    exact ih (byy + 1) (off + bs * nbx) (by omega) (by omega)

theorem bcDecode_good {B : Nat} (dataLen w h imgLen bs : Nat) (hw : w ≤ 65535) (hh : h ≤ 65535 * 65535)
    (hbs : bs ≤ 16) : Good B (bcDecode dataLen w h imgLen bs) := by
  unfold bcDecode
  have a1 : (w + 3) / 4 ≤ 16384 := by omega
  have a2 : (h + 3) / 4 ≤ 1073709057 := by omega
  have a3 : (w + 3) / 4 * ((h + 3) / 4) ≤ 16384 * 1073709057 := Nat.mul_le_mul a1 a2
  apply Good.bind (good_mulC (by unfold USIZEMAX U64MAX; omega)); intro t ht
  obtain ⟨ht1, _⟩ := mulC_ok ht
  have a4 : t * bs ≤ (16384 * 1073709057) * 16 := by rw [ht1]; exact Nat.mul_le_mul a3 hbs
  apply Good.bind (good_mulC (by unfold USIZEMAX U64MAX; omega)); intro need hn
  obtain ⟨hn1, _⟩ := mulC_ok hn
  split
  · exact good_fail _
  · next hd =>
    have a5 : w * h ≤ 65535 * (65535 * 65535) := Nat.mul_le_mul hw hh
    apply Good.bind (good_mulC (by unfold USIZEMAX U64MAX; omega)); intro px hp
    obtain ⟨hp1, _⟩ := mulC_ok hp
    split
    · exact good_fail _
    · next hi =>
      have e : bs * ((w + 3) / 4) * ((h + 3) / 4) = (w + 3) / 4 * ((h + 3) / 4) * bs := by
        rw [Nat.mul_comm bs, Nat.mul_assoc, Nat.mul_comm bs, ← Nat.mul_assoc]
      rw [hn1, ht1] at hd
      rw [hp1] at hi
      rw [blockRows_ok dataLen bs w h imgLen ((w + 3) / 4) (by omega) (by omega) ((h + 3) / 4) 0 0
        (by omega) (by rw [e]; omega)]
      exact good_ok _ _

theorem texDecode_good {B srcLen w hgt bs : Nat} (hB : 8 * srcLen ≤ B) (hbs : 8 ≤ bs) (hbs2 : bs ≤ 16)
    (hw : w ≤ 65535) (hh : hgt ≤ 65535 * 65535) :
    Good B (texDecode srcLen w hgt bs) := by
  unfold texDecode
  apply Good.bind (good_mulQ _ _ _ _); intro blocks hb
  obtain ⟨hb1, _⟩ := mulQ_ok hb
  apply Good.bind (good_mulQ _ _ _ _); intro need hn
  obtain ⟨hn1, _⟩ := mulQ_ok hn
  apply Good.bind (good_guard _ _); intro _ hg
  have hle : need ≤ srcLen := of_decide_eq_true (guard_ok hg)
  apply Good.bind (good_mulQ _ _ _ _); intro n hnn
  obtain ⟨hn2, _⟩ := mulQ_ok hnn
  -- w·hgt ≤ 16·blocks, blocks·8 ≤ need ≤ srcLen
  have h1 : w * hgt ≤ (4 * ((w + 3) / 4)) * (4 * ((hgt + 3) / 4)) := Nat.mul_le_mul (ceil4 w) (ceil4 hgt)
  have h2 : (4 * ((w + 3) / 4)) * (4 * ((hgt + 3) / 4)) = 16 * blocks := by
    rw [hb1]; rw [Nat.mul_mul_mul_comm]
  have h3 : blocks * 8 ≤ blocks * bs := Nat.mul_le_mul_left _ hbs
  have h4 : n * 4 ≤ 8 * srcLen := by omega
  have h6 : w * hgt ≤ 65535 * (65535 * 65535) := Nat.mul_le_mul hw hh
  have h5 : n * 4 ≤ ISIZEMAX := by unfold ISIZEMAX; omega
  apply Good.bind' (good_vecAlloc h5 (by omega)); intro _
  apply Good.bind' (bcDecode_good srcLen w hgt n bs hw hh hbs2); intro _
  exact good_vecAlloc h5 (by omega)

theorem texBody_good {B srcLen : Nat} (h : TexHeader) (hB : 8 * srcLen + 8 ≤ B)
    (hw : h.width ≤ 65535) (hh : h.height ≤ 65535) (hd : h.depth ≤ 65535) :
    Good B (texBody srcLen h) := by
  have hwh : h.width * h.height ≤ 65535 * 65535 := Nat.mul_le_mul hw hh
  have hhd : h.height * h.depth ≤ 65535 * 65535 := Nat.mul_le_mul hh hd
  unfold texBody
  split
  · -- B4G4R4A4
    apply Good.bind (good_mulC (by unfold USIZEMAX U64MAX; omega)); intro pixels hp
    obtain ⟨hp1, _⟩ := mulC_ok hp
    have hpd : pixels * h.depth ≤ (65535 * 65535) * 65535 := by rw [hp1]; exact Nat.mul_le_mul hwh hd
    apply Good.bind (good_mulC (by unfold USIZEMAX U64MAX; omega)); intro t ht
    obtain ⟨ht1, _⟩ := mulC_ok ht
    apply Good.bind (good_mulC (by unfold USIZEMAX U64MAX; omega)); intro dstLen hdl
    obtain ⟨hdl1, _⟩ := mulC_ok hdl
    apply Good.bind (good_mulC (by unfold USIZEMAX U64MAX; omega)); intro t2 ht2
    obtain ⟨ht21, _⟩ := mulC_ok ht2
    apply Good.bind (good_mulC (by unfold USIZEMAX U64MAX; omega)); intro t4 ht4
    obtain ⟨ht41, _⟩ := mulC_ok ht4
    apply Good.bind (good_guard _ _); intro _ hg
    have hg' := guard_ok hg
    simp only [Bool.not_eq_true', Bool.or_eq_false_iff, decide_eq_false_iff_not, Nat.not_lt] at hg'
    obtain ⟨⟨g1, g2⟩, g3⟩ := hg'
    apply Good.bind' (good_vecAlloc (by unfold ISIZEMAX; omega) (by omega)); intro _
    exact loop4444_good B srcLen dstLen pixels 0 0 (by omega) (by omega)
  · split
    · -- B8G8R8A8
      apply Good.bind (good_mulC (by unfold USIZEMAX U64MAX; omega)); intro t ht
      obtain ⟨ht1, _⟩ := mulC_ok ht
      have hpd : t * h.depth ≤ (65535 * 65535) * 65535 := by rw [ht1]; exact Nat.mul_le_mul hwh hd
      apply Good.bind (good_mulC (by unfold USIZEMAX U64MAX; omega)); intro t' ht'
      obtain ⟨ht'1, _⟩ := mulC_ok ht'
      apply Good.bind (good_mulC (by unfold USIZEMAX U64MAX; omega)); intro dstLen hdl
      obtain ⟨hdl1, _⟩ := mulC_ok hdl
      apply Good.bind (good_guard _ _); intro _ hg
      have hg' := guard_ok hg
      simp only [Bool.not_eq_true', decide_eq_false_iff_not, Nat.not_lt] at hg'
      apply Good.bind' (good_vecAlloc (by unfold ISIZEMAX; omega) (by omega)); intro _
      exact loop8888_good B srcLen dstLen t' 0 (by omega) (by omega)
    · -- BC1 / BC3 / BC5
      apply Good.bind (good_mulC (by unfold USIZEMAX U64MAX; omega)); intro hgt hhg
      obtain ⟨hhg1, _⟩ := mulC_ok hhg
      apply texDecode_good (by omega) (by split <;> omega) (by split <;> omega) hw (by omega)

/-- `Texture::from_existing` (repaired): no fault, allocations within the budget, for every input -/
theorem tex_good (b : Bytes) : Good (budget b.length) (tex b) := by
  unfold tex
  apply Good.bind (PGood.run texHeader_good b); intro h hh
  have hlen : 80 ≤ b.length := ConsumesN.run_length texHeader_consumes hh
  obtain ⟨hw, hht, hd⟩ := PPost.run texHeader_post hh
  apply Good.bind (good_subC (by unfold texHeaderSize; exact hlen)); intro srcLen hs
  obtain ⟨hs1, _⟩ := subC_ok hs
  unfold texHeaderSize at hs1
  apply Good.bind' (good_alloc (by unfold budget; omega)); intro _
  exact texBody_good h (by unfold budget; omega) hw hht hd

/-! ## exd: read_row -/

theorem rowHeader_good : PGood rowHeader := by
  have := u16beNat_good
  unfold rowHeader; pgood
theorem rowHeader_zero : PZero rowHeader := by
  unfold rowHeader
  apply PZero.bind PZero.u32be; intro _
  exact PZero.map PZero.u16be

theorem readColumn_good (B : Nat) (data : Bytes) (dataOffset rowOffset pos : Nat) (c : Column) :
    Good B (readColumn data dataOffset rowOffset pos c) := by
  unfold readColumn
  split
  · apply Good.bind' (PGood.runAt_zero u32beNat_good (PZero.map PZero.u32be) data pos B)
    intro ⟨so, _⟩
    apply Good.bind' (good_addQ _ _ _ _); intro a
    apply Good.bind' (good_addQ _ _ _ _); intro p
    exact good_guard _ _
  · split
    · exact good_ok _ _
    · apply Good.bind' (PGood.runAt_zero (PGood.bytes _) (PZero.bytes _) data pos B)
      intro _; exact good_pure _ _

theorem readSubrowCols_good (B : Nat) (data : Bytes) (dataOffset rowOffset : Nat) :
    ∀ cs : List Column, Good B (readSubrowCols data dataOffset rowOffset cs) := by
  intro cs
  induction cs with
  | nil => unfold readSubrowCols; exact good_ok _ _
  | cons c cs ih =>
    unfold readSubrowCols
    apply Good.bind' (good_addQ _ _ _ _); intro pos
    apply Good.bind' (readColumn_good B data dataOffset rowOffset pos c); intro _
    exact ih

theorem readSubrow_good {B : Nat} (hB : 16777216 ≤ B) (exh : Exh) (hc : exh.columns.length ≤ 65535)
    (data : Bytes) (rowOffset : Nat) : Good B (readSubrow exh data rowOffset) := by
  unfold readSubrow
  apply Good.bind' (good_vecAlloc (by unfold ISIZEMAX; omega) (by omega)); intro _
  exact readSubrowCols_good B data _ rowOffset _

theorem readSubrows_good {B : Nat} (hB : 16777216 ≤ B) (exh : Exh) (hc : exh.columns.length ≤ 65535)
    (data : Bytes) (headerOffset : Nat) :
    ∀ n i : Nat, Good B (readSubrows exh data headerOffset n i) := by
  intro n
  induction n with
  | zero => intro i; unfold readSubrows; exact good_ok _ _
  | succ n ih =>
    intro i
    unfold readSubrows
    apply Good.bind' (good_addQ _ _ _ _); intro so
    apply Good.bind' (readSubrow_good hB exh hc data so); intro _
    exact ih (i + 1)

theorem readRow_good {B : Nat} (hB : 16777216 ≤ B) (exh : Exh) (hc : exh.columns.length ≤ 65535)
    (exd : Exd) (id : Nat) : Good B (readRow exh exd id) := by
  unfold readRow
  split
  · exact good_fail _
  · next off _ =>
    apply Good.bind' (PGood.runAt_zero rowHeader_good rowHeader_zero exd.data off B)
    intro ⟨rc, _⟩
    apply Good.bind' (good_addQ _ _ _ _); intro headerOffset
    split
    · apply Good.bind' (readSubrows_good hB exh hc exd.data headerOffset rc 0); intro _
      exact good_pure _ _
    · apply Good.bind' (readSubrow_good hB exh hc exd.data headerOffset); intro _
      exact good_pure _ _

theorem u16beNat_post : PPost u16beNat (fun v => v ≤ 65535) :=
  PPost.map (fun a => by have := UInt16.toNat_lt a; omega)

theorem exhHeader_post : PPost exhHeader (fun h => h.columnCount ≤ 65535) := by
  unfold exhHeader
  refine PPost.bind_skip (fun _ => ?_)
  refine PPost.bind_skip (fun _ => ?_)
  refine PPost.bind_skip (fun _ => ?_)
  refine PPost.bind (Q1 := fun v => v ≤ 65535) u16beNat_post (fun cc hcc => ?_)
  refine PPost.bind_skip (fun _ => ?_)
  refine PPost.bind_skip (fun _ => ?_)
  refine PPost.bind_skip (fun _ => ?_)
  refine PPost.bind_skip (fun _ => ?_)
  refine PPost.bind_skip (fun _ => ?_)
  exact PPost.pure hcc

theorem exhFile_post : PPost exhFile (fun e => e.columns.length ≤ 65535) := by
  unfold exhFile
  refine PPost.bind (Q1 := fun h => h.columnCount ≤ 65535) exhHeader_post (fun h hh => ?_)
  refine PPost.bind (Q1 := fun l => l.length = h.columnCount) (PPost.count_length _ _) (fun cols hcols => ?_)
  refine PPost.bind_skip (fun _ => ?_)
  refine PPost.bind_skip (fun _ => ?_)
  exact PPost.pure (by show cols.length ≤ 65535; omega)

/-- header + page + `read_row`: good with respect to the two files together -/
theorem exdRow_good (e d : Bytes) (id : Nat) :
    Good (budget (e.length + d.length)) (exdRow e d id) := by
  unfold exdRow
  have hm1 : budget e.length ≤ budget (e.length + d.length) := by unfold budget; omega
  have hm2 : budget d.length ≤ budget (e.length + d.length) := by unfold budget; omega
  apply Good.bind ((PGood.run exhFile_good e).mono hm1); intro h hh
  have hc : h.columns.length ≤ 65535 := PPost.run exhFile_post hh
  apply Good.bind' ((PGood.run exdFile_good d).mono hm2); intro x
  exact readRow_good (budget_ge _) h hc x id

end Physis.C18Fmt
