import PhysisModel.Proofs.BinrwLemmas
import PhysisModel.Generated.BinrwAux
import PhysisModel.Model.Cmp
import PhysisModel.Model.Tera
/-!
T4 for `src/cmp.rs` (C16): `RacialScalingParameters` (14 × f32, `#[br(little)]`) against
`Cmp.readRow` (`Rd.u32s 14`).  Two steps as in `Proofs/BinrwTieIndex.lean`.
(`TerrainHeader` / `PlatePosition` of `src/tera.rs` are translated into `Generated/BinrwAux.lean`
but not tied yet.)
-/
namespace Physis.BinrwTie.Aux
open Physis Physis.Binrw Physis.Reader Physis.Generated

theorem rd_u32le : Rd.u32le = Reader.u32le := by
  funext l; rcases l with _ | ⟨a, _ | ⟨b, _ | ⟨c, _ | ⟨d, r⟩⟩⟩⟩ <;> rfl

theorem u32s_zero (b : Bytes) : Rd.u32s 0 b = some ([], b) := rfl
theorem u32s_succ (n : Nat) (b : Bytes) :
    Rd.u32s (n + 1) b = (Reader.u32le b).bind fun x => (Rd.u32s n x.2).bind fun y => some (x.1 :: y.1, y.2) := by
  rw [← rd_u32le]
  simp only [Rd.u32s]
  cases Rd.u32le b with
  | none => rfl
  | some x => simp only [Option.bind_some]; cases Rd.u32s n x.2 <;> rfl

namespace Expected
def racialScalingParameters : Layout :=
  .mk (some .little) .none (List.replicate 14 (.mk "" none .none 0 (.prim .f32) 0 0)) true
end Expected

theorem racialScalingParameters_generated :
    BinrwAux.racialScalingParameters.normalizeAt .big = Expected.racialScalingParameters.normalizeAt .big := rfl

def rowOf : List Value → Option (List UInt32)
  | [.w32 .f32 a, .w32 .f32 b, .w32 .f32 c, .w32 .f32 d, .w32 .f32 e, .w32 .f32 f, .w32 .f32 g, .w32 .f32 h,
     .w32 .f32 i, .w32 .f32 j, .w32 .f32 k, .w32 .f32 l, .w32 .f32 m, .w32 .f32 n] =>
    some [a, b, c, d, e, f, g, h, i, j, k, l, m, n]
  | _ => none

theorem readRow_eq_expected (b : Bytes) :
    Cmp.readRow b = via rowOf (Layout.read .big Expected.racialScalingParameters b) := by
  binrw_norm [Cmp.readRow, Expected.racialScalingParameters, List.replicate, u32s_succ, u32s_zero]
  rfl

/-- the ambient endianness `.big` is deliberately the wrong one: the struct's own `#[br(little)]` decides -/
theorem readRow_eq_generated (b : Bytes) :
    Cmp.readRow b = via rowOf (Layout.read .big BinrwAux.racialScalingParameters b) :=
  tie readRow_eq_expected racialScalingParameters_generated b

/-! ### `src/tera.rs`: `TerrainHeader` with `count = plate_count` positions -/

theorem rd_u16le : Rd.u16le = Reader.u16le := by
  funext l; rcases l with _ | ⟨a, _ | ⟨b, r⟩⟩ <;> rfl

namespace Expected
def platePosition : Layout :=
  .mk (some .little) .none [
    .mk "x" none .none 0 (.prim .i16) 0 0,
    .mk "y" none .none 0 (.prim .i16) 0 0] true
def terrainHeader (pos : Layout) : Layout :=
  .mk (some .little) .none [
    .mk "version" none .none 0 (.prim .u32) 0 0,
    .mk "plate_count" none .none 0 (.prim .u32) 0 0,
    .mk "plate_size" none .none 0 (.prim .u32) 0 0,
    .mk "clip_distance" none .none 0 (.prim .f32) 0 0,
    .mk "unknown" none .none 0 (.prim .f32) 0 0,
    .mk "positions" none .none 32 (.array (.field 1) (.struct pos)) 0 0] true
end Expected

theorem platePosition_generated :
    BinrwAux.platePosition.normalizeAt .little = Expected.platePosition.normalizeAt .little := rfl
theorem terrainHeader_generated :
    BinrwAux.terrainHeader.normalizeAt .big = (Expected.terrainHeader BinrwAux.platePosition).normalizeAt .big := rfl

def posOfV : Value → Option (UInt16 × UInt16)
  | .struct [.w16 .i16 x, .w16 .i16 y] => some (x, y)
  | _ => none

def terrainOf : List Value → Option (List Tera.PlateModel)
  | [.w32 .u32 _, .w32 .u32 _, .w32 .u32 plateSize, .w32 .f32 _, .w32 .f32 _, .list pos] =>
    (projAll posOfV pos).map (Tera.platesFrom plateSize 0)
  | _ => none

theorem readPositions_eq (n : Nat) (l : Bytes) :
    Tera.readPositions n l =
      (repeatN (Kind.read .little [] (.struct Expected.platePosition)) n l).bind fun vs => projAll posOfV vs.1 := by
  induction n generalizing l with
  | zero => rfl
  | succ n ih =>
    binrw_norm [Expected.platePosition, Tera.readPositions, rd_u16le]
    cases u16le l with
    | none => rfl
    | some x =>
      simp only [Option.bind_some]
      cases u16le x.2 with
      | none => rfl
      | some y =>
        simp only [Option.bind_some, ih]
        binrw_norm [Expected.platePosition]
        cases repeatN _ n y.2 with
        | none => rfl
        | some vs =>
          simp only [Option.bind_some, projAll, posOfV]

theorem fromExisting_eq_expected (buffer : Bytes) :
    Tera.fromExisting buffer =
      (via terrainOf (Layout.read .big (Expected.terrainHeader Expected.platePosition) buffer)).map (·.1) := by
  have hp := readPositions_eq
  binrw_norm [Expected.platePosition] at hp
  binrw_norm [Expected.terrainHeader, Expected.platePosition, Bool.false_and, Bool.false_eq_true, if_false,
    terrainOf]
  unfold Tera.fromExisting
  rw [rd_u32le]
  cases u32le buffer with
  | none => rfl
  | some a =>
  simp only [Option.bind_some]
  cases u32le a.2 with
  | none => rfl
  | some b =>
  simp only [Option.bind_some]
  cases u32le b.2 with
  | none => rfl
  | some c =>
  simp only [Option.bind_some]
  cases u32le c.2 with
  | none => rfl
  | some d =>
  simp only [Option.bind_some]
  cases u32le d.2 with
  | none => rfl
  | some e =>
  simp only [Option.bind_some, hp, Rd.skip]
  cases repeatN _ b.1.toNat (List.drop 32 e.2) with
  | none => rfl
  | some vs =>
    simp only [Option.bind_some]
    cases projAll posOfV vs.1 <;> rfl

/-- the positions are read with `TerrainHeader`'s endianness (little) -/
theorem terrainHeader_congr (e : Endian) {s1 s2 : Layout} (h : s1.normalizeAt .little = s2.normalizeAt .little) :
    Layout.read e (Expected.terrainHeader s1) = Layout.read e (Expected.terrainHeader s2) := by
  funext l
  simp only [Expected.terrainHeader, Layout.read, Layout.readFields, Field.read, Kind.read, Option.getD,
    Layout.read_congr .little h, Nat.zero_sub]

theorem fromExisting_eq_generated (buffer : Bytes) :
    Tera.fromExisting buffer = (via terrainOf (Layout.read .big BinrwAux.terrainHeader buffer)).map (·.1) := by
  rw [Layout.read_congr _ terrainHeader_generated, terrainHeader_congr _ platePosition_generated]
  exact fromExisting_eq_expected buffer

end Physis.BinrwTie.Aux
