import PhysisModel.Proofs.BinrwLemmas
import PhysisModel.Generated.BinrwAux
import PhysisModel.Model.Cmp
/-!
T4 for `src/cmp.rs` (C16): `RacialScalingParameters` (14 × f32, `#[br(little)]`) against
`Cmp.readRow` (`Rd.u32s 14`).  Two steps as in `Proofs/BinrwTieIndex.lean`.
(`TerrainHeader` / `PlatePosition` of `src/tera.rs` are translated into `Generated/BinrwAux.lean`
but not tied yet.)
-/
namespace Physis.BinrwTie.Aux
open Physis Physis.Binrw Physis.Reader Physis.Generated

theorem rd_u32le : Rd.u32le = Reader.u32le := by
  funext l; rcases l with _ | ⟨a, _ | ⟨b, _ | ⟨c, _ | ⟨d, r⟩⟩⟩⟩ <;> rfl

theorem u32s_zero (b : Bytes) : Rd.u32s 0 b = some ([], b) := rfl
theorem u32s_succ (n : Nat) (b : Bytes) :
    Rd.u32s (n + 1) b = (Reader.u32le b).bind fun x => (Rd.u32s n x.2).bind fun y => some (x.1 :: y.1, y.2) := by
  rw [← rd_u32le]
  simp only [Rd.u32s]
  cases Rd.u32le b with
  | none => rfl
  | some x => simp only [Option.bind_some]; cases Rd.u32s n x.2 <;> rfl

namespace Expected
def racialScalingParameters : Layout :=
  .mk (some .little) .none (List.replicate 14 (.mk "" none .none 0 (.prim .f32) 0 0)) true
end Expected

theorem racialScalingParameters_generated :
    BinrwAux.racialScalingParameters.normalizeAt .big = Expected.racialScalingParameters.normalizeAt .big := rfl

def rowOf : List Value → Option (List UInt32)
  | [.w32 .f32 a, .w32 .f32 b, .w32 .f32 c, .w32 .f32 d, .w32 .f32 e, .w32 .f32 f, .w32 .f32 g, .w32 .f32 h,
     .w32 .f32 i, .w32 .f32 j, .w32 .f32 k, .w32 .f32 l, .w32 .f32 m, .w32 .f32 n] =>
    some [a, b, c, d, e, f, g, h, i, j, k, l, m, n]
  | _ => none

theorem readRow_eq_expected (b : Bytes) :
    Cmp.readRow b = via rowOf (Layout.read .big Expected.racialScalingParameters b) := by
  binrw_norm [Cmp.readRow, Expected.racialScalingParameters, List.replicate, u32s_succ, u32s_zero]
  rfl

/-- the ambient endianness `.big` is deliberately the wrong one: the struct's own `#[br(little)]` decides -/
theorem readRow_eq_generated (b : Bytes) :
    Cmp.readRow b = via rowOf (Layout.read .big BinrwAux.racialScalingParameters b) :=
  tie readRow_eq_expected racialScalingParameters_generated b

end Physis.BinrwTie.Aux
