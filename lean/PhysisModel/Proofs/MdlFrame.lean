import PhysisModel.Proofs.MdlWriteBytes
import PhysisModel.Proofs.MdlHeaders
/-!
# C07 — frame property of `write_to_buffer` ∘ `from_existing`

After edit operations the in-memory model `m` differs from the model `m0` parsed from the canonical
file `encodeMdl a` in ways neither the geometry pass of the writer nor of the reader looks at:
the `MeshLod` rows / file-header entries of the LODs that are not in use, and the fields of a part
other than `meshIndex`, `vertices`, `indices` (`wKey`).  `write_parse_frame`: writing such an `m`
and parsing the result reports the headers of `m` and the view of `a`.

1. `writeLods_key` — the writer only reads `wKey` of a part;
2. `writePart_congr` — `writePart … l` only reads the tables of LOD `l`;
3. `writeLods_rel` — the vertex / index pass run on two header blocks of the same length leaves
   the same bytes after the block (`Rel`, `writeAtL_shift`, `foldlM_rel`);
4. `readLod_le` — the reader frame: `LeR x y` (`y` succeeds with the value of `x`), `ReadsLe P f1 f2`
   (reads at or after `P` agree), `decodeElement_le`, `readVertices_le`, `readStreams_le`,
   `readPart_le`;
5. `encode_length_last`, `used_positions` — in a canonical file the unused LODs are empty sections
   at the very end, all sections start after the runtime block;
6. `modelDataOk_frame`, `length_encModelData_lods` — the edited header block round-trips through
   the grammar and has the length of the canonical one;
7. `writeToBuffer_eq` / `writeToBuffer_inv`;
8. `write_parse_frame_core`, `write_parse_frame`.
-/
namespace Physis.Mdl
open Physis Physis.Spec.Mdl

/-- what `writePart` reads of a part -/
def wKey (p : Part) : UInt16 × List Vertex × List UInt16 := (p.meshIndex, p.vertices, p.indices)

/-! ## 1. the writer only looks at `wKey` of a part -/

/-- a part carrying nothing but its key -/
def partOfKey (k : UInt16 × List Vertex × List UInt16) : Part :=
  { meshIndex := k.1, vertices := k.2.1, indices := k.2.2, vertexStreams := [],
    vertexStreamStrides := [], materialIndex := 0, submeshes := [], shapes := [] }

theorem writePart_key (fh : FileHeader) (md : ModelData) (l : Nat) (buf : Array UInt8) (p : Part) :
    writePart fh md l buf (partOfKey (wKey p)) = writePart fh md l buf p := rfl

/-- the vertex / index pass of `writeToBuffer` -/
def writeLods (fh : FileHeader) (md : ModelData) (lods : List (List Part)) (buf : Array UInt8) :
    R (Array UInt8) :=
  (zipIdx' lods).foldlM (fun buf (l, parts) => parts.foldlM (writePart fh md l) buf) buf

theorem zipIdx'_map (f : α → β) (l : List α) :
    zipIdx' (l.map f) = (zipIdx' l).map (fun x => (x.1, f x.2)) := by
  unfold zipIdx'
  rw [List.length_map, List.zip_map_right]
  rfl

theorem writeLods_norm (fh : FileHeader) (md : ModelData) (lods : List (List Part))
    (buf : Array UInt8) :
    writeLods fh md (lods.map (fun ps => ps.map (fun p => partOfKey (wKey p)))) buf =
      writeLods fh md lods buf := by
  unfold writeLods
  rw [zipIdx'_map, List.foldlM_map]
  congr 1
  funext b x
  obtain ⟨l, parts⟩ := x
  show (parts.map (fun p => partOfKey (wKey p))).foldlM (writePart fh md l) b = _
  rw [List.foldlM_map]
  rfl

theorem writeLods_key (fh : FileHeader) (md : ModelData) (lods1 lods2 : List (List Part))
    (h : lods1.map (·.map wKey) = lods2.map (·.map wKey)) (buf : Array UInt8) :
    writeLods fh md lods1 buf = writeLods fh md lods2 buf := by
  have e : ∀ lods : List (List Part),
      lods.map (fun ps => ps.map (fun p => partOfKey (wKey p))) =
        (lods.map (·.map wKey)).map (·.map partOfKey) := by
    intro lods
    rw [List.map_map]
    apply List.map_congr_left
    intro ps _
    simp [List.map_map, Function.comp_def]
  rw [← writeLods_norm fh md lods1, ← writeLods_norm fh md lods2, e, e, h]

/-! ## 2. `writePart` only looks at the tables of its own LOD -/

theorem idx_congr {l1 l2 : List α} {i : Nat} (h : l2[i]? = l1[i]?) : idx l2 i = idx l1 i := by
  unfold idx; rw [h]

theorem idx3_congr {a1 a2 : Arr3 α} {i : Nat} (h : a2.get? i = a1.get? i) :
    idx3 a2 i = idx3 a1 i := by
  unfold idx3; rw [h]

theorem writePart_congr (fh1 fh2 : FileHeader) (md1 md2 : ModelData) (l : Nat)
    (hd : md2.decls = md1.decls) (hm : md2.meshes = md1.meshes)
    (hl : md2.lods[l]? = md1.lods[l]?)
    (hi : fh2.indexOffsets.get? l = fh1.indexOffsets.get? l) :
    writePart fh2 md2 l = writePart fh1 md1 l := by
  funext buf part
  unfold writePart
  rw [hd, hm, idx_congr hl, idx3_congr hi]

/-! ## 3. the writer frame: a different header block of the same length -/

/-- a write at or after the end of a leading block happens inside the rest -/
theorem writeAtL_shift (H t : Bytes) (pos : Nat) (data : Bytes) (hp : H.length ≤ pos) :
    writeAtL (H ++ t) pos data = H ++ writeAtL t (pos - H.length) data := by
  unfold writeAtL
  by_cases hd : data = []
  · simp [hd]
  · simp only [hd, ↓reduceIte]
    rw [List.append_assoc, List.take_append, List.take_of_length_le hp, List.append_assoc,
      List.drop_append, List.drop_eq_nil_of_le (by omega), List.nil_append, List.length_append,
      show pos - (H.length + t.length) = pos - H.length - t.length by omega,
      show pos + data.length - H.length = pos - H.length + data.length by omega]

/-- two growing vectors that differ only in a leading block of the same length -/
def Rel (H1 H2 : Bytes) (b1 b2 : Array UInt8) : Prop :=
  ∃ t, b1.toList = H1 ++ t ∧ b2.toList = H2 ++ t

theorem Rel.writeAt {H1 H2 : Bytes} (hH : H1.length = H2.length) {b1 b2 : Array UInt8}
    (hr : Rel H1 H2 b1 b2) (pos : Nat) (data : Bytes) (hp : H1.length ≤ pos) :
    Rel H1 H2 (writeAt b1 pos data) (writeAt b2 pos data) := by
  obtain ⟨t, h1, h2⟩ := hr
  refine ⟨writeAtL t (pos - H1.length) data, ?_, ?_⟩
  · rw [writeAt_toList, h1, writeAtL_shift _ _ _ _ hp]
  · rw [writeAt_toList, h2, writeAtL_shift _ _ _ _ (by omega), hH]

/-- relational `foldlM`: related states, the left step succeeds ⟹ the right step succeeds with
related results -/
theorem foldlM_rel {α β : Type} (Rl : β → β → Prop) (f g : β → α → R β) (l : List α)
    (h : ∀ x ∈ l, ∀ b1 b2 b1', Rl b1 b2 → f b1 x = .ok b1' → ∃ b2', g b2 x = .ok b2' ∧ Rl b1' b2') :
    ∀ b1 b2 b1', Rl b1 b2 → l.foldlM f b1 = .ok b1' → ∃ b2', l.foldlM g b2 = .ok b2' ∧ Rl b1' b2' := by
  induction l with
  | nil =>
    intro b1 b2 b1' hr hf
    cases hf
    exact ⟨b2, rfl, hr⟩
  | cons x xs ih =>
    intro b1 b2 b1' hr hf
    rw [List.foldlM_cons] at hf
    obtain ⟨c1, h1, h2⟩ := R.bind_eq_ok hf
    obtain ⟨c2, h3, hr'⟩ := h x (by simp) b1 b2 c1 hr h1
    obtain ⟨b2', h4, hr''⟩ := ih (fun y hy => h y (by simp [hy])) c1 c2 b1' hr' h2
    exact ⟨b2', by rw [List.foldlM_cons, h3, R.ok_bind, h4], hr''⟩

theorem foldlM_rel₁ {α β : Type} (Rl : β → β → Prop) (f : β → α → R β) (l : List α)
    (h : ∀ x ∈ l, ∀ b1 b2 b1', Rl b1 b2 → f b1 x = .ok b1' → ∃ b2', f b2 x = .ok b2' ∧ Rl b1' b2') :
    ∀ b1 b2 b1', Rl b1 b2 → l.foldlM f b1 = .ok b1' → ∃ b2', l.foldlM f b2 = .ok b2' ∧ Rl b1' b2' :=
  foldlM_rel Rl f f l h

theorem writeVertex_rel (H1 H2 : Bytes) (hH : H1.length = H2.length) (lod : MeshLod) (mesh : Mesh)
    (decl : List VertexElement) (k : Nat) (v : Vertex)
    (hP : H1.length ≤ lod.vertexDataOffset.toNat) :
    ∀ (b1 b2 b1' : Array UInt8), Rel H1 H2 b1 b2 → writeVertex lod mesh decl b1 k v = .ok b1' →
      ∃ b2', writeVertex lod mesh decl b2 k v = .ok b2' ∧ Rel H1 H2 b1' b2' := by
  unfold writeVertex
  refine foldlM_rel (Rel H1 H2) _ _ decl ?_
  intro e _ b1 b2 b1' hr hstep
  obtain ⟨off, h1, hstep⟩ := R.bind_eq_ok hstep
  obtain ⟨a, h2, hstep⟩ := R.bind_eq_ok hstep
  obtain ⟨a2, h3, hstep⟩ := R.bind_eq_ok hstep
  obtain ⟨stride, h4, hstep⟩ := R.bind_eq_ok hstep
  obtain ⟨c, h5, hstep⟩ := R.bind_eq_ok hstep
  obtain ⟨addr, h6, hstep⟩ := R.bind_eq_ok hstep
  obtain ⟨bytes, h7, hstep⟩ := R.bind_eq_ok hstep
  cases hstep
  have e1 := addU32_toNat h2
  have e2 := addU32_toNat h3
  have e3 := addU32_toNat h6
  refine ⟨writeAt b2 addr.toNat bytes, ?_, hr.writeAt hH _ _ (by omega)⟩
  simp only [h1, h2, h3, h4, h5, h6, h7, R.ok_bind, R.pure_eq]

theorem writePart_rel (H1 H2 : Bytes) (hH : H1.length = H2.length) (fh : FileHeader)
    (md : ModelData) (l : Nat) (part : Part)
    (hv : ∀ lod, md.lods[l]? = some lod → H1.length ≤ lod.vertexDataOffset.toNat)
    (hi : ∀ o, fh.indexOffsets.get? l = some o → H1.length ≤ o.toNat) :
    ∀ (b1 b2 b1' : Array UInt8), Rel H1 H2 b1 b2 → writePart fh md l b1 part = .ok b1' →
      ∃ b2', writePart fh md l b2 part = .ok b2' ∧ Rel H1 H2 b1' b2' := by
  intro b1 b2 b1' hr h
  unfold writePart at h ⊢
  obtain ⟨decl, hdecl, h⟩ := R.bind_eq_ok h
  obtain ⟨c1, hfold, h⟩ := R.bind_eq_ok h
  obtain ⟨ioff, hioff, h⟩ := R.bind_eq_ok h
  obtain ⟨mesh, hmesh, h⟩ := R.bind_eq_ok h
  obtain ⟨s2, hs2, h⟩ := R.bind_eq_ok h
  obtain ⟨ia, hia, h⟩ := R.bind_eq_ok h
  cases h
  obtain ⟨c2, hfold2, hr2⟩ := foldlM_rel₁ (Rel H1 H2) _ (zipIdx' part.vertices) (by
    intro x _ d1 d2 d1' hd hstep
    obtain ⟨k, v⟩ := x
    obtain ⟨lod, hlod, hstep⟩ := R.bind_eq_ok hstep
    obtain ⟨mesh', hmesh', hstep⟩ := R.bind_eq_ok hstep
    obtain ⟨d2', hd2', hr'⟩ := writeVertex_rel H1 H2 hH lod mesh' decl k v
      (hv lod (idx_inv hlod)) d1 d2 d1' hd hstep
    refine ⟨d2', ?_, hr'⟩
    simp only [hlod, hmesh', R.ok_bind]
    exact hd2') b1 b2 c1 hr hfold
  have e1 := addU32_toNat hia
  have e2 := hi ioff (idx3_inv hioff)
  refine ⟨writeAt c2 ia.toNat (part.indices.flatMap putU16le), ?_, hr2.writeAt hH _ _ (by omega)⟩
  rw [hdecl, R.ok_bind, hfold2, R.ok_bind, hioff, R.ok_bind, hmesh, R.ok_bind, hs2, R.ok_bind, hia,
    R.ok_bind]
  rfl

theorem mem_zipIdx'_lt {l : List α} {x : Nat × α} (h : x ∈ zipIdx' l) : x.1 < l.length := by
  obtain ⟨n, hn⟩ := List.mem_iff_getElem?.mp h
  obtain ⟨h1, h2⟩ := zipIdx'_getElem? hn
  rw [h1]
  exact lt_of_getElem? h2

/-- the whole vertex / index pass, run with two header blocks of the same length and two sets of
tables that agree on the LODs in use -/
theorem writeLods_rel (H1 H2 : Bytes) (hH : H1.length = H2.length) (fh1 fh2 : FileHeader)
    (md1 md2 : ModelData) (lods : List (List Part))
    (hd : md2.decls = md1.decls) (hm : md2.meshes = md1.meshes)
    (hl : ∀ l, l < lods.length → md2.lods[l]? = md1.lods[l]?)
    (hio : ∀ l, l < lods.length → fh2.indexOffsets.get? l = fh1.indexOffsets.get? l)
    (hv : ∀ l lod, l < lods.length → md1.lods[l]? = some lod →
      H1.length ≤ lod.vertexDataOffset.toNat)
    (hi : ∀ l o, l < lods.length → fh1.indexOffsets.get? l = some o → H1.length ≤ o.toNat) :
    ∀ (b1 b2 b1' : Array UInt8), Rel H1 H2 b1 b2 → writeLods fh1 md1 lods b1 = .ok b1' →
      ∃ b2', writeLods fh2 md2 lods b2 = .ok b2' ∧ Rel H1 H2 b1' b2' := by
  unfold writeLods
  refine foldlM_rel (Rel H1 H2) _ _ (zipIdx' lods) ?_
  intro x hx b1 b2 b1' hr hstep
  have hlt := mem_zipIdx'_lt hx
  obtain ⟨l, parts⟩ := x
  simp only at hlt hstep ⊢
  rw [writePart_congr fh1 fh2 md1 md2 l hd hm (hl l hlt) (hio l hlt)]
  refine foldlM_rel (Rel H1 H2) _ _ parts ?_ b1 b2 b1' hr hstep
  intro part _ c1 c2 c1' hc hs
  exact writePart_rel H1 H2 hH fh1 md1 l part (fun lod h => hv l lod hlt h)
    (fun o h => hi l o hlt h) c1 c2 c1' hc hs

/-! ## 4. the reader frame -/

/-- `y` succeeds with the same value whenever `x` succeeds -/
def LeR (x y : R α) : Prop := ∀ a, x = .ok a → y = .ok a

theorem LeR.refl (x : R α) : LeR x x := fun _ h => h

theorem LeR.bind {x y : R α} {f g : α → R β} (hxy : LeR x y)
    (hfg : ∀ a, x = .ok a → LeR (f a) (g a)) : LeR (x >>= f) (y >>= g) := by
  intro b hb
  obtain ⟨a, ha, hfa⟩ := R.bind_eq_ok hb
  rw [hxy a ha, R.ok_bind]
  exact hfg a ha b hfa

theorem LeR.ite (c : Prop) [Decidable c] {a a' b b' : R α} (h1 : c → LeR a a')
    (h2 : ¬ c → LeR b b') : LeR (if c then a else b) (if c then a' else b') := by
  by_cases hc : c
  · rw [if_pos hc, if_pos hc]; exact h1 hc
  · rw [if_neg hc, if_neg hc]; exact h2 hc

theorem LeR.mapM {f g : α → R β} (l : List α) (h : ∀ x ∈ l, LeR (f x) (g x)) :
    LeR (l.mapM f) (l.mapM g) := by
  induction l with
  | nil => exact LeR.refl _
  | cons x xs ih =>
    rw [List.mapM_cons, List.mapM_cons]
    refine LeR.bind (h x (by simp)) (fun a _ => ?_)
    exact LeR.bind (ih (fun y hy => h y (by simp [hy]))) (fun _ _ => LeR.refl _)

theorem LeR.foldlM {f g : β → α → R β} (l : List α) (h : ∀ x ∈ l, ∀ b, LeR (f b x) (g b x)) :
    ∀ b, LeR (l.foldlM f b) (l.foldlM g b) := by
  induction l with
  | nil => intro b; exact LeR.refl _
  | cons x xs ih =>
    intro b
    rw [List.foldlM_cons, List.foldlM_cons]
    exact LeR.bind (h x (by simp) b) (fun c _ => ih (fun y hy => h y (by simp [hy])) c)

/-- every read of `f1` at or after `P` that succeeds gives the same bytes in `f2` -/
def ReadsLe (P : Nat) (f1 f2 : Array UInt8) : Prop :=
  ∀ off n b, P ≤ off → readAt f1 off n = some b → readAt f2 off n = some b

theorem readAt_toArray (l : Bytes) (off n : Nat) :
    readAt l.toArray off n =
      if n = 0 then some [] else if off + n ≤ l.length then some ((l.drop off).take n) else none := by
  unfold readAt
  by_cases hn : n = 0
  · simp [hn]
  · simp only [hn, ↓reduceIte, List.size_toArray]
    by_cases hs : off + n ≤ l.length
    · simp only [hs, ↓reduceIte]
      rw [Array.toList_extract, List.extract_eq_take_drop]
      simp
    · simp only [hs, ↓reduceIte]

/-- same-length leading blocks, and the rest of the second file extends the rest of the first -/
theorem readsLe_append (H1 H2 X Y : Bytes) (hH : H1.length = H2.length) :
    ReadsLe H1.length (H1 ++ X).toArray (H2 ++ (X ++ Y)).toArray := by
  intro off n b hoff h
  rw [readAt_toArray] at h ⊢
  by_cases hn : n = 0
  · simpa [hn] using h
  · simp only [hn, ↓reduceIte] at h ⊢
    by_cases hs : off + n ≤ (H1 ++ X).length
    · rw [if_pos hs] at h
      have hs' := hs
      simp only [List.length_append] at hs'
      have hs2 : off + n ≤ (H2 ++ (X ++ Y)).length := by
        simp only [List.length_append]; omega
      rw [if_pos hs2, ← h]
      congr 1
      rw [List.drop_append, List.drop_eq_nil_of_le (by omega), List.nil_append,
        List.drop_append (l₁ := H1), List.drop_eq_nil_of_le hoff, List.nil_append,
        List.drop_append_of_le_length (by omega), ← hH,
        List.take_append_of_le_length (by simp; omega)]
    · rw [if_neg hs] at h; cases h

theorem readOrPanic_le {f1 f2 : Array UInt8} {off : Nat}
    (h : ∀ n b, readAt f1 off n = some b → readAt f2 off n = some b) (n : Nat) :
    LeR (readOrPanic f1 off n) (readOrPanic f2 off n) := by
  intro b hb
  unfold readOrPanic at hb ⊢
  cases h1 : readAt f1 off n with
  | none => rw [h1] at hb; cases hb
  | some x => rw [h1] at hb; rw [h _ _ h1]; exact hb

theorem decodeElement_le {f1 f2 : Array UInt8} {off : Nat}
    (h : ∀ n b, readAt f1 off n = some b → readAt f2 off n = some b) (u t : UInt8) (v : Vertex) :
    LeR (decodeElement f1 off u t v) (decodeElement f2 off u t v) := by
  have r1 : LeR (readSingle4 f1 off) (readSingle4 f2 off) :=
    LeR.bind (readOrPanic_le h 16) (fun _ _ => LeR.refl _)
  have r2 : LeR (readSingle3 f1 off) (readSingle3 f2 off) :=
    LeR.bind (readOrPanic_le h 12) (fun _ _ => LeR.refl _)
  have r3 : LeR (readHalf4 f1 off) (readHalf4 f2 off) :=
    LeR.bind (readOrPanic_le h 8) (fun _ _ => LeR.refl _)
  have r4 : LeR (readHalf2 f1 off) (readHalf2 f2 off) :=
    LeR.bind (readOrPanic_le h 4) (fun _ _ => LeR.refl _)
  have r5 : LeR (readByteFloat4 f1 off) (readByteFloat4 f2 off) :=
    LeR.bind (readOrPanic_le h 4) (fun _ _ => LeR.refl _)
  have r6 : LeR (readByte4 f1 off) (readByte4 f2 off) := readOrPanic_le h 4
  have r7 : LeR (readUShort4 f1 off) (readUShort4 f2 off) :=
    LeR.bind (readOrPanic_le h 8) (fun _ _ => LeR.refl _)
  have r8 : LeR (readTangent f1 off) (readTangent f2 off) :=
    LeR.bind (readOrPanic_le h 4) (fun _ _ => LeR.refl _)
  unfold decodeElement
  repeat' (refine LeR.ite _ (fun _ => ?_) (fun _ => ?_))
  all_goals first
    | exact LeR.refl _
    | exact LeR.bind r1 (fun _ _ => LeR.refl _)
    | exact LeR.bind r2 (fun _ _ => LeR.refl _)
    | exact LeR.bind r3 (fun _ _ => LeR.refl _)
    | exact LeR.bind r4 (fun _ _ => LeR.refl _)
    | exact LeR.bind r5 (fun _ _ => LeR.refl _)
    | exact LeR.bind r6 (fun _ _ => LeR.refl _)
    | exact LeR.bind r7 (fun _ _ => LeR.refl _)
    | exact LeR.bind r8 (fun _ _ => LeR.refl _)

theorem elementAddress_ge {lod : MeshLod} {mesh : Mesh} {e : VertexElement} {k : UInt16}
    {a : UInt32} (h : elementAddress lod mesh e k = .ok a) :
    lod.vertexDataOffset.toNat ≤ a.toNat := by
  unfold elementAddress at h
  obtain ⟨off, _, h⟩ := R.bind_eq_ok h
  obtain ⟨x1, h1, h⟩ := R.bind_eq_ok h
  obtain ⟨x2, h2, h⟩ := R.bind_eq_ok h
  obtain ⟨st, _, h⟩ := R.bind_eq_ok h
  obtain ⟨c, _, h⟩ := R.bind_eq_ok h
  have e1 := addU32_toNat h1
  have e2 := addU32_toNat h2
  have e3 := addU32_toNat h
  omega

theorem readVertices_le {P : Nat} {f1 f2 : Array UInt8} (hr : ReadsLe P f1 f2) (lod : MeshLod)
    (mesh : Mesh) (decl : List VertexElement) (hP : P ≤ lod.vertexDataOffset.toNat) :
    LeR (readVertices f1 lod mesh decl) (readVertices f2 lod mesh decl) := by
  unfold readVertices
  refine LeR.mapM _ (fun k _ => ?_)
  unfold readVertex
  refine LeR.foldlM _ (fun e _ v => ?_) _
  refine LeR.bind (LeR.refl _) (fun addr ha => ?_)
  have := elementAddress_ge ha
  exact decodeElement_le (fun n b => hr addr.toNat n b (by omega)) _ _ _

theorem readStreams_le {P : Nat} {f1 f2 : Array UInt8} (hr : ReadsLe P f1 f2) (lod : MeshLod)
    (mesh : Mesh) (hP : P ≤ lod.vertexDataOffset.toNat) :
    LeR (readStreams f1 lod mesh) (readStreams f2 lod mesh) := by
  unfold readStreams
  refine LeR.foldlM _ (fun s _ acc => ?_) _
  refine LeR.bind (LeR.refl _) (fun stride _ => ?_)
  refine LeR.bind (LeR.mapM _ (fun z _ => ?_)) (fun _ _ => LeR.refl _)
  refine LeR.bind (LeR.refl _) (fun off _ => ?_)
  refine LeR.bind (LeR.refl _) (fun a ha => ?_)
  refine LeR.bind (LeR.refl _) (fun b _ => ?_)
  refine LeR.bind (LeR.refl _) (fun c hc => ?_)
  have e1 := addU32_toNat ha
  have e2 := addU32_toNat hc
  intro d hd
  cases h1 : readAt f1 c.toNat stride.toNat with
  | none => rw [h1] at hd; cases hd
  | some x => rw [h1] at hd; rw [hr _ _ _ (by omega) h1]; exact hd

theorem readSubmeshes_lods (md : ModelData) (L : List MeshLod) (mesh : Mesh) :
    readSubmeshes { md with lods := L } mesh = readSubmeshes md mesh := rfl

theorem readShapes_lods (md : ModelData) (L : List MeshLod) (i : Nat) (mesh : Mesh)
    (vs : List Vertex) (ix : List UInt16) :
    readShapes { md with lods := L } i mesh vs ix = readShapes md i mesh vs ix := rfl

theorem readPart_le {P : Nat} {f1 f2 : Array UInt8} (hr : ReadsLe P f1 f2) (fh1 fh2 : FileHeader)
    (md : ModelData) (L : List MeshLod) (i : Nat) (lod : MeshLod) (j : Nat)
    (hi : fh2.indexOffsets.get? i = fh1.indexOffsets.get? i)
    (hP : P ≤ lod.vertexDataOffset.toNat)
    (hio : ∀ o, fh1.indexOffsets.get? i = some o → P ≤ o.toNat) :
    LeR (readPart f1 fh1 md i lod j) (readPart f2 fh2 { md with lods := L } i lod j) := by
  unfold readPart
  rw [idx3_congr hi]
  simp only [readSubmeshes_lods, readShapes_lods]
  refine LeR.bind (LeR.refl _) (fun decl _ => ?_)
  refine LeR.bind (LeR.refl _) (fun mesh _ => ?_)
  refine LeR.bind (readVertices_le hr lod mesh decl hP) (fun vertices _ => ?_)
  refine LeR.bind (LeR.refl _) (fun ioff hioff => ?_)
  have e2 := hio ioff (idx3_inv hioff)
  have hrd : ∀ b, readAt f1 (ioff.toNat + mesh.startIndex.toNat * 2) (2 * mesh.indexCount.toNat) = some b →
      readAt f2 (ioff.toNat + mesh.startIndex.toNat * 2) (2 * mesh.indexCount.toNat) = some b :=
    fun b => hr _ _ b (by omega)
  generalize readAt f1 (ioff.toNat + mesh.startIndex.toNat * 2) (2 * mesh.indexCount.toNat) = o1 at hrd ⊢
  generalize readAt f2 (ioff.toNat + mesh.startIndex.toNat * 2) (2 * mesh.indexCount.toNat) = o2 at hrd ⊢
  cases o1 with
  | none => intro p hp; cases hp
  | some b =>
    rw [hrd b rfl]
    dsimp only
    refine LeR.bind (LeR.refl _) (fun indices _ => ?_)
    refine LeR.bind (LeR.refl _) (fun submeshes _ => ?_)
    refine LeR.bind (LeR.refl _) (fun shapes _ => ?_)
    exact LeR.bind (readStreams_le hr lod mesh hP) (fun _ _ => LeR.refl _)

theorem readLod_le {P : Nat} {f1 f2 : Array UInt8} (hr : ReadsLe P f1 f2) (fh1 fh2 : FileHeader)
    (md : ModelData) (L : List MeshLod) (i : Nat)
    (hl : L[i]? = md.lods[i]?)
    (hi : fh2.indexOffsets.get? i = fh1.indexOffsets.get? i)
    (hv : ∀ lod, md.lods[i]? = some lod → P ≤ lod.vertexDataOffset.toNat)
    (hio : ∀ o, fh1.indexOffsets.get? i = some o → P ≤ o.toNat) :
    LeR (readLod f1 fh1 md i) (readLod f2 fh2 { md with lods := L } i) := by
  unfold readLod
  show LeR (idx md.lods i >>= _) (idx L i >>= _)
  rw [idx_congr hl]
  refine LeR.bind (LeR.refl _) (fun lod hlod => ?_)
  refine LeR.bind (LeR.refl _) (fun hi' _ => ?_)
  exact LeR.mapM _ (fun d _ => readPart_le hr fh1 fh2 md L i lod _ hi (hv lod (idx_inv hlod)) hio)

/-! ## 5. layout facts about the canonical file -/

theorem sum_map_zero (f : α → Nat) (l : List α) (h : ∀ x ∈ l, f x = 0) : (l.map f).sum = 0 := by
  induction l with
  | nil => rfl
  | cons x xs ih =>
    rw [List.map_cons, List.sum_cons, h x (by simp), ih (fun y hy => h y (by simp [hy]))]

theorem sum_eq_psum (f : α → Nat) (l : List α) (n : Nat) (h : ∀ x ∈ l.drop n, f x = 0) :
    (l.map f).sum = psum f l n := by
  conv => lhs; rw [← List.take_append_drop n l]
  rw [List.map_append, List.sum_append, sum_map_zero f _ h]
  rfl

theorem psum_succ (f : α → Nat) (l : List α) : ∀ (i : Nat) (x : α), l[i]? = some x →
    psum f l (i + 1) = psum f l i + f x := by
  induction l with
  | nil => intro i x h; simp at h
  | cons y ys ih =>
    intro i x h
    cases i with
    | zero => simp at h; subst h; simp
    | succ i =>
      simp only [List.getElem?_cons_succ] at h
      rw [psum_cons_succ, psum_cons_succ, ih i x h]; omega

theorem le_foldl_max (l : List Nat) : ∀ n, n ≤ l.foldl max n ∧ ∀ x ∈ l, x ≤ l.foldl max n := by
  induction l with
  | nil => intro n; exact ⟨Nat.le_refl _, fun x hx => by simp at hx⟩
  | cons y ys ih =>
    intro n
    rw [List.foldl_cons]
    obtain ⟨h1, h2⟩ := ih (max n y)
    refine ⟨by omega, fun x hx => ?_⟩
    rcases List.mem_cons.mp hx with rfl | hx
    · omega
    · exact h2 x hx

theorem header_indexSize (m : AbstractModel) (h : WF m = true) (i : Nat) (l : ALod)
    (hl : m.lods[i]? = some l) :
    (fileHeader m).indexBufferSize.get? i = some (lodIndexSize l).toUInt32 := by
  have hi : i < 3 := by have := lt_of_getElem? hl; have := (wf_facts m h).lods3; omega
  show (Arr3.ofList 0 ((modelData m).lods.map (·.indexBufferSize))).get? i = _
  rw [Arr3.get?_ofList _ _ i (by rw [List.length_map, lods_rows_length m h]; exact hi) hi,
    List.getElem?_map, lods_row m i l hl]
  rfl

theorem lodSize_of_nil (l : ALod) (h : l.meshes = []) : lodSize l = 0 := by
  simp [lodSize, lodVertexSize, lodIndexSize, h]

theorem used_lod (a : AbstractModel) (h : WF a = true) (i : Nat) (hi : i < a.lodCount.toNat) :
    ∃ al, a.lods[i]? = some al := by
  have W := wf_facts a h
  exact ⟨a.lods[i]'(by have := W.lc3; have := W.lods3; omega), List.getElem?_eq_getElem _⟩

/-- in a canonical file the index section of the last LOD in use ends the file -/
theorem encode_length_last (a : AbstractModel) (h : WF a = true) (hcan : Canonical a = true) :
    ∃ o s, (fileHeader a).indexOffsets.get? (a.lodCount.toNat - 1) = some o ∧
      (fileHeader a).indexBufferSize.get? (a.lodCount.toNat - 1) = some s ∧
      o.toNat + s.toNat = (encodeMdl a).length := by
  have W := wf_facts a h
  obtain ⟨al, hal⟩ := used_lod a h (a.lodCount.toNat - 1) (by have := W.lc1; omega)
  have htail : ∀ x ∈ a.lods.drop a.lodCount.toNat, lodSize x = 0 := by
    intro x hx
    simp only [Canonical, Bool.and_eq_true, List.all_eq_true, and_assoc] at hcan
    obtain ⟨_, _, _, hdrop, _⟩ := hcan
    exact lodSize_of_nil x (by simpa using hdrop x hx)
  have hsum := sum_eq_psum lodSize a.lods a.lodCount.toNat htail
  have hps := psum_succ lodSize a.lods _ al hal
  rw [show a.lodCount.toNat - 1 + 1 = a.lodCount.toNat by have := W.lc1; omega] at hps
  have hlen := length_encodeMdl a
  have hfl := W.fileLen
  have hls : lodSize al = lodVertexSize al + lodIndexSize al := rfl
  refine ⟨_, _, header_indexOffset a h _ al hal, header_indexSize a h _ al hal, ?_⟩
  rw [u32_add_toNat _ _ (encodeMdl a).length (by omega) hfl]
  omega

/-- the sections of every LOD start at or after the end of the runtime block -/
theorem used_positions (a : AbstractModel) (h : WF a = true) (i : Nat)
    (hi : i < a.lodCount.toNat) :
    (∀ lod, (modelData a).lods[i]? = some lod → dataStart a ≤ lod.vertexDataOffset.toNat) ∧
    (∀ o, (fileHeader a).indexOffsets.get? i = some o → dataStart a ≤ o.toNat) := by
  obtain ⟨al, hal⟩ := used_lod a h i hi
  have hle := psum_add_le lodSize a.lods i al hal
  have hlen := length_encodeMdl a
  have hfl := (wf_facts a h).fileLen
  have hls : lodSize al = lodVertexSize al + lodIndexSize al := rfl
  refine ⟨fun lod hlod => ?_, fun o ho => ?_⟩
  · rw [lods_row a i al hal] at hlod
    cases hlod
    show dataStart a ≤ (dataStart a + psum lodSize a.lods i).toUInt32.toNat
    rw [toUInt32_toNat _ (by omega)]
    omega
  · rw [header_indexOffset a h i al hal] at ho
    cases ho
    rw [toUInt32_toNat _ (by omega)]
    omega

theorem ends_mem (x y z w : Arr3 UInt32) (i : Nat) (o s : UInt32) (ho : y.get? i = some o)
    (hs : w.get? i = some s) :
    o.toNat + s.toNat ∈ List.zipWith (fun (o s : UInt32) => o.toNat + s.toNat)
      (x.toList ++ y.toList) (z.toList ++ w.toList) := by
  simp only [Arr3.toList, List.cons_append, List.nil_append, List.zipWith_cons_cons,
    List.zipWith_nil_left, List.mem_cons, List.not_mem_nil, or_false]
  match i, ho, hs with
  | 0, ho, hs => cases ho; cases hs; simp
  | 1, ho, hs => cases ho; cases hs; simp
  | 2, ho, hs => cases ho; cases hs; simp
  | _ + 3, ho, _ => simp [Arr3.get?] at ho

/-! ## 6. the header block of the edited model -/

theorem modelDataOk_lods (fh : FileHeader) (d : ModelData) (h : modelDataOk fh d = true) :
    d.lods.length = 3 ∧ ∀ l ∈ d.lods, l.mid.length = 28 := by
  simp only [modelDataOk, Bool.and_eq_true, beq_iff_eq, List.all_eq_true, and_assoc] at h
  obtain ⟨_, _, _, _, _, h1, h2, _⟩ := h
  exact ⟨h1, h2⟩

theorem modelDataOk_frame (fh : FileHeader) (d : ModelData) (vo io vbs ibs : Arr3 UInt32)
    (lc : UInt8)
    (L : List MeshLod) (h : modelDataOk fh d = true) (hl3 : L.length = 3)
    (hmid : ∀ l ∈ L, l.mid.length = 28) :
    modelDataOk { fh with vertexOffsets := vo, indexOffsets := io, vertexBufferSize := vbs,
                          indexBufferSize := ibs, lodCount := lc } { d with lods := L } = true := by
  simp only [modelDataOk, Bool.and_eq_true, and_assoc] at h ⊢
  obtain ⟨h1, h2, h3, h4, h5, _, _, h8, h9, h10, h11, h12, h13, h14, h15, h16, h17, h18, h19, h20,
    h21, h22, h23, h24⟩ := h
  refine ⟨h1, h2, h3, h4, h5, by simp [hl3], ?_, h8, h9, h10, h11, h12, h13, h14, h15, h16, h17,
    h18, h19, h20, h21, h22, h23, h24⟩
  rw [List.all_eq_true]
  intro l hl
  simp [hmid l hl]

theorem length_flatMap_encMeshLod (L : List MeshLod) (h : ∀ l ∈ L, l.mid.length = 28) :
    (L.flatMap encMeshLod).length = 60 * L.length := by
  induction L with
  | nil => rfl
  | cons x xs ih =>
    rw [List.flatMap_cons, List.length_append, ih (fun l hl => h l (by simp [hl]))]
    simp [encMeshLod, zeros, h x (by simp)]
    omega

theorem length_encModelData_lods (ver : UInt32) (d : ModelData) (L : List MeshLod)
    (h : (L.flatMap encMeshLod).length = (d.lods.flatMap encMeshLod).length) :
    (encModelData ver { d with lods := L }).length = (encModelData ver d).length := by
  simp only [encModelData, List.length_append, h]

/-! ## 7. `writeToBuffer`, forwards and backwards -/

/-- the section ends declared by a file header -/
def endsOf (fh : FileHeader) : List Nat :=
  List.zipWith (fun (o s : UInt32) => o.toNat + s.toNat)
    (fh.vertexOffsets.toList ++ fh.indexOffsets.toList)
    (fh.vertexBufferSize.toList ++ fh.indexBufferSize.toList)

theorem writeToBuffer_eq (m : MDL) (ver : UInt32) (hver : m.fileHeader.version = ver)
    (hv5 : isV5 ver = true) (hok : modelDataOk m.fileHeader m.modelData = true)
    (b : Array UInt8)
    (hb : writeLods m.fileHeader m.modelData m.lods
      (wFileHeader m.fileHeader ++ encModelData ver m.modelData).toArray = .ok b) :
    writeToBuffer m = .ok (b.toList ++ wZeros ((endsOf m.fileHeader).foldl max b.size - b.size)) := by
  have hv5' : isV5 m.fileHeader.version = true := by rw [hver]; exact hv5
  unfold writeToBuffer
  rw [hver, wModelData_eq _ _ hv5 (modelDataOk_v2 _ _ hok hv5') (modelDataOk_decls _ _ hok),
    R.ok_bind]
  unfold writeLods at hb
  dsimp only
  rw [hb, R.ok_bind]
  rfl

theorem writeToBuffer_inv (m : MDL) (ver : UInt32) (hver : m.fileHeader.version = ver)
    (hv5 : isV5 ver = true) (hok : modelDataOk m.fileHeader m.modelData = true)
    (out : Bytes) (h : writeToBuffer m = .ok out) :
    ∃ b, writeLods m.fileHeader m.modelData m.lods
        (wFileHeader m.fileHeader ++ encModelData ver m.modelData).toArray = .ok b ∧
      out = b.toList ++ wZeros ((endsOf m.fileHeader).foldl max b.size - b.size) := by
  have hv5' : isV5 m.fileHeader.version = true := by rw [hver]; exact hv5
  unfold writeToBuffer at h
  rw [hver, wModelData_eq _ _ hv5 (modelDataOk_v2 _ _ hok hv5') (modelDataOk_decls _ _ hok),
    R.ok_bind] at h
  obtain ⟨b, hb, h⟩ := R.bind_eq_ok h
  refine ⟨b, hb, ?_⟩
  rw [R.pure_eq] at h
  injection h with h
  exact h.symm

/-! ## 8. write ∘ parse modulo the frame -/

theorem mapM_le {f g : α → R β} {l : List α} {out : List β} (h : l.mapM f = .ok out)
    (hfg : ∀ x ∈ l, LeR (f x) (g x)) : l.mapM g = .ok out :=
  LeR.mapM l hfg out h

theorem write_parse_frame_core (a : AbstractModel) (h : WF a = true) (hcan : Canonical a = true)
    (v : View) (hv : view a = some v) (fh2 : FileHeader) (md2 : ModelData)
    (lods2 : List (List Part)) (bn mn : List Bytes) (vo io vbs ibs : Arr3 UInt32) (lc : UInt8)
    (L : List MeshLod)
    (hfh : fh2 = { fileHeader a with vertexOffsets := vo, indexOffsets := io,
                                     vertexBufferSize := vbs, indexBufferSize := ibs, lodCount := lc })
    (harr : ∀ i, i < a.lodCount.toNat →
      io.get? i = (fileHeader a).indexOffsets.get? i ∧
      ibs.get? i = (fileHeader a).indexBufferSize.get? i)
    (hmd : md2 = { modelData a with lods := L })
    (hl3 : L.length = 3) (hmid : ∀ l ∈ L, l.mid.length = 28)
    (hlods : ∀ i, i < a.lodCount.toNat → L[i]? = (modelData a).lods[i]?)
    (hparts : lods2.map (·.map wKey) = v.lods.map (·.map wKey)) :
    ∃ buf, writeToBuffer ⟨fh2, md2, lods2, bn, mn⟩ = .ok buf ∧
      fromExisting buf = .ok ⟨fh2, md2, v.lods, v.affectedBoneNames, v.materialNames⟩ ∧
      (∀ e ∈ endsOf fh2, e ≤ buf.length) := by
  have W := wf_facts a h
  have hv5 := canonical_v5 a hcan
  have hok := wf_modelDataOk a h
  have hw := canonical_noWeightsByte4 a hcan
  -- the number of reported LODs
  have hlen : v.lods.length = a.lodCount.toNat := by
    cases hlv : lodsView a a.lodCount.toNat 0 0 a.lods with
    | none => simp [view, hlv] at hv
    | some ls =>
      simp only [view, hlv, Option.bind_eq_bind, Option.bind_some, Option.some.injEq] at hv
      subst hv
      exact (lodsView_getElem? a a.lods a.lodCount.toNat 0 0 ls
        (by have := W.lc3; have := W.lods3; omega) (Nat.le_refl _) hlv).1
  -- what the reader does on the canonical file
  have hPE := parse_encode a h hw v hv
  unfold fromExisting at hPE
  rw [parse_fileHeader, R.ok_bind] at hPE
  dsimp only at hPE
  rw [parse_modelData a h, R.ok_bind] at hPE
  dsimp only at hPE
  rw [bone_names a h, R.ok_bind, material_names a h, R.ok_bind] at hPE
  obtain ⟨rl, hrl, hPE⟩ := R.bind_eq_ok hPE
  rw [R.pure_eq] at hPE
  injection hPE with hPE
  injection hPE with _ _ hrl' hbn' hmn'
  subst hrl'
  -- projections of the edited header block
  have hver : fh2.version = a.version := by rw [hfh]; rfl
  have hio2 : fh2.indexOffsets = io := by rw [hfh]
  have hibs2 : fh2.indexBufferSize = ibs := by rw [hfh]
  have hdecls : md2.decls = (modelData a).decls := by rw [hmd]
  have hmeshes : md2.meshes = (modelData a).meshes := by rw [hmd]
  have hL : md2.lods = L := by rw [hmd]
  have hok2 : modelDataOk fh2 md2 = true := by
    rw [hfh, hmd]; exact modelDataOk_frame _ _ _ _ _ _ _ _ hok hl3 hmid
  -- the two header blocks
  have hH1 : (wFileHeader (fileHeader a) ++ encModelData a.version (modelData a)).length =
      dataStart a := by
    rw [List.length_append, wFileHeader_eq, length_encFileHeader, dataStart, runtimeBlockSize,
      modelData, length_encModelData a _ 0]
  have hH2 : (wFileHeader fh2 ++ encModelData a.version md2).length = dataStart a := by
    rw [← hH1, List.length_append, List.length_append, wFileHeader_eq, wFileHeader_eq,
      length_encFileHeader, length_encFileHeader, hmd]
    congr 1
    apply length_encModelData_lods
    obtain ⟨h3, hm⟩ := modelDataOk_lods _ _ hok
    rw [length_flatMap_encMeshLod L hmid, length_flatMap_encMeshLod _ hm, hl3, h3]
  have hHH := hH1.trans hH2.symm
  -- the canonical write, taken apart
  obtain ⟨b1, hb1, hE⟩ := writeToBuffer_inv
    { fileHeader := fileHeader a, modelData := modelData a, lods := v.lods,
      affectedBoneNames := v.affectedBoneNames, materialNames := v.materialNames }
    a.version rfl hv5 hok _ (writeToBuffer_encode a h hcan v hv)
  dsimp only at hb1 hE
  -- the same pass on the edited header block
  obtain ⟨b2, hb2, t, ht1, ht2⟩ := writeLods_rel _ _ hHH (fileHeader a) fh2 (modelData a) md2
    v.lods hdecls hmeshes
    (fun l hl => by rw [hL]; exact hlods l (by omega))
    (fun l hl => by rw [hio2]; exact (harr l (by omega)).1)
    (fun l lod hl hlod => by rw [hH1]; exact (used_positions a h l (by omega)).1 lod hlod)
    (fun l o hl ho => by rw [hH1]; exact (used_positions a h l (by omega)).2 o ho)
    _ (wFileHeader fh2 ++ encModelData a.version md2).toArray b1 ⟨[], by simp, by simp⟩ hb1
  rw [← writeLods_key fh2 md2 lods2 v.lods hparts] at hb2
  have hWr := writeToBuffer_eq ⟨fh2, md2, lods2, bn, mn⟩ a.version hver hv5 hok2 b2 hb2
  dsimp only at hWr
  -- sizes
  have hs1 : b1.size = dataStart a + t.length := by
    rw [← Array.length_toList, ht1, List.length_append, hH1]
  have hs2 : b2.size = dataStart a + t.length := by
    rw [← Array.length_toList, ht2, List.length_append, hH2]
  obtain ⟨hmax1, hmax2⟩ := le_foldl_max (endsOf fh2) b2.size
  obtain ⟨o, s, ho, hs, hos⟩ := encode_length_last a h hcan
  have hlast : a.lodCount.toNat - 1 < a.lodCount.toNat := by have := W.lc1; omega
  have hElen : (encodeMdl a).length ≤ (endsOf fh2).foldl max b2.size := by
    rw [← hos]
    apply hmax2
    unfold endsOf
    apply ends_mem
    · rw [hio2, (harr _ hlast).1]; exact ho
    · rw [hibs2, (harr _ hlast).2]; exact hs
  generalize hk1 : (endsOf (fileHeader a)).foldl max b1.size - b1.size = k1 at hE
  generalize hk2 : (endsOf fh2).foldl max b2.size - b2.size = k2 at hWr
  have hEl : (encodeMdl a).length = dataStart a + t.length + k1 := by
    rw [hE, List.length_append, Array.length_toList, hs1]; simp [wZeros]
  have hk : k1 ≤ k2 := by omega
  refine ⟨_, hWr, ?_, ?_⟩
  · -- the reader
    have hEeq : encodeMdl a = (wFileHeader (fileHeader a) ++ encModelData a.version (modelData a)) ++
        (t ++ wZeros k1) := by rw [hE, ht1, List.append_assoc]
    have hWeq : b2.toList ++ wZeros k2 = (wFileHeader fh2 ++ encModelData a.version md2) ++
        ((t ++ wZeros k1) ++ wZeros (k2 - k1)) := by
      rw [ht2]
      simp only [List.append_assoc]
      congr 3
      simp only [wZeros, List.replicate_append_replicate]
      congr 1; omega
    have hRL : ReadsLe (dataStart a) (encodeMdl a).toArray (b2.toList ++ wZeros k2).toArray := by
      rw [hEeq, hWeq, ← hH1]
      exact readsLe_append _ _ _ _ hHH
    generalize b2.toList ++ wZeros k2 = Wb at hWeq hRL ⊢
    have hpf : parseFileHeader Wb = .ok (fh2, encModelData fh2.version md2 ++
        ((t ++ wZeros k1) ++ wZeros (k2 - k1))) := by
      rw [hWeq, wFileHeader_eq, List.append_assoc, hver]
      exact parseFileHeader_enc _ _
    have hbn2 : md2.boneNameOffsets.mapM (nameAt md2.header.strings) = .ok v.affectedBoneNames := by
      rw [hmd, ← hbn']; exact bone_names a h
    have hmn2 : md2.materialNameOffsets.mapM (nameAt md2.header.strings) = .ok v.materialNames := by
      rw [hmd, ← hmn']; exact material_names a h
    have hlods2 : (List.range md2.header.lodCount.toNat).mapM (readLod Wb.toArray fh2 md2) =
        .ok v.lods := by
      rw [hmd]
      refine mapM_le hrl (fun i hi => ?_)
      have hi' : i < a.lodCount.toNat := List.mem_range.mp hi
      exact readLod_le hRL (fileHeader a) fh2 (modelData a) L i (hlods i hi')
        (by rw [hio2]; exact (harr i hi').1) (used_positions a h i hi').1 (used_positions a h i hi').2
    unfold fromExisting
    rw [hpf, R.ok_bind]
    dsimp only
    rw [parseModelData_enc fh2 md2 hok2, R.ok_bind]
    dsimp only
    rw [hbn2, R.ok_bind, hmn2, R.ok_bind, hlods2, R.ok_bind]
    rfl
  · intro e he
    have := hmax2 e he
    rw [List.length_append, Array.length_toList]
    simp only [wZeros, List.length_replicate]
    omega

/-- **write ∘ parse modulo the frame**: an in-memory model that differs from the model parsed from
the canonical file `encodeMdl a` only in the `MeshLod` rows / file-header entries of the unused LODs
and in the fields of its parts that the writer does not read is written to a buffer that parses to
the same headers and the same view -/
theorem write_parse_frame (a : AbstractModel) (h : WF a = true) (hcan : Canonical a = true)
    (v : View) (hv : view a = some v) (m : MDL)
    (hfh : m.fileHeader = { fileHeader a with
      vertexOffsets := m.fileHeader.vertexOffsets, indexOffsets := m.fileHeader.indexOffsets,
      vertexBufferSize := m.fileHeader.vertexBufferSize, indexBufferSize := m.fileHeader.indexBufferSize,
      lodCount := m.fileHeader.lodCount })
    (harr : ∀ i, i < a.lodCount.toNat →
      m.fileHeader.vertexOffsets.get? i = (fileHeader a).vertexOffsets.get? i ∧
      m.fileHeader.indexOffsets.get? i = (fileHeader a).indexOffsets.get? i ∧
      m.fileHeader.vertexBufferSize.get? i = (fileHeader a).vertexBufferSize.get? i ∧
      m.fileHeader.indexBufferSize.get? i = (fileHeader a).indexBufferSize.get? i)
    (hmd : m.modelData = { modelData a with lods := m.modelData.lods })
    (hl3 : m.modelData.lods.length = 3) (hmid : ∀ l ∈ m.modelData.lods, l.mid.length = 28)
    (hlods : ∀ i, i < a.lodCount.toNat → m.modelData.lods[i]? = (modelData a).lods[i]?)
    (hparts : m.lods.map (·.map wKey) = v.lods.map (·.map wKey)) :
    ∃ buf m2, writeToBuffer m = .ok buf ∧ fromExisting buf = .ok m2 ∧
      m2.fileHeader = m.fileHeader ∧ m2.modelData = m.modelData ∧ m2.view = v ∧
      (∀ e ∈ List.zipWith (fun (o s : UInt32) => o.toNat + s.toNat)
          (m.fileHeader.vertexOffsets.toList ++ m.fileHeader.indexOffsets.toList)
          (m.fileHeader.vertexBufferSize.toList ++ m.fileHeader.indexBufferSize.toList),
        e ≤ buf.length) := by
  obtain ⟨buf, hw, hr, he⟩ := write_parse_frame_core a h hcan v hv m.fileHeader m.modelData m.lods
    m.affectedBoneNames m.materialNames _ _ _ _ _ _ hfh
    (fun i hi => ⟨(harr i hi).2.1, (harr i hi).2.2.2⟩) hmd hl3 hmid hlods hparts
  exact ⟨buf, _, hw, hr, rfl, rfl, rfl, he⟩

end Physis.Mdl
