import PhysisModel.Base.ReaderC16
import Std.Tactic.BVDecide
/-! Round-trip lemmas for the sequential readers of `Base/ReaderC16.lean`. -/
namespace Physis.Rd

theorem u16le_put (v : UInt16) (r : Bytes) : u16le (putU16le v ++ r) = some (v, r) := by
  simp only [putU16le, u16le, List.cons_append, List.nil_append]
  congr 2; bv_decide (timeout := 300)

theorem u32le_put (v : UInt32) (r : Bytes) : u32le (putU32le v ++ r) = some (v, r) := by
  simp only [putU32le, u32le, List.cons_append, List.nil_append]
  congr 2; bv_decide (timeout := 300)

theorem u32s_put (l : List UInt32) (r : Bytes) :
    u32s l.length (l.flatMap putU32le ++ r) = some (l, r) := by
  induction l with
  | nil => simp [u32s]
  | cons v vs ih =>
    simp only [List.length_cons, List.flatMap_cons, List.append_assoc, u32s, u32le_put, ih]

theorem u16s_put (l : List UInt16) (r : Bytes) :
    u16s l.length (l.flatMap putU16le ++ r) = some (l, r) := by
  induction l with
  | nil => simp [u16s]
  | cons v vs ih =>
    simp only [List.length_cons, List.flatMap_cons, List.append_assoc, u16s, u16le_put, ih]

theorem cstr_put (s r : Bytes) (h : ∀ c ∈ s, c ≠ 0) : cstr (s ++ 0 :: r) = some s := by
  induction s with
  | nil => simp [cstr]
  | cons a t ih =>
    have ha : a ≠ 0 := h a (by simp)
    have ht : ∀ c ∈ t, c ≠ 0 := fun c hc => h c (by simp [hc])
    simp [cstr, ha, ih ht]

theorem seekTo_append (a b : Bytes) : seekTo (a ++ b) a.length = b := by
  simp [seekTo]

end Physis.Rd
